"""C15 - XPath results do not depend on evaluation history, caching or threads."""
import itertools
import json
import sys
import threading
import time

from harness import core
from harness.core import clist, cs, cbool

EXPRS = [
    # valid
    '//span', '//div/span[2]', '//*[@n > 2]', '//span[@class="x"]', '//p//span', '/div/span[last()]',
    '//span[position() = 1]', '//span[contains(text(), "u")]', '//div', '//*', '//p', '//span[@n = 2]',
    '//div//*[@n < 4]', '//span[1]', '//*[@n = 1 + 1]', '//span[concat("a", @zz) = "a"]', '//p/span', '//*[@class]',
    '/div', '//div/p', '//span[@n != 3]', '//*[text() = "t"]', '//span[normalize-space(text()) = "u"]', '//div/*',
    # do not compile
    '//span[', '//span]', '//[', '//span["a" + 1]', '//span[1 div 0]', '//span[@n = "x',
    # fail at run time
    '//span[@n = ]', '//span[@n mod 0 = 1]', '//span[normalize-space(1) = "x"]', '//span[@n and 1]',
    '//span["a" || @zz = "a"]', '//span[text() > 1]',
    # more valid ones to reach 40
    '//span[@n > 1 and @n < 5]', '//*[@n = 5 or @n = 1]', '//p[1]/span', '//span[last()]',
    # texts that differ only in white space inside a string literal (different expressions), and only outside one (same meaning)
    '//span[@t = "a b"]', '//span[@t = "a  b"]', '//span[@t="a b"]', '//span[contains(@t, " b")]', '//span[contains(@t, "  b")]',
]
EXPRS += ['//span[contains(@t, @u)]', '//*[contains(@n, @m)]', '//span[concat(@u, "") = @t]', '//span[contains(text(), @u)]']     # arguments that depend on the context element
EXPRS += ['//span//span', '//div//div', '/div//div', '/div/span//span', '//div/span', '/div/span']     # the same name first and later in a path
WS_PAIRS = [('//span[@t = "a b"]', '//span[@t = "a  b"]'), ('//span[contains(@t, " b")]', '//span[contains(@t, "  b")]'),
            ('//span[@t = "a b"]', '//span[@t="a b"]')]
DOCS = [
    '<div id="a" n="1"><span n="2" class="x">t</span><span n="3">u</span><p n="4"><span n="5">v</span></p></div>',
    '<div n="1"><div n="2"><span n="3">t</span></div><span n="4" class="x">u</span></div>',
    '<p n="1"><span n="2">u</span><span n="3">u</span><span n="4">t</span></p>',
    '<div n="1"></div>',
    '<div n="1"><p n="2"><span n="3" class="x">t</span><span n="4">u</span></p><p n="5"><span n="6">u</span></p></div>',
    '<div n="1"><span n="2" t="a b">t</span><span n="3" t="a  b">u</span><span n="4" t="ab">v</span></div>',
    '<div n="1"><span n="2">a<span n="3">b<span n="4">c</span></span></span><div n="5"><div n="6"><span n="7">d</span></div></div></div>',
    '<div n="1" m="1"><span n="12" m="2" t="a b" u="a">xa</span><span n="3" m="4" t="zz" u="q">y</span></div>',
    '<div n="5" m="9"><span n="7" m="1" t="q" u="q">xq</span><span n="21" m="1" t="ab" u="b">a</span></div>',
]

_state = {}


def setup():
    if _state:
        return _state
    import AdvancedHTMLParser as A
    from AdvancedHTMLParser.xpath.expression import XPathExpression
    from AdvancedHTMLParser.xpath.parsing import parseXPathStrIntoOperations
    from AdvancedHTMLParser.xpath import _cache
    docs = []
    for d in DOCS:
        p = A.AdvancedHTMLParser()
        p.parseStr(d)
        docs.append(p)
    _state.update(A=A, X=XPathExpression, parse=parseXPathStrIntoOperations, cache_mod=_cache, docs=docs,
                  shipped=(_cache.MAX_CACHED_EXPRESSIONS, _cache.CLEAR_AT_ONE_TIME))
    # fresh (cache-less) results
    valid, perrs, table = [], [], []
    for e in EXPRS:
        try:
            ops = parseXPathStrIntoOperations(e)
            valid.append(True)
            perrs.append('')
        except Exception as ex:
            valid.append(False)
            perrs.append('exc:' + core.exc_name(ex))
            table.append([])
            continue
        row = []
        for p in docs:
            x = object.__new__(XPathExpression)
            x.xpathStr = e
            x.orderedOperations = parseXPathStrIntoOperations(e)
            row.append(show_eval(lambda: x.evaluate(p), p))
        table.append(row)
    _state.update(valid=valid, perrs=perrs, table=table)
    return _state


def fresh_table_json(perm):
    """(run in a fresh interpreter) compile and evaluate the texts in the order perm, cache-less; prints the table as JSON"""
    import AdvancedHTMLParser as A
    from AdvancedHTMLParser.xpath.expression import XPathExpression
    from AdvancedHTMLParser.xpath.parsing import parseXPathStrIntoOperations
    docs = []
    for d in DOCS:
        p = A.AdvancedHTMLParser()
        p.parseStr(d)
        docs.append(p)
    table = {}
    for k in perm:
        e = EXPRS[k]
        try:
            parseXPathStrIntoOperations(e)
        except Exception as ex:
            table[k] = 'exc:' + core.exc_name(ex)
            continue
        row = []
        for p in docs:
            x = object.__new__(XPathExpression)
            x.xpathStr = e
            x.orderedOperations = parseXPathStrIntoOperations(e)
            row.append(show_eval(lambda: x.evaluate(p), p))
        table[k] = row
    sys.stdout.write('@@TABLE ' + json.dumps(table) + '\n')


def fresh_table(perm):
    import os
    import subprocess
    code = 'import json, sys; from harness.props import c15; c15.fresh_table_json(json.loads(sys.argv[1]))'
    r = subprocess.run([sys.executable, '-c', code, json.dumps(perm)], stdin=subprocess.DEVNULL, capture_output=True, text=True, timeout=120,
                       env=dict(os.environ))
    for line in r.stdout.splitlines():
        if line.startswith('@@TABLE '):
            return {int(k): v for k, v in json.loads(line[8:]).items()}
    raise RuntimeError('fresh interpreter gave no table: %s' % (r.stderr[-300:],))


def ranks(p):
    out = {}
    for i, t in enumerate(p.getAllNodes()):
        out[t.uid] = i
    return out


def show_eval(thunk, p):
    try:
        r = thunk()
    except Exception as ex:
        return 'exc:' + core.exc_name(ex)
    rk = ranks(p)
    return 'ok:[%s]' % ','.join(str(rk.get(t.uid, -1)) for t in r)


def reset_cache(mx, cl):
    st = setup()
    m = st['cache_mod']
    m.MAX_CACHED_EXPRESSIONS, m.CLEAR_AT_ONE_TIME = mx, cl
    c = m.XPathExpressionCache
    c.cachedCompiledExpressions.clear()
    del c.recentCachedExpressionStrs[:]
    if c.cacheLock.locked():
        c.cacheLock.release()


def restore_bounds():
    st = setup()
    m = st['cache_mod']
    m.MAX_CACHED_EXPRESSIONS, m.CLEAR_AT_ONE_TIME = st['shipped']


class C15(core.Check):
    ID = 'C15'
    RUN_MODULE = 'Corr.Run_C15'
    RUN_FN = 'run_C15'
    CASE_TYPE = '(Z * Z * list bool * list string * list (list string) * list event)'
    SHARD = 200
    CASE_TIMEOUT = 90
    RULE = ('event histories (construct an expression object in a slot / evaluate a held object on a tree / evaluate by text) '
            'executed on the real global cache and on the model; after every event: result (uid ranks or exception class), '
            'recency list, table keys, lock state. Family (a): every sequence of <=4 (quick) / <=6 (thorough, all of them) events over '
            '5 texts with the bounds shrunk to 3/1 in the harness process; (b) random sequences of 300 (quick) / 2000 events '
            'over 55 texts (valid, not compiling, failing at run time, pairs differing only in white space inside / outside a string literal) x 9 trees at the shipped bounds; the cache-less table recomputed by fresh interpreters that meet the texts in reversed / shuffled order; (c) 2-16 real threads with '
            'switch interval 1e-6 compared with the sequential cache-less results (oracle only). non-trivial = the cache '
            'state changes at least once; distinct by event list and bounds')
    TRUSTED = ['SHA-1 collision freeness of cache keys (the model keys the cache by the text)',
               'threading.Lock provides mutual exclusion and CPython makes the lock-protected sections atomic; the text parser '
               'and the evaluator are functions of their arguments (section variables compile/evalf: any function)',
               'the shipped bounds are regenerated from xpath/_cache.py by tools/translate.py on every run']
    ASSUMPTIONS = ['real thread schedules are observed (run), not proved: the schedule theorem is over atomic sections']
    PARTIAL = ['thread half: C15_schedules quantifies over interleavings of atomic lock-protected sections; that CPython realises '
               'that atomicity and liveness under the real scheduler are observed by the threaded runs only']

    def generate(self):
        st = setup()
        rng = self.rng
        cases = []
        # (a) exhaustive over 5 texts (3 valid, 1 non-compiling, 1 failing at run time), 1 slot, 1 tree, bounds 3/1
        small = [0, 1, 2, EXPRS.index('//span['), EXPRS.index('//span[@n and 1]'), 3]
        alpha = [['new', 0, k] for k in small[:5]] + [['evalobj', 0, 0]] + [['eval', k, 0] for k in small[:5]]
        depth = 3 if self.tier == 'quick' else 4
        n_a = 0
        for d in range(1, depth + 1):
            for combo in itertools.product(alpha, repeat=d):
                cases.append(dict(bounds=[3, 1], events=[list(e) for e in combo]))
                n_a += 1
        if self.tier == 'thorough':
            # depth 5 and 6: compile-only alphabet (the cache state is driven by constructions), all sequences
            alpha2 = [['new', 0, k] for k in small]
            for d in (5, 6):
                for combo in itertools.product(alpha2, repeat=d):
                    cases.append(dict(bounds=[3, 1], events=[list(e) for e in combo] + [['evalobj', 0, 0]]))
                    n_a += 1
        # (b) random long histories at the shipped bounds
        nb, ln = (12, 300) if self.tier == 'quick' else (60, 2000)
        for _ in range(nb):
            evs = []
            hot = rng.sample(range(len(EXPRS)), 14)
            for _ in range(ln):
                k = rng.choice(hot) if rng.random() < 0.6 else rng.randrange(len(EXPRS))
                r = rng.random()
                if r < 0.35:
                    evs.append(['new', rng.randrange(3), k])
                elif r < 0.6:
                    evs.append(['evalobj', rng.randrange(3), rng.randrange(len(DOCS))])
                else:
                    evs.append(['eval', k, rng.randrange(len(DOCS))])
            cases.append(dict(bounds=list(st['shipped']), events=evs))
        # (b') texts differing only in white space, evaluated one after the other in both orders on the tree that tells them apart
        wsdoc = len(DOCS) - 1
        for a, b in WS_PAIRS:
            ia, ib = EXPRS.index(a), EXPRS.index(b)
            for x, y in ((ia, ib), (ib, ia)):
                cases.append(dict(bounds=list(st['shipped']), events=[['eval', x, wsdoc], ['eval', y, wsdoc], ['new', 0, x], ['new', 1, y],
                                                                     ['evalobj', 0, wsdoc], ['evalobj', 1, wsdoc], ['eval', x, wsdoc]]))
        # (b+) expressions whose function arguments depend on the context element, one compiled object evaluated on different trees
        for e in ('//span[contains(@t, @u)]', '//*[contains(@n, @m)]', '//span[concat(@u, "") = @t]', '//span[contains(text(), @u)]'):
            k = EXPRS.index(e)
            da, db = len(DOCS) - 2, len(DOCS) - 1
            for x, y in ((da, db), (db, da)):
                cases.append(dict(bounds=list(st['shipped']), events=[['new', 0, k], ['evalobj', 0, x], ['evalobj', 0, y], ['eval', k, x], ['eval', k, y],
                                                                     ['new', 1, k], ['evalobj', 1, y], ['evalobj', 0, x]]))
        # (b'') the cache-less results themselves must not depend on what the process compiled before: a fresh interpreter that meets the
        # texts in another order (reversed; shuffled) must produce the same table (oracle only)
        perm = list(range(len(EXPRS)))
        cases.append(dict(bounds=list(st['shipped']), order=perm[::-1]))
        shuffled = perm[:]
        rng.shuffle(shuffled)
        cases.append(dict(bounds=list(st['shipped']), order=shuffled))
        # (c) threaded schedules (oracle only; not sent to the model)
        nt = 4 if self.tier == 'quick' else 30
        for _ in range(nt):
            progs = []
            for _ in range(rng.choice([2, 4, 8, 16])):
                progs.append([['eval', rng.randrange(len(EXPRS)), rng.randrange(len(DOCS))] for _ in range(rng.randint(20, 120))])
            cases.append(dict(bounds=list(st['shipped']), threads=progs))
        # contended schedules: every thread evaluates the same few expensive texts, each thread on its own tree, so that two threads
        # are inside the same compiled expression at the same time
        sizes = sorted(range(len(EXPRS)), key=lambda k: -sum(len(str(x)) for x in st['table'][k]) if st['valid'][k] else 0)
        hot = sizes[:3]
        nh = 6 if self.tier == 'quick' else 30
        for _ in range(nh):
            progs = []
            nthreads = rng.choice([4, 8, 8])
            for ti in range(nthreads):
                d = ti % len(DOCS)
                progs.append([['eval', rng.choice(hot), d] for _ in range(rng.randint(150, 300))])
            cases.append(dict(bounds=list(st['shipped']), threads=progs))
        nt += nh
        self.stats.update(exhaustive_histories=n_a, random_histories=nb, random_history_length=ln, threaded_runs=nt,
                          texts=len(EXPRS), texts_not_compiling=st['valid'].count(False))
        return cases

    # ---------------------------------------------------------------- implementation
    def _exec(self, case, observe):
        st = setup()
        X, docs = st['X'], st['docs']
        mx, cl = case['bounds']
        reset_cache(mx, cl)
        cache = st['cache_mod'].XPathExpressionCache
        keyof = {cache.getKeyForExpressionStr(e): i for i, e in enumerate(EXPRS)}
        slots = {}
        try:
            for ev in case['events']:
                if ev[0] == 'new':
                    try:
                        slots[ev[1]] = X(EXPRS[ev[2]])
                        res = 'new:ok'
                    except Exception:
                        res = 'new:exc'
                elif ev[0] == 'evalobj':
                    x = slots.get(ev[1])
                    if x is None:
                        res = 'noobj'
                    else:
                        res = 'val:' + show_eval(lambda: x.evaluate(docs[ev[2]]), docs[ev[2]])
                else:
                    p = docs[ev[2]]
                    res = 'val:' + show_eval(lambda: p.getElementsByXPathExpression(EXPRS[ev[1]]), p)
                rec = [keyof.get(k, 999) for k in cache.recentCachedExpressionStrs]
                tab = sorted(keyof.get(k, 999) for k in cache.cachedCompiledExpressions)
                observe(ev, res, rec, tab, cache.cacheLock.locked())
        finally:
            restore_bounds()

    def run_impl(self, case):
        if 'threads' in case or 'order' in case:
            return None
        out = []

        def obs(ev, res, rec, tab, locked):
            out.append('%s/R[%s]T[%s]L%d' % (res, ','.join(map(str, rec)), ','.join(map(str, tab)), 1 if locked else 0))
        self._exec(case, obs)
        return ';'.join(out)

    def coq_case(self, case):
        st = setup()
        mx, cl = case['bounds']
        evs = []
        for ev in case['events']:
            if ev[0] == 'new':
                evs.append('ENew %d %d' % (ev[1], ev[2]))
            elif ev[0] == 'evalobj':
                evs.append('EEvalObj %d %d' % (ev[1], ev[2]))
            else:
                evs.append('EEval %d %d' % (ev[1], ev[2]))
        used = set(ev[2] if ev[0] == 'new' else ev[1] for ev in case['events'] if ev[0] != 'evalobj')
        n = max(used) + 1 if used else 0
        valid = clist(cbool(v) for v in st['valid'][:n])
        perrs = clist(cs(e) for e in st['perrs'][:n])
        table = clist(clist(cs(c) for c in (row if i in used else [])) for i, row in enumerate(st['table'][:n]))
        return '(%d%%Z, %d%%Z, %s, %s, %s, %s)' % (mx, cl, valid, perrs, table, clist(evs))

    # ---------------------------------------------------------------- oracle: what the property says
    def oracle(self, case):
        st = setup()
        if 'threads' in case:
            return self._oracle_threads(case)
        if 'order' in case:
            other = fresh_table(case['order'])
            for k in case['order']:
                here = st['table'][k] if st['valid'][k] else st['perrs'][k]
                if other[k] != here:
                    d = next((i for i in range(len(DOCS)) if isinstance(here, list) and isinstance(other[k], list) and here[i] != other[k][i]), 0)
                    return ('%r on tree %d gives %s in a process that compiled the texts in the order %s... and %s in one that compiled them in source order'
                            % (EXPRS[k], d, other[k][d] if isinstance(other[k], list) else other[k], [EXPRS[j] for j in case['order'][:3]],
                               here[d] if isinstance(here, list) else here))
            return None
        bad = []
        slotkey = {}
        mx = case['bounds'][0]

        def obs(ev, res, rec, tab, locked):
            if bad:
                return
            if ev[0] == 'new':
                fresh = 'new:ok' if st['valid'][ev[2]] else 'new:exc'
                if res == 'new:ok':
                    slotkey[ev[1]] = ev[2]
            elif ev[0] == 'evalobj':
                k = slotkey.get(ev[1])
                fresh = 'noobj' if k is None else 'val:' + st['table'][k][ev[2]]
            else:
                fresh = 'val:' + (st['table'][ev[1]][ev[2]] if st['valid'][ev[1]] else st['perrs'][ev[1]])
            if res != fresh:
                bad.append('event %s gives %s, a fresh compile+evaluate gives %s' % (ev, res, fresh))
            elif len(tab) > mx or len(rec) > mx:
                bad.append('cache holds %d/%d entries, bound is %d' % (len(tab), len(rec), mx))
        self._exec(case, obs)
        return bad[0] if bad else None

    def _oracle_threads(self, case):
        st = setup()
        docs = st['docs']
        mx, cl = case['bounds']
        reset_cache(mx, cl)
        cache = st['cache_mod'].XPathExpressionCache
        results = [None] * len(case['threads'])
        old = sys.getswitchinterval()
        sys.setswitchinterval(1e-6)

        def work(i, prog):
            out = []
            for ev in prog:
                p = docs[ev[2]]
                out.append(show_eval(lambda: p.getElementsByXPathExpression(EXPRS[ev[1]]), p))
            results[i] = out
        ths = [threading.Thread(target=work, args=(i, prog), daemon=True) for i, prog in enumerate(case['threads'])]
        try:
            for t in ths:
                t.start()
            deadline = time.time() + 60
            for t in ths:
                t.join(max(0.1, deadline - time.time()))
            if any(t.is_alive() for t in ths):
                return 'threads did not finish within 60 s (deadlock?)'
        finally:
            sys.setswitchinterval(old)
            restore_bounds()
        for i, prog in enumerate(case['threads']):
            for j, ev in enumerate(prog):
                fresh = st['table'][ev[1]][ev[2]] if st['valid'][ev[1]] else st['perrs'][ev[1]]
                if results[i][j] != fresh:
                    return 'thread %d event %d %s gives %s, alone it gives %s' % (i, j, ev, results[i][j], fresh)
        if len(cache.cachedCompiledExpressions) > mx or len(cache.recentCachedExpressionStrs) > mx:
            return 'cache exceeds its bound after the threaded run'
        if cache.cacheLock.locked():
            return 'cache lock left held'
        return None

    def shrink_candidates(self, case):
        if 'threads' in case or 'order' in case:
            return
        evs = case['events']
        if len(evs) > 8:
            yield dict(case, events=evs[:len(evs) // 2])
            yield dict(case, events=evs[len(evs) // 2:])
        for i in range(len(evs) - 1, -1, -1):
            yield dict(case, events=evs[:i] + evs[i + 1:])

    def nontrivial_key(self, case, snap):
        states = set(s.split('/', 1)[1] for s in snap.split(';') if '/' in s)
        if len(states) < 2:
            return None
        return json.dumps(case, sort_keys=True)

    def finding_key(self, case, what):
        return what[:50]


CHECK = C15
