#!/usr/bin/env python3
"""translate.py <repo> <out.v> - regenerate coq/Gen/Tables.v from /repo.

Code (the rule descriptors of TAG_ITEM_ATTRIBUTES_SPECIAL_VALUES) is translated from the *source text* by a fail-closed
AST grammar: every construct outside it aborts with 'translator: unrecognised ...', which a check treats as a broken proof
obligation.  Data tables (string sets, dispatch dicts, the two cache bounds) are read from the source text when they are
written in the recognised literal forms and cross-checked against the values the module's own top-level code computes
(constants.py evaluated in a sub-process); when a table is written in a form the grammar does not know (a comprehension,
setdefault, a reordered literal ...) the evaluated value is used, so that a rewrite of a table that leaves its value
unchanged regenerates the identical Tables.v.  Output is written only if it changed (keeps make incremental).
"""
import ast
import json
import os
import subprocess
import sys
from pathlib import Path

EVAL_CODE = r"""
import json, sys
import AdvancedHTMLParser.constants as c
import AdvancedHTMLParser.xpath._cache as k
def S(x, what):
    if not isinstance(x, (set, frozenset, tuple, list)) or not all(isinstance(e, str) for e in x):
        raise SystemExit('eval: %s is not a collection of str' % what)
    return sorted(set(x))
def T(x, what):
    if not isinstance(x, str):
        raise SystemExit('eval: %s is not a str' % what)
    return x
def I(x, what):
    if not isinstance(x, int) or isinstance(x, bool):
        raise SystemExit('eval: %s is not an int' % what)
    return x
def D(x, what):
    if not isinstance(x, dict) or not all(isinstance(e, str) for e in x):
        raise SystemExit('eval: %s is not a dict with str keys' % what)
    return x
out = dict(
  MAX_CACHED_EXPRESSIONS=I(k.MAX_CACHED_EXPRESSIONS, 'MAX_CACHED_EXPRESSIONS'), CLEAR_AT_ONE_TIME=I(k.CLEAR_AT_ONE_TIME, 'CLEAR_AT_ONE_TIME'),
  IMPLICIT_SELF_CLOSING_TAGS=S(c.IMPLICIT_SELF_CLOSING_TAGS, 'IMPLICIT_SELF_CLOSING_TAGS'), PREFORMATTED_TAGS=S(c.PREFORMATTED_TAGS, 'PREFORMATTED_TAGS'),
  PRESERVE_CONTENTS_TAGS=S(c.PRESERVE_CONTENTS_TAGS, 'PRESERVE_CONTENTS_TAGS'), TAG_ITEM_BINARY_ATTRIBUTES=S(c.TAG_ITEM_BINARY_ATTRIBUTES, 'TAG_ITEM_BINARY_ATTRIBUTES'),
  TAG_ITEM_BINARY_ATTRIBUTES_STRING_ATTR=S(c.TAG_ITEM_BINARY_ATTRIBUTES_STRING_ATTR, 'TAG_ITEM_BINARY_ATTRIBUTES_STRING_ATTR'),
  INVISIBLE_ROOT_TAG=T(c.INVISIBLE_ROOT_TAG, 'INVISIBLE_ROOT_TAG'), INVISIBLE_ROOT_TAG_START=T(c.INVISIBLE_ROOT_TAG_START, 'INVISIBLE_ROOT_TAG_START'),
  INVISIBLE_ROOT_TAG_END=T(c.INVISIBLE_ROOT_TAG_END, 'INVISIBLE_ROOT_TAG_END'),
  TAG_NAMES_TO_ADDITIONAL_ATTRIBUTES={t: S(v, 'TAG_NAMES_TO_ADDITIONAL_ATTRIBUTES[%r]' % t) for t, v in D(c.TAG_NAMES_TO_ADDITIONAL_ATTRIBUTES, 'TAG_NAMES_TO_ADDITIONAL_ATTRIBUTES').items()},
  ALL_JAVASCRIPT_EVENT_ATTRIBUTES=S(c.ALL_JAVASCRIPT_EVENT_ATTRIBUTES, 'ALL_JAVASCRIPT_EVENT_ATTRIBUTES'),
  TAG_ITEM_ATTRIBUTE_LINKS=S(c.TAG_ITEM_ATTRIBUTE_LINKS, 'TAG_ITEM_ATTRIBUTE_LINKS'),
  TAG_ITEM_CHANGE_NAME_FROM_ITEM={a: T(b, 'TAG_ITEM_CHANGE_NAME_FROM_ITEM[%r]' % a) for a, b in D(c.TAG_ITEM_CHANGE_NAME_FROM_ITEM, 'TAG_ITEM_CHANGE_NAME_FROM_ITEM').items()},
  SPECIAL_VALUES_KEYS=sorted(D(c.TAG_ITEM_ATTRIBUTES_SPECIAL_VALUES, 'TAG_ITEM_ATTRIBUTES_SPECIAL_VALUES')),
  SPECIAL_VALIDATION_KEYS=sorted(D(c.TAG_ITEM_ATTRIBUTES_SPECIAL_VALIDATION, 'TAG_ITEM_ATTRIBUTES_SPECIAL_VALIDATION')))
sys.stdout.write('@@EVAL ' + json.dumps(out, sort_keys=True) + '\n')
"""


def evaluated(repo):
    """the values of the data tables as constants.py's own top-level code computes them; None when that fails"""
    env = dict(os.environ, PYTHONPATH=str(repo), PYTHONHASHSEED='0', PYTHONDONTWRITEBYTECODE='1')
    try:
        r = subprocess.run([sys.executable, '-c', EVAL_CODE], env=env, stdin=subprocess.DEVNULL, capture_output=True, text=True, timeout=60, cwd='/')
    except (OSError, subprocess.SubprocessError):
        return None
    for line in r.stdout.splitlines():
        if line.startswith('@@EVAL '):
            try:
                return json.loads(line[7:])
            except ValueError:
                return None
    return None


class Unrecognised(Exception):
    pass


def die(msg):
    raise Unrecognised(msg)


def cstr(s):
    if not isinstance(s, str):
        die('non-string literal %r' % (s,))
    for ch in s:
        if ord(ch) < 32 or ord(ch) > 126:
            die('non printable-ASCII character in table string %r' % s)
    return '"' + s.replace('"', '""') + '"'


def clist(items):
    return '[' + '; '.join(items) + ']'


def str_elts(node, what):
    """set([...]) | {...} | (...) | [...] of string constants -> list of str (source order)"""
    if isinstance(node, ast.Call) and isinstance(node.func, ast.Name) and node.func.id == 'set' and len(node.args) == 1 and not node.keywords:
        node = node.args[0]
    if isinstance(node, (ast.Set, ast.Tuple, ast.List)):
        out = []
        for e in node.elts:
            if not (isinstance(e, ast.Constant) and isinstance(e.value, str)):
                die('%s: element is not a string literal' % what)
            out.append(e.value)
        return out
    die('%s: not a literal collection of strings (%s)' % (what, type(node).__name__))


def module_assigns(path):
    tree = ast.parse(Path(path).read_text(), filename=str(path))
    out = {}
    order = []
    for node in tree.body:
        if isinstance(node, ast.Assign) and len(node.targets) == 1 and isinstance(node.targets[0], ast.Name):
            out.setdefault(node.targets[0].id, []).append(node.value)
            order.append(node.targets[0].id)
    return tree, out


def single(assigns, name, path):
    if name not in assigns:
        die('%s: %s is not assigned at module level' % (path, name))
    if len(assigns[name]) != 1:
        die('%s: %s is assigned %d times' % (path, name, len(assigns[name])))
    return assigns[name][0]


def int_const(node, what):
    if isinstance(node, ast.Constant) and isinstance(node.value, int) and not isinstance(node.value, bool):
        return node.value
    if isinstance(node, ast.UnaryOp) and isinstance(node.op, ast.USub) and isinstance(node.operand, ast.Constant) \
            and isinstance(node.operand.value, int):
        return -node.operand.value
    die('%s: not an integer literal' % what)


def translate(repo):
    repo = Path(repo)
    pkg = repo / 'AdvancedHTMLParser'
    out = ['(* GENERATED by tools/translate.py from the source text of %s - do not edit. *)' % pkg,
           'From Coq Require Import String List ZArith.', 'From AHP Require Import Model.PropRules.', 'Import ListNotations.', 'Local Open Scope string_scope.', '']

    ev = evaluated(repo)

    def pick(what, syntactic, key, conv=lambda x: x):
        """the syntactic reading when the form is recognised (cross-checked against the evaluated value), else the evaluated value"""
        try:
            v = syntactic()
        except Unrecognised as e:
            if ev is None:
                die('%s (and evaluating the module failed)' % e)
            return conv(ev[key])
        if ev is not None and conv(ev[key]) != v:
            die('%s: the source text reads %r but the module evaluates to %r' % (what, v, conv(ev[key])))
        return v

    # ---- xpath/_cache.py: the two bounds
    _, ca = module_assigns(pkg / 'xpath' / '_cache.py')
    mx = pick('MAX_CACHED_EXPRESSIONS', lambda: int_const(single(ca, 'MAX_CACHED_EXPRESSIONS', '_cache.py'), 'MAX_CACHED_EXPRESSIONS'), 'MAX_CACHED_EXPRESSIONS')
    cl = pick('CLEAR_AT_ONE_TIME', lambda: int_const(single(ca, 'CLEAR_AT_ONE_TIME', '_cache.py'), 'CLEAR_AT_ONE_TIME'), 'CLEAR_AT_ONE_TIME')
    out.append('Definition max_cached : Z := %d%%Z.' % mx)
    out.append('Definition clear_at_once : Z := %d%%Z.' % cl)
    out.append('Definition cache_params_ok : bool := (0 <=? clear_at_once)%Z && (clear_at_once <? max_cached)%Z.')
    out.append('')

    # ---- constants.py: plain string sets / strings
    _, co = module_assigns(pkg / 'constants.py')
    for pyname, coqname in (('IMPLICIT_SELF_CLOSING_TAGS', 'implicit_self_closing'),
                            ('PREFORMATTED_TAGS', 'preformatted_tags'),
                            ('PRESERVE_CONTENTS_TAGS', 'preserve_contents_tags'),
                            ('TAG_ITEM_BINARY_ATTRIBUTES', 'binary_attributes'),
                            ('TAG_ITEM_BINARY_ATTRIBUTES_STRING_ATTR', 'binary_string_attributes')):
        vals = pick(pyname, lambda pyname=pyname: sorted(set(str_elts(single(co, pyname, 'constants.py'), pyname))), pyname)
        out.append('Definition %s : list string := %s.' % (coqname, clist(map(cstr, vals))))

    def inv_syn():
        inv = single(co, 'INVISIBLE_ROOT_TAG', 'constants.py')
        if not (isinstance(inv, ast.Constant) and isinstance(inv.value, str)):
            die('INVISIBLE_ROOT_TAG is not a string literal')
        return inv.value
    invv = pick('INVISIBLE_ROOT_TAG', inv_syn, 'INVISIBLE_ROOT_TAG')
    out.append('Definition invisible_root_tag : string := %s.' % cstr(invv))
    for nm, fmt in (('INVISIBLE_ROOT_TAG_START', '<%s>'), ('INVISIBLE_ROOT_TAG_END', '</%s>')):
        def fmt_syn(nm=nm, fmt=fmt):
            node = single(co, nm, 'constants.py')
            ok = (isinstance(node, ast.BinOp) and isinstance(node.op, ast.Mod) and isinstance(node.left, ast.Constant)
                  and node.left.value == fmt and isinstance(node.right, ast.Tuple) and len(node.right.elts) == 1
                  and isinstance(node.right.elts[0], ast.Name) and node.right.elts[0].id == 'INVISIBLE_ROOT_TAG')
            if not ok:
                die('%s is not %r %% (INVISIBLE_ROOT_TAG,)' % (nm, fmt))
            return fmt % (invv,)
        if pick(nm, fmt_syn, nm) != fmt % (invv,):
            die('%s is not %r %% (INVISIBLE_ROOT_TAG,)' % (nm, fmt))

    # ---- constants.py: dot-access dispatch tables
    ctree = ast.parse((pkg / 'constants.py').read_text())
    out += translate_dispatch(ctree, co, ev)
    out += translate_rules(ctree, co)
    out.append('')
    return '\n'.join(out) + '\n'


def dict_of_str_sets(node, what):
    if not isinstance(node, ast.Dict):
        die('%s: not a dict literal' % what)
    d = {}
    for k, v in zip(node.keys, node.values):
        if not (isinstance(k, ast.Constant) and isinstance(k.value, str)):
            die('%s: key is not a string literal' % what)
        d[k.value] = set(str_elts(v, '%s[%r]' % (what, k.value)))      # later duplicate keys win, as in Python
    return d


def dict_of_str(node, what):
    if not isinstance(node, ast.Dict):
        die('%s: not a dict literal' % what)
    d = {}
    for k, v in zip(node.keys, node.values):
        if not (isinstance(k, ast.Constant) and isinstance(k.value, str) and isinstance(v, ast.Constant) and isinstance(v.value, str)):
            die('%s: not a str -> str literal' % what)
        d[k.value] = v.value
    return d


def dispatch_values(tree, co):
    """TAG_NAMES_TO_ADDITIONAL_ATTRIBUTES (+ the two post-processing statements), COMMON_JAVASCRIPT_ATTRIBUTES,
    ALL_JAVASCRIPT_EVENT_ATTRIBUTES, TAG_ITEM_ATTRIBUTE_LINKS (+ update), TAG_ITEM_CHANGE_NAME_FROM_ITEM,
    key sets of the SPECIAL_VALUES / SPECIAL_VALIDATION tables."""
    src = ast.unparse
    add = dict_of_str_sets(single(co, 'TAG_NAMES_TO_ADDITIONAL_ATTRIBUTES', 'constants.py'), 'TAG_NAMES_TO_ADDITIONAL_ATTRIBUTES')
    common_input = set(str_elts(single(co, 'COMMON_INPUT_ATTRS', 'constants.py'), 'COMMON_INPUT_ATTRS'))
    # statement 1: for otherInputName in (...): update(COMMON_INPUT_ATTRS)
    fors = [n for n in tree.body if isinstance(n, ast.For)]
    if len(fors) != 1:
        die('expected exactly one module-level for statement, found %d' % len(fors))
    f = fors[0]
    want = ("for otherInputName in ('input', 'button', 'select', 'option'):\n"
            "    if otherInputName not in TAG_NAMES_TO_ADDITIONAL_ATTRIBUTES:\n"
            "        TAG_NAMES_TO_ADDITIONAL_ATTRIBUTES[otherInputName] = COMMON_INPUT_ATTRS.copy()\n"
            "    else:\n"
            "        TAG_NAMES_TO_ADDITIONAL_ATTRIBUTES[otherInputName].update(COMMON_INPUT_ATTRS.copy())")
    names = None
    if isinstance(f.iter, ast.Tuple):
        names = str_elts(f.iter, 'for-loop tag names')
        probe = want.replace("('input', 'button', 'select', 'option')", src(f.iter))
        if src(f) != probe:
            die('the COMMON_INPUT_ATTRS loop has an unrecognised body: %s' % src(f)[:200])
    else:
        die('the COMMON_INPUT_ATTRS loop does not iterate over a tuple literal')
    for nm in names:
        add.setdefault(nm, set()).update(common_input)
    # statement 2: ['submit'] = ['input'].union('onsubmit')  -- set.union of a *string*: its characters
    subs = [n for n in tree.body if isinstance(n, ast.Assign) and isinstance(n.targets[0], ast.Subscript)]
    if len(subs) != 1:
        die('expected exactly one module-level subscript assignment, found %d' % len(subs))
    stext = src(subs[0])
    if stext != "TAG_NAMES_TO_ADDITIONAL_ATTRIBUTES['submit'] = TAG_NAMES_TO_ADDITIONAL_ATTRIBUTES['input'].union('onsubmit')":
        die('unrecognised subscript assignment: %s' % stext)
    add['submit'] = set(add['input']) | set('onsubmit')
    common_js = set(str_elts(single(co, 'COMMON_JAVASCRIPT_ATTRIBUTES', 'constants.py'), 'COMMON_JAVASCRIPT_ATTRIBUTES'))
    alljs = src(single(co, 'ALL_JAVASCRIPT_EVENT_ATTRIBUTES', 'constants.py'))
    if alljs != "COMMON_JAVASCRIPT_ATTRIBUTES.union(set([value for values in TAG_NAMES_TO_ADDITIONAL_ATTRIBUTES.values() for value in values if value.startswith('on')]))":
        die('unrecognised ALL_JAVASCRIPT_EVENT_ATTRIBUTES: %s' % alljs)
    all_js = set(common_js)
    for vs in add.values():
        all_js.update(v for v in vs if v.startswith('on'))
    links = set(str_elts(single(co, 'TAG_ITEM_ATTRIBUTE_LINKS', 'constants.py'), 'TAG_ITEM_ATTRIBUTE_LINKS'))
    upd = [n for n in tree.body if isinstance(n, ast.Expr) and isinstance(n.value, ast.Call)]
    upd = [src(n) for n in upd]
    if upd != ['TAG_ITEM_ATTRIBUTE_LINKS.update(COMMON_JAVASCRIPT_ATTRIBUTES)']:
        die('unrecognised module-level call statements: %s' % upd)
    links |= common_js
    change = dict_of_str(single(co, 'TAG_ITEM_CHANGE_NAME_FROM_ITEM', 'constants.py'), 'TAG_ITEM_CHANGE_NAME_FROM_ITEM')
    sv = single(co, 'TAG_ITEM_ATTRIBUTES_SPECIAL_VALUES', 'constants.py')
    sval = single(co, 'TAG_ITEM_ATTRIBUTES_SPECIAL_VALIDATION', 'constants.py')
    for nm, node in (('SPECIAL_VALUES', sv), ('SPECIAL_VALIDATION', sval)):
        if not (isinstance(node, ast.Dict) and all(isinstance(k, ast.Constant) and isinstance(k.value, str) for k in node.keys)):
            die('TAG_ITEM_ATTRIBUTES_%s is not a dict literal with string keys' % nm)
    return dict(add={t: sorted(v) for t, v in add.items()}, links=sorted(links), change=change, all_js=sorted(all_js),
                svk=sorted(k.value for k in sv.keys), svalk=sorted(k.value for k in sval.keys))



def translate_dispatch(tree, co, ev):
    evd = None if ev is None else dict(add=ev['TAG_NAMES_TO_ADDITIONAL_ATTRIBUTES'], links=ev['TAG_ITEM_ATTRIBUTE_LINKS'],
                                       change=ev['TAG_ITEM_CHANGE_NAME_FROM_ITEM'], all_js=ev['ALL_JAVASCRIPT_EVENT_ATTRIBUTES'],
                                       svk=ev['SPECIAL_VALUES_KEYS'], svalk=ev['SPECIAL_VALIDATION_KEYS'])
    try:
        d = dispatch_values(tree, co)
    except Unrecognised as e:
        if evd is None:
            die('%s (and evaluating the module failed)' % e)
        d = evd
    else:
        if evd is not None and d != evd:
            diff = [k for k in d if d[k] != evd[k]]
            die('dispatch tables %s: the source text and the evaluated module disagree' % diff)
    add, links, change, all_js = d['add'], d['links'], d['change'], d['all_js']
    out = []
    out.append('Definition attribute_links : list string := %s.' % clist(map(cstr, sorted(links))))
    out.append('Definition tag_additional : list (string * list string) := [\n  %s].' % ';\n  '.join(
        '(%s, %s)' % (cstr(t), clist(map(cstr, sorted(vs)))) for t, vs in sorted(add.items())))
    out.append('Definition change_name : list (string * string) := %s.' % clist('(%s, %s)' % (cstr(k), cstr(v)) for k, v in sorted(change.items())))
    out.append('Definition all_js_events : list string := %s.' % clist(map(cstr, sorted(all_js))))
    out.append('Definition special_value_names : list string := %s.' % clist(map(cstr, d['svk'])))
    out.append('Definition special_validation_names : list string := %s.' % clist(map(cstr, d['svalk'])))
    return out


# ------------------------------------------------------------------------------------------------ special value rules
MAXLENGTH_SRC = """def _special_value_maxLength(em, newValue=NOT_PROVIDED):
    if newValue is NOT_PROVIDED:
        if not em.hasAttribute('maxlength'):
            return -1
        curValue = em.getAttribute('maxlength', '-1')
        invalidDefault = -1
    else:
        curValue = newValue
        invalidDefault = IndexSizeErrorException
    return convertToIntRange(curValue, minValue=0, maxValue=None, emptyValue='0', invalidDefault=invalidDefault)"""


def strip_docstring(fn):
    body = list(fn.body)
    if body and isinstance(body[0], ast.Expr) and isinstance(body[0].value, ast.Constant) and isinstance(body[0].value.value, str):
        body = body[1:]
    new = ast.FunctionDef(name=fn.name, args=fn.args, body=body, decorator_list=[], returns=None, type_comment=None, lineno=0, col_offset=0)
    try:
        new.type_params = []
    except Exception:
        pass
    return ast.unparse(ast.fix_missing_locations(new))


def pconst(node, consts):
    if isinstance(node, ast.Constant):
        v = node.value
        if v is None:
            return 'KNone'
        if isinstance(v, str):
            return '(KStr %s)' % cstr(v)
        if isinstance(v, int) and not isinstance(v, bool):
            return '(KInt (%d)%%Z)' % v
    if isinstance(node, ast.UnaryOp) and isinstance(node.op, ast.USub) and isinstance(node.operand, ast.Constant) and isinstance(node.operand.value, int):
        return '(KInt (%d)%%Z)' % (-node.operand.value)
    if isinstance(node, ast.Name) and node.id == 'EMPTY_IS_INVALID':
        return 'KEmptyIsInvalid'
    die('unrecognised constant %s' % ast.unparse(node))


def optz(node):
    if isinstance(node, ast.Constant) and node.value is None:
        return 'None'
    if isinstance(node, ast.Constant) and isinstance(node.value, int):
        return '(Some (%d)%%Z)' % node.value
    die('unrecognised bound %s' % ast.unparse(node))


def get_attr_call(node):
    """em.getAttribute('name', default) -> (name, default node)"""
    ok = (isinstance(node, ast.Call) and isinstance(node.func, ast.Attribute) and node.func.attr == 'getAttribute'
          and isinstance(node.func.value, ast.Name) and node.func.value.id == 'em' and 1 <= len(node.args) <= 2 and not node.keywords
          and isinstance(node.args[0], ast.Constant) and isinstance(node.args[0].value, str))
    if not ok:
        die('unrecognised attribute read %s' % ast.unparse(node))
    dflt = node.args[1] if len(node.args) == 2 else ast.Constant(value=None)
    return node.args[0].value, dflt


def conv_rule(node, co):
    """a conversion call or a plain getAttribute -> Coq rule text"""
    if isinstance(node, ast.Call) and isinstance(node.func, ast.Attribute) and node.func.attr == 'getAttribute':
        a, d = get_attr_call(node)
        return '(RAttr %s %s)' % (cstr(a), pconst(d, co))
    if not (isinstance(node, ast.Call) and isinstance(node.func, ast.Name)):
        die('unrecognised rule expression %s' % ast.unparse(node))
    fn = node.func.id
    kw = {k.arg: k.value for k in node.keywords}
    if fn == 'convertToIntOrNegativeOneIfUnset':
        if len(node.args) != 1 or kw:
            die('unrecognised call %s' % ast.unparse(node))
        a, d = get_attr_call(node.args[0])
        if pconst(d, co) != 'KNone':
            die('tabIndex rule with a default other than None')
        return '(RIntOrMinus1 %s)' % cstr(a)
    if fn in ('convertToIntRangeCapped', 'convertToIntRange'):
        if len(node.args) != 1 or set(kw) - {'minValue', 'maxValue', 'invalidDefault', 'emptyValue'} or not {'minValue', 'maxValue', 'invalidDefault'} <= set(kw):
            die('unrecognised call %s' % ast.unparse(node))
        a, d = get_attr_call(node.args[0])
        empty = pconst(kw['emptyValue'], co) if 'emptyValue' in kw else '(KStr "")'
        return '(%s %s %s %s %s %s %s)' % ('RIntCapped' if fn.endswith('Capped') else 'RIntRange', cstr(a), pconst(d, co),
                                          optz(kw['minValue']), optz(kw['maxValue']), pconst(kw['invalidDefault'], co), empty)
    if fn == 'convertToPositiveInt':
        if len(node.args) != 1 or set(kw) != {'invalidDefault'}:
            die('unrecognised call %s' % ast.unparse(node))
        a, d = get_attr_call(node.args[0])
        return '(RPosInt %s %s %s)' % (cstr(a), pconst(d, co), pconst(kw['invalidDefault'], co))
    if fn == 'convertPossibleValues':
        if len(node.args) != 2 or set(kw) - {'invalidDefault', 'emptyValue'} or 'invalidDefault' not in kw:
            die('unrecognised call %s' % ast.unparse(node))
        a, d = get_attr_call(node.args[0])
        if not isinstance(node.args[1], ast.Name):
            die('possible values must be a module-level tuple name')
        vals = str_elts(single(co, node.args[1].id, 'constants.py'), node.args[1].id)
        empty = pconst(kw['emptyValue'], co) if 'emptyValue' in kw else '(KStr "")'
        return '(REnum %s %s %s %s %s)' % (cstr(a), pconst(d, co), clist(map(cstr, vals)), pconst(kw['invalidDefault'], co), empty)
    die('unrecognised conversion %s' % fn)


def function_rule(fn, co):
    """def f(em): [docstring] if em.tagName == 'x': return A  [else: return B | return B]"""
    if fn.name == '_special_value_maxLength':
        if strip_docstring(fn) != MAXLENGTH_SRC:
            die('_special_value_maxLength has changed:\n%s' % strip_docstring(fn))
        return 'RMaxLength'
    body = list(fn.body)
    if body and isinstance(body[0], ast.Expr) and isinstance(body[0].value, ast.Constant):
        body = body[1:]
    if len(fn.args.args) != 1 or fn.args.args[0].arg != 'em':
        die('%s: unexpected signature' % fn.name)
    if len(body) == 1 and isinstance(body[0], ast.Return):
        return conv_rule(body[0].value, co)
    if body and isinstance(body[0], ast.If):
        t = body[0].test
        ok = (isinstance(t, ast.Compare) and len(t.ops) == 1 and isinstance(t.ops[0], ast.Eq) and ast.unparse(t.left) == 'em.tagName'
              and isinstance(t.comparators[0], ast.Constant) and isinstance(t.comparators[0].value, str))
        if not ok or len(body[0].body) != 1 or not isinstance(body[0].body[0], ast.Return):
            die('%s: unrecognised if' % fn.name)
        then = conv_rule(body[0].body[0].value, co)
        if body[0].orelse:
            if len(body) != 1 or len(body[0].orelse) != 1 or not isinstance(body[0].orelse[0], ast.Return):
                die('%s: unrecognised else' % fn.name)
            els = conv_rule(body[0].orelse[0].value, co)
        else:
            if len(body) != 2 or not isinstance(body[1], ast.Return):
                die('%s: unrecognised tail' % fn.name)
            els = conv_rule(body[1].value, co)
        return '(RByTag %s %s %s)' % (cstr(t.comparators[0].value), then, els)
    die('%s: unrecognised body' % fn.name)


def translate_rules(tree, co):
    funcs = {n.name: n for n in tree.body if isinstance(n, ast.FunctionDef)}
    sv = single(co, 'TAG_ITEM_ATTRIBUTES_SPECIAL_VALUES', 'constants.py')
    rules = []
    for k, v in zip(sv.keys, sv.values):
        name = k.value
        if isinstance(v, ast.Name):
            if v.id not in funcs:
                die('special value %s refers to unknown function %s' % (name, v.id))
            r = function_rule(funcs[v.id], co)
        elif isinstance(v, ast.Lambda):
            if len(v.args.args) != 1 or v.args.args[0].arg != 'em':
                die('special value %s: unexpected lambda signature' % name)
            src = ast.unparse(v.body)
            if src == "em.getParentElementCustomFilter(lambda em: em.tagName == 'form')":
                r = 'RParentForm'
            elif isinstance(v.body, ast.Call) and isinstance(v.body.func, ast.Name) and v.body.func.id == '_DOMTokenList_type' and len(v.body.args) == 1:
                arg = v.body.args[0]
                # DOMTokenList( em.getAttribute(a, '') or '' ): the "or ''" makes a value-less attribute (stored None) the empty list,
                # which is what RTokenList means; without it the constructor raises on None and the rule is not total
                if not (isinstance(arg, ast.BoolOp) and isinstance(arg.op, ast.Or) and len(arg.values) == 2
                        and isinstance(arg.values[1], ast.Constant) and arg.values[1].value == ''):
                    die('token list rule %s does not guard a value-less attribute: DOMTokenList(None) raises TypeError' % name)
                a, d = get_attr_call(arg.values[0])
                if pconst(d, co) != '(KStr "")':
                    die('token list rule with unexpected default')
                r = '(RTokenList %s)' % cstr(a)
            else:
                r = conv_rule(v.body, co)
        else:
            die('special value %s: neither a lambda nor a function name' % name)
        rules.append((name, r))
    sval = single(co, 'TAG_ITEM_ATTRIBUTES_SPECIAL_VALIDATION', 'constants.py')
    for k, v in zip(sval.keys, sval.values):
        if not (k.value == 'maxLength' and isinstance(v, ast.Name) and v.id == '_special_value_maxLength'):
            die('unrecognised special validation entry %s' % k.value)
    out = ['Definition special_rules : list (string * rule) := [\n  %s].' % ';\n  '.join('(%s, %s)' % (cstr(n), r) for n, r in rules)]
    return out


def main(argv):
    repo, dest = argv[1], Path(argv[2])
    try:
        text = translate(repo)
    except (Unrecognised, SyntaxError, OSError) as e:
        print('translator: unrecognised source: %s' % e)
        return 1
    dest.parent.mkdir(parents=True, exist_ok=True)
    if not dest.exists() or dest.read_text() != text:
        dest.write_text(text)
    print('translator: ok')
    return 0


if __name__ == '__main__':
    sys.exit(main(sys.argv))
