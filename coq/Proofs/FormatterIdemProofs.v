(* handle_data's text rewriting (fmt_data) is idempotent: its results are in a canonical form on which every stage is the identity *)
From Coq Require Import Lia.
From AHP Require Import Model.Base Model.Str Model.Attr Model.Dom Model.Formatter Proofs.StrProofs Proofs.CodecProofs.

Definition is_tab (c : ascii) : bool := Ascii.eqb c (ascii_of_nat 9).
Definition no_tab (s : string) : Prop := forallb (fun c => negb (is_tab c)) (chars s) = true.
Lemma tab2sp_no_tab s : no_tab (tab2sp s).
Proof.
  unfold no_tab. induction s as [|c s IH]; simpl; auto. destruct (Ascii.eqb c (ascii_of_nat 9)) eqn:E; simpl; rewrite IH.
  - reflexivity.
  - unfold is_tab. now rewrite E.
Qed.
Lemma tab2sp_id s : no_tab s -> tab2sp s = s.
Proof.
  unfold no_tab. induction s as [|c s IH]; simpl; auto. intros H. apply andb_true_iff in H as [H1 H2]. unfold is_tab in H1.
  apply negb_true_iff in H1. rewrite H1. now rewrite IH.
Qed.
Lemma no_tab_app a b : no_tab (a +++ b) <-> no_tab a /\ no_tab b.
Proof.
  unfold no_tab. induction a as [|c a IH]; simpl; [tauto|]. rewrite !andb_true_iff, IH. tauto.
Qed.
Lemma no_tab_lstrip f s : no_tab s -> no_tab (lstrip_by f s).
Proof. unfold no_tab. induction s as [|c s IH]; simpl; auto. intros H. apply andb_true_iff in H as [H1 H2]. destruct (f c); auto. simpl. now rewrite H1, H2. Qed.
Lemma no_tab_srev s : no_tab s -> no_tab (srev s).
Proof.
  induction s as [|c s IH]; auto. intros H. change (String c s) with (String c "" +++ s) in H. apply no_tab_app in H as [H1 H2].
  rewrite srev_cons. apply no_tab_app. split; auto.
Qed.
Lemma no_tab_rstrip f s : no_tab s -> no_tab (rstrip_by f s).
Proof. intros H. unfold rstrip_by. apply no_tab_srev, no_tab_lstrip, no_tab_srev, H. Qed.

(* ---- edges ---- *)
Definition Lhead (f : ascii -> bool) (s : string) : Prop := match s with String c _ => f c = false | EmptyString => True end.
Definition Llast (f : ascii -> bool) (s : string) : Prop := Lhead f (srev s).
Definition snoc (s : string) (c : ascii) : string := s +++ String c "".
Lemma srev_snoc s c : srev (snoc s c) = String c (srev s).
Proof. unfold snoc. now rewrite srev_app. Qed.
Lemma string_snoc_ind (P : string -> Prop) : P "" -> (forall s c, P s -> P (snoc s c)) -> forall s, P s.
Proof.
  intros H0 Hs s. rewrite <- (srev_invol s). induction (srev s) as [|c r IH]; auto. rewrite srev_cons. apply (Hs (srev r) c IH).
Qed.
Lemma rstrip_snoc f s c : rstrip_by f (snoc s c) = if f c then rstrip_by f s else snoc s c.
Proof.
  unfold rstrip_by. rewrite srev_snoc. simpl. destruct (f c); auto. now rewrite srev_cons, srev_invol.
Qed.
Lemma ends_sp_snoc s c : ends_sp (snoc s c) = is_sp c.
Proof. unfold ends_sp. now rewrite srev_snoc. Qed.
Lemma Llast_snoc f s c : Llast f (snoc s c) <-> f c = false.
Proof. unfold Llast. rewrite srev_snoc. simpl. tauto. Qed.
Lemma Lhead_lstrip f s : Lhead f (lstrip_by f s).
Proof. induction s as [|c s IH]; simpl; auto. destruct (f c) eqn:E; auto. Qed.
Lemma Llast_rstrip f s : Llast f (rstrip_by f s).
Proof. unfold Llast, rstrip_by. rewrite srev_invol. apply Lhead_lstrip. Qed.
Lemma lstrip_id f s : Lhead f s -> lstrip_by f s = s.
Proof. destruct s; simpl; auto. intros H. now rewrite H. Qed.
Lemma rstrip_id f s : Llast f s -> rstrip_by f s = s.
Proof. unfold Llast, rstrip_by. intros H. rewrite lstrip_id; auto. apply srev_invol. Qed.
Lemma Lhead_snoc f s c : s <> "" -> (Lhead f (snoc s c) <-> Lhead f s).
Proof. destruct s; [congruence|]. simpl. tauto. Qed.
(* stripping on the right keeps the head; stripping on the left keeps the last character *)
Lemma Lhead_rstrip g f : forall s, Lhead g s -> Lhead g (rstrip_by f s).
Proof.
  apply (string_snoc_ind (fun s => Lhead g s -> Lhead g (rstrip_by f s))); [auto|]. intros s c IH H. rewrite rstrip_snoc.
  destruct (f c); auto. apply IH. destruct s; [exact I|]. exact H.
Qed.
Lemma Llast_lstrip g f s : Llast g s -> Llast g (lstrip_by f s).
Proof.
  induction s as [|c s IH]; simpl; auto. intros H. destruct (f c); auto. apply IH.
  unfold Llast in *. rewrite srev_cons in H. destruct (srev s) eqn:E; [exact I|]. exact H.
Qed.

Lemma snoc_nonempty s c : snoc s c <> "".
Proof. destruct s; discriminate. Qed.
Lemma rstrip_cons f c x : rstrip_by f (String c x) = match rstrip_by f x with "" => if f c then "" else String c "" | r => String c r end.
Proof.
  revert x. apply (string_snoc_ind (fun x => rstrip_by f (String c x) = match rstrip_by f x with "" => if f c then "" else String c "" | r => String c r end)).
  - unfold rstrip_by. simpl. destruct (f c); reflexivity.
  - intros s a IH. change (String c (snoc s a)) with (snoc (String c s) a). rewrite !rstrip_snoc. destruct (f a); [exact IH|].
    change (snoc (String c s) a) with (String c (snoc s a)). destruct (snoc s a) eqn:E; [now apply snoc_nonempty in E|]. reflexivity.
Qed.
Lemma Llast_cons f c x : x <> "" -> (Llast f (String c x) <-> Llast f x).
Proof.
  intros Hx. unfold Llast. rewrite srev_cons. destruct (srev x) eqn:E.
  - exfalso. apply Hx. rewrite <- (srev_invol x), E. reflexivity.
  - simpl. tauto.
Qed.
Lemma sp_ws c : is_sp c = true -> is_ws c = true.
Proof. unfold is_sp. intros H. apply Ascii.eqb_eq in H. now subst. Qed.
Lemma sp_eq c : is_sp c = true -> c = " "%char.
Proof. unfold is_sp. apply Ascii.eqb_eq. Qed.
Lemma no_tab_sp : no_tab " ".  Proof. reflexivity. Qed.

Definition Canon (r : string) : Prop :=
  no_tab r /\ Lhead is_crlf r /\ Llast is_crlf r
  /\ (starts_sp r = true -> exists x, r = String " " x /\ Lhead is_ws x)
  /\ (ends_sp r = true -> exists y, r = snoc y " " /\ Llast is_ws y).

Lemma canon_fixed r : Canon r -> fmt_data r = r.
Proof.
  intros (H1 & H2 & H3 & H4 & H5). unfold fmt_data. rewrite (tab2sp_id r H1). unfold strip_by. rewrite (lstrip_id _ r H2), (rstrip_id _ r H3).
  assert (E2 : (if starts_sp r then " " +++ lstrip r else r) = r).
  { destruct (starts_sp r) eqn:E; auto. destruct (H4 eq_refl) as (x & -> & Hx). unfold lstrip. cbn [lstrip_by]. change (is_ws " ") with true. cbn iota.
    rewrite (lstrip_id _ x Hx). reflexivity. }
  rewrite E2. destruct (ends_sp r) eqn:E; auto. destruct (H5 eq_refl) as (y & -> & Hy). unfold rstrip. rewrite rstrip_snoc. change (is_ws " ") with true. cbn iota.
  rewrite (rstrip_id _ y Hy). reflexivity.
Qed.

Lemma fmt_canon d : Canon (fmt_data d).
Proof.
  unfold fmt_data. set (d1 := strip_by is_crlf (tab2sp d)).
  assert (T1 : no_tab d1) by (apply no_tab_rstrip, no_tab_lstrip, tab2sp_no_tab).
  assert (A1 : Lhead is_crlf d1) by (apply Lhead_rstrip, Lhead_lstrip).
  assert (B1 : Llast is_crlf d1) by apply Llast_rstrip.
  set (d2 := if starts_sp d1 then " " +++ lstrip d1 else d1).
  assert (S2 : no_tab d2 /\ Lhead is_crlf d2 /\ Llast is_crlf d2 /\ (starts_sp d2 = true -> exists x, d2 = String " " x /\ Lhead is_ws x)).
  { unfold d2. destruct (starts_sp d1) eqn:E.
    - change (" " +++ lstrip d1) with (String " " (lstrip d1)). repeat split.
      + change (no_tab (" " +++ lstrip d1)). apply no_tab_app. split; [exact no_tab_sp|]. now apply no_tab_lstrip.
      + destruct (lstrip d1) eqn:El; [reflexivity|]. apply Llast_cons; [discriminate|]. rewrite <- El. now apply Llast_lstrip.
      + intros _. exists (lstrip d1). split; auto. apply Lhead_lstrip.
    - repeat split; auto. intros H. congruence. }
  clearbody d2. clear d1 T1 A1 B1. destruct S2 as (T2 & A2 & B2 & P2).
  destruct (ends_sp d2) eqn:E.
  2:{ repeat split; auto. intros H. congruence. }
  change (rstrip d2 +++ " ") with (snoc (rstrip d2) " "). split; [|split; [|split; [|split]]].
  - apply no_tab_app. split; [now apply no_tab_rstrip|exact no_tab_sp].
  - destruct (rstrip d2) eqn:Er; [reflexivity|]. change (Lhead is_crlf (String a s)). rewrite <- Er. now apply Lhead_rstrip.
  - apply Llast_snoc. reflexivity.
  - intros Hs. destruct d2 as [|c x0].
    + exists "". split; reflexivity.
    + unfold rstrip in *. rewrite rstrip_cons in *. destruct (rstrip_by is_ws x0) eqn:Er.
      * destruct (is_ws c) eqn:Ec.
        -- exists "". split; reflexivity.
        -- simpl in Hs. apply sp_ws in Hs. congruence.
      * simpl in Hs. pose proof (sp_eq _ Hs) as ->. exists (snoc (String a s) " "). split; [reflexivity|].
        pose proof (Lhead_rstrip is_ws is_ws x0) as Hh. destruct (P2 eq_refl) as (x' & Hx' & Hw). injection Hx' as <-.
        specialize (Hh Hw). rewrite Er in Hh. exact Hh.
  - intros _. exists (rstrip d2). split; auto. apply Llast_rstrip.
Qed.

Theorem fmt_data_idempotent d : fmt_data (fmt_data d) = fmt_data d.
Proof. apply canon_fixed, fmt_canon. Qed.
