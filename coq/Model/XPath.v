(* XPath.v — the XPath engine (xpath/expression.py evaluate, operation.py applyFunction, _filters.py / _axes.py step functions,
   _body.py BodyLevel.evaluateLevelForTags: generators and groups first, then three left-to-right passes over the flat level:
   operations, comparisons, boolean operations; BodyLevel_Top.filterTagsByBody; value classes and their conversions).
   Expressions enter as ASTs; the flat level the text parser builds from the printed AST is computed by [level], with the
   printer's parenthesisation rule ([bare]); a parenthesised operand is a group, evaluated on its own before the passes.
   Numbers are a parameter (IEEE doubles in the implementation; Coq primitive floats in the correspondence run). *)
From AHP Require Import Model.Base Model.Str Model.Attr Model.Dom Model.Search Model.Index Model.Passes Gen.Tables.

Inductive bop := OAdd | OSub | OMul | ODiv | OMod | OCat | OEq | ONe | OLt | OGt | OLe | OGe | OAnd | OOr.
(* the pass in which an operator is applied *)
Definition rank (o : bop) : nat :=
  match o with OAdd | OSub | OMul | ODiv | OMod | OCat => 0 | OEq | ONe | OLt | OGt | OLe | OGe => 1 | OAnd | OOr => 2 end.
(* the usual reading of the printed text (only used by the printer's rule) *)
Definition stdprec (o : bop) : nat :=
  match o with OOr => 1 | OAnd => 2 | OEq | ONe => 3 | OLt | OGt | OLe | OGe => 4 | OCat => 5 | OAdd | OSub => 6 | OMul | ODiv | OMod => 7 end.

Inductive xexpr :=
| XNum (n : nat) | XStr (s : string) | XAttr (a : string) | XText | XLast | XPos
| XNorm (o : option xexpr) | XContains (a b : xexpr) | XConcat (l : list xexpr) | XBin (o : bop) (a b : xexpr).

Section Engine.
  Variable num : Type.
  Variables nadd nsub nmul ndiv nmod : num -> num -> num.
  Variables neqb nltb nleb : num -> num -> bool.
  Variable nzero : num -> bool.
  Variable of_nat : nat -> num.
  Variable of_digits : string -> option num.         (* float(text) for the numeric strings of the domain *)

  Inductive xval := VNum (n : num) | VStr (s : string) | VBool (b : bool) | VNull | VErr.
  (* float(value) *)
  Definition to_num (v : xval) : option num :=
    match v with VNum n => Some n | VStr s => of_digits s | VBool b => Some (of_nat (if b then 1 else 0)) | VNull => None | VErr => None end.
  Definition raw_eq (a b : xval) : bool :=
    match a, b with
    | VStr s, VStr t => String.eqb s t
    | VNull, VNull => true
    | VBool x, VBool y => Bool.eqb x y
    | _, _ => false
    end.
  (* performOperation / doComparison / doBooleanOp; an exception is the absorbing value VErr *)
  Definition app (o : bop) (a b : xval) : xval :=
    match a, b with
    | VErr, _ | _, VErr => VErr
    | _, _ =>
      match o with
      | OAdd | OSub | OMul | ODiv | OMod =>
          match to_num a, to_num b with
          | Some x, Some y =>
              match o with
              | OAdd => VNum (nadd x y) | OSub => VNum (nsub x y) | OMul => VNum (nmul x y)
              | ODiv => if nzero y then VErr else VNum (ndiv x y)
              | _ => if nzero y then VErr else VNum (nmod x y)
              end
          | _, _ => VErr
          end
      | OCat => match a, b with VStr s, VStr t => VStr (s +++ t) | _, _ => VErr end
      | OEq | ONe =>
          let r := match to_num a, to_num b with Some x, Some y => neqb x y | _, _ => raw_eq a b end in
          VBool (match o with OEq => r | _ => negb r end)
      | OLt | OGt | OLe | OGe =>
          match to_num a, to_num b with
          | Some x, Some y => VBool (match o with OLt => nltb x y | OGt => nltb y x | OLe => nleb x y | _ => nleb y x end)
          | _, _ => VErr
          end
      | OAnd | OOr => match a, b with VBool x, VBool y => VBool (match o with OAnd => x && y | _ => x || y end) | _, _ => VErr end
      end
    end.

  (* what a generator reads of the current element *)
  Record ctx := { c_attr : string -> option string; c_text : string; c_last : nat; c_pos : nat }.

  (* str(value) as used by contains(); numbers are outside the modelled fragment (float repr) *)
  Definition str_of (v : xval) : option string :=
    match v with VStr s => Some s | VNull => Some "" | VBool b => Some (if b then "True" else "False") | _ => None end.
  Definition f_norm (v : xval) : xval := match v with VStr s => VStr (strip s) | VNull => VStr "" | _ => VErr end.
  Definition f_contains (a b : xval) : xval :=
    match str_of a, str_of b with Some x, Some y => VBool (containsb y x) | _, _ => VErr end.
  Definition f_concat (vs : list xval) : xval :=
    fold_left (fun acc v => match acc, v with
                            | VStr s, VStr t => VStr (s +++ t)
                            | VStr s, VNull => VStr s
                            | _, _ => VErr end) vs (VStr "").
  Definition atom (c : ctx) (e : xexpr) : xval :=
    match e with
    | XNum n => VNum (of_nat n)
    | XStr s => VStr s
    | XAttr a => match c_attr c a with Some v => VStr v | None => VNull end
    | XText => VStr (c_text c)
    | XLast => VNum (of_nat (c_last c))
    | XPos => VNum (of_nat (c_pos c))
    | XNorm None => VStr (strip (c_text c))
    | _ => VErr
    end.

  (* ---- the semantics an expression denotes ---- *)
  Fixpoint denote (c : ctx) (e : xexpr) {struct e} : xval :=
    match e with
    | XNorm (Some a) => f_norm (denote c a)
    | XContains a b => f_contains (denote c a) (denote c b)
    | XConcat l => f_concat ((fix go (l : list xexpr) := match l with [] => [] | x :: r => denote c x :: go r end) l)
    | XBin o a b => app o (denote c a) (denote c b)
    | _ => atom c e
    end.

  (* ---- the evaluator of the code ---- *)
  Definition item := Passes.item xval bop.
  Definition passes (l : list item) : Passes.pres xval bop := Passes.passes xval bop rank app l.

  (* the printer's rule: an operand that is itself an operator expression stays bare when the flat evaluation and the usual
     reading both give the tree; otherwise it is parenthesised and becomes a group *)
  Definition bare (x : xexpr) (o : bop) (left : bool) : bool :=
    match x with
    | XBin o' _ _ => Nat.ltb (rank o') (rank o) || (left && Nat.eqb (rank o') (rank o) && Nat.leb (stdprec o) (stdprec o'))
    | _ => false
    end.
  (* the flat level of an operator expression; ev evaluates atoms, function calls and groups *)
  Fixpoint level (ev : xexpr -> xval) (e : xexpr) {struct e} : list item :=
    match e with
    | XBin o a b => (if bare a o true then level ev a else [V (ev a)]) ++ O o :: (if bare b o false then level ev b else [V (ev b)])
    | _ => [V (ev e)]
    end.
  Fixpoint depth (e : xexpr) : nat :=
    match e with
    | XNorm (Some a) => S (depth a)
    | XContains a b => S (Nat.max (depth a) (depth b))
    | XConcat l => S ((fix go (l : list xexpr) := match l with [] => 0 | x :: r => Nat.max (depth x) (go r) end) l)
    | XBin _ a b => S (Nat.max (depth a) (depth b))
    | _ => 1
    end.
  (* evaluateLevelForTag: fuel bounds the nesting of groups and function arguments; depth e suffices (theorem eval_denote) *)
  Fixpoint eval (fuel : nat) (c : ctx) (e : xexpr) {struct fuel} : xval :=
    match fuel with
    | 0 => VErr
    | S k =>
        match e with
        | XBin _ _ _ => match passes (level (eval k c) e) with POk [V v] => v | _ => VErr end
        | XNorm (Some a) => f_norm (eval k c a)
        | XContains a b => f_contains (eval k c a) (eval k c b)
        | XConcat l => f_concat (map (eval k c) l)
        | _ => atom c e
        end
    end.

  (* BodyLevel_Top.filterTagsByBody for one element: a boolean keeps or drops; a number n keeps the element that is the n-th
     among its same-named siblings; anything else is an error *)
  Inductive keep := KYes | KNo | KErr.
  Definition keep_of (c : ctx) (v : xval) : keep :=
    match v with
    | VBool true => KYes | VBool false => KNo
    | VNum n => if neqb n (of_nat (c_pos c)) then KYes else KNo
    | _ => KErr
    end.

  (* ---- steps ---- *)
  Inductive axis := AChild | ADesc | ADescSelf | AParent | AAnc | AAncSelf.
  Definition xstep := (bool * option axis * string * list xexpr)%type.       (* '//' ?, axis, name test, predicates *)

  Section Doc.
    Variable doc : tag.
    Definition parent_elem (t : tag) : option tag := match parent (hd_ t) with Some p => find p doc | None => None end.
    Fixpoint ancestors (fuel : nat) (t : tag) : list tag :=
      match fuel with 0 => [] | S k => match parent_elem t with Some p => p :: ancestors k p | None => [] end end.
    Definition name_ok (nm : string) (t : tag) : bool := String.eqb nm "*" || String.eqb (name (hd_ t)) nm.
    Definition same_named_siblings (t : tag) : list tag :=
      match parent_elem t with Some p => filter (fun c => String.eqb (name (hd_ c)) (name (hd_ t))) (kids p) | None => [t] end.
    Fixpoint index_of_uid (u : nat) (l : list tag) (i : nat) : nat :=
      match l with [] => i | x :: r => if Nat.eqb (tuid x) u then i else index_of_uid u r (S i) end.
    Definition ctx_of (t : tag) : ctx :=
      {| c_attr := fun a => if hasAttribute a (attrs (hd_ t))
                            then Some (match attr_of t a with PStr v => v | PNone => "None" | PTrue => "True" | PFalse => "False" end)
                            else None;
         c_text := text (hd_ t);
         c_last := length (same_named_siblings t);
         c_pos := S (index_of_uid (tuid t) (same_named_siblings t) 0) |}.
    (* the step functions of _filters.py *)
    Definition select (first : bool) (st : xstep) (t : tag) : list tag :=
      let '(dbl, ax, nm, _) := st in
      let self := if name_ok nm t then [t] else [] in
      let size := length (all_nodes doc) in
      match ax with
      | None => (if first then self else []) ++ filter (name_ok nm) (if dbl then descendants t else kids t)
      | Some AChild => filter (name_ok nm) (kids t)
      | Some ADesc => filter (name_ok nm) (descendants t)
      | Some ADescSelf => self ++ filter (name_ok nm) (descendants t)
      | Some AParent => match parent_elem t with Some p => if name_ok nm p then [p] else [] | None => [] end
      | Some AAnc => filter (name_ok nm) (ancestors size t)
      | Some AAncSelf => self ++ filter (name_ok nm) (ancestors size t)
      end.
    (* TagCollection(...) keeps first occurrences: Search.dedup_tags *)
    Inductive xres := XOk (l : list tag) | XErr.
    (* one predicate over the current collection: every element is evaluated (an error anywhere aborts) *)
    Fixpoint filter_pred (p : xexpr) (l : list tag) : xres :=
      match l with
      | [] => XOk []
      | t :: r => match keep_of (ctx_of t) (eval (depth p) (ctx_of t) p), filter_pred p r with
                  | KErr, _ | _, XErr => XErr
                  | KYes, XOk l' => XOk (t :: l')
                  | KNo, XOk l' => XOk l'
                  end
      end.
    Fixpoint apply_preds (ps : list xexpr) (l : list tag) : xres :=
      match ps with
      | [] => XOk l
      | p :: r => match l with
                  | [] => XOk []                          (* an empty collection ends the evaluation *)
                  | _ => match filter_pred p l with XOk l' => apply_preds r (dedup_tags l') | XErr => XErr end
                  end
      end.
    Fixpoint run_steps (first : bool) (sts : list xstep) (cur : list tag) : xres :=
      match sts with
      | [] => XOk cur
      | st :: r =>
          match dedup_tags (flat_map (select first st) cur) with
          | [] => XOk []
          | nxt => match apply_preds (snd st) nxt with
                   | XOk [] => XOk []
                   | XOk l => run_steps false r l
                   | XErr => XErr
                   end
          end
      end.
    Definition run (sts : list xstep) (roots : list tag) : xres := run_steps true sts (dedup_tags roots).
  End Doc.
End Engine.
