(* The flat three-pass evaluation of an admissible layout of an expression tree gives the value the tree denotes (C14).
   A layout is admissible when every operand that appears without parentheses binds tighter than its operator (applied in an
   earlier pass), or - on the left only - equally tight (same pass: left to right). *)
From Coq Require Import List Bool Arith Lia.
Import ListNotations.
From AHP Require Import Model.Passes.

Section PassesProofs.
Variable val : Type.
Variable op : Type.
Variable rank : op -> nat.
Variable app : op -> val -> val -> val.
Notation item := (Passes.item val op).
Notation pass := (Passes.pass val op rank app).
Notation passes := (Passes.passes val op rank app).

Inductive expr := Atom (v : val) | Bin (o : op) (a b : expr).
Fixpoint denote (e : expr) : val := match e with Atom v => v | Bin o a b => app o (denote a) (denote b) end.

(* (partially reduced) flat layouts: a value stands for an atom, a resolved level, or an already reduced subexpression *)
Inductive flay : expr -> list item -> Prop :=
| fl_val e : flay e [V (denote e)]
| fl_bin o a b la lb : fopd true o a la -> fopd false o b lb -> flay (Bin o a b) (la ++ O o :: lb)
with fopd : bool -> op -> expr -> list item -> Prop :=
| fo_val isl o e : fopd isl o e [V (denote e)]
| fo_tighter isl o o' a b l : rank o' < rank o -> flay (Bin o' a b) l -> fopd isl o (Bin o' a b) l
| fo_left o o' a b l : rank o' = rank o -> flay (Bin o' a b) l -> fopd true o (Bin o' a b) l.

Scheme flay_mut := Minimality for flay Sort Prop
  with fopd_mut := Minimality for fopd Sort Prop.


Definition ops_ge (c : nat) (l : list item) := forall o, In (O o) l -> c <= rank o.
Definition ops_gt (c : nat) (l : list item) := forall o, In (O o) l -> c < rank o.
Definition top_le (c : nat) (e : expr) := match e with Atom _ => True | Bin o _ _ => rank o <= c end.

Lemma ops_ge_app c a b : ops_ge c (a ++ b) <-> ops_ge c a /\ ops_ge c b.
Proof. unfold ops_ge. split. - intros H; split; intros o Hi; apply H, in_or_app; auto.
  - intros [Ha Hb] o Hi. apply in_app_or in Hi as [Hi|Hi]; auto. Qed.
Lemma ops_gt_app c a b : ops_gt c (a ++ b) <-> ops_gt c a /\ ops_gt c b.
Proof. unfold ops_gt. split. - intros H; split; intros o Hi; apply H, in_or_app; auto.
  - intros [Ha Hb] o Hi. apply in_app_or in Hi as [Hi|Hi]; auto. Qed.
Lemma ops_gt_val c v : ops_gt c [V v].
Proof. intros o [H|[]]; discriminate. Qed.

Lemma flay_bin_inv o a b l : flay (Bin o a b) l -> l = [V (denote (Bin o a b))] \/ In (O o) l.
Proof. intros H. inversion H; subst; auto. right. apply in_or_app. right. left. reflexivity. Qed.

Definition Goal_flay (c : nat) (e : expr) (l : list item) :=
  ops_ge c l -> exists l', (forall rest acc, pass c (l ++ rest) acc = pass c rest (rev l' ++ acc))
                      /\ flay e l' /\ ops_gt c l' /\ (top_le c e -> l' = [V (denote e)]).
Definition Goal_fopd (c : nat) (isl : bool) (o : op) (e : expr) (l : list item) :=
  ops_ge c l -> exists l', (forall rest acc, pass c (l ++ rest) acc = pass c rest (rev l' ++ acc))
                      /\ fopd isl o e l' /\ ops_gt c l'
                      /\ (rank o = c -> l' = [V (denote e)] /\ (isl = false -> l = [V (denote e)])).

Lemma pass_step c : forall e l, flay e l -> Goal_flay c e l.
Proof.
  apply (flay_mut (Goal_flay c) (Goal_fopd c)); unfold Goal_flay, Goal_fopd.
  - (* value *) intros e _. exists [V (denote e)]. repeat split; auto using ops_gt_val. constructor.
  - (* bin *) intros o a b la lb _ IHa _ IHb Hge.
    apply ops_ge_app in Hge as [Hga Hgb].
    assert (Hgo : c <= rank o) by (apply Hgb; left; reflexivity).
    assert (Hgb' : ops_ge c lb) by (intros o' Hi; apply Hgb; right; exact Hi).
    destruct (IHa Hga) as (la' & Pa & Fa & Ga & Ea).
    destruct (IHb Hgb') as (lb' & Pb & Fb & Gb & Eb).
    destruct (Nat.eqb (rank o) c) eqn:E.
    + apply Nat.eqb_eq in E. destruct (Ea E) as [Ela _]. destruct (Eb E) as [Elb' Elb]. specialize (Elb eq_refl). subst la' lb.
      exists [V (denote (Bin o a b))]. repeat split; auto using ops_gt_val.
      * intros rest acc. rewrite <- app_assoc. rewrite Pa. simpl. rewrite E, Nat.eqb_refl. reflexivity.
      * constructor.
    + apply Nat.eqb_neq in E.
      exists (la' ++ O o :: lb'). repeat split.
      * intros rest acc. rewrite <- app_assoc. rewrite Pa. simpl.
        destruct (Nat.eqb (rank o) c) eqn:E2; [apply Nat.eqb_eq in E2; contradiction|].
        rewrite Pb. rewrite rev_app_distr. simpl. rewrite <- !app_assoc. reflexivity.
      * constructor; assumption.
      * apply ops_gt_app. split; auto. intros o' [H|H]; [inversion H; subst; lia | auto].
      * simpl. intros Hle. lia.
  - (* fo_val *) intros isl o e _. exists [V (denote e)]. repeat split; auto using ops_gt_val. constructor.
  - (* fo_tighter *) intros isl o o' a b l Hlt Hfl IH Hge.
    destruct (IH Hge) as (l' & P & F & G & E).
    assert (Hc : rank o = c -> l = [V (denote (Bin o' a b))]).
    { intros Hc. destruct (flay_bin_inv _ _ _ _ Hfl) as [H|H]; auto. apply Hge in H. lia. }
    destruct (le_lt_dec (rank o') c) as [Hle|Hgt].
    + specialize (E Hle). subst l'. exists [V (denote (Bin o' a b))]. repeat split; auto using ops_gt_val. constructor.
    + exists l'. repeat split; auto. constructor; auto. lia.
  - (* fo_left *) intros o o' a b l Heq Hfl IH Hge.
    destruct (IH Hge) as (l' & P & F & G & E).
    destruct (le_lt_dec (rank o') c) as [Hle|Hgt].
    + specialize (E Hle). subst l'. exists [V (denote (Bin o' a b))]. repeat split; auto using ops_gt_val. constructor. discriminate.
    + exists l'. repeat split; auto. apply fo_left; auto. lia. discriminate.
Qed.

(* three passes: ranks 0,1,2 *)
Hypothesis rank_le2 : forall o, rank o <= 2.

Theorem passes_correct e l : flay e l -> passes l = POk [V (denote e)].
Proof.
  intros H0. unfold passes.
  destruct (pass_step 0 e l H0) as (l1 & P1 & F1 & G1 & _). { intros o _. lia. }
  specialize (P1 [] []). rewrite !app_nil_r in P1. rewrite P1. simpl. rewrite rev_involutive.
  destruct (pass_step 1 e l1 F1) as (l2 & P2 & F2 & G2 & _). { intros o Hi. apply G1 in Hi. lia. }
  specialize (P2 [] []). rewrite !app_nil_r in P2. rewrite P2. simpl. rewrite rev_involutive.
  destruct (pass_step 2 e l2 F2) as (l3 & P3 & F3 & G3 & E3). { intros o Hi. apply G2 in Hi. lia. }
  specialize (P3 [] []). rewrite !app_nil_r in P3. rewrite P3. simpl. rewrite rev_involutive.
  rewrite E3; auto. destruct e; simpl; auto.
Qed.
End PassesProofs.
