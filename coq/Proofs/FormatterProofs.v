(* Proofs about Model/Formatter.v (C11, C12). *)
From AHP Require Import Model.Base Model.Str Model.Attr Model.Dom Model.Serial Model.Parser Model.Formatter Gen.Tables
     Proofs.DomProofs Proofs.ParserProofs.

Definition fname (f : frame) : string := name (fh f).
Definition not_wrapper (f : frame) : bool := negb (String.eqb (fname f) invisible_root_tag).
Definition is_pre_frame (f : frame) : bool := is_preformatted (fname f).
Definition count (p : frame -> bool) (l : list frame) : nat := length (filter p l).

(* the reserved wrapper name occurs at most at the bottom of the stack *)
Fixpoint NWs (l : list frame) : Prop :=
  match l with [] => True | f :: r => (r <> [] -> not_wrapper f = true) /\ NWs r end.

(* C12: the two counters are functions of the open-element stack, at every point of every run *)
Definition FInv (s : fstate) : Prop :=
  flevel s = count not_wrapper (pstk (fps s)) /\ finpre s = count is_pre_frame (pstk (fps s))
  /\ (has_root (fps s) = false -> pstk (fps s) = []) /\ NWs (pstk (fps s)).

Lemma push_block_names b l : map fname (push_block b l) = map fname l.
Proof. destruct l as [|f r]; simpl; auto. destruct b; reflexivity. Qed.
Lemma count_names p q l : forall l', (forall f g, fname f = fname g -> p f = q g) -> map fname l = map fname l' -> count p l = count q l'.
Proof.
  induction l as [|f l IH]; destruct l' as [|g l']; simpl; intros H E; try discriminate; auto.
  inversion E. unfold count in *. simpl. rewrite (H f g) by auto. specialize (IH l' H H2). destruct (q g); simpl; auto.
Qed.
Lemma count_push_block p b l : (forall f g, fname f = fname g -> p f = p g) -> count p (push_block b l) = count p l.
Proof. intros H. apply count_names; auto. apply push_block_names. Qed.
Lemma nw_ext f g : fname f = fname g -> not_wrapper f = not_wrapper g. Proof. unfold not_wrapper. now intros ->. Qed.
Lemma pre_ext f g : fname f = fname g -> is_pre_frame f = is_pre_frame g. Proof. unfold is_pre_frame. now intros ->. Qed.
Lemma NWs_names l : forall l', map fname l = map fname l' -> NWs l -> NWs l'.
Proof.
  induction l as [|f l IH]; destruct l' as [|g l']; simpl; intros E H; try discriminate; auto.
  inversion E as [[E1 E2]]. destruct H as [Ha Hb]. split; [|eapply IH; eauto].
  intros Hne. rewrite <- (nw_ext f g) by auto. apply Ha. destruct l; [destruct l'; [congruence|discriminate]|discriminate].
Qed.
Lemma has_name_names n l : forall l', map fname l = map fname l' -> has_name n l = has_name n l'.
Proof.
  induction l as [|f l IH]; destruct l' as [|g l']; simpl; intros E; try discriminate; auto.
  inversion E as [[E1 E2]]. unfold fname in E1. rewrite E1. f_equal. auto.
Qed.

Lemma FInv_top_append x s : pstk (fps s) <> [] -> FInv s -> FInv (with_ps s (top_append_text x (fps s))).
Proof.
  intros Hne (H1 & H2 & H3 & H4). unfold FInv, with_ps, top_append_text, with_stk. cbn [fps flevel finpre pstk has_root].
  rewrite !count_push_block; auto using nw_ext, pre_ext. split; auto. split; auto. split.
  - intros Hr. specialize (H3 Hr). congruence.
  - eapply NWs_names; [|exact H4]. symmetry. apply push_block_names.
Qed.

Lemma pop_frame_stk p f r : pstk p = f :: r -> map fname (pstk (pop_frame p)) = map fname r.
Proof. intros E. unfold pop_frame. rewrite E. destruct r as [|g r']; simpl; auto. Qed.
Lemma pop_frame_root p : has_root (pop_frame p) = has_root p.
Proof. unfold pop_frame. destruct (pstk p) as [|f [|g r]]; reflexivity. Qed.

Lemma FInv_pop_until n : forall k s, has_root (fps s) = true -> has_name n (pstk (fps s)) = true -> FInv s -> FInv (fpop_until k n s).
Proof.
  induction k as [|k IH]; intros s Hroot Hhas H; simpl; auto.
  destruct (pstk (fps s)) as [|f r] eqn:E; auto.
  destruct H as (H1 & H2 & H3 & H4). rewrite E in H1, H2, H4. unfold count in H1, H2. simpl in H1, H2. destruct H4 as [H4 H5].
  assert (Hmap : map fname (pstk (pop_frame (fps s))) = map fname r) by (now apply pop_frame_stk with (f := f)).
  assert (Hr : forall p, (forall a b, fname a = fname b -> p a = p b) -> count p (pstk (pop_frame (fps s))) = count p r).
  { intros p Hp. apply count_names; auto. }
  assert (Hroot' : has_root (pop_frame (fps s)) = true) by (now rewrite pop_frame_root).
  assert (Hnw : NWs (pstk (pop_frame (fps s)))) by (eapply NWs_names; [symmetry; exact Hmap | exact H5]).
  destruct (String.eqb (name (fh f)) n) eqn:En.
  - apply String.eqb_eq in En. split; [|split; [|split]]; cbn [fps flevel finpre]; auto.
    + rewrite (Hr _ nw_ext). assert (Ew : not_wrapper f = negb (String.eqb n invisible_root_tag)) by (unfold not_wrapper, fname; now rewrite En).
      rewrite Ew in H1. destruct (String.eqb n invisible_root_tag); simpl in H1; unfold count; lia.
    + rewrite (Hr _ pre_ext). assert (Ew : is_pre_frame f = is_preformatted n) by (unfold is_pre_frame, fname; now rewrite En).
      rewrite Ew in H2. destruct (is_preformatted n); simpl in H2; unfold count; lia.
    + rewrite Hroot'. discriminate.
  - simpl in Hhas. rewrite En in Hhas. simpl in Hhas.
    assert (Hrne : r <> []) by (destruct r; [discriminate|discriminate]).
    specialize (H4 Hrne). rewrite H4 in H1. simpl in H1.
    apply IH; [exact Hroot'| cbn [fps]; rewrite (has_name_names n _ r Hmap); exact Hhas |].
    split; [|split; [|split]]; cbn [fps flevel finpre]; auto.
    + rewrite (Hr _ nw_ext). unfold count. lia.
    + rewrite (Hr _ pre_ext). assert (Ew : is_pre_frame f = is_preformatted (name (fh f))) by reflexivity.
      rewrite Ew in H2. destruct (is_preformatted (name (fh f))); simpl in H2; unfold count; lia.
    + rewrite Hroot'. discriminate.
Qed.

(* tokens that do not mention the reserved name, except for the wrapper's own start on an empty stack *)
Definition fok (s : fstate) (t : token) : bool := tok_ok t || match pstk (fps s) with [] => true | _ => false end.

(* what a start tag does to the stack (names only) and to the counters *)
Lemma fhandle_start_effect c s n a selfc s' : (has_root (fps s) = false -> pstk (fps s) = []) ->
  fhandle_start c s n a selfc = POk s' ->
  has_root (fps s') = true /\
  (if selfc || is_void (lower n)
   then map fname (pstk (fps s')) = map fname (pstk (fps s)) /\ flevel s' = flevel s /\ finpre s' = finpre s
   else map fname (pstk (fps s')) = lower n :: map fname (pstk (fps s))
        /\ flevel s' = (if String.eqb (lower n) invisible_root_tag then flevel s else S (flevel s))
        /\ finpre s' = (if is_preformatted (lower n) then S (finpre s) else finpre s)).
Proof.
  intros Hinv. unfold fhandle_start.
  destruct (has_root (fps s)) eqn:Er; cbn [negb].
  - destruct (pstk (fps s)) as [|f r] eqn:E; [discriminate|].
    destruct (selfc || is_void (lower n)); intros H0; injection H0 as <-; cbn [fps flevel finpre pstk has_root]; (split; [reflexivity|]).
    + split; [cbn [map]; f_equal; reflexivity | auto].
    + split; [|auto]. cbn [map]. f_equal. unfold fname. cbn [fh]. destruct (finpre s =? 0); reflexivity.
  - rewrite (Hinv eq_refl).
    destruct (selfc || is_void (lower n)); intros H0; injection H0 as <-; cbn [fps flevel finpre pstk has_root]; (split; [reflexivity|]).
    + auto.
    + split; [|auto]. cbn [map]. f_equal. unfold fname. cbn [fh]. destruct (finpre s =? 0); reflexivity.
Qed.

Lemma count_cons p f l : count p (f :: l) = (if p f then 1 else 0) + count p l.
Proof. unfold count. simpl. destruct (p f); reflexivity. Qed.

Theorem fstep_FInv c s t s' : fok s t = true -> FInv s -> fstep c s t = POk s' -> FInv s'.
Proof.
  intros Hok H. destruct t; simpl.
  - intros H0. destruct H as (H1 & H2 & H3 & H4).
    destruct (fhandle_start_effect c s n a selfc s' H3 H0) as [Hr Heff].
    destruct (selfc || is_void (lower n)).
    + destruct Heff as (Em & El & Ep). split; [|split; [|split]].
      * rewrite El, H1. symmetry. apply count_names; auto using nw_ext.
      * rewrite Ep, H2. symmetry. apply count_names; auto using pre_ext.
      * rewrite Hr. discriminate.
      * eapply NWs_names; [symmetry; exact Em | exact H4].
    + destruct Heff as (Em & El & Ep).
      destruct (pstk (fps s')) as [|g l'] eqn:E'; [discriminate|]. cbn [map] in Em. injection Em as Eg El'.
      assert (Cn : forall p, (forall a b, fname a = fname b -> p a = p b) -> count p l' = count p (pstk (fps s))) by (intros p Hp; apply count_names; auto).
      unfold FInv. rewrite E'. split; [|split; [|split]].
      * rewrite count_cons, (Cn _ nw_ext), El, H1. unfold not_wrapper. rewrite Eg. destruct (String.eqb (lower n) invisible_root_tag); simpl; lia.
      * rewrite count_cons, (Cn _ pre_ext), Ep, H2. unfold is_pre_frame. rewrite Eg. destruct (is_preformatted (lower n)); simpl; lia.
      * rewrite Hr. discriminate.
      * cbn [NWs]. split; [|eapply NWs_names; [symmetry; exact El' | exact H4]].
        intros Hne. unfold not_wrapper. rewrite Eg. unfold fok in Hok.
        destruct (pstk (fps s)) as [|f r] eqn:E; [destruct l'; [congruence|discriminate]|].
        rewrite orb_false_r in Hok. simpl in Hok. exact Hok.
  - intros H0. inversion H0; subst. unfold fhandle_end. destruct (has_name n (pstk (fps s))) eqn:Eh; auto.
    apply FInv_pop_until; auto. destruct H as (_ & _ & H3 & _). destruct (has_root (fps s)) eqn:Er; auto.
    rewrite (H3 eq_refl) in Eh. discriminate.
  - destruct (String.eqb s0 ""); [intros H0; inversion H0; subst; auto|].
    destruct (pstk (fps s)) eqn:E; [destruct (String.eqb (strip s0) ""); [intros H0; inversion H0; subst; auto|discriminate]|].
    intros H0. inversion H0; subst. apply FInv_top_append; auto. rewrite E. discriminate.
  - unfold fin_root_text. destruct (pstk (fps s)) eqn:E; [discriminate|]. intros H0. inversion H0; subst. apply FInv_top_append; auto. rewrite E. discriminate.
  - unfold fin_root_text. destruct (pstk (fps s)) eqn:E; [discriminate|]. intros H0. inversion H0; subst. apply FInv_top_append; auto. rewrite E. discriminate.
  - unfold fin_root_text. destruct (pstk (fps s)) eqn:E; [discriminate|]. intros H0. inversion H0; subst. apply FInv_top_append; auto. rewrite E. discriminate.
  - intros H0. inversion H0; subst. exact H.
  - destruct (pdoctype (fps s)) as [x|]; [destruct (nonempty x)|]; intros H0; inversion H0; subst; exact H.
  - intros H0. inversion H0; subst. exact H.
Qed.

Lemma finit_FInv : FInv finit. Proof. repeat split; simpl; auto. Qed.
Theorem frun_FInv c ts : forallb tok_ok ts = true -> forall s s', FInv s -> frun c s ts = POk s' -> FInv s'.
Proof.
  induction ts as [|t ts IH]; intros Hok s s' H; simpl; [intros H0; inversion H0; subst; auto|].
  simpl in Hok. apply andb_true_iff in Hok as [H1 H2].
  destruct (fstep c s t) as [s1|e] eqn:E; [|discriminate]. apply IH; auto.
  eapply fstep_FInv; eauto. unfold fok. now rewrite H1.
Qed.
(* the wrapped second pass: the wrapper's own start tag arrives on an empty stack *)
Theorem frun_wrapped_FInv c body s' : forallb tok_ok body = true ->
  frun c finit (TStart reserved [] false :: body ++ [TEnd reserved]) = POk s' -> FInv s'.
Proof.
  intros Hok. cbn [frun]. destruct (fstep c finit (TStart reserved [] false)) as [s1|e] eqn:E; [|discriminate].
  assert (H1 : FInv s1) by (apply (fstep_FInv c finit (TStart reserved [] false) s1); [reflexivity | apply finit_FInv | exact E]).
  assert (G : forall ts s, FInv s -> forallb tok_ok ts = true -> frun c s (ts ++ [TEnd reserved]) = POk s' -> FInv s').
  { clear - c. induction ts as [|t ts IH]; intros s H Hok; simpl.
    - intros H0. inversion H0; subst. unfold fhandle_end. destruct (has_name reserved (pstk (fps s))) eqn:Eh; auto.
      apply FInv_pop_until; auto. destruct H as (_ & _ & H3 & _). destruct (has_root (fps s)) eqn:Er; auto. rewrite (H3 eq_refl) in Eh. discriminate.
    - simpl in Hok. apply andb_true_iff in Hok as [Ha Hb]. destruct (fstep c s t) as [s2|e] eqn:E; [|discriminate].
      apply IH; auto. eapply fstep_FInv; eauto. unfold fok. now rewrite Ha. }
  apply G; auto.
Qed.

(* C12: the indentation an element receives when it is created: line break + indent x (number of open non-wrapper ancestors)
   outside pre/code, nothing inside *)
Theorem indent_at_creation c s n a selfc s' : FInv s -> fhandle_start c s n a selfc = POk s' ->
  forall f r, selfc || is_void (lower n) = false -> pstk (fps s') = f :: r ->
  indent (fh f) = if count is_pre_frame (pstk (fps s)) =? 0
                  then get_indent c (count not_wrapper (pstk (fps s))) else "".
Proof.
  intros (H1 & H2 & H3 & _). unfold fhandle_start. rewrite H1, H2. intros H0 f r Hl.
  rewrite Hl in H0. destruct (has_root (fps s)) eqn:Er; cbn [negb] in H0.
  - destruct (pstk (fps s)) as [|g l] eqn:E; [discriminate|]. injection H0 as <-. cbn [fps pstk]. intros Hf. injection Hf as <- _.
    cbn [fh]. rewrite <- E. destruct (count is_pre_frame (pstk (fps s)) =? 0); reflexivity.
  - injection H0 as <-. cbn [fps pstk]. intros Hf. injection Hf as <- _. cbn [fh].
    destruct (count is_pre_frame (pstk (fps s)) =? 0); reflexivity.
Qed.
(* mini formatters never indent *)
Theorem mini_no_indent c level : cmini c = true -> get_indent c level = "".
Proof. intros H. unfold get_indent. now rewrite H. Qed.

(* C11: inside pre / code (at any depth) and directly inside script / style, text is appended verbatim *)
Theorem data_verbatim_inside_pre c s d f r : finpre s <> 0 -> d <> "" -> pstk (fps s) = f :: r ->
  fstep c s (TData d) = POk (with_ps s (top_append_text d (fps s))).
Proof.
  intros Hp Hd E. simpl. destruct (String.eqb d "") eqn:Ed; [apply String.eqb_eq in Ed; congruence|]. rewrite E.
  destruct (finpre s =? 0) eqn:E0; [apply Nat.eqb_eq in E0; congruence|]. reflexivity.
Qed.
Theorem data_verbatim_in_preserved c s d f r : d <> "" -> pstk (fps s) = f :: r -> is_preserve (name (fh f)) = true ->
  fstep c s (TData d) = POk (with_ps s (top_append_text d (fps s))).
Proof.
  intros Hd E Hn. simpl. destruct (String.eqb d "") eqn:Ed; [apply String.eqb_eq in Ed; congruence|]. rewrite E, Hn.
  rewrite andb_false_r. reflexivity.
Qed.
(* references and comments are appended verbatim everywhere *)
Theorem refs_comments_verbatim c s f r : pstk (fps s) = f :: r ->
  (forall e, fstep c s (TEntity e) = POk (with_ps s (top_append_text ("&" +++ e +++ ";") (fps s)))) /\
  (forall x, fstep c s (TChar x) = POk (with_ps s (top_append_text ("&#" +++ x +++ ";") (fps s)))) /\
  (forall x, fstep c s (TComment x) = POk (with_ps s (top_append_text ("<!--" +++ x +++ "-->") (fps s)))).
Proof. intros E. repeat split; intros; simpl; unfold fin_root_text; rewrite E; reflexivity. Qed.

(* C12: slim output differs from the normal one only in the last characters of start tags *)
Definition normal_of (c : cfg) : cfg := {| cindent := cindent c; cmini := cmini c; cslim := false; cslimsc := false |}.
Theorem fstart_tag_normal c h : cslim c = false -> fstart_tag c h = start_tag h.
Proof. intros H. unfold fstart_tag, start_tag. rewrite H. reflexivity. Qed.
Theorem fouter_normal c : cslim c = false -> forall t, fouter c t = outer_html t.
Proof.
  intros H. induction t as [h bs IH] using tag_ind'. simpl. rewrite (fstart_tag_normal c h H). f_equal. f_equal.
  destruct (sc h); auto. induction bs as [|[s|x] bs IHb]; simpl in *; auto.
  - f_equal. apply IHb. exact IH.
  - inversion IH as [|? ? Hx IH']; subst. rewrite Hx. f_equal. apply IHb. exact IH'.
Qed.
Theorem slim_start_tag c h : cslim c = true ->
  exists body, start_tag h = body +++ (if sc h then " />" else " >") /\
               fstart_tag c h = body +++ (if sc h then (if cslimsc c then "/>" else " />") else ">").
Proof.
  intros H. unfold fstart_tag, start_tag. rewrite H. simpl.
  exists (indent h +++ "<" +++ name h +++ (if String.eqb (start_attrs (sync (attrs h))) "" then "" else " " +++ start_attrs (sync (attrs h)))).
  rewrite !append_assoc. split; reflexivity.
Qed.
(* the tree a slim formatter builds is the tree the normal formatter builds: only serialisation differs *)
Theorem slim_same_tree c ts : forall s, frun c s ts = frun (normal_of c) s ts.
Proof.
  induction ts as [|t ts IH]; intros s; simpl; auto.
  assert (E : fstep c s t = fstep (normal_of c) s t) by (destruct t; reflexivity).
  rewrite E. destruct (fstep (normal_of c) s t); auto.
Qed.
