(* C20: fragment APIs. *)
From AHP Require Import Model.Base Model.Str Model.Attr Model.Dom Model.Serial Model.Parser Model.Fragment Gen.Tables
     Proofs.DomProofs Proofs.ParserProofs.

(* re-owning / re-parenting an element does not change its serialisation *)
Lemma outer_html_set_owner o : forall t, outer_html (set_owner_rec o t) = outer_html t.
Proof.
  induction t as [h bs IH] using tag_ind'. simpl. unfold start_tag, end_tag. simpl. f_equal. f_equal.
  destruct (sc h); auto.
  induction bs as [|[s|c] bs IHb]; simpl in *; auto.
  - f_equal. apply IHb. exact IH.
  - inversion IH as [|? ? Hc IH']; subst. rewrite Hc. f_equal. apply IHb. exact IH'.
Qed.
Lemma outer_html_reparent p o c : outer_html (reparent p o c) = outer_html c.
Proof. unfold reparent. rewrite outer_html_set_owner. destruct c; reflexivity. Qed.

Lemma inner_unfold h bs : sc h = false -> inner_html (Tag h bs) = concat_s (map block_html bs).
Proof. intros H. simpl. now rewrite H. Qed.

Definition blocks_html (bs : list (block tag)) : string := concat_s (map block_html bs).

(* one appended block: the element is no longer self-closing and its inner HTML grows by the block's HTML *)
Lemma append_one_html b t : sc (hd_ (match b with BText s => appendText_here s t | BTag c => appendChild_here c t end)) = false /\
  blocks_html (bs_ (match b with BText s => appendText_here s t | BTag c => appendChild_here c t end)) = blocks_html (bs_ t) +++ block_html b.
Proof.
  destruct t as [h bs]. destruct b as [s|c]; simpl; split; auto; unfold blocks_html; rewrite map_app, concat_s_app; simpl.
  - now rewrite append_nil_r.
  - now rewrite append_nil_r, outer_html_reparent.
Qed.

(* appendInnerHTML = appending the fragment's blocks one by one: afterwards innerHTML is the previous block HTML followed by
   the serialisation of those nodes *)
Theorem appendBlocks_html : forall bs t, bs <> [] ->
  inner_html (appendBlocks_here bs t) = blocks_html (bs_ t) +++ blocks_html bs.
Proof.
  assert (G : forall bs t, sc (hd_ t) = false ->
            sc (hd_ (appendBlocks_here bs t)) = false /\ blocks_html (bs_ (appendBlocks_here bs t)) = blocks_html (bs_ t) +++ blocks_html bs).
  { induction bs as [|b bs IH]; intros t Hs; simpl.
    - split; auto. unfold blocks_html. simpl. now rewrite append_nil_r.
    - destruct (append_one_html b t) as [H1 H2].
      destruct (IH _ H1) as [I1 I2]. split; auto. unfold appendBlocks_here in *. simpl. rewrite I2, H2.
      unfold blocks_html. simpl. now rewrite append_assoc. }
  intros bs t Hne. destruct bs as [|b bs]; [congruence|].
  destruct (append_one_html b t) as [H1 H2]. destruct (G bs _ H1) as [I1 I2].
  unfold appendBlocks_here in *. simpl fold_left.
  remember (fold_left _ bs _) as r. destruct r as [h' bs']. simpl in I1. rewrite inner_unfold by exact I1.
  simpl in I2. fold (blocks_html bs'). rewrite I2, H2. unfold blocks_html. simpl. now rewrite append_assoc.
Qed.

(* every appended element gets the target as parent and the target's document as owner; the invariant of C04 is kept *)
Theorem appendBlocks_WF : forall bs p o t, Forall (fun c => exists pc oc, WF pc oc c) (tags_of bs) -> WF p o t -> WF p o (appendBlocks_here bs t).
Proof.
  unfold appendBlocks_here. induction bs as [|b bs IH]; intros p o t Hb Hwf; simpl; auto.
  destruct b as [s|c]; simpl in Hb.
  - apply IH; auto. now apply appendText_here_WF.
  - inversion Hb as [|? ? (pc & oc & Hc) Hb']; subst. apply IH; auto. eapply appendChild_here_WF; eauto.
Qed.
Theorem appended_child_links c t : let t' := appendChild_here c t in
  exists c', In c' (tags_of (bs_ t')) /\ tuid c' = tuid c /\ parent (hd_ c') = Some (tuid t) /\ owner (hd_ c') = owner (hd_ t).
Proof.
  destruct t as [h bs]. simpl. exists (reparent (Some (uid h)) (owner h) c). split.
  - rewrite tags_of_app. apply in_or_app. right. simpl. auto.
  - split; [apply reparent_uid|]. unfold reparent. destruct c as [hc bc]. simpl. auto.
Qed.

(* createElement: detached, lower-cased, empty *)
Theorem createElement_spec u n : let t := createElement u n in
  parent (hd_ t) = None /\ owner (hd_ t) = None /\ name (hd_ t) = lower n /\ children (hd_ t) = [] /\ bs_ t = [BText ""] /\ WF None None t.
Proof. simpl. split; [reflexivity|]. split; [reflexivity|]. split; [reflexivity|]. split; [reflexivity|]. split; [reflexivity|]. apply new_leaf_WF. Qed.

(* the three constructors return the top-level nodes of the same parse *)
Theorem fragment_constructors_agree ts1 ts2 s : feed PPlain ts1 ts2 = POk s ->
  createElementsFromHTML ts1 ts2 = POk (root_nodes (tree_of s)) /\ createBlocksFromHTML ts1 ts2 = POk (top_blocks (tree_of s))
  /\ tags_of (top_blocks (tree_of s)) = root_nodes (tree_of s).
Proof.
  intros H. unfold createElementsFromHTML, createBlocksFromHTML. rewrite H. repeat split.
  unfold top_blocks, root_nodes, is_invisible. destruct (tree_of s) as [t|]; auto. destruct (String.eqb (name (hd_ t)) invisible_root_tag); reflexivity.
Qed.
(* a fragment whose first pass succeeds has exactly one top-level element, returned by createElementFromHTML *)
Theorem createElementFromHTML_single ts1 s : prun PPlain pinit ts1 = POk s ->
  createElementFromHTML ts1 = POk (tree_of s) /\ feed PPlain ts1 [] = POk s.
Proof. intros H. unfold createElementFromHTML, feed. rewrite H. auto. Qed.
Theorem createElementFromHTML_raises ts1 : prun PPlain pinit ts1 = PRaise XMultipleRoot -> createElementFromHTML ts1 = PRaise XMultipleRoot.
Proof. intros H. unfold createElementFromHTML. now rewrite H. Qed.
