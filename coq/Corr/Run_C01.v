(* Correspondence driver for C01. *)
From AHP Require Export Model.Base Model.Str Model.Attr Model.Dom Model.Serial Model.Parser Model.RoundTrip Corr.Run_Parse.

Inductive c01case :=
| CApi (t : stree) (d1 : list token * option (list token))
    (* tree built through the DOM API; recorded handler calls of parsing its outerHTML *)
| CParsed (d0 : list token * option (list token)) (has1 : bool) (d1 : list token * option (list token)).
    (* source document; recorded handler calls of parsing its getHTML() *)

Definition nl := String (ascii_of_nat 10) "".
(* what the tokenizer must deliver for the serialisation of this document *)
Definition expected_stream (r : tag) (d : option string) : list token :=
  match d with
  | Some x => if nonempty x then TDecl x :: chunk (PText nl :: doc_ptoks r) "" else chunk (doc_ptoks r) ""
  | None => chunk (doc_ptoks r) ""
  end.
Definition lex_flag (r : tag) (d : option string) (d1 : list token * option (list token)) : string :=
  let exp := expected_stream r d in
  let '(ts1, ots2) := d1 in
  let ok := match ots2 with
            | None => tokens_eqb ts1 exp
            | Some ts2 => match unwrap ts2 with Some body => tokens_eqb body exp | None => false end
            end in
  if ok then "LEX-OK" else "LEX-DIFFERS".

Definition sep := String (ascii_of_nat 31) "".
Definition run_C01 (c : c01case) : string :=
  match c with
  | CApi t d1 =>
      let r := fst (build_api t 0 None) in
      "S" +++ hex (outer_html r) +++ sep +++ parse_one PPlain true d1 +++ sep +++ lex_flag r None d1
  | CParsed d0 has1 d1 =>
      let first := parse_one PPlain true d0 in
      if has1 then
        match feed PPlain (fst d0) (match snd d0 with Some x => x | None => [] end) with
        | POk s => match tree_of s with
                   | Some r => first +++ sep +++ parse_one PPlain true d1 +++ sep +++ lex_flag r (pdoctype s) d1
                   | None => first
                   end
        | PRaise _ => first
        end
      else first
  end.
