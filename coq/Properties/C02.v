(* C02 — best-effort tree construction follows the token sequence.  The model (Model/Parser.v) consumes the handler calls
   the stdlib tokenizer makes; the open-element stack is a zipper.  Statements only; proofs in Proofs/ParserProofs.v. *)
From AHP Require Import Model.Base Model.Str Model.Attr Model.Dom Model.Serial Model.Search Model.Index Model.Parser Model.IndexedParser Gen.Tables
     Proofs.DomProofs Proofs.ParserProofs Proofs.IndexProofs Proofs.IndexedParserProofs.

(* end tags: ignored when no such element is open; closes exactly the innermost when it matches; otherwise closes what was
   opened inside the nearest open element of that name first *)
Theorem C02_end_ignored : forall s n, has_name n (pstk s) = false -> pstep PPlain s (TEnd n) = POk s.
Proof. exact end_tag_ignored. Qed.
Theorem C02_end_innermost : forall s n f r, pstk s = f :: r -> name (fh f) = n -> pstep PPlain s (TEnd n) = POk (pop_frame s).
Proof. exact end_tag_innermost. Qed.
Theorem C02_end_nearest : forall s n f r, pstk s = f :: r -> name (fh f) <> n -> has_name n r = true ->
  pstep PPlain s (TEnd n) = pstep PPlain (pop_frame s) (TEnd n).
Proof. exact end_tag_nearest. Qed.
(* void elements and self-closed tags never stay open *)
Theorem C02_leaf_never_open : forall s n a selfc s', (has_root s = false -> pstk s = []) -> selfc || is_void (lower n) = true ->
  pstep PPlain s (TStart n a selfc) = POk s' -> length (pstk s') = length (pstk s).
Proof. exact leaf_never_open. Qed.
(* attribute intake (lower-casing, invalid names dropped, last duplicate wins through the ordered map of C08) never fails *)
Theorem C02_intake_total : forall a s, snd (intake a s) = Attr.ROk.
Proof. exact intake_ok. Qed.
(* inside an open element no handler raises: text, references and comments are appended verbatim, in order *)
Theorem C02_inside_total : forall s t, pstk s <> [] -> has_root s = true -> exists s', pstep PPlain s t = POk s'.
Proof. exact pstep_plain_inside. Qed.
(* the tree of every accepted feed (any class, any token streams) satisfies the structural invariant of C04, owned by the parser *)
Theorem C02_tree_WF : forall cls ts1 ts2 s, feed cls ts1 ts2 = POk s ->
  match tree_of s with Some t => WF None the_doc t | None => True end.
Proof. exact feed_tree_WF. Qed.
(* the multi-root fallback: for every body without the reserved name the wrapped second pass is total *)
Theorem C02_multiroot_total : forall ts1 body, forallb tok_ok body = true -> exists s, feed PPlain ts1 (wrap body) = POk s.
Proof. exact feed_plain_total. Qed.

Example C02_ex :
  let ts := [TStart "DIV" [("ID", Some "a"); ("1x", Some "bad"); ("id", Some "b")] false; TStart "br" [] false; TData "x";
             TStart "span" [] false; TEntity "amp"; TEnd "div"; TEnd "p"] in
  match feed PPlain ts [] with
  | POk s => get_html (tree_of s) (pdoctype s) = Some "<div id=""b"" ><br />x<span >&amp;</span></div>"
  | PRaise _ => False
  end.
Proof. vm_compute. reflexivity. Qed.
Example C02_ex_multiroot :
  let body := [TDecl "DOCTYPE html"; TStart "p" [] false; TData "a"; TEnd "p"; TData "t"; TStart "p" [] false; TData "b"; TEnd "p"] in
  match feed PPlain body (wrap body) with
  | POk s => get_html (tree_of s) (pdoctype s) = Some ("<!DOCTYPE html>" +++ String (ascii_of_nat 10) "" +++ "<p >a</p>t<p >b</p>")
             /\ map tuid (root_nodes (tree_of s)) = [1; 2] /\ forallb tok_ok body = true
  | PRaise _ => False
  end.
Proof. vm_compute. auto. Qed.

(* elements are created in document order: the uids of the tree of any accepted feed are 0, 1, 2, ... in document order (so
   "uid" and "document-order rank" coincide on parsed documents - the convention of every correspondence run - and uids are unique) *)
Theorem C02_uids_are_document_ranks : forall cls ts1 ts2 s root, feed cls ts1 ts2 = POk s -> tree_of s = Some root ->
  uids_of root = seq 0 (pnext s) /\ NoDup (uids_of root).
Proof. exact parsed_uids_are_ranks. Qed.

