"""core.py - shared machinery of every check (DESIGN.md section 2).

pipeline:  translate -> make (full .vo build) -> source gate -> Print Assumptions audit
           -> known-findings replay -> generate cases -> run the real library (snapshots, oracle)
           -> evaluate the Gallina model on the same cases inside coqc (vm_compute)
           -> on any break: search for a failing input, report VIOLATION / KNOWN-FINDING
           -> write evidence/<id>.json
"""
import hashlib
import json
import os
import re
import shutil
import subprocess
import sys
import time
import fcntl
import random
from pathlib import Path

VERIF = Path(__file__).resolve().parent.parent
REPO = Path(os.environ.get('AHP_REPO', '/repo'))
COQ = VERIF / 'coq'
BUILD = VERIF / 'build'
EVID = VERIF / 'evidence'
REPLAYS = VERIF / 'replays'
NCPU = min(16, os.cpu_count() or 4)

TRUSTED_BASE_COMMON = [
    "Coq 8.16.1 kernel incl. vm_compute (no native_compute); coqchk in the thorough tier",
    "no axioms declared; Print Assumptions output of every theorem is parsed on every run",
    "hand-written Gallina model tied to /repo by in-kernel differential correspondence (harness: generators, "
    "implementation adapters, hex interchange, snapshot printers on both sides)",
    "no extraction (no Extract directives)",
]


def hx(s):
    """Python str/bytes -> lower-case hex of its UTF-8 bytes (DESIGN appendix C)."""
    if isinstance(s, str):
        s = s.encode('utf-8', 'surrogatepass')
    return s.hex()


def cs(s):
    """Coq term for a Python string: (unhex "..")."""
    return '(unhex "%s")' % hx(s)


def clist(items):
    return '[' + '; '.join(items) + ']'


def copt(x, f=cs):
    return 'None' if x is None else '(Some %s)' % f(x)


def cbool(b):
    return 'true' if b else 'false'


def run(cmd, timeout, cwd=None, env=None):
    t0 = time.time()
    try:
        p = subprocess.run(cmd, cwd=cwd, env=env, stdin=subprocess.DEVNULL, stdout=subprocess.PIPE,
                           stderr=subprocess.STDOUT, timeout=timeout, text=True, errors='replace')
        return p.returncode, p.stdout, time.time() - t0
    except subprocess.TimeoutExpired as e:
        out = e.stdout if isinstance(e.stdout, str) else (e.stdout or b'').decode('utf-8', 'replace')
        return 124, out + '\n[timeout after %ss]' % timeout, time.time() - t0


# --------------------------------------------------------------------------------------------
# build + audit
# --------------------------------------------------------------------------------------------

def coq_sources():
    out = []
    for sub in ('Gen', 'Model', 'Spec', 'Proofs', 'Properties', 'Corr'):
        d = COQ / sub
        if d.is_dir():
            out += sorted(str(p.relative_to(COQ)) for p in d.glob('*.v'))
    return out


def translate():
    """Regenerate coq/Gen/Tables.v from /repo (fail-closed). Returns (ok, message)."""
    tr = VERIF / 'tools' / 'translate.py'
    if not tr.exists():
        return True, 'no translator'
    rc, out, _ = run([sys.executable, str(tr), str(REPO), str(COQ / 'Gen' / 'Tables.v')], 60)
    return rc == 0, out.strip()


def build(jobs=NCPU, timeout=1500, targets=None):
    """Full .vo build (never -vos) of the development, or of the dependency cone of `targets`, under a lock.
    A check builds only its own cone, so a proof broken for one property is not reported for another."""
    BUILD.mkdir(exist_ok=True)
    with open(BUILD / '.lock', 'w') as lk:
        fcntl.flock(lk, fcntl.LOCK_EX)
        ok, msg = translate()
        if not ok:
            return False, 'translator: ' + msg
        proj = '-Q . AHP\n' + '\n'.join(coq_sources()) + '\n'
        pf = COQ / '_CoqProject'
        if not pf.exists() or pf.read_text() != proj or not (COQ / 'Makefile').exists():
            pf.write_text(proj)
            rc, out, _ = run(['coq_makefile', '-f', '_CoqProject', '-o', 'Makefile'], 60, cwd=COQ)
            if rc != 0:
                return False, out
        cmd = ['make', '-j%d' % jobs] + (list(targets) if targets else ['-k'])
        rc, out, _ = run(cmd, timeout, cwd=COQ)
        return rc == 0, out[-6000:]


GATE_RE = re.compile(r'\b(Admitted|admit|Axiom|Axioms|Parameter|Parameters|Conjecture|Conjectures|'
                     r'Unset\s+Guard|bypass_check|type-in-type|impredicative-set|Admit\s+Obligations)\b')
SECTION_VARS = re.compile(r'^\s*(Variable|Variables|Hypothesis|Hypotheses|Context)\b')


def strip_comments(text):
    out, depth, i = [], 0, 0
    while i < len(text):
        if text.startswith('(*', i):
            depth += 1
            i += 2
        elif text.startswith('*)', i) and depth:
            depth -= 1
            i += 2
        else:
            if depth == 0:
                out.append(text[i])
            elif text[i] == '\n':
                out.append('\n')
            i += 1
    return ''.join(out)


def source_gate():
    """No Admitted/admit/Axiom/Parameter/..., Variable/Hypothesis only inside a Section."""
    bad = []
    for rel in coq_sources():
        text = strip_comments((COQ / rel).read_text())
        depth = 0
        for n, line in enumerate(text.split('\n'), 1):
            # string literals can not contain the keywords in our sources except by accident; be strict
            if re.match(r'^\s*Section\b', line):
                depth += 1
            elif re.match(r'^\s*End\b', line) and depth:
                depth -= 1
            if GATE_RE.search(line):
                bad.append('%s:%d: %s' % (rel, n, line.strip()))
            if SECTION_VARS.match(line) and depth == 0:
                bad.append('%s:%d: outside a Section: %s' % (rel, n, line.strip()))
    return bad


def theorems_of(prop):
    f = COQ / 'Properties' / ('%s.v' % prop)
    if not f.exists():
        return []
    text = strip_comments(f.read_text())
    return re.findall(r'^\s*Theorem\s+([A-Za-z0-9_\']+)', text, re.M)


OK_ASSUMPTION = re.compile(r'^(PrimFloat\.|Uint63\.|PrimInt63\.|FloatOps\.|float\b|int\b|Float64|'
                           r'Coq\.Floats\.|Coq\.Numbers\.Cyclic\.Int63\.)')


def audit(prop, rundir):
    """Print Assumptions under every Theorem of Properties/<prop>.v. -> (list of dicts, log)"""
    thms = theorems_of(prop)
    if not thms:
        return [], 'no theorems'
    src = 'From AHP Require Import Properties.%s.\n' % prop
    for t in thms:
        src += 'Goal True. idtac "@@STMT %s". Abort.\nCheck %s.\nGoal True. idtac "@@ASM %s". Abort.\nPrint Assumptions %s.\n' % (t, t, t, t)
    src += 'Goal True. idtac "@@END". Abort.\n'
    f = rundir / ('Audit_%s.v' % prop)
    f.write_text(src)
    rc, out, _ = run(['coqc', '-Q', str(COQ), 'AHP', str(f)], 900, cwd=rundir)
    if rc != 0:
        return [dict(name=t, ok=False, assumptions=['audit failed to compile']) for t in thms], out[-3000:]
    res = []
    for t in thms:
        m1 = re.search(r'@@STMT %s\n([\s\S]*?)@@ASM %s\n([\s\S]*?)@@(STMT|END)' % (re.escape(t), re.escape(t)), out)
        if not m1:
            res.append(dict(name=t, ok=False, assumptions=['no audit output']))
            continue
        stmt, blk = m1.group(1).strip(), m1.group(2).strip()
        if blk.startswith('Closed under the global context'):
            ass, ok = [], True
        elif blk.startswith('Axioms:'):
            ass = [ln.split(':')[0].strip() for ln in blk.split('\n')[1:] if re.match(r'^\S', ln)]
            ok = all(OK_ASSUMPTION.match(n) for n in ass)
        else:
            ass, ok = ['unparsed: ' + blk[:200]], False
        res.append(dict(name=t, ok=ok, assumptions=ass,
                        statement_sha=hashlib.sha256(re.sub(r'\s+', ' ', stmt).encode()).hexdigest()[:16]))
    return res, out[-2000:]


# --------------------------------------------------------------------------------------------
# evaluating the model inside coqc
# --------------------------------------------------------------------------------------------

def _parse_pair(out):
    """parse '= (N, [i; j; ...])' printed by Eval vm_compute."""
    m = re.search(r'=\s*\(\s*(\d+)\s*,\s*(\[[^\]]*\]|nil)\s*\)', out)
    if not m:
        return None
    idx = re.findall(r'\d+', m.group(2))
    return int(m.group(1)), [int(i) for i in idx]


def coq_mismatches(rundir, module, runfn, cases, shard=300, maxbytes=250_000, timeout=600, extra_imports=(), case_type='_'):
    """cases: list of (case_term_text, expected_python_string).  Returns (mismatch_indices, errors, nfiles)."""
    files, cur, cur_bytes, start = [], [], 0, 0
    shards = []
    for i, (term, exp) in enumerate(cases):
        item = '(%s, "%s")' % (term, hx(exp))
        if cur and (len(cur) >= shard or cur_bytes + len(item) > maxbytes):
            shards.append((start, cur))
            start, cur, cur_bytes = i, [], 0
        cur.append(item)
        cur_bytes += len(item)
    if cur:
        shards.append((start, cur))
    for k, (st, items) in enumerate(shards):
        src = 'From AHP Require Import Model.Base %s.\n' % module
        for imp in extra_imports:
            src += 'From AHP Require Import %s.\n' % imp
        src += 'Definition cases : list (%s * string) := [\n' % case_type + ';\n'.join(items) + '\n].\n'
        src += 'Eval vm_compute in (length cases, mismatches %s cases).\n' % runfn
        f = rundir / ('Cases_%d.v' % k)
        f.write_text(src)
        files.append((st, len(items), f))
    procs = []
    mism, errors = [], []
    pending = list(files)
    running = []
    while pending or running:
        while pending and len(running) < NCPU:
            st, n, f = pending.pop(0)
            p = subprocess.Popen(['bash', '-c', 'ulimit -s unlimited 2>/dev/null || ulimit -s 4000000 2>/dev/null; exec timeout %d coqc -Q %s AHP %s' % (timeout, COQ, f)], cwd=rundir,
                                 stdin=subprocess.DEVNULL, stdout=subprocess.PIPE, stderr=subprocess.STDOUT, text=True)
            running.append((st, n, f, p))
        still = []
        for st, n, f, p in running:
            if p.poll() is None:
                still.append((st, n, f, p))
                continue
            out = p.stdout.read()
            pr = _parse_pair(out)
            if p.returncode != 0 or pr is None or pr[0] != n:
                errors.append('%s: rc=%s :: %s' % (f.name, p.returncode, (out[:600] + ' ... ' + out[-600:]) if len(out) > 1300 else out))
            else:
                mism += [st + i for i in pr[1]]
        running = still
        if running:
            time.sleep(0.05)
    return sorted(mism), errors, len(files)


def coq_model_output(rundir, module, runfn, term, extra_imports=()):
    """Evaluate the model on one case and return its snapshot string (hex round trip avoids wrapping)."""
    src = 'From AHP Require Import Model.Base %s.\n' % module
    for imp in extra_imports:
        src += 'From AHP Require Import %s.\n' % imp
    src += 'Eval vm_compute in (hex (%s %s)).\n' % (runfn, term)
    f = rundir / ('One_%d.v' % random.randrange(10 ** 9))
    f.write_text(src)
    rc, out, _ = run(['coqc', '-Q', str(COQ), 'AHP', str(f)], 300, cwd=rundir)
    m = re.search(r'=\s*"([0-9a-f\s]*)"', out)
    if rc != 0 or not m:
        return None, out[-1500:]
    try:
        return bytes.fromhex(re.sub(r'\s+', '', m.group(1))).decode('utf-8', 'replace'), ''
    except ValueError:
        return None, out[-1500:]


# --------------------------------------------------------------------------------------------
# known findings
# --------------------------------------------------------------------------------------------

def load_known():
    f = VERIF / 'known_findings.json'
    if not f.exists():
        return dict(findings=[], fixed=[])
    return json.loads(f.read_text())


# --------------------------------------------------------------------------------------------
# the implementation under test
# --------------------------------------------------------------------------------------------

def import_impl():
    """Import AdvancedHTMLParser from /repo's working tree; stub the debugger."""
    sys.dont_write_bytecode = True
    if str(REPO) not in sys.path[:1]:
        sys.path.insert(0, str(REPO))
    import warnings
    warnings.simplefilter('ignore')
    import pdb

    class DebuggerCalled(Exception):
        pass

    def _no_pdb(*a, **k):
        raise DebuggerCalled('pdb.set_trace called')
    pdb.set_trace = _no_pdb
    sys.breakpointhook = _no_pdb
    import AdvancedHTMLParser
    assert os.path.realpath(AdvancedHTMLParser.__file__).startswith(os.path.realpath(str(REPO))), AdvancedHTMLParser.__file__
    return AdvancedHTMLParser


EXC_ENUM = {
    'MultipleRootNodeException': 'MultipleRoot', 'InvalidCloseException': 'InvalidClose',
    'MissedCloseException': 'MissedClose', 'InvalidAttributeNameException': 'InvalidAttrName',
    'KeyError': 'KeyError', 'ValueError': 'ValueError', 'TypeError': 'TypeError',
    'AttributeError': 'AttributeError', 'IndexSizeErrorException': 'IndexSizeError',
    'XPathParseError': 'XPathParse', 'XPathRuntimeError': 'XPathRuntime', 'ZeroDivisionError': 'ZeroDivision',
    'RecursionError': 'Recursion', 'IndexError': 'IndexError',
}


def exc_name(e):
    return EXC_ENUM.get(type(e).__name__, 'Other:' + type(e).__name__)


# --------------------------------------------------------------------------------------------
# check driver
# --------------------------------------------------------------------------------------------

class CaseTimeout(BaseException):
    pass


STUCK = dict(hook=None)       # set by the driver: what to do when a call can neither finish nor be interrupted


class time_limit:
    """wall-clock limit for one call into the implementation (main thread only)"""
    def __init__(self, seconds):
        self.seconds = seconds
        self.fires = 0

    def __enter__(self):
        import signal

        def handler(signum, frame):
            self.fires += 1
            if self.fires > 40 and STUCK['hook']:
                # 20 s after the limit the call is still running: the exception is being swallowed (a bare "except:" in the library) while
                # the work goes on.  The process cannot be recovered: report the case and leave.
                STUCK['hook']('the library call did not return within %ss and cannot be interrupted (the time-limit exception is swallowed '
                              'by a bare except while the computation continues)' % self.seconds)
            raise CaseTimeout('no return within %ss' % self.seconds)
        self.old = signal.signal(signal.SIGALRM, handler)
        # periodic: library code with a bare "except:" can swallow the exception once; the timer keeps firing until the call is left
        signal.setitimer(signal.ITIMER_REAL, self.seconds, 0.5)

    def __exit__(self, *a):
        import signal
        signal.setitimer(signal.ITIMER_REAL, 0)
        signal.signal(signal.SIGALRM, self.old)
        return False


class Problem:
    def __init__(self, kind, what, case=None, detail=None, key=None):
        self.kind, self.what, self.case, self.detail, self.key = kind, what, case, detail, key


class Check:
    """Base class of a property check. Subclasses fill in the hooks."""
    ID = 'C00'
    RUN_MODULE = None          # e.g. 'Corr.Run_C18'
    RUN_FN = None              # e.g. 'run_C18'
    RULE = ''
    TRUSTED = []
    ASSUMPTIONS = []
    PARTIAL = []
    SHARD = 300
    CASE_TIMEOUT = 30
    CASE_TYPE = '_'

    def __init__(self, tier, seed):
        self.tier, self.seed = tier, seed
        self.rng = random.Random('%s/%s' % (self.ID, seed))
        self.stats = {}

    # hooks ------------------------------------------------------------------
    def generate(self):
        """-> list of cases (JSON-able python structures)"""
        return []

    def run_impl(self, case):
        """-> snapshot string the model must reproduce"""
        raise NotImplementedError

    def coq_case(self, case):
        raise NotImplementedError

    def oracle(self, case):
        """-> None if the property holds on this case on the real library, else a description"""
        return None

    def shrink_candidates(self, case):
        return []

    def nontrivial_key(self, case, snapshot):
        """-> hashable canonical form, or None when the case is trivial"""
        return json.dumps(case, sort_keys=True, default=str)

    def extra_search(self, budget_s):
        """extra cases for the search after a break -> list of cases"""
        return []

    def finding_key(self, case, what):
        return what

    def case_from_json(self, obj):
        return obj

    # driver -----------------------------------------------------------------
    def shrink(self, case, pred, limit=400, budget_s=150):
        n = 0
        improved = True
        t_start = time.time()
        while improved and n < limit and time.time() - t_start < budget_s:
            improved = False
            for cand in self.shrink_candidates(case):
                if time.time() - t_start >= budget_s:
                    break
                n += 1
                try:
                    if pred(cand):
                        case, improved = cand, True
                        break
                except Exception:
                    pass
                if n >= limit:
                    break
        return case

    hangs = 0        # calls into the implementation that did not return (a held lock makes every later call hang as well)

    def _limit(self):
        return self.CASE_TIMEOUT if not self.hangs else min(self.CASE_TIMEOUT, 10)

    current_case = None

    def safe_oracle(self, case):
        self.current_case = case
        try:
            with time_limit(self._limit()):
                return self.oracle(case)
        except CaseTimeout as e:
            self.hangs += 1
            return 'the library call did not return: %s' % e
        except Exception as e:
            # an exception that escapes the oracle: if the innermost frame that belongs to the library or to the harness is a library
            # frame, a public call made by the oracle raised where the property's statement expects a result - that is reported with
            # the case as the failing input; if it is a harness frame it is a harness bug, never a violation (counted in the evidence)
            import traceback
            where = None
            for fr in reversed(traceback.extract_tb(e.__traceback__)):
                fn = os.path.realpath(fr.filename)
                if fn.startswith(str(REPO) + os.sep):
                    where = '%s:%d' % (os.path.relpath(fn, str(REPO)), fr.lineno)
                    break
                if fn.startswith(str(VERIF) + os.sep):
                    break
            if where:
                return 'a library call made while checking this case raised %s (%s) at %s' % (type(e).__name__, str(e)[:120], where)
            self.stats['oracle_crashes'] = self.stats.get('oracle_crashes', 0) + 1
            self.stats.setdefault('oracle_crash_sample', repr(e)[:300])
            return None

    def safe_impl(self, case):
        self.current_case = case
        try:
            with time_limit(self._limit()):
                return self.run_impl(case)
        except CaseTimeout:
            self.hangs += 1
            raise


def write_replay(prop, obj):
    REPLAYS.mkdir(exist_ok=True)
    blob = json.dumps(obj, sort_keys=True, default=str, indent=1)
    h = hashlib.sha256(blob.encode()).hexdigest()[:12]
    p = REPLAYS / ('%s-%s.json' % (prop, h))
    p.write_text(blob)
    return p


def main_check(check_cls, argv):
    import argparse
    ap = argparse.ArgumentParser()
    ap.add_argument('--tier', default=os.environ.get('VERIF_TIER', 'quick'))
    ap.add_argument('--replay')
    ap.add_argument('--seed', type=int, default=int(os.environ.get('VERIF_SEED', '0') or 0))
    ap.add_argument('--no-build', action='store_true')
    args = ap.parse_args(argv)
    tier = args.tier if args.tier in ('quick', 'thorough') else 'quick'
    t0 = time.time()
    chk = check_cls(tier, args.seed)
    prop = chk.ID
    rundir = BUILD / 'run' / ('%s-%d' % (prop, os.getpid()))
    rundir.mkdir(parents=True, exist_ok=True)
    try:
        return _main(chk, prop, tier, args, rundir, t0)
    finally:
        if os.environ.get('AHP_KEEP') != '1':
            shutil.rmtree(rundir, ignore_errors=True)


def _main(chk, prop, tier, args, rundir, t0):
    problems = []          # things that break the proof/correspondence tie
    violations = []        # concrete failing inputs on the implementation
    known_lines = []
    log = []

    if args.replay:
        obj = json.loads(Path(args.replay).read_text())
        import_impl()
        case = chk.case_from_json(obj.get('input'))
        if case is None:
            print('replay file names a broken obligation, no input: %s' % obj.get('what'))
            return 1
        what = chk.safe_oracle(case)
        try:
            snap = chk.safe_impl(case)
        except (Exception, CaseTimeout) as e:
            snap = 'adapter raised ' + repr(e)
        print('input: %s' % json.dumps(obj.get('input'), default=str))
        print('implementation snapshot: %s' % snap)
        print('oracle: %s' % (what or 'property holds on this input'))
        return 1 if what else 0

    def stuck(what):
        case = chk.current_case
        rp = write_replay(prop, dict(property=prop, kind='failing-input', input=case, what=what, key='call-does-not-return', seed=args.seed, tier=tier))
        try:
            EVID.mkdir(exist_ok=True)
            (EVID / ('%s.json' % prop)).write_text(json.dumps(dict(
                property_id=prop, tier=tier, seed=args.seed, level='proof',
                coverage=dict(obligations=1, discharged=0, checker_cmd='run aborted: a call into the implementation could not be interrupted',
                              trusted_base=TRUSTED_BASE_COMMON + list(chk.TRUSTED), evaluations=0, distinct_nontrivial=0, rule=chk.RULE,
                              samples=[dict(case=case)], oracle_failures=1, input_distribution=chk.stats),
                assumptions=list(chk.ASSUMPTIONS), wall_s=round(time.time() - t0, 2), violations=1), indent=1, default=str))
        except Exception:
            pass
        sys.stdout.write('VIOLATION property=%s replay=%s\n' % (prop, rp))
        sys.stdout.flush()
        os._exit(1)
    STUCK['hook'] = stuck

    for old in REPLAYS.glob('%s-*.json' % prop):
        try:
            old.unlink()
        except OSError:
            pass

    # 1. build + gate + audit ---------------------------------------------------
    oracle_only = os.environ.get('AHP_ORACLE_ONLY') == '1'   # development aid: implementation side only
    if oracle_only:
        args.no_build = True
    if not args.no_build:
        tg = ['Properties/%s.vo' % prop] if (COQ / 'Properties' / ('%s.v' % prop)).exists() else []
        if chk.RUN_MODULE:
            tg.append(chk.RUN_MODULE.replace('.', '/') + '.vo')
        ok, blog = build(targets=tg)
        if not ok:
            problems.append(Problem('proof', 'build of the Coq development failed', detail=blog[-3000:]))
    gate = source_gate()
    if gate:
        problems.append(Problem('proof', 'source gate: ' + '; '.join(gate[:5])))
    thms, alog = ([], '')
    if not problems and not oracle_only:
        thms, alog = audit(prop, rundir)
        for t in thms:
            if not t['ok']:
                problems.append(Problem('proof', 'theorem %s: assumptions not accepted: %s' % (t['name'], t['assumptions']),
                                        detail=alog))
    if tier == 'thorough' and not problems and os.environ.get('AHP_SKIP_COQCHK') != '1':
        rc, out, _ = run(['coqchk', '-silent', '-o', '-Q', str(COQ), 'AHP', 'AHP.Properties.%s' % prop], 1500, cwd=COQ)
        chk.stats['coqchk'] = 'rc=%d %s' % (rc, out[-600:].strip())
        if rc != 0:
            problems.append(Problem('proof', 'coqchk failed', detail=out[-3000:]))

    # 2. implementation side ------------------------------------------------------
    import_impl()
    known = load_known()
    open_findings = [f for f in known.get('findings', []) if f.get('property') == prop]
    open_keys = set()
    for f in open_findings:
        case = chk.case_from_json(f['input'])
        what = chk.safe_oracle(case)
        if what:
            known_lines.append('KNOWN-FINDING: property=%s %s' % (prop, f['what']))
            open_keys.add(f['key'])
    cases = chk.generate()
    corpus_dir = VERIF / 'corpus' / prop
    corpus = []
    if corpus_dir.is_dir():
        for p in sorted(corpus_dir.glob('*.json')):
            corpus.append(chk.case_from_json(json.loads(p.read_text())))
    cases = corpus + cases
    snaps, coq_cases, keys = [], [], set()
    skipped = 0
    for case in cases:
        if chk.hangs >= 3:
            chk.stats['stopped_after_hangs'] = chk.hangs       # the exploration stops; the calls that hung are reported below
            break
        what = chk.safe_oracle(case)
        if what:
            violations.append((case, what))
        try:
            snap = chk.safe_impl(case)
        except (Exception, CaseTimeout) as e:
            snap = None
            problems.append(Problem('harness', 'implementation adapter raised %r' % (e,), case=case))
        if snap is None:
            skipped += 1
            continue
        k = chk.nontrivial_key(case, snap)
        if k is not None:
            keys.add(k)
        snaps.append((case, snap))
        coq_cases.append((chk.coq_case(case), snap))

    # 3. model side ----------------------------------------------------------------
    mism, errs, nfiles = [], [], 0
    build_ok = not any(p.kind == 'proof' and 'build' in p.what for p in problems)
    if chk.RUN_MODULE and coq_cases and build_ok and not oracle_only:
        mism, errs, nfiles = coq_mismatches(rundir, chk.RUN_MODULE, chk.RUN_FN, coq_cases, shard=chk.SHARD, case_type=chk.CASE_TYPE)
        for e in errs:
            problems.append(Problem('corr', 'correspondence file failed to evaluate', detail=e))
        for i in mism[:3]:
            case, snap = snaps[i]

            def still(c):
                s = chk.safe_impl(c)
                m, e, _ = coq_mismatches(rundir, chk.RUN_MODULE, chk.RUN_FN, [(chk.coq_case(c), s)], case_type=chk.CASE_TYPE)
                return bool(m)
            small = chk.shrink(case, still, limit=40 if tier == 'quick' else 150)
            isnap = chk.safe_impl(small)
            msnap, merr = coq_model_output(rundir, chk.RUN_MODULE, chk.RUN_FN, chk.coq_case(small))
            problems.append(Problem('corr', 'model and implementation disagree (correspondence %s.%s)' % (chk.RUN_MODULE, chk.RUN_FN),
                                    case=small, detail=dict(implementation=isnap, model=msnap or merr)))
        if len(mism) > 3:
            problems.append(Problem('corr', '%d further correspondence mismatches' % (len(mism) - 3)))

    # 4. on a break: widen the search for a failing input --------------------------
    real_problems = [p for p in problems if p.kind in ('proof', 'corr')]
    if real_problems and not violations:
        for p in real_problems:
            if p.case is not None:
                what = chk.safe_oracle(p.case)
                if what:
                    violations.append((p.case, what))
        if not violations:
            for case in chk.extra_search(30 if tier == 'quick' else 300):
                what = chk.safe_oracle(case)
                if what:
                    violations.append((case, what))
                    break

    # 5. report ----------------------------------------------------------------------
    out_lines = list(known_lines)
    nviol = 0
    reported = set()
    for case, what in violations:
        small = chk.shrink(case, lambda c: bool(chk.safe_oracle(c)))
        what = chk.safe_oracle(small) or what
        key = chk.finding_key(small, what)
        if key in open_keys or key in reported:
            continue
        reported.add(key)
        if len(reported) > 5:
            continue
        try:
            isnap = chk.safe_impl(small)
        except (Exception, CaseTimeout) as e:
            isnap = repr(e)
        rp = write_replay(prop, dict(property=prop, kind='failing-input', input=small, what=what, key=key,
                                     implementation=isnap, seed=args.seed, tier=tier))
        out_lines.append('VIOLATION property=%s replay=%s' % (prop, rp))
        nviol += 1
    if nviol == 0 and real_problems:
        p = real_problems[0]
        rp = write_replay(prop, dict(property=prop, kind='broken-obligation', what=p.what, input=None,
                                     disagreement_case=p.case, detail=p.detail,
                                     theorems=[t['name'] for t in thms], correspondence='%s.%s' % (chk.RUN_MODULE, chk.RUN_FN),
                                     all=[q.what for q in real_problems][:10], seed=args.seed, tier=tier))
        out_lines.append('VIOLATION property=%s replay=%s no-failing-input-found' % (prop, rp))
        nviol += 1
    harness_problems = [p for p in problems if p.kind == 'harness']
    if harness_problems and nviol == 0:
        p = harness_problems[0]
        rp = write_replay(prop, dict(property=prop, kind='adapter-failure', what=p.what, input=p.case, seed=args.seed))
        out_lines.append('VIOLATION property=%s replay=%s no-failing-input-found' % (prop, rp))
        nviol += 1

    # 6. evidence ----------------------------------------------------------------------
    discharged = sum(1 for t in thms if t['ok']) if not [p for p in problems if p.kind == 'proof'] else 0
    samples = []
    for case, snap in snaps[:: max(1, len(snaps) // 4)][:4]:
        samples.append(dict(case=case, implementation_snapshot=snap[:400]))
    ev = dict(
        property_id=prop, tier=tier, seed=args.seed, level='proof',
        coverage=dict(
            obligations=max(1, len(thms)), discharged=discharged,
            checker_cmd='make -C coq (coqc 8.16.1, full .vo build) + Print Assumptions on Properties/%s.v' % prop
                        + ('; coqchk -o' if tier == 'thorough' else ''),
            trusted_base=TRUSTED_BASE_COMMON + list(chk.TRUSTED),
            evaluations=len(cases), distinct_nontrivial=len(keys), rule=chk.RULE, samples=samples or ['no cases'],
            theorems=thms, partial=list(chk.PARTIAL),
            correspondence=dict(module=chk.RUN_MODULE, files=nfiles, cases=len(coq_cases), mismatches=len(mism),
                                skipped_unsupported=skipped),
            oracle_failures=len(violations), known_findings_open=len(known_lines),
            input_distribution=chk.stats,
        ),
        assumptions=list(chk.ASSUMPTIONS),
        wall_s=round(time.time() - t0, 2), violations=nviol,
    )
    EVID.mkdir(exist_ok=True)
    (EVID / ('%s.json' % prop)).write_text(json.dumps(ev, indent=1, default=str))
    for ln in out_lines:
        print(ln)
    if nviol == 0:
        print('OK property=%s tier=%s theorems=%d/%d cases=%d mismatches=0 wall=%.1fs' %
              (prop, tier, discharged, len(thms), len(cases), time.time() - t0))
    return 1 if nviol else 0
