(* C03 — parsing is total (logic half): the handler logic of the plain / indexed parser never raises anything but the
   MultipleRootNodeException that feed catches, and the wrapped second pass never raises at all.  What only the run can
   show (Python-level exceptions of unmodelled code, time, the debugger) is observed by the check (DESIGN 5-C03). *)
From AHP Require Import Model.Base Model.Str Model.Attr Model.Dom Model.Serial Model.Parser Gen.Tables Proofs.DomProofs Proofs.ParserProofs.

(* over the full token alphabet (weird names, None attribute values, PI, unknown declarations, empty data) *)
Theorem C03_first_pass_only_multiroot : forall ts s e, prun PPlain s ts = PRaise e -> e = XMultipleRoot.
Proof. exact prun_plain_only_multiroot. Qed.
Theorem C03_second_pass_total : forall body s, forallb tok_ok body = true -> pstk s = [] -> has_root s = false ->
  exists s', prun PPlain s (TStart reserved [] false :: body ++ [TEnd reserved]) = POk s'.
Proof. exact second_pass_from. Qed.
Theorem C03_feed_total : forall ts1 body, forallb tok_ok body = true -> exists s, feed PPlain ts1 (wrap body) = POk s.
Proof. exact feed_plain_total. Qed.
(* attribute intake of any attribute list (value-less style / class included) succeeds *)
Theorem C03_element_creation_total : forall u n a leaf p, exists st,
  make_tag u n a leaf p = POk (Tag (mk_hdr u n st leaf p the_doc) [BText ""]).
Proof. exact make_tag_ok. Qed.
(* serialisation of whatever was built is a string: get_html is defined for every state with a root *)
Theorem C03_serialise_total : forall r d, r <> None -> exists h, get_html r d = Some h.
Proof. intros r d H. destruct r as [t|]; [eexists; reflexivity | congruence]. Qed.
(* a reused parser starts from the initial state: parseStr = reset; feed, so the next parse is again total *)
Theorem C03_reusable : forall ts1 body ts1' body', forallb tok_ok body = true -> forallb tok_ok body' = true ->
  (exists s, feed PPlain ts1 (wrap body) = POk s) /\ (exists s', feed PPlain ts1' (wrap body') = POk s').
Proof. intros. split; now apply feed_plain_total. Qed.

Example C03_ex : match feed PPlain [TData "a"] (wrap [TData "a"; TStart "b<" [("x", None); ("style", None)] false; TEnd "div"; TPi "php"]) with
                 | POk s => get_html (tree_of s) (pdoctype s) = Some "a<b< x ></b<>" | PRaise _ => False end.
Proof. vm_compute. reflexivity. Qed.
