"""C14 - XPath evaluation selects exactly the elements the expression denotes."""
import itertools
import json
import re

from harness import core
from harness.core import cs, clist
from harness.props import parse_common as pc

NAMES = ['div', 'span', 'p']
SATTR = ['k', 'm']
SVALS = ['x', 'y', 'x y', 't', 'zz', '']
AXES = [None, None, None, 'child', 'descendant', 'descendant-or-self', 'parent', 'ancestor', 'ancestor-or-self']


# ------------------------------------------------------------------ documents (every element carries the numeric attribute n)
def gen_doc(rng, nmax=40):
    cnt = [0]

    def el(d):
        n = rng.choice(NAMES)
        cnt[0] += 1
        a = [['n', str(rng.randint(0, 6)), '"']]
        for s in SATTR:
            if rng.random() < .5:
                a.append([s, rng.choice(['x', 'y', 'x y', '3']), '"'])
        toks = [['S', n, a, False]]
        for _ in range(rng.randint(0, 3) if d < 4 and cnt[0] < nmax else 0):
            if rng.random() < .65:
                toks += el(d + 1)
            else:
                toks.append(['T', rng.choice(['t', ' u ', 'x'])])
        toks.append(['E', n])
        return toks
    toks = [['S', 'html', [['n', '9', '"']], False]]
    for _ in range(rng.randint(1, 3)):
        toks += el(1)
    toks.append(['E', 'html'])
    clean = []
    for tk in toks:
        if tk[0] == 'T' and clean and clean[-1][0] == 'T':
            clean[-1] = ['T', clean[-1][1] + tk[1]]
        else:
            clean.append(tk)
    return clean


# ------------------------------------------------------------------ ASTs
# expr: ['num',int] ['str',s] ['attr',name] ['text'] ['nspace',e|None] ['contains',a,b] ['concat',[es]] ['last'] ['pos']
#       ['ar',op,a,b] ['cat',a,b] ['cmp',op,a,b] ['and',a,b] ['or',a,b]
def has_div(e):
    if not isinstance(e, list):
        return False
    if e and e[0] == 'ar' and e[1] == 'div':
        return True
    return any(has_div(x) for x in e[1:] if isinstance(x, list))


def gen_num(rng, d):
    r = rng.random()
    if d <= 0 or r < .35:
        return ['num', rng.randint(0, 6)]
    if r < .6:
        return ['attr', 'n']
    if r < .7:
        return rng.choice([['last'], ['pos']])
    op = rng.choice(['+', '-', '*', 'div', 'mod'])
    a, b = gen_num(rng, d - 1), gen_num(rng, d - 1)
    if op == 'mod' and (has_div(a) or has_div(b)):
        op = '+'          # mod operands stay integral (domain of the property's reference semantics)
    return ['ar', op, a, b]


def gen_str(rng, d):
    r = rng.random()
    if d <= 0 or r < .3:
        return ['str', rng.choice(SVALS)]
    if r < .55:
        return ['attr', rng.choice(SATTR)]
    if r < .65:
        return ['text']
    if r < .75:
        return ['nspace', None if rng.random() < .5 else gen_str(rng, d - 1)]
    if r < .88:
        return ['concat', [gen_str(rng, d - 1) for _ in range(rng.randint(2, 3))]]
    return ['cat', gen_str(rng, d - 1), gen_str(rng, d - 1)]


def gen_bool(rng, d):
    r = rng.random()
    if d <= 0 or r < .3:
        if rng.random() < .5:
            return ['cmp', rng.choice(['=', '!=', '<', '>', '<=', '>=']), gen_num(rng, d - 1), gen_num(rng, d - 1)]
        return ['cmp', rng.choice(['=', '!=']), gen_str(rng, d - 1), gen_str(rng, d - 1)]
    if r < .45:
        return ['contains', gen_str(rng, d - 1), gen_str(rng, d - 1)]
    if r < .6:
        return ['cmp', rng.choice(['=', '!=', '<', '>', '<=', '>=']), gen_num(rng, d - 1), gen_num(rng, d - 1)]
    if r < .7:
        return ['cmp', rng.choice(['=', '!=']), gen_str(rng, d - 1), gen_str(rng, d - 1)]
    return [rng.choice(['and', 'or']), gen_bool(rng, d - 1), gen_bool(rng, d - 1)]


def gen_pred(rng, d):
    if rng.random() < .8:
        return gen_bool(rng, d)
    if rng.random() < .35:
        return ['ar', 'div', gen_num(rng, max(0, d - 1)), ['num', rng.randint(1, 3)]]
    return gen_num(rng, d)


def gen_path(rng, maxsteps=3, maxpreds=2, depth=2):
    steps = []
    for _ in range(rng.randint(1, maxsteps)):
        steps.append([rng.choice(['/', '//']), rng.choice(AXES), rng.choice(NAMES + ['*']),
                      [gen_pred(rng, rng.randint(0, depth)) for _ in range(rng.choice([0, 0, 1, 1, 2][:maxpreds + 3]))]])
    return steps


# ------------------------------------------------------------------ printer: parenthesise unless the three-pass, left-to-right
# evaluation of the flat level gives the tree (an operand stays bare when its class binds tighter, or - on the left - equally)
CLS = {'ar': 0, 'cat': 0, 'cmp': 1, 'and': 2, 'or': 2}


def stdprec(e):
    k = e[0]
    if k == 'or':
        return 1
    if k == 'and':
        return 2
    if k == 'cmp':
        return 3 if e[1] in ('=', '!=') else 4
    if k == 'cat':
        return 5
    if k == 'ar':
        return 6 if e[1] in ('+', '-') else 7
    return 99


def bare(x, e, left):
    """may operand x of the operator expression e be printed without parentheses?  Only when the flat three-pass evaluation and the
    usual reading of the text both give the tree: x binds tighter by class, or x is the left operand of the same class and does not
    bind looser in the usual precedence"""
    if x[0] not in CLS:
        return True
    if CLS[x[0]] < CLS[e[0]]:
        return True
    return bool(left and CLS[x[0]] == CLS[e[0]] and stdprec(x) >= stdprec(e))


def pr(e, rng):
    k = e[0]
    if k == 'num':
        return str(e[1])
    if k == 'str':
        return rng.choice(['"%s"', "'%s'"]) % e[1]
    if k == 'attr':
        return '@' + e[1]
    if k == 'text':
        return rng.choice(['text()', 'TEXT( )', 'Text()'])
    if k == 'nspace':
        return rng.choice(['normalize-space', 'Normalize-Space']) + '(%s)' % ('' if e[1] is None else ' ' + pr(e[1], rng) + ' ')
    if k == 'contains':
        return rng.choice(['contains', 'Contains']) + '( %s , %s )' % (pr(e[1], rng), pr(e[2], rng))
    if k == 'concat':
        return rng.choice(['concat', 'CONCAT']) + '(%s)' % ', '.join(pr(x, rng) for x in e[1])
    if k == 'last':
        return rng.choice(['last()', 'LAST( )'])
    if k == 'pos':
        return rng.choice(['position()', 'Position()'])
    if k in ('ar', 'cmp'):
        op, a, b = e[1], e[2], e[3]
    elif k == 'cat':
        op, a, b = '||', e[1], e[2]
    else:
        op, a, b = rng.choice([k, k.upper()]), e[1], e[2]
    if op in ('div', 'mod'):
        op = rng.choice([op, op.upper()])

    def operand(x, left):
        return pr(x, rng) if bare(x, e, left) else '( ' + pr(x, rng) + ' )'
    sp = rng.choice([' ', '  ', ' \t'])
    return operand(a, True) + sp + op + sp + operand(b, False)


def prpath(steps, rng):
    s = ''
    for lead, ax, nm, preds in steps:
        axs = ''
        if ax:
            axs = (ax.upper() if rng.random() < .15 else ax) + '::'
        s += lead + axs + (nm.upper() if rng.random() < .2 else nm) + ''.join(rng.choice(['[ %s ]', '[%s]']) % pr(p, rng) for p in preds)
    return s


# ------------------------------------------------------------------ reference semantics (works on the AST)
class Err(Exception):
    pass


NULL = object()


def tofloat(v):
    if v is NULL:
        raise Err('null')
    if isinstance(v, bool):
        raise Err('bool as number')
    if isinstance(v, (int, float)):
        return float(v)
    if re.fullmatch(r'[0-9]+', v):
        return float(v)
    raise Err('nonnum')


def same_sibs(e):
    p = e.parentNode
    if p is None:
        return [e]
    return [c for c in p.children if c.tagName == e.tagName]


def ev(x, e):
    k = x[0]
    if k == 'num':
        return float(x[1])
    if k == 'str':
        return x[1]
    if k == 'attr':
        return e.getAttribute(x[1]) if e.hasAttribute(x[1]) else NULL
    if k == 'text':
        return e.innerText
    if k == 'nspace':
        v = e.innerText if x[1] is None else ev(x[1], e)
        if v is NULL:
            v = ''
        if not isinstance(v, str):
            raise Err('nspace type')
        return v.strip()
    if k == 'contains':
        a, b = ev(x[1], e), ev(x[2], e)
        a = '' if a is NULL else a
        b = '' if b is NULL else b
        if not isinstance(a, str) or not isinstance(b, str):
            raise Err('contains type')
        return b in a
    if k == 'concat':
        vs = ['' if v is NULL else v for v in (ev(y, e) for y in x[1])]
        if any(not isinstance(v, str) for v in vs):
            raise Err('concat type')
        return ''.join(vs)
    if k == 'last':
        return float(len(same_sibs(e)))
    if k == 'pos':
        return float(same_sibs(e).index(e) + 1)
    if k == 'ar':
        a, b = tofloat(ev(x[2], e)), tofloat(ev(x[3], e))
        if x[1] == '+':
            return a + b
        if x[1] == '-':
            return a - b
        if x[1] == '*':
            return a * b
        if b == 0:
            raise Err('zerodiv')
        return a / b if x[1] == 'div' else a % b
    if k == 'cat':
        a, b = ev(x[1], e), ev(x[2], e)
        if not isinstance(a, str) or not isinstance(b, str):
            raise Err('cat type')
        return a + b
    if k == 'cmp':
        a, b = ev(x[2], e), ev(x[3], e)
        op = x[1]
        try:
            fa, fb = tofloat(a), tofloat(b)
            num = True
        except Err:
            num = False
        if op in ('=', '!='):
            if num:
                r = (fa == fb)
            elif a is NULL or b is NULL:
                r = (a is NULL and b is NULL)
            else:
                r = (a == b)
            return r if op == '=' else not r
        if not num:
            raise Err('ordering nonnum')
        return {'<': fa < fb, '>': fa > fb, '<=': fa <= fb, '>=': fa >= fb}[op]
    if k in ('and', 'or'):
        a, b = ev(x[1], e), ev(x[2], e)
        if not isinstance(a, bool) or not isinstance(b, bool):
            raise Err('bool type')
        return (a and b) if k == 'and' else (a or b)
    raise Err('unknown')


def desc(e):
    out = []
    for c in e.children:
        out.append(c)
        out += desc(c)
    return out


def anc(e):
    out = []
    p = e.parentNode
    while p is not None:
        out.append(p)
        p = p.parentNode
    return out


def sel(e, lead, ax, first):
    if ax is None:
        ax = {'/': 'child', '//': 'descendant'}[lead]
        orself = first
    else:
        orself = False
    if ax == 'child':
        r = list(e.children)
    elif ax == 'descendant':
        r = desc(e)
    elif ax == 'descendant-or-self':
        r = [e] + desc(e)
    elif ax == 'parent':
        r = [e.parentNode] if e.parentNode is not None else []
    elif ax == 'ancestor':
        r = anc(e)
    else:
        r = [e] + anc(e)
    if orself:
        r = [e] + r
    return r


def evalpath(steps, roots):
    cur = []
    for e in roots:
        if all(e is not y for y in cur):
            cur.append(e)
    for i, (lead, ax, nm, preds) in enumerate(steps):
        nxt = []
        for e in cur:
            for x in sel(e, lead, ax, i == 0):
                if (nm == '*' or x.tagName == nm) and all(x is not y for y in nxt):
                    nxt.append(x)
        if not nxt:
            return []
        for p in preds:
            keep = []
            for x in nxt:
                v = ev(p, x)
                if isinstance(v, bool):
                    if v:
                        keep.append(x)
                elif isinstance(v, float):
                    if v == int(v) and same_sibs(x).index(x) + 1 == int(v):
                        keep.append(x)
                else:
                    raise Err('pred type')
            nxt = keep
            if not nxt:
                return []
        cur = nxt
    return cur


def is_static(e):
    k = e[0]
    if k in ('attr', 'text', 'last', 'pos', 'nspace', 'contains', 'concat'):
        return k in ('contains', 'concat') and all(is_static(x) for x in (e[1] if k == 'concat' else e[1:])) or (k == 'nspace' and e[1] is not None and is_static(e[1]))
    if k in ('num', 'str'):
        return True
    return all(is_static(x) for x in e[1:] if isinstance(x, list))


def static_error(e):
    """a generator-free sub-expression on which the reference semantics is undefined (a literal division by zero): the library
    pre-computes such levels when it compiles the expression and raises there - outside the domain of the property"""
    if not isinstance(e, list) or not e or not isinstance(e[0], str):
        return any(static_error(x) for x in e) if isinstance(e, list) else False
    if is_static(e):
        try:
            ev(e, None)
        except Err:
            return True
        except Exception:
            return True
    return any(static_error(x) for x in e[1:] if isinstance(x, list))


class C14(core.Check):
    ID = 'C14'
    RUN_MODULE = 'Corr.Run_XPath'
    RUN_FN = 'run_xpath'
    CASE_TYPE = 'xcase'
    SHARD = 50
    CASE_TIMEOUT = 30
    RULE = ('expressions printed from generated ASTs (randomised whitespace, quote style, letter case; parentheses wherever the flat left-to-right '
            'evaluation would not give the tree): the exhaustive family with <= 2 steps and <= 1 predicate over 3 names, and random expressions with '
            'up to 5 steps, 3 predicates per step, predicate depth 3; documents of up to 60 elements, every element with the numeric attribute n; '
            'evaluated from the document, from an element and from a collection through getElementsByXPathExpression / getElementsByXPath / '
            'evaluate / XPathExpression.evaluate; the reference interpreter works on the AST. Expressions on which the reference semantics is '
            'undefined (ordering against an absent or non-numeric value, type errors, division by zero) are compared with the model only. '
            'non-trivial = non-empty result')
    TRUSTED = ['stdlib html.parser tokenizer (documents enter the model as recorded handler calls)',
               'the regex-driven text parser of xpath/parsing.py and _body.py is not modelled: the tie there is differential (text printed from the AST vs. the AST)',
               'IEEE double arithmetic: the model computes with Coq primitive floats (vm_compute) in the correspondence run; the theorems are parametric in the number type']
    ASSUMPTIONS = ['numeric literals and numeric attribute values are small decimal integers; mod operands are integral (div-free)']
    PARTIAL = []

    def generate(self):
        rng = self.rng
        cases = []
        docs = [gen_doc(rng, 25 if self.tier == 'quick' else 55) for _ in range(6 if self.tier == 'quick' else 40)]
        # exhaustive small family (sampled in the quick tier)
        small = []
        atoms = [['cmp', '=', ['attr', 'n'], ['num', 2]], ['cmp', '!=', ['attr', 'k'], ['str', 'x']], ['cmp', '=', ['attr', 'm'], ['str', 'y']],
                 ['cmp', '<', ['attr', 'n'], ['num', 3]], ['cmp', '>=', ['attr', 'n'], ['num', 3]], ['cmp', '<=', ['pos'], ['num', 2]],
                 ['num', 1], ['num', 2], ['last'], ['ar', '-', ['last'], ['num', 1]], ['contains', ['attr', 'k'], ['str', 'x']],
                 ['cmp', '=', ['pos'], ['last']], ['cmp', '=', ['nspace', None], ['str', 'x']], ['cmp', '=', ['text'], ['str', 't']],
                 ['and', ['cmp', '>', ['attr', 'n'], ['num', 1]], ['cmp', '=', ['attr', 'k'], ['attr', 'm']]],
                 ['cmp', '=', ['cat', ['attr', 'k'], ['str', 'y']], ['concat', [['str', 'x'], ['attr', 'm']]]],
                 # numeric predicates that are not integral, or integral only after division
                 ['ar', 'div', ['last'], ['num', 2]], ['ar', 'div', ['attr', 'n'], ['num', 2]], ['ar', 'div', ['ar', '+', ['pos'], ['num', 1]], ['num', 2]],
                 ['ar', 'div', ['num', 3], ['num', 2]], ['ar', '*', ['pos'], ['ar', 'div', ['num', 3], ['num', 4]]],
                 ['ar', '-', ['last'], ['ar', 'div', ['num', 1], ['num', 2]]],
                 # the element's own text versus the text of its subtree
                 ['cmp', '!=', ['nspace', None], ['str', '']], ['contains', ['nspace', None], ['str', 'x']], ['cmp', '=', ['nspace', None], ['str', 't']],
                 ['cmp', '=', ['nspace', None], ['str', 'u']], ['cmp', '=', ['text'], ['str', '']], ['contains', ['text'], ['str', 't']]]
        step1 = [[lead, ax, nm, pr_] for lead in ('/', '//') for ax in (None, 'child', 'descendant', 'descendant-or-self', 'parent', 'ancestor', 'ancestor-or-self')
                 for nm in NAMES + ['*'] for pr_ in [[]] + [[a] for a in atoms]]
        for s in step1:
            small.append([s])
        for a, b in itertools.product(step1[::7], step1[::5]):
            small.append([a, b])
        rng.shuffle(small)
        nsmall = 450 if self.tier == 'quick' else len(small)
        for i, steps in enumerate(small[:nsmall]):
            cases.append(dict(doc=docs[i % len(docs)], steps=steps, seed=rng.randrange(1 << 30), frm=rng.choice(['doc', 'doc', 'elem', 'coll']), sel=rng.random()))
        # directed: arithmetic applied left to right where literal numbers stand next to each other after a run-time value
        ndir = 0
        for op1 in ('-', '*', 'mod', '+', 'div'):
            for op2 in ('+', '*', 'mod', '-'):
                if op1 == 'div' and op2 == 'mod':
                    continue
                for lhs in (['attr', 'n'], ['pos']):
                    e = ['ar', op2, ['ar', op1, lhs, ['num', rng.choice([1, 2, 4])]], ['num', rng.choice([1, 2, 3])]]
                    pred = ['cmp', rng.choice(['=', '<', '>=']), e, ['num', rng.randint(0, 4)]]
                    cases.append(dict(doc=docs[ndir % len(docs)], steps=[['//', None, rng.choice(NAMES + ['*']), [pred]]], seed=rng.randrange(1 << 30),
                                      frm='doc', sel=0.0))
                    ndir += 1
        # directed: a name that occurs nested in itself, reached by leading "/name" steps from the document, the root element and collections
        nest = [['S', 'div', [['n', '1', '"']], False], ['S', 'div', [['n', '2', '"']], False], ['S', 'div', [['n', '3', '"']], False], ['E', 'div'],
                ['S', 'span', [['n', '4', '"']], False], ['E', 'span'], ['E', 'div'], ['S', 'span', [['n', '5', '"']], False], ['S', 'span', [['n', '6', '"']], False],
                ['E', 'span'], ['E', 'span'], ['S', 'div', [['n', '6', '"']], False], ['T', 't'], ['E', 'div'], ['E', 'div']]
        gt1 = ['cmp', '>', ['attr', 'n'], ['num', 1]]
        for steps in ([['/', None, 'div', []]], [['/', None, 'div', []], ['/', None, 'div', []]], [['/', None, 'div', [gt1]]], [['/', None, 'span', []]],
                      [['/', None, 'div', []], ['/', None, 'span', []], ['/', None, 'span', []]], [['/', None, '*', []], ['/', None, 'div', []]],
                      [['//', None, 'div', []], ['/', None, 'div', []]], [['/', 'child', 'div', []]], [['/', None, 'div', [['num', 1]]]]):
            for frm, sel in (('doc', 0.0), ('elem', 0.0), ('elem', 0.15), ('coll', 0.0), ('coll', 0.5)):
                cases.append(dict(doc=nest, steps=steps, seed=rng.randrange(1 << 30), frm=frm, sel=sel))
                ndir += 1
        nrand = 250 if self.tier == 'quick' else 6000
        for i in range(nrand):
            big = rng.random() < 0.3
            steps = gen_path(rng, 5 if big else 3, 3 if big else 2, 3 if big else 2)
            cases.append(dict(doc=docs[i % len(docs)], steps=steps, seed=rng.randrange(1 << 30), frm=rng.choice(['doc', 'doc', 'elem', 'coll']), sel=rng.random()))
        self.stats.update(exhaustive_family=min(nsmall, len(small)), random=nrand, documents=len(docs))
        return cases

    # ------------------------------------------------------------------
    _parsed = {}

    def _doc(self, case, recording=False):
        import AdvancedHTMLParser as A
        from harness.props import c02
        html = c02.render(case['doc'], None)
        key = (html, recording)
        if key not in self._parsed:
            if len(self._parsed) > 200:
                self._parsed.clear()
            if recording:
                p = pc.rec_class('plain')()
                rec = pc.parse_recorded(p, html)
                self._parsed[key] = (p, rec)
            else:
                p = A.AdvancedHTMLParser()
                p.parseStr(html)
                self._parsed[key] = (p, None)
        return self._parsed[key]

    @staticmethod
    def _text(case):
        import random
        return prpath(case['steps'], random.Random(case['seed']))

    @staticmethod
    def _roots(p, case):
        """-> (receiver kind, start elements in order, ranks)"""
        els = pc.preorder(p.getRoot())
        if case['frm'] == 'doc':
            return p.getRootNodes()
        if case['frm'] == 'elem':
            return [els[int(case['sel'] * len(els)) % len(els)]]
        i = int(case['sel'] * len(els)) % len(els)
        j = int(case['sel'] * 7919) % len(els)
        return [els[i], els[j], els[i]] if i != j else [els[i]]

    def _impl(self, p, case, text):
        """all entry points; -> list of (name, result ranks | 'exc:..')"""
        import AdvancedHTMLParser as A
        from AdvancedHTMLParser.Tags import TagCollection
        from AdvancedHTMLParser.xpath import XPathExpression
        els = pc.preorder(p.getRoot())
        rank = {id(e): i for i, e in enumerate(els)}
        roots = self._roots(p, case)

        def run(f):
            try:
                with core.time_limit(20):
                    return [rank.get(id(e), 999) for e in f()]
            except core.CaseTimeout:
                raise
            except BaseException as ex:
                return 'exc:' + core.exc_name(ex)
        out = []
        if case['frm'] == 'doc':
            out.append(('parser.getElementsByXPathExpression', run(lambda: p.getElementsByXPathExpression(text))))
            out.append(('XPathExpression.evaluate(parser)', run(lambda: XPathExpression(text).evaluate(p))))
        elif case['frm'] == 'elem':
            e = roots[0]
            out.append(('element.getElementsByXPath', run(lambda: e.getElementsByXPath(text))))
            out.append(('element.getElementsByXPathExpression', run(lambda: e.getElementsByXPathExpression(text))))
            out.append(('XPathExpression.evaluate(element)', run(lambda: XPathExpression(text).evaluate(e))))
        else:
            coll = TagCollection(roots)
            out.append(('collection.getElementsByXPath', run(lambda: coll.getElementsByXPath(text))))
            out.append(('XPathExpression.evaluate(collection)', run(lambda: XPathExpression(text).evaluate(coll))))
            out.append(('XPathExpression.evaluate(list)', run(lambda: XPathExpression(text).evaluate(list(roots)))))
        return out

    @staticmethod
    def _out_of_domain(case):
        return any(static_error(p) for st in case['steps'] for p in st[3])

    def oracle(self, case):
        if self._out_of_domain(case):
            return None
        p, _ = self._doc(case)
        text = self._text(case)
        els = pc.preorder(p.getRoot())
        rank = {id(e): i for i, e in enumerate(els)}
        got = self._impl(p, case, text)
        first = got[0][1]
        for name, r in got[1:]:
            if r != first:
                return 'entry points disagree on %r: %s gives %s, %s gives %s' % (text, got[0][0], first, name, r)
        try:
            exp = [rank[id(e)] for e in evalpath(case['steps'], self._roots(p, case))]
        except Err:
            return None          # outside the reference semantics: compared with the model only
        if first != exp:
            return '%r from %s: the library returns %s, the expression denotes %s' % (text, case['frm'], first, exp)
        return None

    def run_impl(self, case):
        if self._out_of_domain(case):
            return None
        p, rec = self._doc(case, recording=True)
        if rec[0] != 'ok' or not pc.names_ascii(rec[1], rec[2]):
            return None
        r = self._impl(p, case, self._text(case))[0][1]
        return 'exc' if isinstance(r, str) else '[%s]' % ','.join(map(str, r))

    # AST -> Coq
    def _cx(self, e):
        k = e[0]
        if k == 'num':
            return '(XNum %d)' % e[1]
        if k == 'str':
            return '(XStr %s)' % cs(e[1])
        if k == 'attr':
            return '(XAttr %s)' % cs(e[1])
        if k == 'text':
            return 'XText'
        if k == 'nspace':
            return '(XNorm %s)' % ('None' if e[1] is None else '(Some %s)' % self._cx(e[1]))
        if k == 'contains':
            return '(XContains %s %s)' % (self._cx(e[1]), self._cx(e[2]))
        if k == 'concat':
            return '(XConcat %s)' % clist(self._cx(x) for x in e[1])
        if k == 'last':
            return 'XLast'
        if k == 'pos':
            return 'XPos'
        if k == 'ar':
            op = {'+': 'OAdd', '-': 'OSub', '*': 'OMul', 'div': 'ODiv', 'mod': 'OMod'}[e[1]]
            return '(XBin %s %s %s)' % (op, self._cx(e[2]), self._cx(e[3]))
        if k == 'cat':
            return '(XBin OCat %s %s)' % (self._cx(e[1]), self._cx(e[2]))
        if k == 'cmp':
            op = {'=': 'OEq', '!=': 'ONe', '<': 'OLt', '>': 'OGt', '<=': 'OLe', '>=': 'OGe'}[e[1]]
            return '(XBin %s %s %s)' % (op, self._cx(e[2]), self._cx(e[3]))
        return '(XBin %s %s %s)' % ('OAnd' if k == 'and' else 'OOr', self._cx(e[1]), self._cx(e[2]))

    def coq_case(self, case):
        p, rec = self._doc(case, recording=True)
        els = pc.preorder(p.getRoot())
        rank = {id(e): i for i, e in enumerate(els)}
        roots = [rank[id(e)] for e in self._roots(p, case)]
        steps = []
        for lead, ax, nm, preds in case['steps']:
            axis = {None: 'None', 'child': '(Some AChild)', 'descendant': '(Some ADesc)', 'descendant-or-self': '(Some ADescSelf)',
                    'parent': '(Some AParent)', 'ancestor': '(Some AAnc)', 'ancestor-or-self': '(Some AAncSelf)'}[ax]
            steps.append('(%s, %s, %s, %s)' % ('true' if lead == '//' else 'false', axis, cs(nm), clist(self._cx(x) for x in preds)))
        return '(%s, %s, %s)' % (pc.coq_doc(rec[1], rec[2]), clist(map(str, roots)), clist(steps))

    def shrink_candidates(self, case):
        steps = case['steps']
        for i in range(len(steps)):
            if len(steps) > 1:
                yield dict(case, steps=steps[:i] + steps[i + 1:])
        for i, (lead, ax, nm, preds) in enumerate(steps):
            for j in range(len(preds)):
                yield dict(case, steps=steps[:i] + [[lead, ax, nm, preds[:j] + preds[j + 1:]]] + steps[i + 1:])
                for sub in preds[j][1:]:
                    if isinstance(sub, list) and sub and isinstance(sub[0], str) and sub[0] in ('cmp', 'and', 'or', 'contains', 'ar', 'num', 'last', 'pos'):
                        yield dict(case, steps=steps[:i] + [[lead, ax, nm, preds[:j] + [sub] + preds[j + 1:]]] + steps[i + 1:])
        if case['frm'] != 'doc':
            yield dict(case, frm='doc')

    def nontrivial_key(self, case, snap):
        return json.dumps(case['steps']) if snap not in ('[]', 'exc') else None

    def finding_key(self, case, what):
        feats = [f for f in ['>=', '<=', 'position()', 'last()', ' mod ', ' div ', 'concat', 'contains', 'normalize', '||', ' and ', ' or ', '::'] if f.lower() in what.lower()]
        return ('exc' if 'exc:' in what else 'result') + '/' + '+'.join(feats)


CHECK = C14
