"""C08 - all views of an element's attributes agree after any sequence of attribute edits."""
import copy
import itertools
import json
import pickle

from harness import core
from harness.core import clist
from harness.props import attrs_common as ac

NAMES = ['id', 'data-x', 'checked', 'title', 'ID', '1x']
VALUES = ['v', '', 'a"b', 'two words', '7', 'é']
READ_NAMES = ['id', 'data-x', 'checked', 'title', 'ID', 'CHECKED', 'class', 'style', 'hidden', 'zz', 'lang', 'data-flag']
BINARY = None
_SENTINEL = 'default-sentinel-value'


def binary_names():
    global BINARY
    if BINARY is None:
        from AdvancedHTMLParser.constants import TAG_ITEM_BINARY_ATTRIBUTES
        BINARY = set(TAG_ITEM_BINARY_ATTRIBUTES)
    return BINARY


snapshot = ac.snapshot


def is_valid(n):
    if not n or not (n[0].isalpha() or n[0] == '_'):
        return False
    return all(ch.isalnum() or ch in '-_' for ch in n)


class C08(core.Check):
    ID = 'C08'
    RUN_MODULE = 'Corr.Run_Attr'
    RUN_FN = 'run_attr'
    CASE_TYPE = '((origin * list (string * option string)) * bool * list op)'
    SHARD = 250
    RULE = ('operation histories on the attribute store of one <input> element (setAttribute, setAttributes, removeAttribute, '
            'attributes[k]=v, del attributes[k], dot-assignment of linked names incl. boolean ones, interleaved reads that synchronise) '
            'over 6 names (plain, data-*, boolean, linked, upper-case spelling, invalid) x 6 values (plain, empty, with a double quote, with spaces, '
            'numeric, non-ASCII); elements created directly, by the parser (incl. value-less attributes), by cloneNode and by unpickling; '
            'after every operation all views are snapshotted (hasAttribute before any synchronising read, getAttribute, items, start tag). '
            'quick: exhaustive length<=2 + random <=25 ops; thorough: exhaustive length 3, sampled length 4. '
            'non-trivial = the mapping changes at least once; distinct by canonical JSON')
    TRUSTED = ['CPython dict insertion order; str.lower/isalpha/isalnum on ASCII names as transcribed in Model/Str.v',
               'stdlib html.parser tokenizer for the re-parse view (oracle only)', 'pickle/copy machinery']
    ASSUMPTIONS = ['attribute names are ASCII; the class and style keys are left to C09/C10']
    PARTIAL = ['views implemented outside the store (AttributeNodeMap, getAttributesDict, cloneNode/copy/repr, re-parse of the start tag) are '
               'compared by the oracle on every generated history, not modelled in Gallina']

    def _alphabet(self):
        ops = []
        for n in NAMES:
            for v in VALUES:
                ops.append(['setAttribute', n, v])
                if is_valid(n):
                    ops.append(['setitem', n, v])
            ops.append(['removeAttribute', n])
            ops.append(['delitem', n])
        for v in VALUES:
            ops.append(['dot', 'title', v])
            ops.append(['dot', 'id', v])
        for b in (True, False):
            ops.append(['dot', 'checked', b])
            ops.append(['dot', 'hidden', b])
        ops.append(['setAttributes', [['id', 'v'], ['data-x', '']]])
        ops.append(['read', 'items'])
        ops.append(['read', 'startTag'])
        return ops

    def generate(self):
        rng = self.rng
        alpha = self._alphabet()
        cases = []
        seeds = [('direct', []), ('parsed', [['checked', None], ['id', 'v']]), ('cloned', [['title', 'a"b']]),
                 ('unpickled', [['data-x', 'two words'], ['checked', '']]), ('direct', [['ID', 'x'], ['1x', 'bad']])]
        n_ex = 0
        if self.tier == 'quick':
            for op in alpha:
                for sd in seeds:
                    cases.append(dict(origin=sd[0], attrs=sd[1], ops=[op]))
                    n_ex += 1
            pairs = list(itertools.product(alpha, repeat=2))
            for a, b in rng.sample(pairs, 1500):
                cases.append(dict(origin='direct', attrs=[], ops=[a, b]))
                n_ex += 1
        else:
            for k in (1, 2):
                for combo in itertools.product(alpha, repeat=k):
                    cases.append(dict(origin='direct', attrs=[], ops=list(combo)))
                    n_ex += 1
            for _ in range(60000):
                cases.append(dict(origin=rng.choice(seeds)[0], attrs=rng.choice(seeds)[1],
                                  ops=[rng.choice(alpha) for _ in range(rng.choice([3, 3, 4]))]))
                n_ex += 1
        nrand = 400 if self.tier == 'quick' else 6000
        more_names = ['id', 'name', 'title', 'lang', 'data-x', 'data-y', 'checked', 'disabled', 'required', 'value', 'type',
                      'ID', 'Title', 'CHECKED', '1x', 'a b', 'x_y', 'onclick', 'maxlength', 'tabindex', 'class', 'style']
        dotnames = ['id', 'name', 'title', 'lang', 'value', 'type', 'align', 'onclick', 'alt', 'src']
        for _ in range(nrand):
            ops = []
            for _ in range(rng.randint(1, 25)):
                r = rng.random()
                n = rng.choice(more_names)
                v = rng.choice(VALUES + ['x y', 'a b', 'color: red', 'None'])
                if r < 0.3:
                    ops.append(['setAttribute', n, v])
                elif r < 0.4:
                    ops.append(['removeAttribute', n])
                elif r < 0.5 and is_valid(n):
                    ops.append(['setitem', n, v])
                elif r < 0.58:
                    ops.append(['delitem', n])
                elif r < 0.7:
                    ops.append(['dot', rng.choice(dotnames), v])
                elif r < 0.78:
                    ops.append(['dot', rng.choice(['checked', 'hidden', 'disabled', 'required', 'multiple']), rng.random() < 0.6])
                elif r < 0.85:
                    ops.append(['read', rng.choice(['items', 'startTag', 'keys', 'repr'])])
                elif r < 0.9:
                    ops.append(['read', rng.choice(['has', 'get']), rng.choice(more_names)])
                else:
                    pairs, seen_n = [], set()
                    for _ in range(rng.randint(0, 3)):
                        nn = rng.choice(more_names if rng.random() < 0.5 else more_names[:10])
                        if nn not in seen_n:
                            seen_n.add(nn)
                            pairs.append([nn, rng.choice(VALUES)])
                    ops.append(['setAttributes', pairs])
            sd = rng.choice(seeds)
            origin = rng.choice(['direct', 'parsed', 'cloned', 'unpickled'])
            attrs = [[rng.choice(['id', 'title', 'checked', 'data-x', 'disabled', 'value']), rng.choice([None, 'v', '', 'two words'])]
                     for _ in range(rng.randint(0, 3))]
            # a parser/constructor attribute list keeps the last duplicate; keep names distinct for a clear expectation
            seen, uniq = set(), []
            for n, v in attrs:
                if n not in seen:
                    seen.add(n)
                    uniq.append([n, v])
            cases.append(dict(origin=origin, attrs=uniq, ops=ops))
        # the "true"/"false"-string family (spellcheck): every write path stores the converted text, every view shows that one text.
        # Own generator state, appended after the families above so that their cases stay as they were.
        import random as _random
        rng2 = _random.Random('c08-boolstr-%s' % getattr(self, 'seed', 0))
        bs_names = ['spellcheck', 'SpellCheck', 'spellcheck', 'id', 'title']
        bs_values = ['yes', 'false', 'FALSE', 'true', '', '0', 'on words', 'v', 'False']
        nbs = 80 if self.tier == 'quick' else 1500
        for _ in range(nbs):
            ops = []
            for _ in range(rng2.randint(1, 6)):
                r = rng2.random()
                n = rng2.choice(bs_names)
                v = rng2.choice(bs_values)
                if r < 0.3:
                    ops.append(['setAttribute', n, v])
                elif r < 0.45:
                    ops.append(['setitem', n, v])
                elif r < 0.6:
                    ops.append(['dot', 'spellcheck', rng2.choice(bs_values + [True, False])])
                elif r < 0.7:
                    ops.append(['setAttributes', [[n, v]]])
                elif r < 0.8:
                    ops.append([rng2.choice(['removeAttribute', 'delitem']), n])
                elif r < 0.9:
                    ops.append(['read', rng2.choice(['items', 'startTag', 'keys', 'repr'])])
                else:
                    ops.append(['read', rng2.choice(['has', 'get']), n])
            attrs = [['spellcheck', rng2.choice(bs_values)]] if rng2.random() < 0.5 else []
            cases.append(dict(origin=rng2.choice(['direct', 'parsed', 'cloned', 'unpickled']), attrs=attrs, ops=ops))
        self.stats.update(exhaustive_family=n_ex, random_histories=nrand, alphabet=len(alpha), boolean_string_histories=nbs)
        return ac.alternate_each(cases)

    # ------------------------------------------------------------------ implementation
    def run_impl(self, case):
        return ac.run_case(case)

    def coq_case(self, case):
        return ac.coq_case(case)

    # ------------------------------------------------------------------ oracle
    def _linked_battery(self):
        """dot-assignment of every linked string property of every element name in the table: the value is read back through the
        property, through getAttribute under exactly one (lower-case) name, through the mapping, the attribute list and the start tag"""
        import re as _re
        from AdvancedHTMLParser.Tags import AdvancedTag
        from AdvancedHTMLParser import constants as K
        special = set(K.TAG_ITEM_ATTRIBUTES_SPECIAL_VALUES) | set(K.TAG_ITEM_ATTRIBUTES_SPECIAL_VALIDATION)
        binary = set(K.TAG_ITEM_BINARY_ATTRIBUTES) | set(K.TAG_ITEM_BINARY_ATTRIBUTES_STRING_ATTR)
        for tag in sorted(K.TAG_NAMES_TO_ADDITIONAL_ATTRIBUTES):
            for name in sorted(K.TAG_NAMES_TO_ADDITIONAL_ATTRIBUTES[tag]):
                html = K.TAG_ITEM_CHANGE_NAME_FROM_ITEM.get(name, name)
                if name in special or html in binary or name in binary or len(name) < 2 or name in ('class', 'className', 'style'):
                    continue
                el = AdvancedTag(tag)
                before = len(el.attributes.keys())
                for v in ('v1', 'second value'):
                    setattr(el, name, v)
                    where = '<%s>.%s = %r' % (tag, name, v)
                    if getattr(el, name) != v:
                        return '%s: reading the property gives %r' % (where, getattr(el, name))
                    keys = list(el.attributes.keys())
                    if len(keys) != before + 1:
                        return '%s: the mapping now has the names %r' % (where, keys)
                    k = keys[-1]
                    if k != k.lower() or el.getAttribute(k) != v or el.attributes[k] != v or dict(el.getAttributesList()).get(k) != v:
                        return '%s: stored as %r, getAttribute gives %r' % (where, k, el.getAttribute(k))
                    if (' %s="%s"' % (k, v)) not in el.getStartTag():
                        return '%s: the start tag is %s' % (where, el.getStartTag())
        return None

    def oracle(self, case):
        if not getattr(self, '_battery_done', False):
            self._battery_done = True
            bad = self._linked_battery()
            if bad:
                return bad
        binary = binary_names()
        t, keep = ac.new_element(case['origin'], case['attrs'])
        spec = []          # ordered list of [lower name, value]

        def sset(n, v):
            n = n.lower()
            if n == 'spellcheck':
                # the one attribute whose HTML value is the word true or false: every write path stores that word
                # (documented in conversions.convertToBooleanString: 'false' and '0' in any letter case, and false objects, give false)
                if isinstance(v, str):
                    v = 'false' if v.lower() in ('false', '0') else 'true'
                else:
                    v = 'true' if v else 'false'
            for e in spec:
                if e[0] == n:
                    e[1] = v
                    return
            spec.append([n, v])

        def sdel(n):
            n = n.lower()
            spec[:] = [e for e in spec if e[0] != n]
        for n, v in case['attrs']:
            if is_valid(n.lower()) and n.lower() not in ('class', 'style'):
                sset(n, v)
        bad = self._views(t, spec, binary, 'initially')
        if bad:
            return bad
        for op in case['ops']:
            k = op[0]
            before = json.dumps(spec)
            res = ac.apply_op(t, op)
            expect = 'ok'
            touched_special = False
            if k == 'setAttribute':
                if not is_valid(op[1]):
                    expect = 'exc:KeyError'
                elif op[1].lower() in ('class', 'style'):
                    touched_special = True
                else:
                    sset(op[1], op[2])
            elif k == 'setAttributes':
                for n, v in op[1]:
                    if not is_valid(n):
                        expect = 'exc:KeyError'
                        break
                    if n.lower() not in ('class', 'style'):
                        sset(n, v)
            elif k in ('removeAttribute', 'delitem'):
                if op[1].lower() not in ('class', 'style'):
                    sdel(op[1])
            elif k == 'setitem':
                if op[1].lower() not in ('class', 'style'):
                    sset(op[1], op[2])
            elif k == 'dot':
                n, v = op[1], op[2]
                if n == 'spellcheck':
                    sset(n, v)
                elif v is True or v is False:
                    if v:
                        sset(n, '')
                    else:
                        sdel(n)
                else:
                    sset(n, str(v))
            if res != expect:
                return '%s: outcome %s, expected %s' % (op, res, expect)
            bad = self._views(t, spec, binary, 'after %s' % (op,))
            if bad:
                return bad
        return None

    def _views(self, t, spec, binary, when):
        special = ('class', 'style')
        sd = dict((n, v) for n, v in spec)
        # hasAttribute / in  (case-insensitive)
        for n in READ_NAMES + [e[0] for e in spec]:
            if n.lower() in special:
                continue
            if t.hasAttribute(n) != (n.lower() in sd):
                return '%s: hasAttribute(%r) is %s' % (when, n, t.hasAttribute(n))
            if (n in t.attributes) != (n.lower() in sd):
                return "%s: %r in attributes is %s" % (when, n, n in t.attributes)
        # getAttribute
        for n in READ_NAMES + [e[0] for e in spec] + [e[0].upper() for e in spec]:
            ln = n.lower()
            if ln in special:
                continue
            got = t.getAttribute(n)
            if ln in binary:
                if ln in sd:
                    exp = sd[ln] if sd[ln] else True
                else:
                    exp = False
            else:
                exp = sd.get(ln)
            if got != exp or type(got) is not type(exp):
                return '%s: getAttribute(%r) = %r, mapping says %r' % (when, n, got, exp)
            if ln not in binary:
                g2 = t.attributes[n]
                if g2 != sd.get(ln):
                    return '%s: attributes[%r] = %r, mapping says %r' % (when, n, g2, sd.get(ln))
                # the default of get / getAttribute is used exactly when the name is absent (a value-less attribute is present)
                exp3 = sd[ln] if ln in sd else _SENTINEL
                g3 = t.attributes.get(n, _SENTINEL)
                if g3 is not exp3 and g3 != exp3:
                    return '%s: attributes.get(%r, default) = %r, mapping says %s' % (when, n, g3, 'the default' if exp3 is _SENTINEL else repr(exp3))
                g4 = t.getAttribute(n, _SENTINEL)
                if g4 is not exp3 and g4 != exp3:
                    return '%s: getAttribute(%r, default) = %r, mapping says %s' % (when, n, g4, 'the default' if exp3 is _SENTINEL else repr(exp3))
        # ordered views
        plain = [[n, v] for n, v in ((k, v) for k, v in t.attributes.items()) if n not in special]
        if plain != [list(e) for e in spec]:
            return '%s: attributes.items() lists %r, mapping is %r' % (when, plain, spec)
        keys = [k for k in t.attributes.keys() if k not in special]
        if keys != [e[0] for e in spec]:
            return '%s: attributes.keys() order %r' % (when, keys)
        it = [k for k in t.attributes if k not in special]
        if it != [e[0] for e in spec]:
            return '%s: iteration order %r' % (when, it)
        al = [[n, v] for n, v in t.getAttributesList() if n not in special]
        if al != [list(e) for e in spec]:
            return '%s: getAttributesList() = %r, mapping is %r' % (when, al, spec)
        ad = dict((n, v) for n, v in t.getAttributesDict().items() if n not in special)
        if ad != sd or [n for n in t.getAttributesDict() if n not in special] != [e[0] for e in spec]:
            return '%s: getAttributesDict() = %r, mapping is %r' % (when, ad, sd)
        dom = t.attributesDOM
        dn = [n for n in dom if n not in special]
        if dn != [e[0] for e in spec]:
            return '%s: attribute node map lists %r' % (when, dn)
        for n, v in spec:
            node = dom.getNamedItem(n)
            if node is None or node.value != v:
                return '%s: attribute node %r has value %r, mapping says %r' % (when, n, getattr(node, 'value', None), v)
        # rendered start tag
        st = t.getStartTag()
        if not isinstance(st, str):
            return '%s: getStartTag() returned %r' % (when, st)
        rendered = ac.start_attrs(t)
        want = []
        for n, v in [(k, v) for k, v in t.attributes.items()]:
            if n in special:
                want.append('%s="%s"' % (n, str(v).replace('"', '&quot;')))
            elif v is None or (not v and n in binary):
                want.append(n)
            else:
                want.append('%s="%s"' % (n, v.replace('"', '&quot;')))
        if rendered != ' '.join(want):
            return '%s: start tag shows %r, mapping renders as %r' % (when, rendered, ' '.join(want))
        # re-parse of the start tag
        ok_names = all(is_valid(n) for n, _ in spec)
        if ok_names and not any(v and '&' in v for _, v in spec):
            r = ac.reparse_attrs(t)
            back = [[n, v] for n, v in r.attributes.items() if n not in special]
            norm = [[n, (None if (v is None or (v == '' and n in binary)) else v)] for n, v in spec]
            backn = [[n, (None if (v is None or (v == '' and n in binary)) else v)] for n, v in back]
            if backn != norm:
                return '%s: re-parsing the start tag gives %r, mapping is %r' % (when, back, spec)
            for n, v in spec:
                if n in binary and not r.hasAttribute(n):
                    return '%s: boolean attribute %r does not read back as present' % (when, n)
        # dot access of linked names
        for n in ('id', 'title', 'name', 'lang'):
            got = getattr(t, n)
            exp = sd.get(n)
            if got != (exp if exp is not None else ('' if n not in sd else None)) and not (n in sd and exp is None):
                return '%s: dot access .%s = %r, mapping says %r' % (when, n, got, exp)
        for n in ('checked', 'hidden', 'disabled'):
            if getattr(t, n) is not (n in sd):
                return '%s: dot access .%s = %r but presence is %s' % (when, n, getattr(t, n), n in sd)
        # copies
        for how, c in (('cloneNode', t.cloneNode()), ('copy', copy.copy(t)), ('repr', self._eval_repr(t)),
                       ('pickle', pickle.loads(pickle.dumps(t)) if t.parentNode is None and t.ownerDocument is None else None)):
            if c is None:
                continue
            cl = [[n, v] for n, v in c.attributes.items() if n not in special]
            if cl != [list(e) for e in spec]:
                return '%s: %s reproduces %r, mapping is %r' % (when, how, cl, spec)
        return None

    def _eval_repr(self, t):
        from AdvancedHTMLParser.Tags import AdvancedTag
        try:
            return eval(repr(t), {'AdvancedTag': AdvancedTag})
        except Exception:
            return None

    def shrink_candidates(self, case):
        ops = case['ops']
        for i in range(len(ops) - 1, -1, -1):
            yield dict(case, ops=ops[:i] + ops[i + 1:])
        if case['attrs']:
            for i in range(len(case['attrs'])):
                yield dict(case, attrs=case['attrs'][:i] + case['attrs'][i + 1:])
        if case['origin'] != 'direct':
            yield dict(case, origin='direct')

    def nontrivial_key(self, case, snap):
        parts = snap.split('\x1f')
        states = set(p.split('|', 1)[1] for p in parts if '|' in p)
        return json.dumps(case, sort_keys=True) if len(states) > 1 else None

    def finding_key(self, case, what):
        import re
        w = re.sub(r"^(initially|after \[[^\]]*\]): ", '', what)
        return re.sub(r"[\[\(\{'\"].*$", '', w).strip()[:60]


CHECK = C08
