(* Base.v — strings as UTF-8 byte strings, hex interchange, decimal printing, the generic
   correspondence comparator.  Stdlib only. *)
From Coq Require Export String Ascii List Bool Arith ZArith Lia.
Export ListNotations.
Open Scope string_scope.
Open Scope list_scope.
Open Scope nat_scope.
Infix "+++" := String.append (right associativity, at level 60).

(* ---------- hex interchange (harness -> Coq) ---------- *)
Definition hexval (c : ascii) : nat :=
  let n := nat_of_ascii c in
  if (48 <=? n) && (n <=? 57) then n - 48
  else if (97 <=? n) && (n <=? 102) then n - 87
  else if (65 <=? n) && (n <=? 70) then n - 55 else 0.

Fixpoint unhex (s : string) : string :=
  match s with
  | String a (String b r) => String (ascii_of_nat (16 * hexval a + hexval b)) (unhex r)
  | _ => EmptyString
  end.

Definition hexdigit (n : nat) : ascii :=
  if n <? 10 then ascii_of_nat (48 + n) else ascii_of_nat (87 + n).

Fixpoint hex (s : string) : string :=
  match s with
  | EmptyString => EmptyString
  | String c r => let n := nat_of_ascii c in String (hexdigit (n / 16)) (String (hexdigit (n mod 16)) (hex r))
  end.

(* ---------- decimal printing ---------- *)
Fixpoint pos_digits (fuel : nat) (n : N) (acc : string) : string :=
  match fuel with
  | O => acc
  | S f =>
    let d := N.to_nat (N.modulo n 10) in
    let acc' := String (ascii_of_nat (48 + d)) acc in
    if N.ltb n 10 then acc' else pos_digits f (N.div n 10) acc'
  end.
Definition N_to_string (n : N) : string := pos_digits (S (N.to_nat (N.log2 n))) n "".
Definition nat_to_string (n : nat) : string := N_to_string (N.of_nat n).
Definition Z_to_string (z : Z) : string :=
  match z with
  | Z0 => "0" | Zpos p => N_to_string (Npos p) | Zneg p => "-" +++ N_to_string (Npos p)
  end.

Fixpoint sjoin (sep : string) (l : list string) : string :=
  match l with
  | [] => ""
  | [x] => x
  | x :: r => x +++ sep +++ sjoin sep r
  end.

Definition show_nats (l : list nat) : string := "[" +++ sjoin "," (map nat_to_string l) +++ "]".

(* ---------- the comparator used by every generated Cases_k.v ---------- *)
Fixpoint mismatches_from {C : Type} (run : C -> string) (i : nat) (cases : list (C * string)) : list nat :=
  match cases with
  | [] => []
  | (c, expected) :: r =>
      if String.eqb (run c) (unhex expected) then mismatches_from run (S i) r
      else i :: mismatches_from run (S i) r
  end.
Definition mismatches {C : Type} (run : C -> string) (cases : list (C * string)) : list nat :=
  mismatches_from run 0 cases.
