"""C04 - DOM structural invariants hold after any history of mutations."""
import json
import re

from harness import core
from harness.props import dom_common as dc


def check_invariants(w):
    """the invariant list of the property evaluated on the real objects -> None | description"""
    seen = {}
    for r in w.roots():
        if r.parentNode is not None:
            return 'root %d of a tree has parentNode set' % w.rk(r)
        in_doc = (r is w.root and w.parser is not None)
        for e in w.preorder(r):
            if id(e) in seen:
                return 'element %d appears twice / under two parents' % w.rk(e)
            seen[id(e)] = 1
            tagblocks = [b for b in e.blocks if dc.is_tag(b)]
            if len(tagblocks) != len(e.children) or any(a is not b for a, b in zip(tagblocks, e.children)):
                return 'children of %d %s differ from the element entries of its block list %s' % (
                    w.rk(e), [w.rk(c) for c in e.children], [w.rk(c) for c in tagblocks])
            for c in e.children:
                if c.parentNode is not e:
                    return 'parentNode of %d is %s, it is a child of %d' % (w.rk(c), None if c.parentNode is None else w.rk(c.parentNode), w.rk(e))
            txt = ''.join(b for b in e.blocks if not dc.is_tag(b))
            if e.text != txt or e.innerText != txt:
                return 'text of %d is %r, its text blocks concatenate to %r' % (w.rk(e), e.text, txt)
            if e.isSelfClosing and (txt or e.children):
                return 'element %d is marked self-closing but has text or children' % w.rk(e)
            if in_doc and e.ownerDocument is not w.parser:
                return 'ownerDocument of %d (inside the document) is not the parser' % w.rk(e)
            if not in_doc and e.ownerDocument is not None:
                return 'ownerDocument of %d (in a removed/detached subtree) is not None' % w.rk(e)
            # navigation
            eff = e.blocks[1:] if (e.blocks and e.blocks[0] == '') else list(e.blocks)
            fc, lc = e.firstChild, e.lastChild
            if (fc is not (eff[0] if eff else None)) and not (isinstance(fc, str) and eff and fc == eff[0]):
                return 'firstChild of %d is %r' % (w.rk(e), fc if isinstance(fc, str) or fc is None else w.rk(fc))
            if (lc is not (eff[-1] if eff else None)) and not (isinstance(lc, str) and eff and lc == eff[-1]):
                return 'lastChild of %d is wrong' % w.rk(e)
            if e.firstElementChild is not (e.children[0] if e.children else None):
                return 'firstElementChild of %d is wrong' % w.rk(e)
            if e.lastElementChild is not (e.children[-1] if e.children else None):
                return 'lastElementChild of %d is wrong' % w.rk(e)
            if e.childElementCount != len(tagblocks):
                return 'childElementCount of %d is wrong' % w.rk(e)
            desc = w.preorder(e)[1:]
            got = list(e.getAllChildNodes())
            if len(got) != len(desc) or any(a is not b for a, b in zip(got, desc)):
                return 'getAllChildNodes of %d is not its descendants in document order' % w.rk(e)
            for i, b in enumerate(e.blocks):
                if not dc.is_tag(b):
                    continue
                nxt = e.blocks[i + 1] if i + 1 < len(e.blocks) else None
                prv = e.blocks[i - 1] if i > 0 else None
                if not _same(b.nextSibling, nxt):
                    return 'nextSibling of %d is wrong' % w.rk(b)
                if not _same(b.previousSibling, prv):
                    return 'previousSibling of %d is wrong' % w.rk(b)
                ci = [j for j, c in enumerate(e.children) if c is b][0]
                if b.nextElementSibling is not (e.children[ci + 1] if ci + 1 < len(e.children) else None):
                    return 'nextElementSibling of %d is wrong' % w.rk(b)
                if b.previousElementSibling is not (e.children[ci - 1] if ci > 0 else None):
                    return 'previousElementSibling of %d is wrong' % w.rk(b)
                peers = list(b.getPeers())
                exp = [c for c in e.children if c is not b]
                if len(peers) != len(exp) or any(x is not y for x, y in zip(peers, exp)):
                    return 'getPeers of %d is wrong' % w.rk(b)
                if not e.hasChild(b) or not e.contains(b):
                    return 'hasChild/contains of %d for its child %d is False' % (w.rk(e), w.rk(b))
        if r.getPeers() is not None and r.nextSibling is not None:
            return 'a root has siblings'
    # contains agrees with the trees
    els = w.all_elements()
    for a in els[:6]:
        below = set(id(x) for x in w.preorder(a))
        for b in els[:10]:
            if a.contains(b) != (id(b) in below):
                return 'contains(%d, %d) is %s' % (w.rk(a), w.rk(b), a.contains(b))
            if a.hasChild(b) != any(c is b for c in a.children):
                return 'hasChild(%d, %d) is wrong' % (w.rk(a), w.rk(b))
    return None


def _same(a, b):
    if isinstance(a, str) or isinstance(b, str):
        return a == b
    return a is b


class C04(core.Check):
    ID = 'C04'
    RUN_MODULE = 'Corr.Run_Dom'
    RUN_FN = 'run_dom_nav'
    CASE_TYPE = dc.CASE_TYPE
    SHARD = 150
    RULE = ('mutation histories (appendChild, appendText, appendBlock(s), insertBefore, insertAfter, removeChild(ren), removeBlock(s), '
            'removeText, removeTextAll, remove, failing calls included) on seed trees owned by a parser or built detached through the DOM API, '
            'with 3 spare detached elements (one self-closing) and 5 text values; every element/position of the current tree is a possible target '
            'or reference; precondition kept: an appended/inserted element is a detached root not containing the target. After every call the '
            'full world (every root: uid, name, isSelfClosing, parentNode, ownerDocument, children, text, blocks) and the return value are '
            'compared with the model and the invariant list + navigation are evaluated on the real objects; appendInnerHTML histories are '
            'checked by the invariant oracle only. quick: 6 fixed seeds + random seeds, random <=12 calls and all single calls of a small family; '
            'thorough: random <=40 calls on trees <=60 nodes and the exhaustive family of <=3 calls. non-trivial = a call changes the world')
    TRUSTED = ['uuid4 freshness; list.index/remove through AdvancedTag.__eq__; str.replace/in as transcribed (Model/Dom.v)']
    ASSUMPTIONS = ['precondition of the property: an element passed to an append/insert call is currently detached (no re-parenting)']
    PARTIAL = ['appendInnerHTML is covered by the invariant oracle (and by C20), not by the Gallina world model']

    def generate(self):
        rng = self.rng
        cases = []
        nrand, maxops = (260, 12) if self.tier == 'quick' else (3000, 40)
        for i in range(nrand):
            toks = rng.choice(dc.SEED_TOKENS) if rng.random() < 0.5 else dc.gen_tokens(rng, maxn=8 if self.tier == 'quick' else 60,
                                                                                       depth=3 if self.tier == 'quick' else 6)
            base = dict(tokens=toks, spares=dc.SPARES, owner=rng.choice(['parser', 'parser', 'api']))
            cases.append(dc.gen_history(rng, base, rng.randint(1, maxops)))
        # small exhaustive-style family: every single call on every target of the small seeds
        fam = 0
        for toks in dc.SEED_TOKENS[:3]:
            for owner in ('parser', 'api'):
                base = dict(tokens=toks, spares=dc.SPARES, owner=owner)
                w = dc.World(dict(base, ops=[]))
                n = len(w.objs)
                nseed = n - len(dc.SPARES)
                for t in range(n):
                    first = []
                    blocks = [['T', 'x'], ['T', ''], ['E', nseed], ['E', nseed + 2]]
                    refs = [None, ['T', 'x'], ['T', ''], ['T', 'nope'], ['E', 1], ['E', nseed + 1]]
                    for b in blocks:
                        if b[0] == 'E' and b[1] == t:
                            continue
                        first.append(['appendBlock', t, b])
                        for r in refs:
                            if r == b:
                                continue
                            first.append(['insertBefore', t, b, r])
                            first.append(['insertAfter', t, b, r])
                    for c in range(n):
                        first.append(['removeChild', t, c])
                    for s in dc.TEXTS:
                        first += [['removeText', t, s], ['removeTextAll', t, s], ['appendText', t, s]]
                    strad = [['removeText', t, s] for s in dc.straddling(w.objs[t])] + [['removeTextAll', t, s] for s in dc.straddling(w.objs[t])]
                    first += strad
                    first.append(['remove', t])
                    sample = first if self.tier == 'thorough' else rng.sample(first, min(len(first), 14)) + strad[:2]
                    for op in sample:
                        cases.append(dict(base, ops=[op]))
                        fam += 1
        # moving a deep subtree: remove an element that has grandchildren, then put it back through each attaching call
        nmove = 24 if self.tier == 'quick' else 300
        moved = 0
        tries = 0
        while moved < nmove and tries < nmove * 20:
            tries += 1
            toks = dc.gen_tokens(rng, maxn=12 if self.tier == 'quick' else 40, depth=5)
            base = dict(tokens=toks, spares=dc.SPARES, owner=rng.choice(['parser', 'parser', 'api']))
            w = dc.World(dict(base, ops=[]))
            els = w.all_elements()
            deep = [e for e in els if e.parentNode is not None and any(g.children for c in e.children for g in c.children)]
            if not deep:
                continue
            x = rng.choice(deep)
            inside = set(id(y) for y in w.preorder(x))
            targets = [e for e in w.preorder(w.root) if id(e) not in inside and not e.isSelfClosing]
            if not targets:
                continue
            t = rng.choice(targets)
            xi, ti = w.rk(x), w.rk(t)
            refs = [None] + [(['E', w.rk(b)] if dc.is_tag(b) else ['T', b]) for b in t.blocks if not (dc.is_tag(b) and id(b) in inside)]
            how = rng.choice(['appendChild', 'appendBlock', 'insertBefore', 'insertAfter', 'appendBlocks'])
            if how == 'appendChild':
                op = ['appendChild', ti, xi]
            elif how == 'appendBlock':
                op = ['appendBlock', ti, ['E', xi]]
            elif how == 'appendBlocks':
                op = ['appendBlocks', ti, [['T', 'x'], ['E', xi]]]
            else:
                op = [how, ti, ['E', xi], rng.choice(refs)]
            cases.append(dict(base, ops=[['remove', xi], op]))
            moved += 1
        # invariant-only histories with appendInnerHTML
        ninner = 40 if self.tier == 'quick' else 600
        for _ in range(ninner):
            base = dict(tokens=rng.choice(dc.SEED_TOKENS), spares=dc.SPARES, owner=rng.choice(['parser', 'api']))
            c = dc.gen_history(rng, base, rng.randint(1, 10), with_inner_html=True)
            c['oracle_only'] = True
            cases.append(c)
        self.stats.update(random_histories=nrand, max_calls=maxops, single_call_family=fam, inner_html_histories=ninner)
        return cases

    def run_impl(self, case):
        if case.get('oracle_only'):
            return None
        return dc.run_case(case) + '\x1e' + self._nav_dump(case)

    @staticmethod
    def _nav_dump(case):
        """navigation properties of every element of the final world"""
        w = dc.World(case)
        for op in case['ops']:
            w.apply(op)

        def show(x):
            if x is None:
                return '-'
            if dc.is_tag(x):
                return 'E%d' % w.rk(x)
            return 'T' + core.hx(x)

        def nav(f):
            try:
                return show(f())
            except Exception:
                return '!'
        out = []
        for e in w.all_elements():
            try:
                p = e.getPeers()
                peers = '-' if p is None else '[%s]' % ','.join(str(w.rk(x)) for x in p)
            except Exception:
                peers = '!'
            out.append(','.join([str(w.rk(e)), nav(lambda: e.firstChild), nav(lambda: e.lastChild), nav(lambda: e.firstElementChild),
                                 nav(lambda: e.lastElementChild), nav(lambda: e.nextSibling), nav(lambda: e.previousSibling),
                                 nav(lambda: e.nextElementSibling), nav(lambda: e.previousElementSibling), peers, str(e.childElementCount)]))
        return ';'.join(out)

    def coq_case(self, case):
        return dc.coq_case(case)

    def oracle(self, case):
        w = dc.World(case)
        bad = check_invariants(w)
        if bad:
            return 'initially: ' + bad
        for i, op in enumerate(case['ops']):
            w.apply(op)
            bad = check_invariants(w)
            if bad:
                return 'after call %d %s: %s' % (i, op[0], bad)
        return None

    def shrink_candidates(self, case):
        ops = case['ops']
        for i in range(len(ops) - 1, -1, -1):
            yield dict(case, ops=ops[:i] + ops[i + 1:])
        for toks in dc.SEED_TOKENS[:2]:
            if case['tokens'] != toks and len(json.dumps(toks)) < len(json.dumps(case['tokens'])):
                yield dict(case, tokens=toks)

    def nontrivial_key(self, case, snap):
        parts = snap.split('\x1f')
        worlds = set(p.split('#')[0] for p in parts)
        return json.dumps(case, sort_keys=True) if len(worlds) > 1 else None

    def finding_key(self, case, what):
        w = re.sub(r'^(initially|after call \d+ \w+): ', '', what)
        return re.sub(r'\d+', 'N', w)[:60]


CHECK = C04
