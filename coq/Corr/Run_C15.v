(* Correspondence driver for C15. *)
From AHP Require Export Model.Base Model.XPathCache.

Definition show_result (r : result string) : string :=
  match r with
  | RNewOk _ => "new:ok" | RNewFail _ => "new:exc" | RNoObj _ => "noobj" | RVal _ s => "val:" +++ s | RStuck _ => "stuck"
  end.

Fixpoint insert_sorted (x : nat) (l : list nat) : list nat :=
  match l with [] => [x] | y :: r => if x <=? y then x :: l else y :: insert_sorted x r end.
Definition sort_nats (l : list nat) : list nat := fold_right insert_sorted [] l.

Definition show_cache (c : cache nat) : string :=
  "R" +++ show_nats (recent c) +++ "T" +++ show_nats (sort_nats (map fst (tbl c))) +++ "L" +++ (if locked c then "1" else "0").

(* case: bounds, which texts compile, what a failing compile reports, fresh evaluation results [text][tree], events *)
Definition run_C15 (c : Z * Z * list bool * list string * list (list string) * list (event)) : string :=
  let '(MAX, CLEAR, valid, perrs, table, es) := c in
  let compile := fun k => if nth k valid false then Some k else None in
  let evalf := fun v t => nth t (nth v table []) "?" in
  let '(outs, _) := run nat string compile evalf (fun k => nth k perrs "?") MAX CLEAR state0 es in
  sjoin ";" (map (fun rc => show_result (fst rc) +++ "/" +++ show_cache (snd rc)) outs).
