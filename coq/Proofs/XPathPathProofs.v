(* C14: whole location paths.  Steps compose (a path is evaluated as its prefix followed by its suffix on the prefix's result),
   every result is duplicate-free by uid, and nothing is selected that the axes of the steps do not reach from the start set. *)
From Coq Require Import Lia.
From AHP Require Import Model.Base Model.Str Model.Attr Model.Dom Model.Search Model.Index Model.Passes Model.XPath
     Proofs.PassesProofs Proofs.SearchProofs Proofs.DomProofs Proofs.IndexProofs Proofs.XPathProofs.

Section PathProofs.
  Variable num : Type.
  Variables nadd nsub nmul ndiv nmod : num -> num -> num.
  Variables neqb nltb nleb : num -> num -> bool.
  Variable nzero : num -> bool.
  Variable of_nat : nat -> num.
  Variable of_digits : string -> option num.
  Variable doc : tag.

  Notation filter_pred := (XPath.filter_pred num nadd nsub nmul ndiv nmod neqb nltb nleb nzero of_nat of_digits doc).
  Notation apply_preds := (XPath.apply_preds num nadd nsub nmul ndiv nmod neqb nltb nleb nzero of_nat of_digits doc).
  Notation run_steps := (XPath.run_steps num nadd nsub nmul ndiv nmod neqb nltb nleb nzero of_nat of_digits doc).
  Notation run := (XPath.run num nadd nsub nmul ndiv nmod neqb nltb nleb nzero of_nat of_digits doc).
  Notation select := (XPath.select doc).
  Notation kept := (XPathProofs.kept num nadd nsub nmul ndiv nmod neqb nltb nleb nzero of_nat of_digits doc).

  (* an empty current collection ends every evaluation with the empty result *)
  Lemma run_steps_nil first sts : run_steps first sts [] = XOk [].
  Proof. destruct sts as [|st r]; reflexivity. Qed.

  (* composition: a path is its (non-empty) prefix followed by the rest, the rest starting from the prefix's result *)
  Theorem run_steps_app : forall s1 s2 first cur, s1 <> [] ->
    run_steps first (s1 ++ s2) cur = match run_steps first s1 cur with XOk l => run_steps false s2 l | XErr => XErr end.
  Proof.
    induction s1 as [|st r IH]; intros s2 first cur Hne; [congruence|].
    cbn [List.app XPath.run_steps].
    destruct (dedup_tags (flat_map (select first st) cur)) as [|x nxt]; [symmetry; apply run_steps_nil|].
    destruct (apply_preds (snd st) (x :: nxt)) as [[|y l]|]; [symmetry; apply run_steps_nil| |reflexivity].
    destruct r as [|st' r']; [reflexivity|]. apply IH. discriminate.
  Qed.

  (* a predicate only removes elements *)
  Lemma filter_pred_incl p l l' : filter_pred p l = XOk l' -> forall x, In x l' -> In x l.
  Proof.
    intros H x Hx. apply (filter_pred_spec num nadd nsub nmul ndiv nmod neqb nltb nleb nzero of_nat of_digits doc) in H as [-> _].
    apply filter_In in Hx. tauto.
  Qed.
  Lemma NoDup_map_filter {A B} (f : A -> B) (g : A -> bool) l : NoDup (map f l) -> NoDup (map f (filter g l)).
  Proof.
    induction l as [|a l IH]; cbn [map filter]; intros H; [constructor|]. inversion H as [|? ? Hn Hr]; subst.
    destruct (g a); cbn [map]; [|auto]. constructor; [|auto]. intros Hin. apply Hn. apply in_map_iff in Hin as [y [Hy Hin]].
    apply filter_In in Hin as [Hin _]. apply in_map_iff. eauto.
  Qed.
  Lemma apply_preds_spec : forall ps l l', apply_preds ps l = XOk l' ->
    (forall x, In x l' -> In x l) /\ (NoDup (map tuid l) -> NoDup (map tuid l')).
  Proof.
    induction ps as [|p r IH]; intros l l' H; cbn [XPath.apply_preds] in H; [inversion H; subst; auto|].
    destruct l as [|t l0]; [inversion H; subst; auto|].
    destruct (filter_pred p (t :: l0)) as [lf|] eqn:E; [|discriminate].
    apply IH in H as [Hin Hnd]. split.
    - intros x Hx. apply (filter_pred_incl _ _ _ E). apply (proj1 (proj2 (dedup_tags_spec lf))). auto.
    - intros _. apply Hnd. apply (proj1 (dedup_tags_spec lf)).
  Qed.

  (* what a single step may select from one context element: the union of its axis images, whatever the name test *)
  Definition reach1 (t x : tag) : Prop :=
    x = t \/ In x (descendants t) \/ In x (ancestors doc (length (all_nodes doc)) t).
  Lemma kids_descendants t x : In x (kids t) -> In x (descendants t).
  Proof.
    destruct t as [h bs]. unfold kids. cbn [bs_ descendants]. intros H.
    induction bs as [|b r IH]; cbn [tags_of] in H; [contradiction|].
    destruct b as [s|c]; cbn [tags_of flat_map] in *; [auto|]. destruct H as [->|H]; [now left|].
    right. apply in_or_app. right. auto.
  Qed.
  Lemma ancestors_hd fuel t p : parent_elem doc t = Some p -> fuel <> 0 -> In p (ancestors doc fuel t).
  Proof. intros H Hf. destruct fuel; [congruence|]. cbn [ancestors]. rewrite H. now left. Qed.
  Lemma all_nodes_pos : length (all_nodes doc) <> 0.
  Proof. destruct doc as [h bs]. cbn [all_nodes]. cbn [length]. discriminate. Qed.
  Lemma select_reach first st t x : In x (select first st t) -> reach1 t x.
  Proof.
    destruct st as [[[dbl ax] nm] ps]. unfold XPath.select, reach1.
    assert (Hself : In x (if name_ok nm t then [t] else []) -> x = t) by (destruct (name_ok nm t); cbn; [intros [?|[]]; auto | intros []]).
    destruct ax as [[| | | | |]|]; intros H.
    - apply filter_In in H as [H _]. right; left. now apply kids_descendants.
    - apply filter_In in H as [H _]. auto.
    - apply in_app_or in H as [H|H]; [auto|]. apply filter_In in H as [H _]. auto.
    - destruct (parent_elem doc t) as [p|] eqn:E; [|contradiction]. destruct (name_ok nm p); [|contradiction].
      destruct H as [<-|[]]. right; right. apply ancestors_hd; [exact E | apply all_nodes_pos].
    - apply filter_In in H as [H _]. auto.
    - apply in_app_or in H as [H|H]; [auto|]. apply filter_In in H as [H _]. auto.
    - apply in_app_or in H as [H|H].
      + destruct first; [auto|contradiction].
      + apply filter_In in H as [H _]. destruct dbl; [auto|]. right; left. now apply kids_descendants.
  Qed.

  (* soundness of a whole path: every selected element is reached from some start element by one axis image per step,
     and the result holds every uid once *)
  Inductive reach : nat -> tag -> tag -> Prop :=
  | reach0 t : reach 0 t t
  | reachS n t y x : reach1 t y -> reach n y x -> reach (S n) t x.
  Theorem run_steps_sound : forall sts first cur l, run_steps first sts cur = XOk l -> NoDup (map tuid cur) ->
    NoDup (map tuid l) /\ forall x, In x l -> l <> [] -> exists t, In t cur /\ reach (length sts) t x.
  Proof.
    induction sts as [|st r IH]; intros first cur l H Hnd; cbn [XPath.run_steps] in H.
    - inversion H; subst. split; [auto|]. intros x Hx _. exists x. split; [auto|constructor].
    - destruct (dedup_tags (flat_map (select first st) cur)) as [|x0 nxt] eqn:Ed;
        [inversion H; subst; split; [constructor | intros ? []]|].
      pose proof (dedup_tags_spec (flat_map (select first st) cur)) as [Hd1 [Hd2 _]]. rewrite Ed in Hd1, Hd2.
      destruct (apply_preds (snd st) (x0 :: nxt)) as [[|y l0]|] eqn:Ea; [inversion H; subst; split; [constructor | intros ? []]| |discriminate].
      apply apply_preds_spec in Ea as [Hin Hn]. apply IH in H as [Hr1 Hr2]; [|auto]. split; [auto|].
      intros x Hx Hne. destruct (Hr2 x Hx Hne) as [y' [Hy' Hreach]].
      apply Hin, Hd2, in_flat_map in Hy' as [t [Ht Hsel]]. exists t. split; [auto|].
      cbn [length]. econstructor; [eapply select_reach; eauto | exact Hreach].
  Qed.
  Corollary run_sound sts roots l : run sts roots = XOk l ->
    NoDup (map tuid l) /\ forall x, In x l -> exists t, In t roots /\ reach (length sts) t x.
  Proof.
    unfold XPath.run. intros H. apply run_steps_sound in H as [H1 H2]; [|apply (proj1 (dedup_tags_spec roots))].
    split; [auto|]. intros x Hx. destruct (H2 x Hx) as [t [Ht Hr]]; [intros ->; contradiction|].
    exists t. split; [|auto]. now apply (proj1 (proj2 (dedup_tags_spec roots))).
  Qed.
  (* results stay inside the document: whatever is reached from elements of the document is an element of the document
     (the upward axes look their targets up in the document itself) *)
  Lemma ancestors_Sub : forall fuel t x, In x (ancestors doc fuel t) -> Sub x doc.
  Proof.
    induction fuel as [|k IH]; intros t x H; cbn [ancestors] in H; [contradiction|].
    destruct (parent_elem doc t) as [p|] eqn:E; [|contradiction].
    assert (Hp : Sub p doc).
    { unfold parent_elem in E. destruct (parent (hd_ t)); [|discriminate]. eapply IndexProofs.find_Sub; eauto. }
    destruct H as [<-|H]; [auto | eauto].
  Qed.
  Lemma reach1_Sub t x : Sub t doc -> reach1 t x -> Sub x doc.
  Proof.
    intros Ht [->|[H|H]]; [auto| |eapply ancestors_Sub; eauto].
    eapply IndexProofs.Sub_trans; [apply IndexProofs.desc_Sub; eauto | auto].
  Qed.
  Lemma reach_Sub n : forall t x, Sub t doc -> reach n t x -> Sub x doc.
  Proof. induction n as [|k IH]; intros t x Ht H; inversion H; subst; [auto|]. eapply IH; [|eauto]. eapply reach1_Sub; eauto. Qed.
  Theorem run_inside sts roots l : run sts roots = XOk l -> Forall (fun t => Sub t doc) roots -> Forall (fun x => Sub x doc) l.
  Proof.
    intros H Hr. apply run_sound in H as [_ H]. apply Forall_forall. intros x Hx. destruct (H x Hx) as [t [Ht Hreach]].
    rewrite Forall_forall in Hr. eapply reach_Sub; eauto.
  Qed.
  (* a collection that already holds every uid once is left as it is *)
  Lemma dedup_fold_id : forall l acc, NoDup (map tuid (acc ++ l)) ->
    fold_left (fun acc t => if existsb (fun x => Nat.eqb (tuid x) (tuid t)) acc then acc else acc ++ [t]) l acc = acc ++ l.
  Proof.
    induction l as [|t l IH]; intros acc H; cbn [fold_left]; [now rewrite app_nil_r|].
    assert (E : existsb (fun x => Nat.eqb (tuid x) (tuid t)) acc = false).
    { destruct (existsb _ acc) eqn:E; [|reflexivity]. exfalso. apply existsb_exists in E as [x [Hx Hxt]]. apply Nat.eqb_eq in Hxt.
      rewrite map_app in H. cbn [map] in H. apply NoDup_remove_2 in H. apply H. apply in_or_app. left. rewrite <- Hxt. now apply in_map. }
    rewrite E. rewrite IH; rewrite <- app_assoc; [reflexivity | exact H].
  Qed.
  Lemma dedup_tags_id l : NoDup (map tuid l) -> dedup_tags l = l.
  Proof. intros H. unfold dedup_tags. now rewrite dedup_fold_id. Qed.

  (* the path //name from an element is the tag-name search of C06 on that element and its descendants, in document order *)
  Theorem descendant_path_is_search nm root : NoDup (map tuid (root :: descendants root)) ->
    run [(true, None, nm, [])] [root] = XOk (filter (name_ok nm) (root :: descendants root)).
  Proof.
    intros Hnd. unfold XPath.run. rewrite (dedup_tags_id [root]) by (repeat constructor; intros []).
    cbn [XPath.run_steps flat_map XPath.select snd]. rewrite app_nil_r.
    assert (E : (if name_ok nm root then [root] else []) ++ filter (name_ok nm) (descendants root)
                = filter (name_ok nm) (root :: descendants root)) by (cbn [filter]; destruct (name_ok nm root); reflexivity).
    rewrite E. rewrite dedup_tags_id by (now apply NoDup_map_filter).
    destruct (filter (name_ok nm) (root :: descendants root)) as [|x r]; reflexivity.
  Qed.
  Corollary descendant_path_is_from_root nm root : NoDup (map tuid (root :: descendants root)) ->
    run [(true, None, nm, [])] [root] = XOk (from_root_search (name_ok nm) root true).
  Proof. intros H. rewrite from_root_spec. now apply descendant_path_is_search. Qed.
End PathProofs.
