(* C01: serialising the re-parsed tree gives the identical string (model level), for trees whose attribute mappings are
   constructor-built with non-degenerate style declarations; every parsed document is such a tree. *)
From Coq Require Import Lia.
From AHP Require Import Model.Base Model.Str Model.Attr Model.Dom Model.Serial Model.Parser Model.RoundTrip Model.Search Model.Index Gen.Tables
     Proofs.StrProofs Proofs.AttrProofs Proofs.DomProofs Proofs.CodecProofs Proofs.ObserveProofs Proofs.CloneProofs Proofs.RoundTripProofs
     Proofs.IndexProofs Proofs.IndexedParserProofs.
From AHP Require Import Model.Observe.

(* ---- what the tokenizer reads back from a start tag = the attribute list of the mapping with bare boolean attributes value-less ---- *)
Definition norm_entry (kv : string * aval) : string * aval :=
  match snd kv with AStr x => if String.eqb x "" && is_binary (fst kv) then (fst kv, ANone) else kv | _ => kv end.
Definition norm (s : Attr.st) : Attr.st := with_dict (map norm_entry (dict s)) s.

Lemma norm_entry_key kv : fst (norm_entry kv) = fst kv.
Proof. unfold norm_entry. destruct (snd kv); auto. destruct (String.eqb s "" && is_binary (fst kv)); auto. Qed.
Lemma keys_norm d : keys (map norm_entry d) = keys d.
Proof. unfold keys. rewrite map_map. apply map_ext. apply norm_entry_key. Qed.
Lemma binary_not_bstring k : is_binary k = true -> is_binary_string k = false.
Proof.
  unfold is_binary. intros H. apply smem_In in H.
  assert (G : forallb (fun x => negb (is_binary_string x)) binary_attributes = true) by (vm_compute; reflexivity).
  rewrite forallb_forall in G. specialize (G k H). now apply negb_true_iff in G.
Qed.
Lemma od_set_map_norm k v d : norm_entry (k, v) = (k, v) -> od_set k v (map norm_entry d) = map norm_entry (od_set k v d).
Proof.
  intros Hkv. induction d as [|[k' v'] d IH]; cbn [map od_set]; [now rewrite Hkv|].
  pose proof (norm_entry_key (k', v')) as Hk. destruct (norm_entry (k', v')) as [k2 v2] eqn:En. cbn [fst] in Hk. subst k2.
  destruct (String.eqb k k'); cbn [map]; [now rewrite Hkv | now rewrite IH, En].
Qed.
Lemma od_del_map_norm k d : od_del k (map norm_entry d) = map norm_entry (od_del k d).
Proof.
  induction d as [|[k' v'] d IH]; cbn [map od_del]; auto.
  pose proof (norm_entry_key (k', v')) as Hk. destruct (norm_entry (k', v')) as [k2 v2] eqn:En. cbn [fst] in Hk. subst k2.
  destruct (String.eqb k k'); cbn [map]; [reflexivity | now rewrite IH, En].
Qed.
Lemma sync_norm s : sync (norm s) = norm (sync s).
Proof.
  destruct s as [d c y]. unfold sync, norm, with_dict. simpl. destruct c as [|c0 c]; simpl; destruct y as [|y0 y]; simpl;
    repeat (rewrite od_del_map_norm || rewrite od_set_map_norm by reflexivity); reflexivity.
Qed.
Lemma Built_norm s : Built s -> Built (norm s).
Proof.
  intros (Hn & Hf & Hc & Hy & Hk). unfold norm. split; [|split; [|split; [|split]]]; cbn [dict classes sty with_dict]; auto.
  - now rewrite keys_norm.
  - rewrite Forall_map. eapply Forall_impl; [|exact Hf]. intros [k a] (Hl & Hv & Hkc & Hm). unfold norm_entry. cbn [fst snd] in *.
    destruct a as [|x| |].
    + repeat split; auto; apply Hm.
    + destruct (String.eqb x "" && is_binary k) eqn:E.
      * apply andb_true_iff in E as [_ Eb]. destruct Hm as [Hks _]. unfold entry_ok. cbn [fst snd]. repeat split; auto. now apply binary_not_bstring.
      * unfold entry_ok. cbn [fst snd]. repeat split; auto; apply Hm.
    + unfold entry_ok. cbn [fst snd]. repeat split; auto.
    + tauto.
  - intros H. rewrite keys_norm. auto.
Qed.
Lemma synced_entry s kv : Built s -> In kv (dict (sync s)) -> kv = ("class", AClassSlot) \/ (In kv (dict s) /\ entry_ok kv).
Proof.
  intros Hb Hin. destruct (sync_shape s (Built_no_class s Hb) (Built_style_slot s Hb)) as (Hd & _ & _). rewrite Hd in Hin.
  unfold synced, class_tail in Hin. apply in_app_or in Hin as [Hin|Hin].
  - right. assert (Hd0 : In kv (dict s)) by (apply (P_sub s); exact Hin). split; auto.
    destruct Hb as (_ & Hf & _). rewrite Forall_forall in Hf. auto.
  - left. destruct (classes s); simpl in Hin; [tauto|]. destruct Hin as [<-|[]]. reflexivity.
Qed.
Lemma lexed_is_attr_list s : Built s -> lexed_attrs s = attr_list (norm s).
Proof.
  intros Hb. unfold lexed_attrs, attr_list. rewrite sync_norm. unfold norm at 2. cbn [dict with_dict]. rewrite map_map.
  apply map_ext_in. intros [k a] Hin.
  rewrite norm_entry_key. cbn [fst snd]. f_equal.
  assert (R : forall v, raw_value (norm s) v = raw_value (sync s) v) by (intros v; rewrite raw_value_sync; destruct v; reflexivity).
  destruct (synced_entry s (k, a) Hb Hin) as [E|[_ (Hl & Hv & Hkc & Hm)]].
  - inversion E; subst. unfold norm_entry. cbn [fst snd]. rewrite R. simpl. now rewrite orb_true_r.
  - cbn [fst snd] in *. unfold norm_entry. cbn [fst snd]. destruct a as [|x| |]; cbn [snd]; rewrite ?R; try reflexivity.
    + simpl. destruct (String.eqb x "" && is_binary k) eqn:E; simpl.
      * apply andb_true_iff in E as [E1 E2]. apply String.eqb_eq in E1. subst x. simpl. now rewrite E2.
      * unfold nonempty. destruct (String.eqb x "") eqn:E1; simpl in *; [rewrite E; reflexivity | reflexivity].
    + subst k. simpl. now rewrite orb_true_r.
    + tauto.
Qed.

Lemma render_norm s kv : In kv (dict (sync s)) -> Built s -> render_attr (sync (norm s)) (norm_entry kv) = render_attr (sync s) kv.
Proof.
  intros Hin Hb. rewrite sync_norm. unfold render_attr. rewrite norm_entry_key.
  assert (R : forall v, raw_value (norm (sync s)) v = raw_value (sync s) v) by (intros v; destruct v; reflexivity).
  destruct kv as [k a]. unfold norm_entry. cbn [fst snd]. destruct a as [|x| |]; cbn [snd]; rewrite ?R; try reflexivity.
  destruct (String.eqb x "" && is_binary k) eqn:E; cbn [snd]; rewrite ?R; auto.
  apply andb_true_iff in E as [E1 E2]. apply String.eqb_eq in E1. subst x. simpl. now rewrite E2.
Qed.
(* the mapping re-read from the rendered start tag renders like the original *)
Theorem reattrs_faithful s : Built s -> start_attrs (sync (reattrs s)) = start_attrs (sync s).
Proof.
  intros Hb. unfold reattrs. rewrite (lexed_is_attr_list s Hb). change (fst (intake (attr_list (norm s)) st0)) with (fst (clone_attrs (norm s))).
  rewrite (Built_faithful (norm s) (Built_norm s Hb)). unfold start_attrs. rewrite sync_norm at 2. unfold norm at 2. cbn [dict with_dict].
  rewrite map_map. f_equal. apply map_ext_in. intros kv Hin. now apply render_norm.
Qed.

(* ---- the whole tree ---- *)
From AHP Require Import Proofs.FragmentProofs.
Definition GoodTree (t : tag) : Prop := Forall (fun x => Built (attrs (hd_ x)) /\ indent (hd_ x) = "") (all_nodes t).

Lemma outer_unfold h bs : outer_html (Tag h bs) = start_tag h +++ (if sc h then "" else blocks_html bs) +++ end_tag h.
Proof.
  simpl. f_equal. f_equal. destruct (sc h); auto. unfold blocks_html.
  induction bs as [|[s|c] bs IH]; simpl; auto; now rewrite IH.
Qed.
Lemma start_tag_reattrs h u p : Built (attrs h) -> indent h = "" ->
  start_tag (mk_hdr u (name h) (reattrs (attrs h)) (sc h) p the_doc) = start_tag h
  /\ end_tag (mk_hdr u (name h) (reattrs (attrs h)) (sc h) p the_doc) = end_tag h.
Proof.
  intros Hb Hi. unfold start_tag, end_tag. cbn [indent name attrs sc mk_hdr]. rewrite (reattrs_faithful _ Hb), Hi. split; reflexivity.
Qed.
Lemma push1_shell b acc : sc (fh acc) = false ->
  sc (fh (push1 b acc)) = false /\ start_tag (fh (push1 b acc)) = start_tag (fh acc) /\ end_tag (fh (push1 b acc)) = end_tag (fh acc)
  /\ blocks_html (fbs (push1 b acc)) = blocks_html (fbs acc) +++ block_html b.
Proof.
  intros Hs. destruct b as [s|c]; unfold push1, push_block; cbn [fh fbs]; unfold start_tag, end_tag, set_h; cbn [indent name attrs sc];
    rewrite Hs; repeat split; unfold blocks_html; rewrite map_app, concat_s_app; simpl; now rewrite append_nil_r.
Qed.
Lemma kids_html : forall bs acc nx u, sc (fh acc) = false ->
  (forall c, In c (tags_of bs) -> forall u' p', outer_html (fst (rebuild c u' p')) = outer_html c) ->
  sc (fh (fst (kids bs acc nx u))) = false /\ start_tag (fh (fst (kids bs acc nx u))) = start_tag (fh acc)
  /\ end_tag (fh (fst (kids bs acc nx u))) = end_tag (fh acc)
  /\ blocks_html (fbs (fst (kids bs acc nx u))) = blocks_html (fbs acc) +++ blocks_html bs.
Proof.
  induction bs as [|[s|c] bs IH]; intros acc nx u Hs Hk; cbn [kids].
  - repeat split; auto. unfold blocks_html at 3. simpl. now rewrite append_nil_r.
  - destruct (String.eqb s "") eqn:E.
    + apply String.eqb_eq in E. subst s. destruct (IH acc nx u Hs Hk) as (H1 & H2 & H3 & H4). repeat split; auto.
    + destruct (push1_shell (BText s) acc Hs) as (P1 & P2 & P3 & P4).
      destruct (IH (push1 (BText s) acc) nx u P1 Hk) as (H1 & H2 & H3 & H4). repeat split; auto; try congruence.
      rewrite H4, P4. unfold blocks_html. simpl. now rewrite append_assoc.
  - destruct (rebuild c nx (Some u)) as [c' nx'] eqn:Er.
    destruct (push1_shell (BTag c') acc Hs) as (P1 & P2 & P3 & P4).
    destruct (IH (push1 (BTag c') acc) nx' u P1) as (H1 & H2 & H3 & H4); [intros c0 Hc0; apply Hk; now right|].
    repeat split; auto; try congruence. rewrite H4, P4. unfold blocks_html. simpl.
    assert (Hc : outer_html c' = outer_html c) by (specialize (Hk c (or_introl eq_refl) nx (Some u)); now rewrite Er in Hk).
    rewrite Hc. now rewrite append_assoc.
Qed.

(* serialising the re-parsed tree gives the identical string *)
Theorem outer_rebuild : forall t, GoodTree t -> forall u p, outer_html (fst (rebuild t u p)) = outer_html t.
Proof.
  induction t as [h bs IH] using tag_ind'. intros Hg u p. unfold GoodTree in Hg. rewrite all_nodes_unfold in Hg.
  inversion Hg as [|? ? [Hb Hi] Hrest]; subst. cbn [hd_] in Hb, Hi.
  destruct (start_tag_reattrs h u p Hb Hi) as [Hst Het].
  destruct (sc h) eqn:Es.
  - rewrite rebuild_eq. cbv zeta. rewrite Es. cbn [fst]. rewrite !outer_unfold. cbn [sc mk_hdr]. rewrite ?Es. now rewrite Hst, Het.
  - rewrite (rebuild_kids h bs u p Es).
    set (acc0 := {| fh := mk_hdr u (name h) (reattrs (attrs h)) false p the_doc; fbs := [BText ""] |}).
    assert (Hk : forall c, In c (tags_of bs) -> forall u' p', outer_html (fst (rebuild c u' p')) = outer_html c).
    { intros c Hc u' p'. rewrite Forall_forall in IH. apply IH; auto. unfold GoodTree. rewrite Forall_forall in Hrest |- *.
      intros x Hx. apply Hrest. apply in_flat_map. eauto. }
    destruct (kids_html bs acc0 (S u) u eq_refl Hk) as (H1 & H2 & H3 & H4).
    destruct (kids bs acc0 (S u) u) as [acc nx] eqn:Ek. cbn [fst] in *. rewrite !outer_unfold, H1, H2, H3, H4, Es.
    unfold acc0. cbn [fh fbs]. rewrite Hst, Het. unfold blocks_html at 1. simpl. reflexivity.
Qed.

(* the whole round trip: a fresh parser fed the tree's own handler calls ends with a tree that serialises to the same string *)
Theorem roundtrip_fixed_point t : InDom t -> GoodTree t ->
  exists s root, prun PPlain pinit (retoks t) = POk s /\ tree_of s = Some root /\ pstk s = [] /\ outer_html root = outer_html t.
Proof.
  intros Hd Hg. destruct (root_roundtrip t Hd) as (s & Hs & Ht & Hk). exists s, (fst (rebuild t 0 None)). repeat split; auto.
  now apply outer_rebuild.
Qed.

(* ---- every parsed document is such a tree ---- *)
Definition tok_attrs_ok (t : token) : Prop := match t with TStart _ a _ => attrs_ok a | _ => True end.
Definition vbuilt (v : view) : Prop := Built (snd (fst v)) /\ snd v = "".
Lemma make_tag_built u n a leaf p x : attrs_ok a -> make_tag u n a leaf p = POk x -> vbuilt (tview x).
Proof.
  intros Ha. unfold make_tag. destruct (intake a st0) as [st r] eqn:E. destruct r; try discriminate. intros H. inversion H; subst.
  unfold vbuilt, tview, hview. cbn [snd fst hd_ attrs indent mk_hdr]. split; auto.
  pose proof (intake_Built a Ha st0 Built_st0) as [Hb _]. now rewrite E in Hb.
Qed.
Lemma prun_built cls : forall ts s s', Forall tok_attrs_ok ts -> Inv s -> Forall vbuilt (sview s) -> prun cls s ts = POk s' ->
  Forall vbuilt (sview s') /\ Inv s'.
Proof.
  induction ts as [|t ts IH]; intros s s' Hok Hi Hs H; simpl in H; [inversion H; subst; auto|].
  inversion Hok as [|? ? Ht Hok']; subst.
  destruct (pstep cls s t) as [s1|e] eqn:Ep; [|discriminate].
  destruct (pstep_view cls s t s1 Hi Ep) as [Hv Hi1]. apply (IH s1 s' Hok' Hi1); auto. rewrite Hv. apply Forall_app. split; auto.
  unfold new_views, IndexedParser.created. destruct t; auto.
  destruct (make_tag (pnext s) (lower n) a (selfc || is_void (lower n)) (top_uid (pstk s))) eqn:Em; auto.
  constructor; auto. eapply make_tag_built; eauto.
Qed.
Theorem parsed_good_tree cls ts1 ts2 s root : Forall tok_attrs_ok ts1 -> Forall tok_attrs_ok ts2 ->
  feed cls ts1 ts2 = POk s -> tree_of s = Some root -> GoodTree root.
Proof.
  intros H1 H2 H Ht.
  assert (G : forall ts, Forall tok_attrs_ok ts -> prun cls pinit ts = POk s -> GoodTree root).
  { intros ts Hok Hr. destruct (prun_built cls ts pinit s Hok Inv_init (Forall_nil _) Hr) as [Hs Hi].
    rewrite (tree_of_view s root Hi Ht) in Hs. unfold nodes_view in Hs. rewrite Forall_map in Hs.
    unfold GoodTree. eapply Forall_impl; [|exact Hs]. intros [h bs] Hx. exact Hx. }
  unfold feed in H. destruct (prun cls pinit ts1) as [s1|e] eqn:E1; [inversion H; subst; eauto|]. destruct e; try discriminate. eauto.
Qed.

(* a parsed document whose style declarations are non-degenerate comes back from pickle with the identical serialisation *)
Theorem parsed_unpickle_html cls ts1 ts2 s root p : Forall tok_attrs_ok ts1 -> Forall tok_attrs_ok ts2 ->
  feed cls ts1 ts2 = POk s -> tree_of s = Some root -> outer_html (unpickle p root) = outer_html root.
Proof.
  intros H1 H2 Hf Ht. apply unpickle_html. pose proof (parsed_good_tree cls ts1 ts2 s root H1 H2 Hf Ht) as Hg.
  unfold GoodTree in Hg. eapply Forall_impl; [|exact Hg]. intros x [Hb Hi]. split; auto. now apply Built_faithful.
Qed.
