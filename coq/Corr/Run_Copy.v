(* Correspondence driver for C17: a parsed document, its pickle round trip, and clones of some elements. *)
From AHP Require Export Model.Base Model.Str Model.Attr Model.Dom Model.Serial Model.Parser Model.Search Model.Index Model.Observe Corr.Run_Parse.

Definition ccase := (pclass * (list token * option (list token)) * list nat)%type.
Definition faithfulb (a : Attr.st) : bool := String.eqb (start_attrs (sync (fst (clone_attrs a)))) (start_attrs (sync a)).
Definition run_copy (c : ccase) : string :=
  let '(cls, d, ranks) := c in
  match feed cls (fst d) (match snd d with Some x => x | None => [] end) with
  | POk s => match tree_of s with
             | Some root =>
                 let cp := unpickle None root in
                 "D" +++ (match pdoctype s with Some x => "S" +++ hex x | None => "N" end)
                 +++ "|" +++ snap cp +++ "|R" +++ show_nats (map tuid (root_nodes (Some cp)))
                 +++ "|H" +++ (match get_html (Some cp) (pdoctype s) with Some h => hex h | None => "-" end)
                 +++ "|C" +++ sjoin ";" (map (fun r => match nth_error (all_nodes root) r with
                                                       | Some t => let k := hex (start_tag (hd_ (clone_node 0 t))) in k +++ "," +++ k
                                                       | None => "?" end) ranks)
                 +++ (if forallb (fun t => faithfulb (attrs (hd_ t))) (all_nodes root) then "" else "|attribute-list-not-faithful")
             | None => "no-root"
             end
  | PRaise e => show_exc e
  end.
