(* C01 — serialise -> parse round trip (Stage A of DESIGN 3.3: token level; the tokenizer enters as the instance-checked
   lexer contract "handler calls on render l = chunk l").  Statements only; proofs in Proofs/RoundTripProofs.v. *)
From AHP Require Import Model.Base Model.Str Model.Attr Model.Dom Model.Serial Model.Parser Model.RoundTrip Model.Search Model.Index Gen.Tables
     Proofs.DomProofs Proofs.ParserProofs Proofs.RoundTripProofs Proofs.CloneProofs Proofs.IndexedParserProofs Proofs.FixPointProofs.

(* serialisation is exactly the rendering of the tree's token list, for every tree *)
Theorem C01_render_factor : forall t, outer_html t = render (toks_of t).
Proof. exact render_factor. Qed.
(* serialisation always yields a string: get_html is defined whenever there is a root (the start tag of a value-less
   attribute is the bare name, Attr.render_attr) *)
Theorem C01_serialise_is_string : forall r d, r <> None -> exists h, get_html r d = Some h.
Proof. intros r d H. destruct r as [t|]; [eexists; reflexivity | congruence]. Qed.
(* segment lemma: inside any open element, a tree's own handler calls append exactly one child - the tree rebuilt
   (renumbered, owned by the parser, attributes re-read from the start tag, empty text dropped) - and restore the stack *)
Theorem C01_segment : forall t, InDom t -> forall s f r, pstk s = f :: r -> has_root s = true ->
  prun PPlain s (retoks t) =
  POk (set_next (push_top (BTag (fst (rebuild t (pnext s) (Some (uid (fh f)))))) s) (snd (rebuild t (pnext s) (Some (uid (fh f)))))).
Proof. exact segment. Qed.
(* a whole document: a fresh parser fed a tree's own handler calls ends with that tree rebuilt as its closed root *)
Theorem C01_roundtrip_tokens : forall t, InDom t ->
  exists s, prun PPlain pinit (retoks t) = POk s /\ tree_of s = Some (fst (rebuild t 0 None)) /\ pstk s = [].
Proof. exact root_roundtrip. Qed.
(* the rebuilt tree is again a tree the parser owns and satisfies the structural invariant *)
Theorem C01_rebuilt_WF : forall ts1 ts2 s, feed PPlain ts1 ts2 = POk s ->
  match tree_of s with Some t => WF None the_doc t | None => True end.
Proof. exact (feed_tree_WF PPlain). Qed.

(* the string fixed point: a fresh parser fed the tree's own handler calls ends with a tree that serialises to the identical
   string - for trees whose attribute mappings are constructor-built with non-degenerate style declarations (GoodTree) *)
Theorem C01_fixed_point : forall t, InDom t -> GoodTree t ->
  exists s root, prun PPlain pinit (retoks t) = POk s /\ tree_of s = Some root /\ pstk s = [] /\ outer_html root = outer_html t.
Proof. exact roundtrip_fixed_point. Qed.
(* attributes: what the tokenizer reads back from a rendered start tag rebuilds a mapping that renders identically *)
Theorem C01_attributes_fixed_point : forall a, Built a -> start_attrs (sync (reattrs a)) = start_attrs (sync a).
Proof. exact reattrs_faithful. Qed.
(* every parsed document (any parser class, retry included) is such a tree, so a second round trip changes nothing *)
Theorem C01_parsed_trees_qualify : forall cls ts1 ts2 s root, Forall tok_attrs_ok ts1 -> Forall tok_attrs_ok ts2 ->
  feed cls ts1 ts2 = POk s -> tree_of s = Some root -> GoodTree root.
Proof. exact parsed_good_tree. Qed.

(* non-vacuity and the whole chain on a concrete tree with quoted, value-less, boolean, class and style attributes, references,
   a comment, a void element and nesting: parse(chunk(tokens)) re-serialises to the identical string *)
Example C01_ex :
  let t := fst (build_api (SNode "div" [("id", Some "a""b"); ("open", None); ("checked", Some ""); ("class", Some " x  y "); ("style", Some "color:red")] false
                   [SText "x &amp; "; SElem (SNode "br" [] false []); SText "<!--c-->"; SElem (SNode "p" [("title", Some "it's <b>")] false [SText "&#65;"])]) 0 None) in
  outer_html t = "<div id=""a&quot;b"" open checked style=""color: red"" class=""x y"" >x &amp; <br /><!--c--><p title=""it's <b>"" >&#65;</p></div>"
  /\ match prun PPlain pinit (chunk (toks_of t) "") with
     | POk s => option_map outer_html (tree_of s) = Some (outer_html t)
     | PRaise _ => False end.
Proof. vm_compute. split; reflexivity. Qed.
Example C01_ex_dom : InDom (fst (build_api (SNode "div" [] false [SText "x"; SElem (SNode "br" [] false [])]) 0 None)).
Proof. vm_compute. repeat (constructor; simpl; auto); intros; try discriminate; auto. Qed.
