(* Props.v — typed DOM properties: Tags.py __getattribute__ / __setattr__ dispatch over the generated tables and
   conversions.py (convertToIntOrNegativeOneIfUnset, convertToPositiveInt, convertPossibleValues, convertToIntRange(Capped),
   convertBooleanStringToBoolean, _handleInvalid).  int() is transcribed for ASCII text. *)
From AHP Require Import Model.Base Model.Str Model.PropRules Model.Attr Gen.Tables.

(* ---- Python int(str): optional surrounding whitespace, optional sign, ASCII digits with single underscores between digits ---- *)
Fixpoint digits_val (s : string) (acc : Z) (prev_us : bool) (any : bool) : option Z :=
  match s with
  | EmptyString => if prev_us then None else if any then Some acc else None
  | String c r =>
      if is_digit c then digits_val r (acc * 10 + Z.of_nat (code c - 48))%Z false true
      else if Ascii.eqb c "_" then (if prev_us || negb any then None else digits_val r acc true any)
      else None
  end.
Definition py_int (s0 : string) : option Z :=
  let s := strip s0 in
  match s with
  | String "-" r => option_map Z.opp (digits_val r 0%Z false false)
  | String "+" r => digits_val r 0%Z false false
  | _ => digits_val s 0%Z false false
  end.

(* values a property read can produce *)
Inductive pval := VNone | VStr (s : string) | VInt (z : Z) | VBool (b : bool) | VTokens (l : list string)
                | VNoForm | VForm | VRaiseIndexSize.
Definition of_const (k : pconst) : pval :=
  match k with KNone => VNone | KStr s => VStr s | KInt z => VInt z | KEmptyIsInvalid => VNone end.
(* what getAttribute hands to a conversion: the stored text, or the given default *)
Inductive aarg := AAbsent (dflt : pconst) | AText (s : option string).
Definition attr_arg (s : Attr.st) (attr : string) (dflt : pconst) : aarg :=
  let s' := sync s in
  if od_has attr (dict s') then
    match getitem attr s' with PStr x => AText (Some x) | _ => AText None end
  else AAbsent dflt.
(* int(val) for val a str / the int default *)
Definition arg_int (a : aarg) : option (option Z) :=       (* None: val is None ; Some None: int() raised ; Some (Some z) *)
  match a with
  | AAbsent KNone => None
  | AAbsent (KInt z) => Some (Some z)
  | AAbsent (KStr s) => Some (py_int s)
  | AAbsent KEmptyIsInvalid => Some None
  | AText None => None
  | AText (Some s) => Some (py_int s)
  end.
Definition arg_is_empty (a : aarg) : bool :=               (* val is None or val == '' *)
  match a with
  | AAbsent KNone => true | AAbsent (KStr s) => String.eqb s "" | AAbsent _ => false
  | AText None => true | AText (Some s) => String.eqb s ""
  end.
Definition arg_str (a : aarg) : option string :=           (* tostr(val) unless None *)
  match a with
  | AAbsent KNone => None | AAbsent (KStr s) => Some s | AAbsent (KInt z) => Some (Z_to_string z) | AAbsent KEmptyIsInvalid => None
  | AText None => None | AText (Some s) => Some s
  end.
Definition handle_invalid (inv : pconst) : pval := of_const inv.
Definition empty_or_invalid (inv empty : pconst) : pval :=
  match empty with KEmptyIsInvalid => handle_invalid inv | _ => of_const empty end.
Definition in_range (lo hi : option Z) (z : Z) : bool :=
  (match lo with Some l => (l <=? z)%Z | None => true end) && (match hi with Some h => (z <=? h)%Z | None => true end).
Definition cap (lo hi : option Z) (z : Z) : Z :=
  let z1 := match lo with Some l => if (z <? l)%Z then l else z | None => z end in
  match hi with Some h => if (h <? z1)%Z then h else z1 | None => z1 end.

Fixpoint interp (fuel : nat) (r : rule) (tag : string) (s : Attr.st) (has_form_ancestor : bool) : pval :=
  match r with
  | RIntOrMinus1 attr =>
      let a := attr_arg s attr KNone in
      if arg_is_empty a then VInt (-1) else match arg_int a with Some (Some z) => VInt z | _ => VInt 0 end
  | RIntCapped attr d lo hi inv empty =>
      let a := attr_arg s attr d in
      if arg_is_empty a then empty_or_invalid inv empty
      else match arg_int a with Some (Some z) => VInt (cap lo hi z) | _ => handle_invalid inv end
  | RIntRange attr d lo hi inv empty =>
      let a := attr_arg s attr d in
      if arg_is_empty a then empty_or_invalid inv empty
      else match arg_int a with Some (Some z) => if in_range lo hi z then VInt z else handle_invalid inv | _ => handle_invalid inv end
  | RPosInt attr d inv =>
      let a := attr_arg s attr d in
      match arg_int a with Some (Some z) => if (z <? 0)%Z then of_const inv else VInt z | _ => of_const inv end
  | REnum attr d values inv empty =>
      let a := attr_arg s attr d in
      match arg_str a with
      | None => empty_or_invalid inv empty
      | Some x => let v := lower x in
                  if String.eqb v "" then empty_or_invalid inv empty
                  else if smem v values then VStr v else handle_invalid inv
      end
  | RAttr attr d =>
      match attr_arg s attr d with
      | AAbsent k => of_const k
      | AText (Some x) => VStr x
      | AText None => VNone
      end
  | RByTag t a b => match fuel with 0 => VNone | S k => if String.eqb tag t then interp k a tag s has_form_ancestor else interp k b tag s has_form_ancestor end
  | RParentForm => if has_form_ancestor then VForm else VNoForm
  | RTokenList attr =>
      match attr_arg s attr (KStr "") with
      | AText (Some x) => VTokens (let w := stripWordsOnly x in if String.eqb w "" then [] else split " " w)
      | _ => VTokens []
      end
  | RMaxLength =>
      if negb (hasAttribute "maxlength" s) then VInt (-1)
      else let a := attr_arg s "maxlength" (KStr "-1") in
           if arg_is_empty a then VStr "0"
           else match arg_int a with Some (Some z) => if (0 <=? z)%Z then VInt z else VInt (-1) | _ => VInt (-1) end
  end.

(* conversions.convertBooleanStringToBoolean *)
Definition bool_of_boolean_string (v : pyv) : bool :=
  match v with
  | PStr x => if String.eqb x "" then false else negb (String.eqb (lower x) "false")
  | PTrue => true | _ => false
  end.

(* Tags.__getattribute__ for a property name that is not a real attribute of the object *)
Definition prop_get (tag prop : string) (s : Attr.st) (has_form_ancestor : bool) : pval :=
  if linked tag prop then
    match od_get prop special_rules with
    | Some r => interp 3 r tag s has_form_ancestor
    | None =>
        let n := renamed prop in
        if is_binary_string n then VBool (bool_of_boolean_string (snd (getAttribute n s)))
        else if is_binary n then VBool (match snd (getAttribute n s) with PFalse => false | _ => true end)
        else (* self.getAttribute(name, default): the stored value when the key is present (None for a value-less attribute) *)
             let s' := sync s in
             if od_has (lower n) (dict s') then
               match getitem n s' with PStr x => VStr x | PNone => VNone | PTrue => VBool true | PFalse => VBool false end
             else if smem n all_js_events then VNone else VStr ""
    end
  else VNone.

(* Tags.__setattr__ for a linked property: maxLength validates first *)
Definition prop_set (tag prop : string) (v : option string) (isbool : option bool) (s : Attr.st) : Attr.st * res :=
  if String.eqb prop "maxLength" && linked tag prop then
    (* _special_value_maxLength(em, value): convertToIntRange(value, 0, None, emptyValue='0', invalidDefault=IndexSizeErrorException) *)
    let valid := match isbool, v with
                 | Some _, _ => true                                   (* int(True) / int(False) *)
                 | None, None => true                                  (* empty -> '0' *)
                 | None, Some x => if String.eqb x "" then true else match py_int x with Some z => (0 <=? z)%Z | None => false end
                 end in
    if valid then setAttribute "maxlength" (Some (match isbool with Some true => "True" | Some false => "False" | None => tostr v end)) s
    else (s, RExc EIndexSize)
  else dot_assign tag prop v isbool s.
