"""C02 - best-effort tree construction follows the token sequence, however nested."""
import itertools
import json
import os
import re
import tempfile

from harness import core
from harness.props import parse_common as pc

VOID = {'meta', 'link', 'input', 'img', 'hr', 'br'}
SMALL = [['S', 'div', [], False], ['S', 'span', [], False], ['S', 'br', [], False], ['E', 'div'], ['E', 'span'], ['E', 'br'],
         ['T', 'x'], ['R', '&amp;'], ['M', '<!--c-->'], ['E', 'p']]


def valid_name(n):
    if not n or not (n[0].isalpha() or n[0] == '_'):
        return False
    return all(ch.isalnum() or ch in '-_' for ch in n)


def render(gtoks, doctype=None):
    out = []
    if doctype is not None:
        out.append(doctype)
    for t in gtoks:
        k = t[0]
        if k == 'S':
            s = '<' + t[1]
            for a in t[2]:
                n, v, q = a
                if v is None:
                    s += ' ' + n
                elif q == '':
                    s += ' %s=%s' % (n, v)
                else:
                    s += ' %s=%s%s%s' % (n, q, v, q)
            s += ' />' if t[3] else '>'
            out.append(s)
        elif k == 'E':
            out.append('</%s>' % t[1])
        else:
            out.append(t[1])
    return ''.join(out)


# ---------------------------------------------------------------------------- the independent stack interpreter (oracle)
class Node:
    def __init__(self, name, attrs, sc):
        self.name, self.attrs, self.sc, self.blocks = name, attrs, sc, []


def clean_attrs(raw):
    out = []
    for n, v, q in raw:
        n = n.lower()
        if not valid_name(n):
            continue
        for e in out:
            if e[0] == n:
                e[1] = v
                break
        else:
            out.append([n, v])
    return out


def interpret(gtoks):
    """-> (top-level blocks, multi?) by the rules stated in the property"""
    top = []
    stack = []
    for t in gtoks:
        k = t[0]
        if k == 'S':
            name = t[1].lower()
            leaf = t[3] or name in VOID
            n = Node(name, clean_attrs(t[2]), leaf)
            (stack[-1].blocks if stack else top).append(n)
            if not leaf:
                stack.append(n)
        elif k == 'E':
            name = t[1].lower()
            idx = None
            for i in range(len(stack) - 1, -1, -1):
                if stack[i].name == name:
                    idx = i
                    break
            if idx is not None:
                del stack[idx:]
        else:
            (stack[-1].blocks if stack else top).append(t[1])
    return top


def merge_text(blocks):
    out = []
    for b in blocks:
        if isinstance(b, str):
            if b == '':
                continue
            if out and isinstance(out[-1], str):
                out[-1] += b
            else:
                out.append(b)
        else:
            out.append(b)
    return out


def shape_expected(n):
    return [n.name, [list(a) for a in n.attrs], n.sc, [shape_expected(b) if isinstance(b, Node) else b for b in merge_text(n.blocks)]]


def shape_impl(e):
    from AdvancedHTMLParser.Tags import AdvancedTag
    from AdvancedHTMLParser.constants import TAG_ITEM_BINARY_ATTRIBUTES
    attrs = []
    for k, v in e.attributes.items():
        if k in ('class', 'style'):
            v = str(v)
        attrs.append([k, v])
    blocks = []
    for b in e.blocks:
        blocks.append(shape_impl(b) if isinstance(b, AdvancedTag) else b)
    return [e.tagName, attrs, bool(e.isSelfClosing), [x for x in merge_text_impl(blocks)]]


def merge_text_impl(blocks):
    out = []
    for b in blocks:
        if isinstance(b, str):
            if b == '':
                continue
            if out and isinstance(out[-1], str):
                out[-1] += b
            else:
                out.append(b)
        else:
            out.append(b)
    return out


def norm_attrs(shape):
    """class/style values are normalised by the library (C09/C10): compare them through the same normalisation"""
    name, attrs, sc, blocks = shape
    na = []
    for k, v in attrs:
        if k == 'class':
            v = ' '.join(x for x in re.sub('[ ][ ]+', ' ', (v or '').strip()).split(' ') if x)
            if not v:
                continue
        if k == 'style':
            from harness.props.c10 import parse_style, render as srender
            v = srender(parse_style(v or ''))
            if not v:
                continue
        na.append([k, v])
    plain = [a for a in na if a[0] not in ('class', 'style')]
    special = sorted(a for a in na if a[0] in ('class', 'style'))
    return [name, plain + special, sc, [norm_attrs(b) if isinstance(b, list) else b for b in blocks]]


class C02(core.Check):
    ID = 'C02'
    RUN_MODULE = 'Corr.Run_Parse'
    RUN_FN = 'run_parse'
    CASE_TYPE = pc.CASE_TYPE
    SHARD = 200
    RULE = ('token sequences rendered to HTML: (a) all sequences of length <=3 (quick) / <=5 (thorough; length 6 sampled) over a 10-token alphabet '
            '(two ordinary names, one void name, their end tags, text, a reference, a comment, a stray end tag); (b) random sequences up to length '
            '40 over a rich alphabet (mixed-case names, quoted/unquoted/value-less/duplicate/invalid attribute names, optional doctype on the same '
            'line or its own line, self-closed tags); (c) histories of 1-3 parses on one parser object (plain and indexed), incl. documents that leave '
            'elements open; (d) the five entry points on the same bytes. The model is fed the token streams the real tokenizer delivered. '
            'Compared: full tree snapshot with attributes, doctype, getRootNodes, getHTML. non-trivial = the tree has >= 2 elements or text')
    TRUSTED = ['stdlib html.parser tokenizer (in the loop: its recorded handler calls are the model\'s input); utils.addStartTag/DOCTYPE_MATCH are '
               'modelled at token level (Parser.wrap) and checked against the recorded second-pass stream',
               'file I/O and codecs of the entry points (oracle only)']
    ASSUMPTIONS = ['lexically well-formed markup, no reserved placeholder tag name, no element children inside script/style, no IE conditional comment']
    PARTIAL = ['entry-point equality (parseStr(bytes), parseFile, filename=) is checked by the oracle on every (d) case, not modelled',
               'utils.stripIEConditionals is not modelled (outside the domain)']

    # -------------------------------------------------------------------- generation
    def _rich_tokens(self, rng, n):
        names = ['div', 'span', 'p', 'b', 'ul', 'li', 'a', 'DIV', 'Span', 'section', 'br', 'img', 'hr', 'input', 'BR']
        anames = ['id', 'class', 'style', 'title', 'data-x', 'checked', 'ID', 'Title', '1x', 'a.b', 'x_y', 'href', 'gr\xf6\xdfe', '\xf1', 'data-\xe9t\xe9', '_u', '-z']
        avals = ['v', '', 'a b', 'x  y ', 'color: red', 'color:red;float:left', 'two words', 'q"q', "it's", 'é', '<b>', '7', 'x\r\ny']
        toks = []
        open_names = []
        for _ in range(n):
            r = rng.random()
            if r < 0.4:
                nm = rng.choice(names)
                attrs = []
                for _ in range(rng.choice([0, 0, 1, 2, 3])):
                    an = rng.choice(anames)
                    v = rng.choice(avals + [None, None])
                    q = rng.choice(['"', '"', "'", ''])
                    if v is not None:
                        if q == '' and (v == '' or any(c in v for c in ' "\'<>=`\r\n\t')):
                            q = '"'
                        if q == '"' and '"' in v:
                            q = "'"
                        if q == "'" and "'" in v:
                            q = '"'
                    attrs.append([an, v, q])
                sc = rng.random() < 0.12
                toks.append(['S', nm, attrs, sc])
                if not sc and nm.lower() not in VOID:
                    open_names.append(nm.lower())
            elif r < 0.65:
                if open_names and rng.random() < 0.75:
                    i = rng.randrange(len(open_names))
                    nm = open_names[i] if rng.random() < 0.3 else open_names[-1]
                    toks.append(['E', nm])
                    if nm in open_names:
                        j = len(open_names) - 1 - open_names[::-1].index(nm)
                        del open_names[j:]
                else:
                    toks.append(['E', rng.choice(['div', 'p', 'zz', 'br'])])
            elif r < 0.85:
                toks.append(['T', rng.choice(['x', 'yy', ' ', '\n', ' a b ', 'é', 'text > more', 'a = b', 'x\ty', 'line1\r\nline2', 'a\rb'])])
            elif r < 0.93:
                toks.append(['R', rng.choice(['&amp;', '&lt;', '&nbsp;', '&#65;', '&#x41;'])])
            else:
                toks.append(['M', rng.choice(['<!--c-->', '<!-- spaced -->', '<!---->', '<!--a-b-->'])])
        # text tokens must not be adjacent to each other for a clean expectation
        out = []
        for t in toks:
            if t[0] == 'T' and out and out[-1][0] == 'T':
                continue
            out.append(t)
        return out

    def generate(self):
        rng = self.rng
        cases = []
        n_ex = 0
        maxk = 3 if self.tier == 'quick' else 5
        for k in range(1, maxk + 1):
            for combo in itertools.product(SMALL, repeat=k):
                toks = [list(t) for t in combo]
                if any(a[0] == 'T' and b[0] == 'T' for a, b in zip(toks, toks[1:])):
                    continue
                cases.append(dict(cls='plain', docs=[dict(toks=toks, doctype=None)]))
                n_ex += 1
        if self.tier == 'thorough':
            for _ in range(60000):
                toks = [list(rng.choice(SMALL)) for _ in range(6)]
                if any(a[0] == 'T' and b[0] == 'T' for a, b in zip(toks, toks[1:])):
                    continue
                cases.append(dict(cls='plain', docs=[dict(toks=toks, doctype=None)]))
                n_ex += 1
        elif len(cases) > 900:
            keep = rng.sample(cases, 900)
            cases, n_ex = keep, 900
        nrand = 350 if self.tier == 'quick' else 6000
        doctypes = [None, None, '<!DOCTYPE html>', '<!DOCTYPE html>\n', '<!doctype html>\n', '<!DOCTYPE html PUBLIC "-//W3C//DTD XHTML 1.0//EN">\n',
                    '\n  <!DOCTYPE html>']
        for _ in range(nrand):
            toks = self._rich_tokens(rng, rng.randint(1, 40))
            cases.append(dict(cls=rng.choice(['plain', 'plain', 'indexed']), docs=[dict(toks=toks, doctype=rng.choice(doctypes))]))
        nhist = 120 if self.tier == 'quick' else 2000
        for _ in range(nhist):
            docs = []
            for _ in range(rng.randint(2, 3)):
                docs.append(dict(toks=self._rich_tokens(rng, rng.randint(1, 12)), doctype=rng.choice(doctypes)))
            cases.append(dict(cls=rng.choice(['plain', 'indexed', 'validating']) if rng.random() < 0.9 else 'plain', docs=docs))
        nentry = 40 if self.tier == 'quick' else 300
        for i in range(nentry):
            toks = self._rich_tokens(rng, rng.randint(1, 15))
            if i % 2:
                toks = toks + [['T', 'caf\xe9 \xfcber \xa9']]          # characters whose bytes differ between utf-8 and latin-1
            cases.append(dict(cls=['plain', 'indexed'][i % 4 // 2], entry=True, docs=[dict(toks=toks, doctype=rng.choice(doctypes))]))
        self.stats.update(small_alphabet_sequences=n_ex, random_sequences=nrand, histories=nhist, entry_point_cases=nentry)
        return cases

    # -------------------------------------------------------------------- implementation
    def _run(self, case):
        """-> list of (outcome, first, second, snapshot or None), parser"""
        p = pc.rec_class(case['cls'])()
        out = []
        for d in case['docs']:
            html = render(d['toks'], d.get('doctype'))
            outcome, first, second = pc.parse_recorded(p, html)
            snap = pc.doc_snapshot(p) if outcome == 'ok' else None
            out.append((outcome, first, second, snap))
        return out, p

    def run_impl(self, case):
        res, _ = self._run(case)
        self._last = (id(case), res)
        if not all(pc.names_ascii(f, s) for o, f, s, snap in res):
            return None          # non-ASCII tag/attribute name: outside the model's string fragment, oracle only
        return '\x1f'.join(snap if outcome == 'ok' else outcome.replace('|extra-reset', '') for outcome, f, s, snap in res)

    def coq_case(self, case):
        if getattr(self, '_last', (None,))[0] == id(case):
            res = self._last[1]
        else:
            res, _ = self._run(case)
        return '(%s, true, %s)' % (pc.PCLASS[case['cls']], core.clist(pc.coq_doc(f, s) for o, f, s, snap in res))

    # -------------------------------------------------------------------- oracle
    def oracle(self, case):
        import AdvancedHTMLParser as A
        from AdvancedHTMLParser.Validator import ValidatingAdvancedHTMLParser
        cls = {'plain': A.AdvancedHTMLParser, 'indexed': A.IndexedAdvancedHTMLParser, 'validating': ValidatingAdvancedHTMLParser}[case['cls']]
        p = cls()
        for i, d in enumerate(case['docs']):
            html = render(d['toks'], d.get('doctype'))
            try:
                p.parseStr(html)
            except Exception as e:
                if case['cls'] == 'validating' and type(e).__name__ in ('InvalidCloseException', 'MissedCloseException', 'InvalidAttributeNameException'):
                    p = cls()          # the documented outcome of the validating parser (C13); continue with a fresh history
                    continue
                return 'parse %d of %r raised %s' % (i, html, type(e).__name__)
            bad = self._check_doc(p, d, html, 'parse %d' % i)
            if bad:
                return bad
            if case.get('entry'):
                bad = self._entry_points(cls, html, p)
                if bad:
                    return bad
        return None

    def _check_doc(self, p, d, html, when):
        top = merge_text(interpret(d['toks']))
        elems = [b for b in top if isinstance(b, Node)]
        multi = len(elems) > 1 or any(isinstance(b, str) and b.strip() for b in top) or \
            any(isinstance(b, str) and (b.startswith('&') or b.startswith('<!--')) for b in interpret(d['toks']) if isinstance(b, str))
        root = p.getRoot()
        if not elems and not multi:
            if root is not None:
                return '%s of %r: a root exists although the input has no element' % (when, html)
            return None
        if root is None:
            return '%s of %r: nothing was parsed' % (when, html)
        nodes = p.getRootNodes()
        exp_shapes = [norm_attrs(shape_expected(n)) for n in elems]
        got_shapes = [norm_attrs(shape_impl(e)) for e in nodes]
        if got_shapes != exp_shapes:
            return '%s of %r: top-level elements %s, the token sequence dictates %s' % (when, html, json.dumps(got_shapes), json.dumps(exp_shapes))
        if multi:
            if root.tagName != 'xxxblank':
                return '%s of %r: several top-level nodes but the root is %s' % (when, html, root.tagName)
            got_top = [b for b in shape_impl(root)[3] if not (isinstance(b, str) and not b.strip())]
            exp_top = [norm_attrs(shape_expected(b)) if isinstance(b, Node) else b for b in top if not (isinstance(b, str) and not b.strip())]
            got_top = [norm_attrs(b) if isinstance(b, list) else b for b in got_top]
            if [b.strip() if isinstance(b, str) else b for b in got_top] != [b.strip() if isinstance(b, str) else b for b in exp_top]:
                return '%s of %r: top-level nodes %s, expected %s' % (when, html, json.dumps(got_top), json.dumps(exp_top))
            h = p.getHTML()
            pos = 0
            for b in exp_top:
                if isinstance(b, str):
                    j = h.find(b.strip(), pos)
                    if j < 0:
                        return '%s of %r: getHTML() %r lost the top-level text %r' % (when, html, h, b)
                    pos = j + len(b.strip())
        elif len(nodes) != 1 or nodes[0] is not root:
            return '%s of %r: single root expected' % (when, html)
        # doctype reported separately
        dt = d.get('doctype')
        exp_dt = None if dt is None else dt.strip()[2:-1]
        if (p.doctype or None) != exp_dt:
            return '%s of %r: doctype %r, expected %r' % (when, html, p.doctype, exp_dt)
        for e in pc.preorder(root):
            if e.ownerDocument is not p:
                return '%s: an element of the tree is not owned by the parser' % when
        return None

    def _entry_points(self, cls, html, p):
        """parseStr(bytes in the parser's encoding), parseFile(path), parseFile(file object), filename= : same tree as parseStr(str),
        for the default encoding and for a parser constructed with another one"""
        import AdvancedHTMLParser as A
        ref = pc.doc_snapshot(p)
        d = tempfile.mkdtemp(dir=str(core.BUILD))
        try:
            for enc in ('utf-8', 'latin-1', 'utf-16'):
                try:
                    raw = html.encode(enc)
                except UnicodeEncodeError:
                    continue
                mk = (lambda **kw: cls(**kw)) if enc == 'utf-8' else (lambda **kw: cls(encoding=enc, **kw))
                path = os.path.join(d, 'doc-%s.html' % enc)
                with open(path, 'wb') as f:
                    f.write(raw)
                variants = {}
                q = mk()
                q.parseStr(raw)
                variants['parseStr(bytes)'] = q
                q = mk()
                q.parseStr(html)
                variants['parseStr(str)'] = q
                if enc != 'utf-16':        # universal-newline / BOM handling of text files is the codec's business
                    q = mk()
                    q.parseFile(path)
                    variants['parseFile(path)'] = q
                    q = mk()
                    with open(path, 'r', encoding=enc, newline='') as f:
                        q.parseFile(f)
                    variants['parseFile(file)'] = q
                    variants['filename='] = mk(filename=path)
                for k, q in variants.items():
                    if pc.doc_snapshot(q) != ref:
                        return 'entry point %s of a %s with encoding %s gives a different tree for %r' % (k, cls.__name__, enc, html)
        finally:
            import shutil
            shutil.rmtree(d, ignore_errors=True)
        return None

    def shrink_candidates(self, case):
        docs = case['docs']
        if len(docs) > 1:
            for i in range(len(docs)):
                yield dict(case, docs=docs[:i] + docs[i + 1:])
        for di, d in enumerate(docs):
            toks = d['toks']
            for i in range(len(toks) - 1, -1, -1):
                nt = toks[:i] + toks[i + 1:]
                if any(a[0] == 'T' and b[0] == 'T' for a, b in zip(nt, nt[1:])):
                    continue
                yield dict(case, docs=docs[:di] + [dict(d, toks=nt)] + docs[di + 1:])
            for i, t in enumerate(toks):
                if t[0] == 'S' and t[2]:
                    for j in range(len(t[2])):
                        nt = toks[:i] + [[t[0], t[1], t[2][:j] + t[2][j + 1:], t[3]]] + toks[i + 1:]
                        yield dict(case, docs=docs[:di] + [dict(d, toks=nt)] + docs[di + 1:])
            if d.get('doctype'):
                yield dict(case, docs=docs[:di] + [dict(d, doctype=None)] + docs[di + 1:])
        if case['cls'] != 'plain':
            yield dict(case, cls='plain')

    def nontrivial_key(self, case, snap):
        if snap.count('(') >= 2 or 'T{' in snap.replace('T{}', ''):
            return json.dumps(case, sort_keys=True)
        return None

    def finding_key(self, case, what):
        w = re.sub(r'^parse \d+ of (\'[^\']*\'|"[^"]*"): ', '', what)
        w = re.sub(r'^parse \d+ of .*? raised', 'raised', w)
        return re.sub(r'[\[\{\'"].*$', '', w)[:50]


CHECK = C02
