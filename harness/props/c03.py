"""C03 - parsing is total: any text parses without error, hang or debugger prompt."""
import json
import re
import time

from harness import core
from harness.props import parse_common as pc

PIECES = ['<', '>', '/', '=', '"', "'", '&', '#', ';', '!', '-', '?', ' ', '\n', '\t', 'div', 'span', 'br', 'p', 'id', 'class', 'style',
          'a', 'x', '<div>', '</div>', '<br>', '<br/>', '<p ', '</', '<!--', '-->', '--!>', '<!DOCTYPE html>', '<!doctype', '<?', '?>', '<?php x ?>',
          '&amp;', '&#65;', '&#x41;', '&amp', '&#', '&;', 'x="1"', "y='2'", 'checked', '<script>', '</script>', '<style>', '</style>',
          '<pre>', '</pre>', '\x00', '\U0001F600', 'é', '<a<b', '<div', 'style', 'class=', ' class', '<details open>', '<!x>', '<! >',
          ' style="bold"', ' style=x', ' style=";;"', ' style=":"', ' style="a:b;c"', " style='color:red;;'", ' style="a: b: c"', ' class=""', ' class=" "',
          ' class="a  b"', ' id=', '<a href>', '<img src>', '<form action>', ' href', ' src', ' action', ' value', ' name', ' type', ' for', ' title', ' a"b=1', ' 9x=1', ' =3', ' c&d=1', ' data-x', ' checked=checked',
          '< div>', '</ div>', '<//>', '<=>', '<1>', '"<', "'>", '<![if', '<br /', '<img src=x>', 'if', 'endif', ']>', '-->x']
FORBIDDEN = re.compile(r'xxxblank|<!\[', re.I)


KNOWN_NO_TOKEN = ('getFormattedHTML()/getMiniHTML() raise ValueError: the serialisation of the parsed document holds no complete token '
                  'for the formatter\'s tokenizer (it ends in an unterminated reference or tag, which html.parser keeps buffered)')


class C03(core.Check):
    ID = 'C03'
    RUN_MODULE = 'Corr.Run_Parse'
    RUN_FN = 'run_parse'
    CASE_TYPE = pc.CASE_TYPE
    SHARD = 200
    CASE_TIMEOUT = 20
    RULE = ('hostile strings of 0-200 characters assembled from delimiters, names, doctype/comment/PI delimiters, unterminated constructs, NUL, '
            'non-BMP and non-ASCII text; parsed by AdvancedHTMLParser, IndexedAdvancedHTMLParser (all 16 index flag sets) and, for the '
            'documented-exception classes, ValidatingAdvancedHTMLParser, each input followed by a second parse on the same object; the four '
            'formatters x indents x encodings are run by the oracle. The model is fed the recorded handler calls. Observed on the implementation: '
            'no exception, no debugger call, time <= 50 ms + 20 us/char, getHTML / getFormattedHTML / getMiniHTML / every outerHTML is a str. '
            'non-trivial = the input produces at least one element')
    TRUSTED = ['stdlib html.parser tokenizer (in the loop through recorded handler calls)']
    ASSUMPTIONS = ['inputs contain neither the reserved placeholder tag name nor a "<![" marked section (outside the property\'s domain)']
    PARTIAL = ['wall-clock time, absence of Python-level exceptions in code the model abstracts and of debugger prompts are observed on the '
               'implementation by the oracle; the theorems are totality of the handler logic (feed never raises, second pass total)',
               'formatter classes are exercised by the oracle here; their model is tied by C11/C12']

    def _gen_string(self, rng):
        n = rng.randint(0, 40)
        s = ''.join(rng.choice(PIECES) for _ in range(n))
        return s[:200]

    def generate(self):
        rng = self.rng
        cases = []
        n = 500 if self.tier == 'quick' else 12000
        fixed = ['a<b</div>', '<details open>', '<!DOCTYPE html><p>a</p><p>b</p>', '<div style>x</div>', '<div class>x</div>', '', ' ', '<', '&',
                 '<a><b></a></b>', '</div>', '<br><br>', 'text only', '<p>unclosed', '<!-- unterminated', '<div a=">', "<div a='>", '<?pi',
                 '&amp', '<div/><div/>', '<!DOCTYPE', '<script>x</div>', '<style>', '\x00<p>\x00</p>', '<p>\U0001F600</p>&#x1F600;',
                 '<!-- c --><!DOCTYPE html><p>a</p>', '<!----><!DOCTYPE html><br/>', '<!-- saved from url -->\n<!DOCTYPE html>\n<html><body>x</body></html>',
                 '<!-- c -->\n<!DOCTYPE html>', '<?pi?><!DOCTYPE html><p>a</p>', 'x<!DOCTYPE html><p>a</p>', '\n \t<!DOCTYPE html><p>a</p><p>b</p>',
                 '<!-- a --><!-- b --><p>a</p>', '<p>a</p><!DOCTYPE html><p>b</p>',
                 '<i>' * 30, '<div>' * 40 + 'x', '<b><i>' * 20 + 'deep' + '</i></b>' * 20, '<ul>' + '<li><ul>' * 18 + 'x', '<a href>x</a>', '<img src>', '<form action><input value></form>',
                 '<div style="bold">x</div>', '<p style=x>', '<div style=";;">', '<div style=":">x', '<div style="color">', '<div class=" ">', '<div style="a:b;c" style="x">',
                 '<i a"b=1 9x=2 =3 c&d=4>x</i>', '<div style>', '<div style="">',
                 '<div>a</div><?php echo 1; ?>', '<br><?x y?>', '<span/>\n<??>', '<?xml version="1.0"?><p>a</p>', '<p><?pi?></p><?pi2?>tail']
        for s in fixed:
            cases.append(dict(cls='plain', html=s, second='<p>next</p>'))
            cases.append(dict(cls='indexed', html=s, second='<p>next</p>', flags=[True, True, True, True]))
        while len(cases) < n:
            s = self._gen_string(rng)
            if rng.random() < 0.08:
                s = rng.choice(['<!-- c -->', '<!---->\n', ' ', '\n', '<?x?>', 'x']) + rng.choice(['<!DOCTYPE html>', '<!doctype html>\n', '<!DOCTYPE html PUBLIC "a">']) + s
            if FORBIDDEN.search(s):
                continue
            r = rng.random()
            if r < 0.55:
                cases.append(dict(cls='plain', html=s, second=self._gen_string(rng) if rng.random() < 0.5 else '<p>next</p>'))
            elif r < 0.9:
                cases.append(dict(cls='indexed', html=s, second='<p>next</p>', flags=[rng.random() < 0.5 for _ in range(4)]))
            else:
                cases.append(dict(cls='validating', html=s, second='<p>next</p>'))
        cases = [c for c in cases if not FORBIDDEN.search(c['html']) and not FORBIDDEN.search(c['second'])]
        self.stats.update(strings=len(cases), fixed=len(fixed))
        return cases

    def _parser(self, case, rec):
        import AdvancedHTMLParser as A
        from AdvancedHTMLParser.Validator import ValidatingAdvancedHTMLParser
        if rec:
            cls = pc.rec_class(case['cls'])
        else:
            cls = {'plain': A.AdvancedHTMLParser, 'indexed': A.IndexedAdvancedHTMLParser, 'validating': ValidatingAdvancedHTMLParser}[case['cls']]
        if case['cls'] == 'indexed':
            f = case.get('flags', [True] * 4)
            return cls(indexIDs=f[0], indexNames=f[1], indexClassNames=f[2], indexTagNames=f[3])
        return cls()

    def _run(self, case):
        p = self._parser(case, True)
        out = []
        for html in (case['html'], case['second']):
            outcome, first, second = pc.parse_recorded(p, html)
            snap = pc.doc_snapshot(p) if outcome == 'ok' else None
            out.append((outcome, first, second, snap))
        return out

    def run_impl(self, case):
        res = self._run(case)
        self._last = (id(case), res)
        if not all(pc.names_ascii(f, s) for o, f, s, snap in res):
            return None          # non-ASCII tag/attribute name: outside the model's string fragment, oracle only
        return '\x1f'.join(snap if outcome == 'ok' else outcome.replace('|extra-reset', '') for outcome, f, s, snap in res)

    def coq_case(self, case):
        res = self._last[1] if getattr(self, '_last', (None,))[0] == id(case) else self._run(case)
        return '(%s, false, %s)' % (pc.PCLASS[case['cls']], core.clist(pc.coq_doc(f, s) for o, f, s, snap in res))

    def oracle(self, case):
        import AdvancedHTMLParser as A
        p = self._parser(case, False)
        for which, html in (('first', case['html']), ('second', case['second'])):
            t0 = time.perf_counter()
            try:
                p.parseStr(html)
            except Exception as e:
                nm = type(e).__name__
                if case['cls'] == 'validating' and nm in ('InvalidCloseException', 'MissedCloseException', 'InvalidAttributeNameException'):
                    continue
                return 'parseStr(%r) raised %s (%s parse)' % (html, nm, which)
            dt = time.perf_counter() - t0
            if dt > 0.05 + 20e-6 * len(html) + 0.2:
                # generous allowance for scheduler noise: the bound of the property plus 200 ms
                return 'parseStr(%r) took %.3f s' % (html, dt)
            bad = self._after(p, html)
            if bad:
                return bad
        if case['cls'] == 'plain':
            bad = self._formatters(case['html'])
            if bad:
                return bad
        return None

    def _after(self, p, html):
        if p.getRoot() is None:
            try:
                p.getHTML()
                return 'nothing was parsed from %r but getHTML() did not raise ValueError' % html
            except ValueError:
                return None
            except Exception as e:
                return 'getHTML() after %r raised %s' % (html, type(e).__name__)
        for name in ('getHTML', 'getFormattedHTML', 'getMiniHTML'):
            try:
                r = getattr(p, name)()
            except Exception as e:
                if isinstance(e, ValueError) and name != 'getHTML' and self._no_token(p.getHTML()):
                    return KNOWN_NO_TOKEN + ' (input %r)' % html
                return '%s() after parsing %r raised %s' % (name, html, type(e).__name__)
            if not isinstance(r, str):
                return '%s() after parsing %r returned %r' % (name, html, type(r).__name__)
        for e in p.getAllNodes():
            try:
                o = e.outerHTML
            except Exception as ex:
                return 'outerHTML of an element of %r raised %s' % (html, type(ex).__name__)
            if not isinstance(o, str):
                return 'outerHTML of an element of %r is %r' % (html, o)
        return None

    def _no_token(self, text):
        from html.parser import HTMLParser
        seen = []

        class T(HTMLParser):
            def handle_starttag(self, *a):
                seen.append(1)

            def handle_endtag(self, *a):
                seen.append(1)

            def handle_data(self, d):
                if d.strip():
                    seen.append(1)

            def handle_entityref(self, *a):
                seen.append(1)

            def handle_charref(self, *a):
                seen.append(1)

            def handle_comment(self, *a):
                seen.append(1)
        t = T()
        t.convert_charrefs = False
        t.feed(text)
        return not seen

    def _formatters(self, html):
        from AdvancedHTMLParser import Formatter as F
        configs = [(F.AdvancedHTMLFormatter, dict(indent='  ')), (F.AdvancedHTMLFormatter, dict(indent='\t', encoding=None)),
                   (F.AdvancedHTMLFormatter, dict(indent=4)), (F.AdvancedHTMLFormatter, dict(indent='')),
                   (F.AdvancedHTMLMiniFormatter, dict()), (F.AdvancedHTMLSlimTagFormatter, dict(indent=' ', slimSelfClosing=True)),
                   (F.AdvancedHTMLSlimTagMiniFormatter, dict(slimSelfClosing=False))]
        for cls, kw in configs:
            try:
                f = cls(**kw)
                f.parseStr(html)
                if f.root is not None or getattr(f, 'getRoot', lambda: None)() is not None:
                    r = f.getHTML()
                    if not isinstance(r, str):
                        return '%s(%r).getHTML() for %r returned %r' % (cls.__name__, kw, html, type(r).__name__)
                f.parseStr('<p>next</p>')
            except Exception as e:
                return '%s(%r) on %r raised %s' % (cls.__name__, kw, html, type(e).__name__)
        # parseFile of the same text (a sample of the inputs: those that can be written as utf-8, every 6th by content), every formatter,
        # with the default encoding and with encoding=None
        try:
            raw = html.encode('utf-8')
        except UnicodeEncodeError:
            return None
        if sum(raw) % 6 == 0 or len(html) < 12:
            import os
            import tempfile
            d = tempfile.mkdtemp(dir=str(core.BUILD))
            try:
                path = os.path.join(d, 'doc.html')
                with open(path, 'wb') as fh:
                    fh.write(raw)
                for cls, kw in configs + [(c, dict(encoding=None)) for c in (F.AdvancedHTMLMiniFormatter, F.AdvancedHTMLSlimTagFormatter, F.AdvancedHTMLSlimTagMiniFormatter)]:
                    try:
                        f = cls(**kw)
                        f.parseFile(path)
                        if f.root is not None and not isinstance(f.getHTML(), str):
                            return '%s(%r).parseFile: getHTML() is not a string for %r' % (cls.__name__, kw, html)
                    except Exception as e:
                        if isinstance(e, ValueError) and f.root is None:
                            continue        # the recorded finding (no complete token): reported through parseStr above
                        return '%s(%r).parseFile on a file holding %r raised %s' % (cls.__name__, kw, html, type(e).__name__)
            finally:
                import shutil
                shutil.rmtree(d, ignore_errors=True)
        return None

    def shrink_candidates(self, case):
        h = case['html']
        if case['second'] != '<p>next</p>':
            yield dict(case, second='<p>next</p>')
            yield dict(case, html=case['second'], second='<p>next</p>')
        n = len(h)
        if n > 8:
            yield dict(case, html=h[:n // 2])
            yield dict(case, html=h[n // 2:])
        for i in range(len(h) - 1, -1, -1):
            yield dict(case, html=h[:i] + h[i + 1:])

    def nontrivial_key(self, case, snap):
        return json.dumps(case, sort_keys=True) if '(0,' in snap else None

    def finding_key(self, case, what):
        if what.startswith(KNOWN_NO_TOKEN):
            return 'formatted-output-ValueError-no-complete-token'
        w = re.sub(r"\((?:'[^']*'|\"[^\"]*\")\)", '()', what)
        w = re.sub(r"%r|'[^']*'|\"[^\"]*\"", '', w)
        return w[:60]


CHECK = C03
