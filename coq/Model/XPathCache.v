(* XPathCache.v — xpath/_cache.py XPathExpressionCacheType (getCachedExpression, setCachedExpression,
   applyCachedExpressionIfAvailable) and xpath/expression.py XPathExpression.__init__ / evaluate as far as
   the cache is concerned.  Keys are expression texts (an index; SHA-1 collision freeness is assumed);
   the text parser [compile] and the evaluator [evalf] are parameters (external / C14).
   Python slice semantics are modelled explicitly so that the bounds MAX / CLEAR really matter. *)
From AHP Require Import Model.Base.

Section Cache.
Variable val : Type.
Variable res : Type.                       (* what evaluate returns (a TagCollection / an exception class) *)
Variable compile : nat -> option val.      (* parseXPathStrIntoOperations; None = it raised *)
Variable evalf : val -> nat -> res.        (* evaluation of a compiled form on tree number t *)
Variable parse_error : nat -> res.        (* what evaluation by text reports when text k does not compile *)
Notation key := nat (only parsing).

(* Python slices on lists, with Python's treatment of negative / out-of-range bounds *)
Definition norm (n : Z) (len : nat) : nat :=
  let l := Z.of_nat len in
  if (n <? 0)%Z then Z.to_nat (Z.max 0 (l + n)) else Z.to_nat (Z.min n l).
Definition slice_to (l : list key) (n : Z) : list key := firstn (norm n (length l)) l.      (* l[:n] *)
Definition slice_from (l : list key) (n : Z) : list key := skipn (norm n (length l)) l.    (* l[n:] *)

Record cache := { tbl : list (key * val); recent : list key; locked : bool }.
Definition cache0 : cache := {| tbl := []; recent := []; locked := false |}.

Fixpoint lookup (k : key) (t : list (key * val)) : option val :=
  match t with [] => None | (k', v) :: r => if Nat.eqb k k' then Some v else lookup k r end.
Fixpoint upsert (k : key) (v : val) (t : list (key * val)) : list (key * val) :=
  match t with [] => [(k, v)] | (k', v') :: r => if Nat.eqb k k' then (k, v) :: r else (k', v') :: upsert k v r end.
Definition tdel (k : key) (t : list (key * val)) := filter (fun kv => negb (Nat.eqb (fst kv) k)) t.
Definition remove_all (k : key) (l : list key) := filter (fun x => negb (Nat.eqb x k)) l.

(* a lock-protected section: acquire; body; release.  Acquiring a held lock from the same thread never returns. *)
Inductive sec (A : Type) := Done (c : cache) (a : A) | Stuck.
Arguments Done {A}. Arguments Stuck {A}.

(* getCachedExpression: acquire; get; miss -> release, None; hit -> move key to the hot end; release *)
Definition get (c : cache) (k : key) : sec (option val) :=
  if locked c then Stuck else
  let c1 := {| tbl := tbl c; recent := recent c; locked := true |} in
  match lookup k (tbl c1) with
  | None => Done {| tbl := tbl c1; recent := recent c1; locked := false |} None
  | Some v => Done {| tbl := tbl c1; recent := remove_all k (recent c1) ++ [k]; locked := false |} (Some v)
  end.

(* setCachedExpression *)
Definition set (MAX CLEAR : Z) (c : cache) (k : key) (v : val) : sec unit :=
  if locked c then Stuck else
  let t1 := upsert k v (tbl c) in
  let r1 := remove_all k (recent c) ++ [k] in
  if (MAX <? Z.of_nat (length r1))%Z then
    let remaining := (MAX - CLEAR)%Z in
    let toRemove := slice_to r1 (Z.of_nat (length r1) - remaining) in
    Done {| tbl := fold_left (fun t k' => tdel k' t) toRemove t1; recent := slice_from r1 (-1 * remaining); locked := false |} tt
  else Done {| tbl := t1; recent := r1; locked := false |} tt.

(* XPathExpression.__init__: cached -> shallow copy of the operation list; else compile (may raise: nothing is
   cached and no object exists), then publish *)
Definition construct (MAX CLEAR : Z) (c : cache) (k : key) : sec (option val) :=
  match get c k with
  | Stuck => Stuck
  | Done c1 (Some v) => Done c1 (Some v)
  | Done c1 None =>
      match compile k with
      | None => Done c1 None
      | Some v => match set MAX CLEAR c1 k v with Stuck => Stuck | Done c2 _ => Done c2 (Some v) end
      end
  end.

(* histories: expression objects are kept in slots; evaluation by text constructs a temporary object *)
Inductive event :=
| ENew (slot : nat) (k : key)          (* obj[slot] = XPathExpression(text k); on failure the slot keeps its old object *)
| EEvalObj (slot : nat) (t : nat)      (* obj[slot].evaluate(tree t) *)
| EEval (k : key) (t : nat).           (* evaluate by text: XPathExpression(text k).evaluate(tree t) *)

Inductive result := RNewOk | RNewFail | RNoObj | RVal (r : res) | RStuck.

Fixpoint set_slot {A} (l : list (option A)) (i : nat) (a : A) : list (option A) :=
  match l, i with
  | [], O => [Some a]
  | [], S i' => None :: set_slot [] i' a
  | _ :: t, O => Some a :: t
  | h :: t, S i' => h :: set_slot t i' a
  end.
Definition get_slot {A} (l : list (option A)) (i : nat) : option A := nth i l None.

Record state := { ch : cache; slots : list (option val) }.
Definition state0 : state := {| ch := cache0; slots := [] |}.

Definition step (MAX CLEAR : Z) (s : state) (e : event) : state * result :=
  match e with
  | ENew i k =>
      match construct MAX CLEAR (ch s) k with
      | Stuck => (s, RStuck)
      | Done c None => ({| ch := c; slots := slots s |}, RNewFail)
      | Done c (Some v) => ({| ch := c; slots := set_slot (slots s) i v |}, RNewOk)
      end
  | EEvalObj i t =>
      match get_slot (slots s) i with
      | None => (s, RNoObj)
      | Some v => (s, RVal (evalf v t))
      end
  | EEval k t =>
      match construct MAX CLEAR (ch s) k with
      | Stuck => (s, RStuck)
      | Done c None => ({| ch := c; slots := slots s |}, RVal (parse_error k))
      | Done c (Some v) => ({| ch := c; slots := slots s |}, RVal (evalf v t))
      end
  end.

Fixpoint run (MAX CLEAR : Z) (s : state) (es : list event) : list (result * cache) * state :=
  match es with
  | [] => ([], s)
  | e :: r => let '(s1, x) := step MAX CLEAR s e in
              let '(out, s2) := run MAX CLEAR s1 r in ((x, ch s1) :: out, s2)
  end.

(* the specification: no cache at all; a slot remembers which text it was compiled from *)
Definition spec_step (sl : list (option key)) (e : event) : list (option key) * result :=
  match e with
  | ENew i k => match compile k with None => (sl, RNewFail) | Some _ => (set_slot sl i k, RNewOk) end
  | EEvalObj i t => match get_slot sl i with
                    | None => (sl, RNoObj)
                    | Some k => match compile k with Some v => (sl, RVal (evalf v t)) | None => (sl, RNoObj) end
                    end
  | EEval k t => match compile k with None => (sl, RVal (parse_error k)) | Some v => (sl, RVal (evalf v t)) end
  end.
Fixpoint spec_run (sl : list (option key)) (es : list event) : list result :=
  match es with
  | [] => []
  | e :: r => let '(sl1, x) := spec_step sl e in x :: spec_run sl1 r
  end.

(* threads: each thread runs its own event list; the unit of interleaving is the lock-protected section
   (get / set) and the thread-local pieces between them (compile, evaluate).  A thread between sections holds
   a program counter for the event under way. *)
Inductive pc :=
| PIdle                                   (* between events *)
| PCompiled (e : event) (v : val).       (* get missed, compile succeeded, set still to do *)

Record thread := { todo : list event; tpc : pc; tslots : list (option val); out : list result }.
Definition thread0 (es : list event) : thread := {| todo := es; tpc := PIdle; tslots := []; out := [] |}.

Definition finish (th : thread) (e : event) (ov : option val) (rest : list event) : thread :=
  match e, ov with
  | ENew i _, Some v => {| todo := rest; tpc := PIdle; tslots := set_slot (tslots th) i v; out := out th ++ [RNewOk] |}
  | ENew _ _, None => {| todo := rest; tpc := PIdle; tslots := tslots th; out := out th ++ [RNewFail] |}
  | EEval _ t, Some v => {| todo := rest; tpc := PIdle; tslots := tslots th; out := out th ++ [RVal (evalf v t)] |}
  | EEval k _, None => {| todo := rest; tpc := PIdle; tslots := tslots th; out := out th ++ [RVal (parse_error k)] |}
  | EEvalObj _ _, _ => th
  end.
Definition ev_key (e : event) : key := match e with ENew _ k => k | EEval k _ => k | EEvalObj _ _ => 0 end.

(* one atomic action of a thread against the shared cache *)
Definition tstep (MAX CLEAR : Z) (c : cache) (th : thread) : cache * thread :=
  match tpc th, todo th with
  | PCompiled e v, rest =>
      match set MAX CLEAR c (ev_key e) v with
      | Stuck => (c, th)
      | Done c1 _ => (c1, finish th e (Some v) rest)
      end
  | PIdle, [] => (c, th)
  | PIdle, EEvalObj i t :: rest =>
      (c, {| todo := rest; tpc := PIdle; tslots := tslots th;
             out := out th ++ [match get_slot (tslots th) i with None => RNoObj | Some v => RVal (evalf v t) end] |})
  | PIdle, e :: rest =>
      match get c (ev_key e) with
      | Stuck => (c, th)
      | Done c1 (Some v) => (c1, finish th e (Some v) rest)
      | Done c1 None =>
          match compile (ev_key e) with
          | None => (c1, finish th e None rest)
          | Some v => (c1, {| todo := rest; tpc := PCompiled e v; tslots := tslots th; out := out th |})
          end
      end
  end.

Fixpoint upd {A} (l : list A) (i : nat) (a : A) : list A :=
  match l, i with [], _ => [] | _ :: t, O => a :: t | h :: t, S i' => h :: upd t i' a end.

(* a schedule is any list of thread numbers; a number without a thread is a no-op *)
Fixpoint sched_run (MAX CLEAR : Z) (c : cache) (ths : list thread) (sched : list nat) : cache * list thread :=
  match sched with
  | [] => (c, ths)
  | i :: r => match nth_error ths i with
              | None => sched_run MAX CLEAR c ths r
              | Some th => let '(c1, th1) := tstep MAX CLEAR c th in sched_run MAX CLEAR c1 (upd ths i th1) r
              end
  end.

End Cache.

Arguments tbl {val}. Arguments recent {val}. Arguments locked {val}. Arguments cache0 {val}.
Arguments Done {val A}. Arguments Stuck {val A}.
Arguments ch {val}. Arguments slots {val}. Arguments state0 {val}. Arguments get {val}. Arguments set {val}.
Arguments todo {val res}. Arguments tpc {val res}. Arguments tslots {val res}. Arguments out {val res}.
Arguments thread0 {val res}. Arguments PIdle {val}. Arguments PCompiled {val}.
