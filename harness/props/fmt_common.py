"""Shared driver for the formatter properties (C11, C12)."""
import io
import json
import re
import sys

from harness import core
from harness.core import cs, clist
from harness.props import parse_common as pc
from harness.props import c01, c02

_fclasses = {}

CONFIGS = [
    dict(kind='pretty', indent='  '), dict(kind='pretty', indent=' '), dict(kind='pretty', indent='\t'), dict(kind='pretty', indent=''),
    dict(kind='pretty', indent=4), dict(kind='pretty', indent='  ', encoding=None),
    dict(kind='mini'), dict(kind='mini', encoding=None),
    dict(kind='slim', indent='  ', slimsc=False), dict(kind='slim', indent='  ', slimsc=True), dict(kind='slim', indent='\t', slimsc=True),
    dict(kind='slimmini', slimsc=False), dict(kind='slimmini', slimsc=True),
]


def make_formatter(cfg, recording=False):
    from AdvancedHTMLParser import Formatter as F
    kind = cfg['kind']
    base = {'pretty': F.AdvancedHTMLFormatter, 'mini': F.AdvancedHTMLMiniFormatter, 'slim': F.AdvancedHTMLSlimTagFormatter,
            'slimmini': F.AdvancedHTMLSlimTagMiniFormatter}[kind]
    cls = base
    if recording:
        cls = rec_fclass(kind, base)
    kw = {}
    if kind in ('pretty', 'slim'):
        kw['indent'] = cfg.get('indent', '  ')
    if 'encoding' in cfg:
        kw['encoding'] = cfg['encoding']
    if kind in ('slim', 'slimmini'):
        kw['slimSelfClosing'] = cfg.get('slimsc', False)
    return cls(**kw)


def rec_fclass(kind, base):
    if kind in _fclasses:
        return _fclasses[kind]
    # the slim formatters bind handle_starttag as a class attribute: wrap whatever the class provides
    orig_start = base.handle_starttag

    class Rec(base):
        def _reset(self):
            self.__dict__.setdefault('_log', []).append([])
            return base._reset(self)

        def _l(self, t):
            log = self.__dict__.setdefault('_log', [])
            if not log:
                log.append([])
            log[-1].append(t)

        def handle_starttag(self, tagName, attributeList, isSelfClosing=False):
            self._l(['S', tagName, [[k, v] for k, v in attributeList], bool(isSelfClosing)])
            return orig_start(self, tagName, attributeList, isSelfClosing)

        def handle_endtag(self, tagName):
            self._l(['E', tagName])
            return base.handle_endtag(self, tagName)

        def handle_data(self, data):
            self._l(['D', data])
            return base.handle_data(self, data)

        def handle_entityref(self, name):
            self._l(['R', name])
            return base.handle_entityref(self, name)

        def handle_charref(self, name):
            self._l(['C', name])
            return base.handle_charref(self, name)

        def handle_comment(self, data):
            self._l(['M', data])
            return base.handle_comment(self, data)

        def handle_decl(self, decl):
            self._l(['L', decl])
            return base.handle_decl(self, decl)

        def unknown_decl(self, data):
            self._l(['U', data])
            return base.unknown_decl(self, data)

        def handle_pi(self, data):
            self._l(['P', data])
            return base.handle_pi(self, data)
    Rec.__name__ = 'RecF_' + kind
    _fclasses[kind] = Rec
    return Rec


def format_recorded(cfg, html):
    """-> (outcome, first-pass tokens, second-pass tokens or None, output string or None)"""
    f = make_formatter(cfg, recording=True)
    f.__dict__['_log'] = []
    err = io.StringIO()
    old = sys.stderr
    sys.stderr = err
    try:
        try:
            f.parseStr(html)
            outcome = 'ok'
        except Exception as e:
            outcome = 'exc:' + core.exc_name(e)
    finally:
        sys.stderr = old
    segs = f.__dict__.get('_log', []) or [[]]
    first = segs[0]
    second = segs[1] if len(segs) >= 2 else None
    out = None
    if outcome == 'ok' and f.getRoot() is not None:
        try:
            out = f.getHTML()
        except Exception as e:
            outcome = 'exc:' + core.exc_name(e)
    return outcome, first, second, out


def run_format(cfg, html):
    """plain (non recording) run -> output string; raises on failure"""
    f = make_formatter(cfg)
    old = sys.stderr
    sys.stderr = io.StringIO()
    try:
        f.parseStr(html)
        return f.getHTML() if f.getRoot() is not None else None
    finally:
        sys.stderr = old


def coq_cfg(cfg):
    kind = cfg['kind']
    ind = cfg.get('indent', '  ') if kind in ('pretty', 'slim') else ''
    if isinstance(ind, int):
        ind = ' ' * ind
    return '{| cindent := %s; cmini := %s; cslim := %s; cslimsc := %s |}' % (
        cs(ind), 'true' if kind in ('mini', 'slimmini') else 'false', 'true' if kind in ('slim', 'slimmini') else 'false',
        'true' if cfg.get('slimsc') else 'false')


WS_TEXTS = ['  x  ', ' a\tb ', 'line1\nline2', '\r\n x \r\n', 'x', ' ', '\n', '  lead', 'trail  ', 'a  b', '\ttab\t', 'x\n\n  y',
            '\n      Hello world\n    ', 'end  \n', '\n\tx', ' \n y']


def gen_doc(rng, deep=False):
    """generator tokens (c02 format) for a formatter input document"""
    r = rng.random()
    if r < 0.45:
        t = c01.gen_tree(rng, maxdepth=5)
        toks = c01.tree_tokens(t)
    elif r < 0.6:
        # deep nesting
        d = rng.randint(6, 30 if deep else 12)
        toks = [['S', rng.choice(['div', 'span', 'ul', 'li', 'section']), [], False] for _ in range(d)]
        names = [t[1] for t in toks]
        toks.append(['T', rng.choice(WS_TEXTS)])
        for n in reversed(names):
            toks.append(['E', n])
    elif r < 0.8:
        # preformatted elements nested in each other with inline children and whitespace
        toks = [['S', 'div', [], False], ['S', rng.choice(['pre', 'code']), [], False], ['T', rng.choice(WS_TEXTS)],
                ['S', 'span', [], False], ['T', rng.choice(WS_TEXTS)], ['E', 'span'], ['T', rng.choice(WS_TEXTS)]]
        if rng.random() < 0.5:
            toks += [['S', rng.choice(['code', 'pre', 'b']), [], False], ['T', rng.choice(WS_TEXTS)], ['S', 'i', [], False], ['T', rng.choice(WS_TEXTS)],
                     ['E', 'i'], ['E', toks[-0][1] if False else 'X']]
            toks[-1] = ['E', toks[-6][1]]
            if rng.random() < 0.7:
                # the outer preformatted element goes on after the inner one is closed: text, an inline child, text
                toks += [['T', rng.choice(WS_TEXTS)], ['S', rng.choice(['span', 'b', 'a']), [], False], ['T', rng.choice(WS_TEXTS)]]
                toks.append(['E', toks[-2][1]])
                toks.append(['T', rng.choice(WS_TEXTS)])
        toks += [['E', toks[1][1]], ['T', rng.choice(WS_TEXTS)], ['S', 'p', [], False], ['T', rng.choice(WS_TEXTS)], ['E', 'p'], ['E', 'div']]
    elif r < 0.84:
        # a preformatted element that is still open when an ancestor's end tag arrives (closed implicitly), then more elements
        outer = rng.choice(['div', 'li', 'section'])
        toks = [['S', 'div', [], False], ['S', outer, [], False], ['S', rng.choice(['pre', 'code']), [], False], ['T', rng.choice(WS_TEXTS)]]
        if rng.random() < 0.5:
            toks += [['S', 'b', [], False], ['T', rng.choice(WS_TEXTS)]]
        toks += [['E', outer], ['S', 'p', [], False], ['T', rng.choice(WS_TEXTS)], ['S', 'span', [], False], ['T', rng.choice(WS_TEXTS)], ['E', 'span'], ['E', 'p'],
                 ['S', 'ul', [], False], ['S', 'li', [], False], ['T', rng.choice(WS_TEXTS)], ['E', 'li'], ['E', 'ul'], ['E', 'div']]
    elif r < 0.9:
        # long inline run
        toks = [['S', 'p', [], False]]
        for _ in range(rng.randint(3, 10)):
            toks.append(['T', rng.choice(WS_TEXTS)])
            toks += [['S', rng.choice(['b', 'i', 'a', 'span']), [], False], ['T', rng.choice(WS_TEXTS)]]
            toks.append(['E', toks[-2][1]])
        toks.append(['E', 'p'])
    elif r < 0.93:
        # one element followed only by text (a fragment with two top-level nodes)
        toks = c01.tree_tokens(c01.gen_tree(rng, maxdepth=2, budget=[4])) + [['T', rng.choice([' tail text', 'after the element', '\nafter\n', 'x'])]]
    else:
        # multi-root fragment
        toks = []
        for _ in range(rng.randint(2, 3)):
            toks += c01.tree_tokens(c01.gen_tree(rng, maxdepth=2, budget=[4]))
            if rng.random() < 0.5:
                toks.append(['T', rng.choice(['t', ' mid ', '\n'])])
    clean = []
    for tk in toks:
        if tk[0] == 'T' and clean and clean[-1][0] == 'T':
            clean[-1] = ['T', clean[-1][1] + tk[1]]
        else:
            clean.append(tk)
    return clean


CASE_TYPE = 'fcase'
