#!/usr/bin/env python3
"""Regenerate the per-property block (A.3) of DESIGN.md from MANIFEST.json, and the size line of A.1."""
import json, re, subprocess
m = json.load(open('/verif/MANIFEST.json'))
s = open('/verif/DESIGN.md').read()
a = s.index("(verbatim from `MANIFEST.json`, which is generated from `tools/manifest_data.py`)")
b = s.index("### A.4 What the machinery found")
blk = ["(verbatim from `MANIFEST.json`, which is generated from `tools/manifest_data.py`)\n"]
for c in m['checks']:
    blk.append('**%s.** %s\n*%s*\n' % (c['property_id'], c['level_claimed']['text'], c['level_note']))
s = s[:a] + '\n'.join(blk) + '\n' + s[b:]
def wc(pat):
    return subprocess.check_output("cd /verif && wc -l %s | tail -1 | awk '{print $1}'" % pat, shell=True).decode().strip()
sizes = (wc('coq/Model/*.v coq/Spec/*.v coq/Proofs/*.v coq/Properties/*.v coq/Corr/*.v'), wc('coq/Model/*.v'), wc('coq/Proofs/*.v'),
         wc('harness/*.py harness/props/*.py tools/*.py'))
s = re.sub(r"\* Sizes: \d+ lines of Coq \(model \d+, proofs \d+\), \d+ lines of Python harness\.",
           "* Sizes: %s lines of Coq (model %s, proofs %s), %s lines of Python harness." % sizes, s)
open('/verif/DESIGN.md', 'w').write(s)
print('DESIGN.md A.3 regenerated; sizes', sizes)
