(* C09 — the class attribute, className, classList and the rendered HTML never diverge.
   The class list is [classes s]; className = join " " (classes s), classList = classes s, hasClass = membership
   are the model's definitions of those accessors (Model/Attr.v), tied to the code by the correspondence run. *)
From AHP Require Import Model.Base Model.Str Model.Attr Proofs.StrProofs Proofs.AttrProofs Proofs.CodecProofs Corr.Run_Attr.

(* a single name: addClass appends unless present, removeClass removes the first occurrence *)
Theorem C09_addClass_single : forall fuel w l, stripWordsOnly w = w -> w <> "" -> has_char " " w = false ->
  addClass_f fuel w l = spec_add1 w l.
Proof. exact addClass_single. Qed.
Theorem C09_removeClass_single : forall fuel w l, stripWordsOnly w = w -> w <> "" -> has_char " " w = false ->
  removeClass_f fuel w l = sremove_first w l.
Proof. exact removeClass_single. Qed.
Theorem C09_addClass_present_noop : forall fuel w l, stripWordsOnly w = w -> w <> "" -> has_char " " w = false ->
  smem w l = true -> addClass_f fuel w l = l.
Proof. exact addClass_present. Qed.
Theorem C09_removeClass_absent_noop : forall fuel w l, stripWordsOnly w = w -> w <> "" -> has_char " " w = false ->
  smem w l = false -> removeClass_f fuel w l = l.
Proof. exact removeClass_absent. Qed.
(* any operand (several names, irregular spaces, empty): the old list stays as a prefix, addClass introduces
   no duplicate and no empty name; removeClass only removes *)
Theorem C09_addClass_general : forall fuel v l, exists t,
  addClass_f fuel v l = l ++ t /\ (NoDup l -> NoDup (l ++ t)) /\ (GoodList l -> GoodList (l ++ t)).
Proof. exact addClass_general. Qed.
Theorem C09_removeClass_general : forall fuel v l,
  (forall x, In x (removeClass_f fuel v l) -> In x l) /\ (NoDup l -> NoDup (removeClass_f fuel v l)).
Proof. exact removeClass_general. Qed.
Theorem C09_className_no_empty : forall v, GoodList (words v).
Proof. exact words_good. Qed.
(* presence: the class key is there (in, hasAttribute, keys, rendering after synchronisation) iff the list is non-empty,
   and then it carries exactly the joined list *)
Theorem C09_presence_has : forall s, hasAttribute "class" s = match classes s with [] => false | _ => true end.
Proof. exact hasAttribute_class. Qed.
Theorem C09_presence_keys : forall s, KeysOK s -> (od_has "class" (dict (sync s)) = true <-> classes s <> []).
Proof. exact sync_class_presence. Qed.
Theorem C09_value : forall s, KeysOK s -> forall v, od_get "class" (dict (sync s)) = Some v ->
  raw_value (sync s) v = PStr (join " " (classes s)).
Proof. exact sync_class_value. Qed.
(* every reachable state: no empty class name, no duplicate key *)
Theorem C09_reachable : forall o attrs ops s r, seed o attrs = (s, r) ->
  Reach_inv (fold_left (fun s op => fst (step s op)) ops s).
Proof. exact reachable_inv. Qed.

Example C09_ex : let s := addClass " b  c " (fst (setitem "class" (Some "a  b") st0)) in
  classes s = ["a"; "b"; "c"] /\ start_attrs (sync s) = "class=""a b c""" /\ KeysOK s.
Proof. vm_compute. split; [reflexivity|split; [reflexivity|constructor]]. Qed.

(* className and classList are one state: assigning the element's own className back (what cloneNode, copy and unpickling do
   through the attribute list) gives the same list, for every list of non-empty, space-free names whose first name does not
   start and whose last name does not end with white space *)
Theorem C09_className_round_trip : forall cl, GoodClasses cl -> words (join " " cl) = cl.
Proof. exact words_join. Qed.
Example C09_ex_good_classes : GoodClasses ["a"; "b-c"; "d"] /\ words " a  b-c d " = ["a"; "b-c"; "d"].
Proof.
  split; [|vm_compute; reflexivity]. split; [|split].
  - repeat (constructor; [split; [discriminate | reflexivity]|]). constructor.
  - reflexivity.
  - reflexivity.
Qed.

