(* PropRules.v — rule descriptors for the typed DOM properties (constants.py TAG_ITEM_ATTRIBUTES_SPECIAL_VALUES).
   The generated Gen/Tables.v lists, per special property, the descriptor the translator read off the source. *)
From Coq Require Import String List ZArith.
Import ListNotations.

(* Python constants appearing as defaults *)
Inductive pconst := KNone | KStr (s : string) | KInt (z : Z) | KEmptyIsInvalid.

Inductive rule :=
| RIntOrMinus1 (attr : string)                                             (* convertToIntOrNegativeOneIfUnset(getAttribute(attr, None)) *)
| RIntCapped (attr : string) (dflt : pconst) (lo hi : option Z) (inv empty : pconst)   (* convertToIntRangeCapped *)
| RIntRange (attr : string) (dflt : pconst) (lo hi : option Z) (inv empty : pconst)    (* convertToIntRange *)
| RPosInt (attr : string) (dflt : pconst) (inv : pconst)                   (* convertToPositiveInt *)
| REnum (attr : string) (dflt : pconst) (values : list string) (inv empty : pconst)    (* convertPossibleValues *)
| RAttr (attr : string) (dflt : pconst)                                    (* em.getAttribute(attr, dflt) *)
| RByTag (tag : string) (r_then r_else : rule)                             (* if em.tagName == tag: ... else: ... *)
| RParentForm                                                              (* nearest ancestor <form> *)
| RTokenList (attr : string)                                               (* DOMTokenList(getAttribute(attr, '')) *)
| RMaxLength.                                                              (* _special_value_maxLength *)
