(* Passes.v — the flat, three-pass, left-to-right evaluation of one level of a predicate body
   (_body.py BodyLevel.evaluateLevelForTags, the loop over ORDERED_BE_TYPES_TO_PROCESS_VALUES), generic in values and operators. *)
From Coq Require Import List Bool Arith.
Import ListNotations.

Section Passes.
  Variable val : Type.
  Variable op : Type.
  Variable rank : op -> nat.
  Variable app : op -> val -> val -> val.

  Inductive item := V (v : val) | O (o : op).
  Inductive pres := POk (l : list item) | PErr.
  (* one pass: apply the operators of class c, left to right; anything else is copied *)
  Fixpoint pass (c : nat) (l : list item) (acc : list item) : pres :=
    match l with
    | [] => POk (rev acc)
    | O o :: rest =>
        if Nat.eqb (rank o) c then
          match acc, rest with
          | V a :: acc', V b :: rest' => pass c rest' (V (app o a b) :: acc')
          | _, _ => PErr
          end
        else pass c rest (O o :: acc)
    | x :: rest => pass c rest (x :: acc)
    end.
  Definition pbind (r : pres) (f : list item -> pres) := match r with POk l => f l | PErr => PErr end.
  Definition passes (l : list item) : pres := pbind (pass 0 l []) (fun l1 => pbind (pass 1 l1 []) (fun l2 => pass 2 l2 [])).
End Passes.
Arguments V {val op}. Arguments O {val op}. Arguments POk {val op}. Arguments PErr {val op}.
