(* Correspondence driver shared by C08, C09, C10: operation histories on one <input> element's attribute store. *)
From AHP Require Export Model.Base Model.Str Model.Attr.

Inductive origin := ODirect | OParsed | OCloned | OUnpickled.
Inductive op :=
| OSetAttr (n : string) (v : option string) | OSetAttrs (l : list (string * option string)) | ORemoveAttr (n : string)
| OSetItem (n : string) (v : option string) | ODelItem (n : string)
| ODot (name : string) (v : option string) | ODotBool (name : string) (b : bool)
| OClassName (v : option string) | OAddClass (v : string) | ORemoveClass (v : string)
| OStyleDot (name v : string) | OSetProperty (n : string) (v : option string) | OSetStyle (n v : string)
| OSetStyles (l : list (string * string)) | OStyleAssign (v : string) | OStyleCopy (src : string)
| OReadSync | OReadHas (n : string) | OReadGet (n : string).

Definition the_tag := "input".

Definition step (s : st) (o : op) : st * res :=
  match o with
  | OSetAttr n v => setAttribute n v s
  | OSetAttrs l => setAttributes l s
  | ORemoveAttr n => (removeAttribute n s, ROk)
  | OSetItem n v => setitem n v s
  | ODelItem n => (delitem n s, ROk)
  | ODot name v => dot_assign the_tag name v None s
  | ODotBool name b => dot_assign the_tag name None (Some b) s
  | OClassName v => (set_className v s, ROk)
  | OAddClass v => (addClass v s, ROk)
  | ORemoveClass v => removeClass v s
  | OStyleDot name v => (style_dot name v s, ROk)
  | OSetProperty n v => (style_setProperty n v s, ROk)
  | OSetStyle n v => (style_dot n v s, ROk)
  | OSetStyles l => (fold_left (fun s nv => style_dot (fst nv) (snd nv) s) l s, ROk)
  | OStyleAssign v => (assign_style v s, ROk)
  | OStyleCopy src => (copy_style src s, ROk)
  | OReadSync => (sync s, ROk)
  | OReadHas n => (s, ROk)
  | OReadGet n => (fst (getAttribute n s), ROk)
  end.

Definition show_res (r : res) : string :=
  match r with
  | ROk => "ok"
  | ROkVal None => "ok:None"
  | ROkVal (Some x) => "ok:" +++ x
  | RExc EKeyError => "exc:KeyError"
  | RExc EAttributeError => "exc:AttributeError"
  | RExc EUnsupported => "unsupported"
  | RExc EIndexSize => "exc:IndexSizeError"
  end.
Definition show_pyv (v : pyv) : string :=
  match v with PNone => "N" | PTrue => "T" | PFalse => "F" | PStr x => "S" +++ hex x end.

Definition read_names : list string := ["id"; "data-x"; "checked"; "title"; "ID"; "CHECKED"; "class"; "style"; "hidden"; "zz"].

(* the observation: hasAttribute (before any synchronising read), then getAttribute in order (the first plain name
   synchronises), items, start tag, className, classList, str(style).  Returns the state the reads leave behind. *)
Definition observe (s : st) (r : string) : st * string :=
  let h := fold_right (fun n acc => String (if hasAttribute n s then "1"%char else "0"%char) acc) "" read_names in
  let '(s1, gs) := fold_left (fun acc n => let '(s, out) := acc in let '(s', v) := getAttribute n s in (s', out ++ [show_pyv v]))
                             read_names (s, []) in
  let s2 := sync s1 in
  let it := sjoin ";" (map (fun kv => hex (fst kv) +++ "=" +++ show_pyv (snd kv)) (items s2)) in
  (s2, r +++ "|H" +++ h +++ "|G" +++ sjoin "," gs +++ "|I" +++ it +++ "|S" +++ hex (start_attrs s2)
       +++ "|C" +++ hex (className s2) +++ "|L" +++ sjoin "," (map hex (classes s2)) +++ "|Y" +++ hex (as_str (sty s2))).

Fixpoint run_ops (each : bool) (s : st) (ops : list op) : st * list string :=
  match ops with
  | [] => (s, [])
  | o :: r => let '(s1, x) := step s o in
              let '(s2, line) := if each then observe s1 (show_res x) else (s1, show_res x) in
              let '(s3, out) := run_ops each s2 r in (s3, line :: out)
  end.

Definition seed (o : origin) (attrs : list (string * option string)) : st * res :=
  match intake attrs st0 with
  | (s, ROk) => match o with ODirect | OParsed => (s, ROk) | OCloned | OUnpickled => clone_attrs s end
  | e => e
  end.

(* case: (origin, constructor attribute list), snapshot after each operation?, operations *)
Definition run_attr (c : (origin * list (string * option string)) * bool * list op) : string :=
  let '((o, attrs), each, ops) := c in
  match seed o attrs with
  | (s, ROk) =>
      if each then
        let '(s0, l0) := observe s "init" in
        let '(_, out) := run_ops true s0 ops in sjoin (String (ascii_of_nat 31) "") (l0 :: out)
      else
        let '(s1, out) := run_ops false s ops in
        let '(_, l1) := observe s1 "end" in sjoin (String (ascii_of_nat 31) "") (out ++ [l1])
  | (_, e) => "seed:" +++ show_res e
  end.
