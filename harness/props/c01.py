"""C01 - serialise -> parse round trip preserves the document tree."""
import itertools
import json
import re

from harness import core
from harness.core import cs, clist, copt
from harness.props import parse_common as pc
from harness.props import c02

ORD = ['div', 'span', 'p', 'b', 'ul', 'li', 'a', 'section']
VOIDS = ['br', 'img', 'input', 'hr', 'meta', 'link']
PRE = ['pre', 'code']
RAW = ['script', 'style']
ANAMES = ['id', 'title', 'data-x', 'data-y', 'checked', 'hidden', 'open', 'class', 'style', 'href', 'lang']
AVALS = ['v', '', 'two words', 'q"q', "it's", '<b>', 'a>b', 'é', '7', 'x  y', 'next >', 'a /> b', 'n > 3']
TEXTS = ['x', 'yy', ' ', '\n', ' a b ', '&amp;', '&#65;', '&lt;tag&gt;', '<!--c-->', '<!-- c -->', 'é', 'a > b', 'x\ty', '  ',
         '<!--\tcol1\tcol2\t-->', '<!--\n  multi\n  line\n-->', '\nx', '\n\n  y\n', '&nbsp;', '&#160;']


def gen_tree(rng, depth=0, maxdepth=4, budget=None):
    """-> stree: [name, attrs [[n, v|None]...], sc, blocks [str | stree]]"""
    budget = budget if budget is not None else [12]
    budget[0] -= 1
    r = rng.random()
    if r < 0.12:
        name = rng.choice(VOIDS)
        return [name, gen_attrs(rng), True, []]
    if r < 0.2:
        name = rng.choice(RAW)
        if rng.random() < 0.2:
            return [name, gen_attrs(rng), True, []]          # written <script ... /> : self-closed
        body = rng.choice(['', 'var a = 1;', 'if (a < b && c > d) { x(); }', 'p { color: red }', '\n  x\n'])
        return [name, gen_attrs(rng), False, [body] if body else []]
    name = rng.choice(PRE if r < 0.28 else ORD)
    if rng.random() < 0.08:
        return [name, gen_attrs(rng), True, []]
    blocks = []
    if name in PRE and rng.random() < 0.35:
        blocks.append(rng.choice(['\nx', '\n\n  y\n', '\n']))
    for _ in range(rng.randint(0, 4)):
        if depth < maxdepth and budget[0] > 0 and rng.random() < 0.5:
            blocks.append(gen_tree(rng, depth + 1, maxdepth, budget))
        else:
            t = rng.choice(TEXTS)
            blocks.append(t)
    return [name, gen_attrs(rng), False, blocks]


def gen_attrs(rng):
    out, seen = [], set()
    for _ in range(rng.choice([0, 0, 1, 1, 2, 3, 4])):
        n = rng.choice(ANAMES)
        if n in seen:
            continue
        seen.add(n)
        if n == 'class':
            v = rng.choice(['a', 'a b', ' x  y ', 'c'])
        elif n == 'style':
            v = rng.choice(['color: red', 'display:block;float:left', 'padding-top: 5px'])
        elif n in ('checked', 'hidden', 'open'):
            v = rng.choice([None, '', 'checked'])
        else:
            v = rng.choice(AVALS + [None])
        out.append([n, v])
    return out


def build_api(st, via_set=False):
    """the tree built through the public DOM API: AdvancedTag(name, attrs) or - void names, every other attribute count, no class / style -
    the document's createElement with the name in mixed case and setAttribute; via_set: every attribute through setAttribute, in order, the start tag read after each"""
    from AdvancedHTMLParser.Tags import AdvancedTag
    name, attrs, sc, blocks = st
    special = any(n.lower() in ('class', 'style') for n, v in attrs)
    if via_set:
        t = AdvancedTag(name, [], bool(sc))
        for n, v in attrs:
            t.setAttribute(n, v if v is not None else '')
            t.getStartTag()          # a read between the writes (it synchronises the class entry of the mapping)
    elif name in VOIDS and len(attrs) % 2 == 1 and not special and len({n.lower() for n, v in attrs}) == len(attrs) and all(v is not None for n, v in attrs):
        import AdvancedHTMLParser as A
        t = A.AdvancedHTMLParser().createElement(name.title() if len(attrs) == 1 else name.upper())
        for n, v in attrs:
            t.setAttribute(n, v)
    else:
        t = AdvancedTag(name, [(n, v) for n, v in attrs], bool(sc))
    for b in blocks:
        if isinstance(b, str):
            t.appendText(b)
        else:
            t.appendChild(build_api(b, via_set))
    return t


def tree_tokens(st):
    """generator tokens (c02 format) whose rendering is a source document for this tree"""
    name, attrs, sc, blocks = st
    ga = [[n, v, '"' if (v is None or '"' not in v) else "'"] for n, v in attrs]
    for a in ga:
        if a[1] is not None and '"' in a[1] and "'" in a[1]:
            a[1] = a[1].replace('"', '')
    if sc and name not in VOIDS:
        return [['S', name, ga, True]]
    if name in VOIDS:
        return [['S', name, ga, False]]
    out = [['S', name, ga, False]]
    for b in blocks:
        if isinstance(b, str):
            out.append(['T', b])
        else:
            out += tree_tokens(b)
    out.append(['E', name])
    return out


def coq_stree(st):
    name, attrs, sc, blocks = st
    return '(SNode %s %s %s %s)' % (cs(name), clist('(%s, %s)' % (cs(n), copt(v)) for n, v in attrs), 'true' if sc else 'false',
                                    clist(('(SText %s)' % cs(b)) if isinstance(b, str) else '(SElem %s)' % coq_stree(b) for b in blocks))


def norm_shape(e, binary):
    """(name, attrs, sc, merged text / children) with '' == value-less for boolean attributes"""
    from AdvancedHTMLParser.Tags import AdvancedTag
    attrs = []
    for k, v in e.attributes.items():
        if k in ('class', 'style'):
            v = str(v)
        if k in binary and v == '':
            v = None
        attrs.append([k, v])
    blocks = []
    for b in e.blocks:
        if isinstance(b, AdvancedTag):
            blocks.append(norm_shape(b, binary))
        elif b != '':
            if blocks and isinstance(blocks[-1], str):
                blocks[-1] += b
            else:
                blocks.append(b)
    return [e.tagName, attrs, bool(e.isSelfClosing), blocks]


class C01(core.Check):
    ID = 'C01'
    RUN_MODULE = 'Corr.Run_C01'
    RUN_FN = 'run_C01'
    CASE_TYPE = 'c01case'
    SHARD = 120
    RULE = ('random trees over ordinary, void, preformatted and raw-text names with 0-4 attributes (plain, boolean, value-less, class, style, data-*; '
            'values with spaces, both quotes, angle brackets, non-ASCII) and text blocks with whitespace, references and comments, depth <= 5; built '
            'through the DOM API (outerHTML) or by a previous parse (getHTML; single/multi-root, with/without doctype); bounded family: all trees of '
            '<= 3 nodes over {div, br, pre} x {no attribute, id="a", checked, open (value-less)} x text {none, x, " ", &amp;, <!--c-->}. '
            'Each case: serialise, parse the string (handler calls recorded), serialise again; the model reproduces the first string from the tree, the '
            're-parsed tree from the recorded calls and the second string; the recorded calls are compared with the model\'s chunking of its own '
            'token list (lexer-contract instance). non-trivial = >= 2 nodes or an attribute')
    TRUSTED = ['stdlib html.parser tokenizer: in the loop; assumed to satisfy the lexer contract LexSpec (instance-checked on every case: '
               'its handler calls on the rendered string equal the model\'s chunk of the token list)', 'html.unescape (values with & are outside the domain)']
    ASSUMPTIONS = ['domain of the property: no element children in script/style, no "<" followed by a name character in text, no "&" starting a '
                   'reference in attribute values, whitespace after a doctype in multi-root documents ignored']
    PARTIAL = ['Stage A of DESIGN 3.3: the string-level round trip is proved at token level (serialisation = rendering of the token list; the token '
               'list rebuilds the tree) and the lexer contract is an instance-checked premise, not a theorem about a Gallina lexer']

    def _small_family(self):
        names = ['div', 'br', 'pre']
        attrs = [[], [['id', 'a']], [['checked', '']], [['open', None]]]
        texts = [None, 'x', ' ', '&amp;', '<!--c-->']
        leaves = []
        for n in names:
            for a in attrs:
                if n == 'br':
                    leaves.append([n, a, True, []])
                else:
                    for t in texts:
                        leaves.append([n, a, False, [t] if t is not None else []])
        out = list(leaves)
        small_leaves = [l for l in leaves if l[1] in ([], [['open', None]])][:8]
        for n in ('div', 'pre'):
            for c1 in small_leaves:
                out.append([n, [], False, [c1]])
                out.append([n, [['id', 'a']], False, ['x', c1, ' ']])
                for c2 in small_leaves[:4]:
                    out.append([n, [], False, [c1, '&amp;', c2]])
        return out

    def generate(self):
        rng = self.rng
        cases = []
        fam = self._small_family()
        if self.tier == 'quick':
            fam = rng.sample(fam, min(len(fam), 160))
        for t in fam:
            cases.append(dict(kind='api', tree=t))
        nrand = 220 if self.tier == 'quick' else 5000
        for _ in range(nrand):
            t = gen_tree(rng, maxdepth=5)
            if rng.random() < 0.5:
                cases.append(dict(kind='api', tree=t))
            else:
                trees = [t] if rng.random() < 0.6 else [gen_tree(rng, maxdepth=2, budget=[4]) for _ in range(rng.randint(2, 3))]
                toks = []
                for i, x in enumerate(trees):
                    toks += tree_tokens(x)
                    if len(trees) > 1 and i < len(trees) - 1 and rng.random() < 0.5:
                        toks.append(['T', rng.choice(['t', ' mid ', '&amp;'])])
                # top-level text before the first / after the last root (makes the document multi-root), edge white space included
                if rng.random() < 0.3:
                    toks = [['T', rng.choice(['lead ', 'x', ' lead', '&nbsp;', '&amp; ', '<!--c-->', '&#65;'])]] + toks
                if rng.random() < 0.4:
                    toks.append(['T', rng.choice([' tail  ', ' ', '\n', 'end', ' end', '&nbsp;', ' &amp;', '<!-- c -->', '&#x41;'])])
                # adjacent generator text tokens would merge in the source: keep them separate
                clean = []
                for tk in toks:
                    if tk[0] == 'T' and clean and clean[-1][0] == 'T':
                        clean[-1] = ['T', clean[-1][1] + tk[1]]
                    else:
                        clean.append(tk)
                cases.append(dict(kind='parsed', toks=clean, doctype=rng.choice([None, None, '<!DOCTYPE html>\n', '<!DOCTYPE html>'])))
        self.stats.update(small_family=len(fam), random_trees=nrand)
        return cases

    # ------------------------------------------------------------------ implementation
    def _run(self, case):
        import AdvancedHTMLParser as A
        out = {}
        if case['kind'] == 'api':
            root = build_api(case['tree'], case.get('via_set', False))
            out['orig_root'] = root
            out['s1'] = root.outerHTML
            out['d0'] = None
        else:
            p1 = pc.rec_class('plain')()
            html0 = c02.render(case['toks'], case.get('doctype'))
            o, f, s = pc.parse_recorded(p1, html0)
            out['d0'] = (o, f, s, pc.doc_snapshot(p1) if o == 'ok' else None)
            out['p1'] = p1
            out['s1'] = p1.getHTML() if (o == 'ok' and p1.getRoot() is not None) else None
        if isinstance(out['s1'], str):
            p2 = pc.rec_class('plain')()
            o, f, s = pc.parse_recorded(p2, out['s1'])
            out['d1'] = (o, f, s, pc.doc_snapshot(p2) if o == 'ok' else None)
            out['p2'] = p2
        else:
            out['d1'] = None
        return out

    def run_impl(self, case):
        if case.get('via_set'):
            return None          # the known finding's input (attributes set one by one): implementation and oracle only
        r = self._run(case)
        self._last = (id(case), r)
        streams = []
        for d in (r['d0'], r['d1']):
            if d:
                streams += [d[1], d[2]]
        if not pc.names_ascii(*streams):
            return None
        parts = []
        if case['kind'] == 'api':
            parts.append('S' + (core.hx(r['s1']) if isinstance(r['s1'], str) else '!'))
        else:
            parts.append(r['d0'][3] if r['d0'][0] == 'ok' else r['d0'][0])
        if r['d1']:
            parts.append(r['d1'][3] if r['d1'][0] == 'ok' else r['d1'][0])
            parts.append('LEX-OK')
        return '\x1f'.join(parts)

    def coq_case(self, case):
        r = self._last[1] if getattr(self, '_last', (None,))[0] == id(case) else self._run(case)
        d1 = pc.coq_doc(r['d1'][1], r['d1'][2]) if r['d1'] else '([], None)'
        if case['kind'] == 'api':
            return '(CApi %s %s)' % (coq_stree(case['tree']), d1)
        return '(CParsed %s %s %s)' % (pc.coq_doc(r['d0'][1], r['d0'][2]), 'true' if r['d1'] else 'false', d1)

    # ------------------------------------------------------------------ oracle
    def oracle(self, case):
        import AdvancedHTMLParser as A
        from AdvancedHTMLParser.constants import TAG_ITEM_BINARY_ATTRIBUTES as BIN
        if case['kind'] == 'api':
            root = build_api(case['tree'], case.get('via_set', False))
            s1 = root.outerHTML
            orig = root
            multi = False
        else:
            # a parser object "reflects only its most recent input": every other document is parsed by a parser that has parsed another
            # document (with a doctype) before, and its serialisation is re-parsed by a used parser as well
            reuse = (len(case['toks']) % 2 == 1)
            p1 = A.AdvancedHTMLParser()
            if reuse:
                p1.parseStr('<!DOCTYPE html PUBLIC "earlier"><section id="earlier">earlier<br></section>')
            html0 = c02.render(case['toks'], case.get('doctype'))
            try:
                p1.parseStr(html0)
            except Exception as e:
                return 'parsing the source document %r raised %s' % (html0, type(e).__name__)
            if p1.getRoot() is None:
                return None
            # "obtained from a previous parse": the tree is the one the source's token sequence dictates (nothing dropped on the way in)
            bad = c02.C02._check_doc(None, p1, dict(toks=case['toks'], doctype=case.get('doctype')), html0, 'parse of the source document')
            if bad:
                return bad
            s1 = p1.getHTML()
            orig = p1.getRoot()
            multi = orig.tagName == 'xxxblank'
        if not isinstance(s1, str):
            return 'serialisation returned %r instead of a string' % (s1,)
        for e in pc.preorder(orig):
            if not isinstance(e.outerHTML, str):
                return 'outerHTML of <%s> is %r' % (e.tagName, e.outerHTML)
        if 'None' in s1 and 'None' not in json.dumps(case):
            return 'the serialisation %r contains the word None' % s1
        p2 = A.AdvancedHTMLParser()
        if case['kind'] != 'api' and reuse:
            p2.parseStr('<!DOCTYPE html PUBLIC "other"><p>other</p><p>roots</p>')
        try:
            p2.parseStr(s1)
        except Exception as e:
            return 'parsing the serialisation %r raised %s' % (s1, type(e).__name__)
        r2 = p2.getRoot()
        if r2 is None:
            return 'parsing the serialisation %r gave no tree' % s1
        if case['kind'] != 'api' and (p1.doctype or None) != (p2.doctype or None):
            return 'round trip of %r changed the doctype: %r -> %r' % (s1, p1.doctype, p2.doctype)
        a, b = norm_shape(orig, BIN), norm_shape(r2, BIN)
        if case.get('doctype') and (multi or r2.tagName == 'xxxblank'):
            # the white space that follows the doctype of a multi-root document is outside the domain: the leading white space of the
            # first top-level text block is not compared (everything else is)
            def drop_lead(sh):
                bl = list(sh[3])
                if bl and isinstance(bl[0], str):
                    bl[0] = bl[0].lstrip()
                    if not bl[0]:
                        bl = bl[1:]
                return [sh[0], sh[1], sh[2], bl]
            if drop_lead(a) != drop_lead(b):
                return 'round trip of %r changed the tree: %s -> %s' % (s1, json.dumps(a), json.dumps(b))
        elif a != b:
            return 'round trip of %r changed the tree: %s -> %s' % (s1, json.dumps(a), json.dumps(b))
        s2 = p2.getHTML()
        if s2 != s1:
            if case.get('doctype') and (multi or r2.tagName == 'xxxblank') and re.sub(r'\s+', '', s2) == re.sub(r'\s+', '', s1):
                return None
            return 'second serialisation %r differs from the first %r' % (s2, s1)
        return None

    def shrink_candidates(self, case):
        if case['kind'] == 'api':
            def subs(t):
                name, attrs, sc, blocks = t
                for i in range(len(blocks)):
                    yield [name, attrs, sc, blocks[:i] + blocks[i + 1:]]
                    if not isinstance(blocks[i], str):
                        yield blocks[i]
                        for s in subs(blocks[i]):
                            yield [name, attrs, sc, blocks[:i] + [s] + blocks[i + 1:]]
                for i in range(len(attrs)):
                    yield [name, attrs[:i] + attrs[i + 1:], sc, blocks]
            for s in subs(case['tree']):
                yield dict(case, tree=s)
        else:
            toks = case['toks']
            for i in range(len(toks) - 1, -1, -1):
                nt = toks[:i] + toks[i + 1:]
                if any(a[0] == 'T' and b[0] == 'T' for a, b in zip(nt, nt[1:])):
                    continue
                yield dict(case, toks=nt)
            if case.get('doctype'):
                yield dict(case, doctype=None)

    def nontrivial_key(self, case, snap):
        if case['kind'] == 'api':
            t = case['tree']
            if t[1] or any(not isinstance(b, str) for b in t[3]):
                return json.dumps(case, sort_keys=True)
            return None
        return json.dumps(case, sort_keys=True) if sum(1 for t in case['toks'] if t[0] == 'S') >= 2 else None

    def finding_key(self, case, what):
        if case.get('via_set') and what.startswith('round trip of'):
            return 'class-style-position-after-setAttribute'
        return re.sub(r"'[^']*'|\"[^\"]*\"|\[.*$", '', what)[:60]


CHECK = C01
