(* C10 — the style attribute and the style object are one state seen three ways.
   The mapping is [sty s] (ordered property -> value); str(style) = as_str (sty s). *)
From AHP Require Import Model.Base Model.Str Model.Attr Proofs.StrProofs Proofs.AttrProofs Proofs.CodecProofs Corr.Run_Attr.

(* all write paths refine one put / one parse *)
Theorem C10_style_dot : forall n v s, sty (style_dot n v s) = style_put (camel2dash n) v (sty s).
Proof. exact style_dot_spec. Qed.
Theorem C10_setProperty : forall n v s,
  sty (style_setProperty n v s) = style_put n (match v with Some x => x | None => "" end) (sty s).
Proof. exact style_setProperty_spec. Qed.
Theorem C10_assign : forall v s, sty (assign_style v s) = styleToDict v.
Proof. exact assign_style_spec. Qed.
Theorem C10_copy : forall src s, sty (copy_style src s) = styleToDict (as_str (styleToDict src)).
Proof. exact copy_style_spec. Qed.
Theorem C10_setitem : forall v s, sty (fst (setitem "style" (Some v) s)) = styleToDict (as_str (styleToDict v)).
Proof. exact setitem_style_spec. Qed.
Theorem C10_delitem : forall s, sty (delitem "style" s) = [].
Proof. exact delitem_style_spec. Qed.
(* camelCase and dash names address the same property; what was written is read back *)
Theorem C10_camel_dash : forall n d, style_get n d = match od_get (camel2dash n) d with Some v => v | None => "" end.
Proof. exact style_get_spec. Qed.
Theorem C10_dash_is_fixpoint : forall n, forallb (fun c => negb (is_upper c)) (chars n) = true -> camel2dash n = n.
Proof. exact camel2dash_nocaps. Qed.
Theorem C10_write_read : forall n v s, v <> "" -> style_get n (sty (style_dot n v s)) = v.
Proof. exact style_write_read. Qed.
(* the style key is present after synchronisation iff a property remains *)
Theorem C10_presence : forall s, KeysOK s -> (od_has "style" (dict (sync s)) = true <-> sty s <> []).
Proof. exact sync_style_presence. Qed.
(* style equality ignores property order *)
Theorem C10_eq_perm : forall a b, NoDup (keys a) -> NoDup (keys b) ->
  (style_eqb a b = true <-> forall n, od_get n a = od_get n b).
Proof. exact style_eqb_spec. Qed.
Theorem C10_reachable : forall o attrs ops s r, seed o attrs = (s, r) ->
  Reach_inv (fold_left (fun s op => fst (step s op)) ops s).
Proof. exact reachable_inv. Qed.

Example C10_ex : let s := style_dot "paddingTop" "5px" (assign_style "Color: RED; a:b;a:c" st0) in
  sty s = [("color", "RED"); ("a", "c"); ("padding-top", "5px")]
  /\ start_attrs (sync s) = "style=""color: RED; a: c; padding-top: 5px"""
  /\ styleToDict (as_str (sty s)) = sty s.
Proof. vm_compute. auto. Qed.

(* the text form and the object are one state: reading back str(style) gives the same ordered mapping, for every well-formed
   mapping (names lower-case, stripped, without ':' or ';'; values non-empty, stripped, without ';'; no duplicate names) *)
Theorem C10_text_round_trip : forall d, GoodStyle d -> styleToDict (as_str d) = d.
Proof. exact styleToDict_as_str. Qed.
(* parsing produces such mappings from every declaration list without empty names or values ... *)
Theorem C10_parse_well_formed : forall s, Forall decl_ok (split ";" (strip s)) -> GoodStyle (styleToDict s).
Proof. exact styleToDict_good. Qed.
(* ... so the normalisation the library applies twice (StyleAttribute(text), then the copy through str) is idempotent ... *)
Theorem C10_normalisation_idempotent : forall s, Forall decl_ok (split ";" (strip s)) -> styleToDict (as_str (styleToDict s)) = styleToDict s.
Proof. exact style_normalise_idempotent. Qed.
(* ... and writes through the style object keep the mapping well formed *)
Theorem C10_put_well_formed : forall n v d, GoodStyle d -> good_name n -> good_value v -> GoodStyle (style_put n v d).
Proof. exact GoodStyle_put. Qed.
Example C10_ex_good : GoodStyle (styleToDict " Color : RED ;padding-top:5px; background: url(http://x/y)") /\ decl_ok " Color : RED ".
Proof.
  split.
  - apply styleToDict_good. vm_compute. repeat constructor; discriminate.
  - vm_compute. split; discriminate.
Qed.

