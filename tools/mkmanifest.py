#!/usr/bin/env python3
"""Regenerates MANIFEST.json from tools/manifest_data.py (keeps the file valid and in one place)."""
import json, sys, pathlib
sys.path.insert(0, str(pathlib.Path(__file__).parent))
from manifest_data import CHECKS, NOT_APPLICABLE, SOURCE_COMMITS
props = [json.loads(l)['id'] for l in open('/verif/properties.jsonl')]
checks = []
for pid in props:
    if pid not in CHECKS:
        continue
    c = CHECKS[pid]
    checks.append(dict(
        property_id=pid,
        quick_cmd='./vcheck %s --tier quick' % pid,
        thorough_cmd='./vcheck %s --tier thorough' % pid,
        evidence_file='/verif/evidence/%s.json' % pid,
        replay_cmd_template='./vcheck %s --replay {path}' % pid,
        engine='coq-model+correspondence',
        level_claimed=dict(category='proof', text=c['text'], design_ref=c.get('ref', 'DESIGN.md section 5-%s' % pid)),
        level_note=c['note'],
        technique=c.get('technique', 'machine-checked proof in Coq 8.16.1 about a Gallina model + in-kernel differential correspondence with /repo'),
    ))
na = [dict(property_id=p, reason=NOT_APPLICABLE[p]) for p in props if p not in CHECKS]
m = dict(
    version=1,
    setup_cmd='./setup.sh',
    hooks=dict(guard='AHP_VERIF', enable='no hooks in /repo: all instrumentation (token-recording subclasses, pdb stub, cache bounds) lives in the harness process',
               baseline_off_cmd='cd /repo && /venv/bin/python -m pytest -ra -q -p no:cacheprovider --timeout=900 --continue-on-collection-errors',
               source_commits=SOURCE_COMMITS, add_only=True),
    engines=[dict(name='coq-model+correspondence', path='/verif/coq + /verif/harness', serves_properties=[c['property_id'] for c in checks],
                  kind_free_text='Gallina model, theorems audited with Print Assumptions, model evaluated by vm_compute inside coqc on the cases the real library ran')],
    checks=checks,
    notes='See DESIGN.md. Properties not yet claimed are listed under not_applicable with the reason (work in progress, not a limit of the technique).',
    not_applicable=na,
)
open('/verif/MANIFEST.json', 'w').write(json.dumps(m, indent=1) + '\n')
print('checks:', [c['property_id'] for c in checks])
