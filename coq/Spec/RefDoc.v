(* RefDoc.v — the reference document of C05: a plain list-of-blocks tree without any redundant field
   (no children list, no cached text, no parent / owner links).  Operations are three-line list functions. *)
From AHP Require Import Model.Base Model.Str Model.Attr Model.Dom.

Inductive rtag := RTag (u : nat) (n : string) (sc : bool) (bs : list (block rtag)).
Definition ruid (t : rtag) : nat := let 'RTag u _ _ _ := t in u.
Definition rbs (t : rtag) : list (block rtag) := let 'RTag _ _ _ b := t in b.

(* forgetting the redundant fields *)
Fixpoint abs (t : tag) : rtag := match t with Tag h bs => RTag (uid h) (name h) (sc h) (map (bmap abs) bs) end.

Fixpoint r_update_at (u : nat) (f : rtag -> rtag) (t : rtag) {struct t} : rtag :=
  match t with RTag v n s bs => if Nat.eqb v u then f t else RTag v n s (map (bmap (r_update_at u f)) bs) end.
Fixpoint r_find (u : nat) (t : rtag) {struct t} : option rtag :=
  match t with RTag v n s bs => if Nat.eqb v u then Some t else
    (fix go (l : list (block rtag)) := match l with
       | [] => None | BTag c :: r => match r_find u c with Some x => Some x | None => go r end | _ :: r => go r end) bs end.

Definition rbeq (b : block rtag) (k : blk) : bool :=
  match b, k with BText s, KText s' => String.eqb s s' | BTag t, KTag u => Nat.eqb (ruid t) u | _, _ => false end.
Fixpoint r_index_of (k : blk) (l : list (block rtag)) : option nat :=
  match l with [] => None | b :: r => if rbeq b k then Some 0 else match r_index_of k r with Some i => Some (S i) | None => None end end.
Fixpoint r_remove_first (u : nat) (l : list (block rtag)) : list (block rtag) :=
  match l with
  | [] => []
  | BTag t :: r => if Nat.eqb (ruid t) u then r else BTag t :: r_remove_first u r
  | b :: r => b :: r_remove_first u r
  end.
Fixpoint r_find_child (c : nat) (l : list (block rtag)) : option rtag :=
  match l with [] => None | BTag x :: r => if Nat.eqb (ruid x) c then Some x else r_find_child c r | _ :: r => r_find_child c r end.
Fixpoint r_removeText_blocks (s : string) (l : list (block rtag)) : list (block rtag) * option string :=
  match l with
  | [] => ([], None)
  | BText b :: r => if containsb s b then (BText (replace_first s b) :: r, Some b)
                    else let '(r', o) := r_removeText_blocks s r in (BText b :: r', o)
  | x :: r => let '(r', o) := r_removeText_blocks s r in (x :: r', o)
  end.
Fixpoint r_removeTextAll_blocks (s : string) (l : list (block rtag)) : list (block rtag) * list string :=
  match l with
  | [] => ([], [])
  | BText b :: r => let '(r', o) := r_removeTextAll_blocks s r in
                    if containsb s b then (BText (replace_all s b) :: r', b :: o) else (BText b :: r', o)
  | x :: r => let '(r', o) := r_removeTextAll_blocks s r in (x :: r', o)
  end.

(* the documented effect of each call on the target element *)
Definition r_append (b : block rtag) (t : rtag) : rtag := let 'RTag u n _ bs := t in RTag u n false (bs ++ [b]).
Definition r_insert (i : nat) (b : block rtag) (t : rtag) : rtag := let 'RTag u n _ bs := t in RTag u n false (insert_at i b bs).
Definition r_removeChild (c : nat) (t : rtag) : rtag := let 'RTag u n s bs := t in RTag u n s (r_remove_first c bs).
Definition r_removeText (s : string) (t : rtag) : rtag := let 'RTag u n sc bs := t in RTag u n sc (fst (r_removeText_blocks s bs)).
Definition r_removeTextAll (s : string) (t : rtag) : rtag := let 'RTag u n sc bs := t in RTag u n sc (fst (r_removeTextAll_blocks s bs)).

(* reference worlds *)
Definition rworld := list rtag.
Fixpoint r_wfind (u : nat) (w : rworld) : option rtag :=
  match w with [] => None | t :: r => match r_find u t with Some x => Some x | None => r_wfind u r end end.
Definition r_wupdate (u : nat) (f : rtag -> rtag) (w : rworld) : rworld := map (r_update_at u f) w.
Fixpoint r_take_root (u : nat) (w : rworld) : option (rtag * rworld) :=
  match w with
  | [] => None
  | t :: r => if Nat.eqb (ruid t) u then Some (t, r)
              else match r_take_root u r with Some (x, r') => Some (x, t :: r') | None => None end
  end.
Definition r_take_detached (u : nat) (w : rworld) : option (rtag * rworld) :=
  match w with
  | [] => None
  | d :: r => match r_take_root u r with Some (x, r') => Some (x, d :: r') | None => None end
  end.

Definition r_appendText (w : rworld) (t : nat) (s : string) : rworld * ret := (r_wupdate t (r_append (BText s)) w, ROk).
Definition r_appendChild (w : rworld) (t c : nat) : rworld * ret :=
  match r_take_detached c w with
  | Some (ct, w') => (r_wupdate t (r_append (BTag ct)) w', ROk)
  | None => (w, ROutOfDomain)
  end.
Definition r_appendBlock (w : rworld) (t : nat) (b : blk) : rworld * ret :=
  match b with KText s => r_appendText w t s | KTag c => r_appendChild w t c end.
Fixpoint r_appendBlocks (w : rworld) (t : nat) (bs : list blk) : rworld * ret :=
  match bs with
  | [] => (w, ROk)
  | b :: r => match r_appendBlock w t b with (w', ROk) => r_appendBlocks w' t r | e => e end
  end.
(* insert immediately before / after the reference block; append when it is None; ValueError when it is not a child *)
Definition r_insert_rel (after : bool) (w : rworld) (t : nat) (child : blk) (ref : option blk) : rworld * ret :=
  match ref with
  | None => r_appendBlock w t child
  | Some r =>
    match r_wfind t w with
    | None => (w, ROutOfDomain)
    | Some (RTag _ _ _ bs) =>
      match r_index_of r bs with
      | None => (w, RValueError)
      | Some bi0 =>
        let bi := if after then S bi0 else bi0 in
        match child with
        | KText s => (r_wupdate t (r_insert bi (BText s)) w, ROk)
        | KTag c => match r_take_detached c w with
                    | None => (w, ROutOfDomain)
                    | Some (ct, w') => (r_wupdate t (r_insert bi (BTag ct)) w', ROk)
                    end
        end
      end
    end
  end.
(* take out exactly the named child (None when it is not a child) *)
Definition r_removeChildW (w : rworld) (t c : nat) : rworld * ret :=
  match r_wfind t w with
  | None => (w, ROutOfDomain)
  | Some (RTag _ _ _ bs) =>
      match r_find_child c bs with
      | None => (w, RNone)
      | Some ct => (r_wupdate t (r_removeChild c) w ++ [ct], ROk)
      end
  end.
Fixpoint r_removeChildren (w : rworld) (t : nat) (cs : list nat) (acc : list string) : rworld * ret :=
  match cs with
  | [] => (w, RList acc)
  | c :: r => let '(w', x) := r_removeChildW w t c in
              match x with ROutOfDomain => (w', x) | _ => r_removeChildren w' t r (acc ++ [ret_s x]) end
  end.
Definition r_removeTextW (w : rworld) (t : nat) (s : string) : rworld * ret :=
  match r_wfind t w with
  | Some (RTag _ _ _ bs) => (r_wupdate t (r_removeText s) w,
                             match snd (r_removeText_blocks s bs) with Some b => RStr b | None => RNone end)
  | None => (w, ROutOfDomain)
  end.
Definition r_removeTextAllW (w : rworld) (t : nat) (s : string) : rworld * ret :=
  match r_wfind t w with
  | Some (RTag _ _ _ bs) => (r_wupdate t (r_removeTextAll s) w, RList (map hex (snd (r_removeTextAll_blocks s bs))))
  | None => (w, ROutOfDomain)
  end.
Definition r_removeBlock (w : rworld) (t : nat) (b : blk) : rworld * ret :=
  match b with KTag c => r_removeChildW w t c | KText s => r_removeTextW w t s end.
Fixpoint r_removeBlocks (w : rworld) (t : nat) (bs : list blk) (acc : list string) : rworld * ret :=
  match bs with
  | [] => (w, RList acc)
  | b :: r => let '(w', x) := r_removeBlock w t b in
              match x with ROutOfDomain => (w', x) | _ => r_removeBlocks w' t r (acc ++ [ret_s x]) end
  end.

(* the reference has no parent links: the parent of c is the element that has c among its blocks *)
Fixpoint r_parent_in (c : nat) (t : rtag) {struct t} : option nat :=
  match t with RTag v _ _ bs =>
    match r_find_child c bs with
    | Some _ => Some v
    | None => (fix go (l : list (block rtag)) := match l with
                 | [] => None | BTag x :: r => match r_parent_in c x with Some p => Some p | None => go r end | _ :: r => go r end) bs
    end
  end.
Fixpoint r_parent_of (c : nat) (w : rworld) : option nat :=
  match w with [] => None | t :: r => match r_parent_in c t with Some p => Some p | None => r_parent_of c r end end.
Definition r_remove (w : rworld) (c : nat) : rworld * ret :=
  match r_wfind c w with
  | None => (w, ROutOfDomain)
  | Some _ => match r_parent_of c w with
              | Some p => let '(w', _) := r_removeChildW w p c in (w', RTrue)
              | None => (w, RFalse)
              end
  end.

Definition rstep (w : rworld) (o : op) : rworld * ret :=
  match o with
  | OAppendChild t c => r_appendChild w t c
  | OAppendChildNone t => (w, RKeyError)
  | OAppendText t s => r_appendText w t s
  | OAppendBlock t b => r_appendBlock w t b
  | OAppendBlocks t bs => r_appendBlocks w t bs
  | OInsertBefore t c r => r_insert_rel false w t c r
  | OInsertAfter t c r => r_insert_rel true w t c r
  | ORemoveChild t c => r_removeChildW w t c
  | ORemoveChildren t cs => r_removeChildren w t cs []
  | ORemoveBlock t b => r_removeBlock w t b
  | ORemoveBlocks t bs => r_removeBlocks w t bs []
  | ORemoveText t s => r_removeTextW w t s
  | ORemoveTextAll t s => r_removeTextAllW w t s
  | ORemove c => r_remove w c
  end.
