(* Lemmas about Model/Str.v: ordered dictionaries, membership, case mapping. *)
From AHP Require Import Model.Base Model.Str.

Lemma String_eqb_refl' s : String.eqb s s = true. Proof. apply String.eqb_refl. Qed.

Section OD.
Context {V : Type}.
Implicit Types d : list (string * V).

Definition keys d := map fst d.

Lemma od_get_set_same k v d : od_get k (od_set k v d) = Some v.
Proof. induction d as [|[k' v'] d IH]; simpl; [now rewrite String.eqb_refl|].
  destruct (String.eqb k k') eqn:E; simpl; [now rewrite String.eqb_refl | now rewrite E]. Qed.
Lemma od_get_set_other k k0 v d : String.eqb k0 k = false -> od_get k0 (od_set k v d) = od_get k0 d.
Proof. intros H. induction d as [|[k' v'] d IH]; simpl; [now rewrite H|].
  destruct (String.eqb k k') eqn:E; simpl.
  - apply String.eqb_eq in E; subst. now rewrite H.
  - now rewrite IH. Qed.
Lemma od_get_del_same k d : NoDup (keys d) -> od_get k (od_del k d) = None.
Proof. induction d as [|[k' v'] d IH]; simpl; intros Hd; auto. inversion Hd as [|? ? Hn Hd']; subst.
  destruct (String.eqb k k') eqn:E; simpl.
  - apply String.eqb_eq in E; subst. clear - Hn. induction d as [|[a b] d IH]; simpl in *; auto.
    destruct (String.eqb k' a) eqn:E; [apply String.eqb_eq in E; subst; tauto | apply IH; tauto].
  - rewrite E. auto. Qed.
Lemma od_get_del_other k k0 d : String.eqb k0 k = false -> od_get k0 (od_del k d) = od_get k0 d.
Proof. intros H. induction d as [|[k' v'] d IH]; simpl; auto.
  destruct (String.eqb k k') eqn:E; simpl.
  - apply String.eqb_eq in E; subst. now rewrite H.
  - now rewrite IH. Qed.

Lemma keys_od_set_In k v d x : In x (keys (od_set k v d)) <-> x = k \/ In x (keys d).
Proof. induction d as [|[k' v'] d IH]; simpl; [intuition|].
  destruct (String.eqb k k') eqn:E; simpl.
  - apply String.eqb_eq in E; subst. intuition.
  - rewrite IH. intuition. Qed.
Lemma keys_od_set_NoDup k v d : NoDup (keys d) -> NoDup (keys (od_set k v d)).
Proof. induction d as [|[k' v'] d IH]; simpl; intros Hd; [constructor; [simpl; tauto|constructor]|].
  inversion Hd; subst. destruct (String.eqb k k') eqn:E; simpl.
  - apply String.eqb_eq in E; subst. constructor; auto.
  - apply String.eqb_neq in E. constructor; auto. rewrite keys_od_set_In. intros [->|Hi]; auto. Qed.
Lemma keys_od_del_In k d x : In x (keys (od_del k d)) -> In x (keys d).
Proof. induction d as [|[k' v'] d IH]; simpl; auto. destruct (String.eqb k k'); simpl; intuition. Qed.
Lemma keys_od_del_NoDup k d : NoDup (keys d) -> NoDup (keys (od_del k d)).
Proof. induction d as [|[k' v'] d IH]; simpl; intros Hd; auto. inversion Hd; subst.
  destruct (String.eqb k k'); auto. simpl. constructor; auto. intro Hi. apply keys_od_del_In in Hi. auto. Qed.
Lemma od_has_In k d : od_has k d = true <-> In k (keys d).
Proof. unfold od_has. induction d as [|[k' v'] d IH]; simpl; [split; [discriminate|tauto]|].
  destruct (String.eqb k k') eqn:E.
  - apply String.eqb_eq in E; subst. split; auto.
  - apply String.eqb_neq in E. rewrite IH. split; [auto | intros [H|H]; [congruence|auto]]. Qed.

(* a key predicate commutes with update / delete *)
Variable p : string -> bool.
Definition kfilter d := filter (fun kv => p (fst kv)) d.
Lemma kfilter_od_set_in k v d : p k = true -> kfilter (od_set k v d) = od_set k v (kfilter d).
Proof. intros Hp. induction d as [|[k' v'] d IH]; simpl; [now rewrite Hp|].
  destruct (String.eqb k k') eqn:E; simpl.
  - apply String.eqb_eq in E; subst. rewrite Hp. simpl. now rewrite String.eqb_refl.
  - destruct (p k') eqn:Ep; simpl; [now rewrite E, IH | exact IH]. Qed.
Lemma kfilter_od_set_out k v d : p k = false -> kfilter (od_set k v d) = kfilter d.
Proof. intros Hp. induction d as [|[k' v'] d IH]; simpl; [now rewrite Hp|].
  destruct (String.eqb k k') eqn:E; simpl.
  - apply String.eqb_eq in E; subst. now rewrite Hp.
  - now rewrite IH. Qed.
Lemma kfilter_od_del_in k d : p k = true -> kfilter (od_del k d) = od_del k (kfilter d).
Proof. intros Hp. induction d as [|[k' v'] d IH]; simpl; auto.
  destruct (String.eqb k k') eqn:E; simpl.
  - apply String.eqb_eq in E; subst. rewrite Hp. simpl. now rewrite String.eqb_refl.
  - destruct (p k') eqn:Ep; simpl; [now rewrite E, IH | exact IH]. Qed.
Lemma kfilter_od_del_out k d : p k = false -> kfilter (od_del k d) = kfilter d.
Proof. intros Hp. induction d as [|[k' v'] d IH]; simpl; auto.
  destruct (String.eqb k k') eqn:E; simpl.
  - apply String.eqb_eq in E; subst. now rewrite Hp.
  - now rewrite IH. Qed.
Lemma od_get_kfilter k d : p k = true -> od_get k (kfilter d) = od_get k d.
Proof. intros Hp. induction d as [|[k' v'] d IH]; simpl; auto.
  destruct (p k') eqn:Ep; simpl.
  - destruct (String.eqb k k'); auto.
  - destruct (String.eqb k k') eqn:E; auto. apply String.eqb_eq in E; subst. congruence. Qed.
End OD.

(* rebuilding a dictionary from its own item list gives it back *)
Lemma od_rebuild {V} (d : list (string * V)) : NoDup (keys d) ->
  forall acc, (forall k, In k (keys d) -> ~ In k (keys acc)) ->
  fold_left (fun a kv => od_set (fst kv) (snd kv) a) d acc = acc ++ d.
Proof.
  induction d as [|[k v] d IH]; simpl; intros Hd acc Hdis; [now rewrite app_nil_r|].
  inversion Hd as [|? ? Hn Hd']; subst.
  assert (E : od_set k v acc = acc ++ [(k, v)]).
  { specialize (Hdis k (or_introl eq_refl)). clear - Hdis. induction acc as [|[a b] acc IH]; simpl in *; auto.
    destruct (String.eqb k a) eqn:E; [apply String.eqb_eq in E; subst; tauto | f_equal; apply IH; tauto]. }
  rewrite E, IH; auto.
  - now rewrite <- app_assoc.
  - intros x Hx Hi. unfold keys in Hi. rewrite map_app, in_app_iff in Hi. simpl in Hi.
    destruct Hi as [Hi|[<-|[]]]; [apply (Hdis x); auto | auto].
Qed.

(* lower-casing *)
Lemma lower_c_idem c : lower_c (lower_c c) = lower_c c.
Proof.
  unfold lower_c. destruct (is_upper c) eqn:E; [|now rewrite E].
  assert (is_upper (ascii_of_nat (code c + 32)) = false) as ->; auto.
  unfold is_upper, code in *. rewrite nat_ascii_embedding.
  - apply andb_true_iff in E as [E1 E2]. apply Nat.leb_le in E1, E2. apply andb_false_iff. right. apply Nat.leb_gt. lia.
  - apply andb_true_iff in E as [E1 E2]. apply Nat.leb_le in E2. lia.
Qed.
Lemma lower_idem s : lower (lower s) = lower s.
Proof. induction s as [|c s IH]; simpl; auto. now rewrite lower_c_idem, IH. Qed.

Lemma smem_In x l : smem x l = true <-> In x l.
Proof. induction l as [|y l IH]; simpl; [split; [discriminate|tauto]|].
  rewrite orb_true_iff, String.eqb_eq, IH. intuition. Qed.
Lemma smem_nIn x l : smem x l = false <-> ~ In x l.
Proof. rewrite <- smem_In. destruct (smem x l); intuition congruence. Qed.
Lemma sremove_first_absent x l : smem x l = false -> sremove_first x l = l.
Proof. induction l as [|y l IH]; simpl; auto. intros H. apply orb_false_iff in H as [H1 H2]. rewrite H1. f_equal. auto. Qed.
Lemma sremove_first_incl x l y : In y (sremove_first x l) -> In y l.
Proof. induction l as [|z l IH]; simpl; auto. destruct (String.eqb x z); simpl; intuition. Qed.
Lemma sremove_first_Forall (P : string -> Prop) x l : Forall P l -> Forall P (sremove_first x l).
Proof. intros H. apply Forall_forall. intros y Hy. apply sremove_first_incl in Hy. rewrite Forall_forall in H. auto. Qed.
Lemma sremove_first_NoDup x l : NoDup l -> NoDup (sremove_first x l).
Proof. induction l as [|z l IH]; simpl; intros Hd; auto. inversion Hd; subst.
  destruct (String.eqb x z); auto. constructor; auto. intro Hi. apply sremove_first_incl in Hi. auto. Qed.
