(* Parser.v — Parser.py handle_starttag / handle_startendtag / handle_endtag / handle_data / handle_entityref /
   handle_charref / handle_comment / handle_decl / unknown_decl, _reset, feed (multi-root fallback), parseStr;
   Validator.py handle_starttag / handle_endtag.  The input is the token stream the stdlib tokenizer delivered to the
   handlers (recorded by the harness; DESIGN 3.3-1).  The open-element stack _inTag is a zipper whose frames carry
   full element headers. *)
From AHP Require Import Model.Base Model.Str Model.Attr Model.Dom Gen.Tables.

Inductive token :=
| TStart (n : string) (a : list (string * option string)) (selfc : bool)
| TEnd (n : string) | TData (s : string) | TEntity (s : string) | TChar (s : string) | TComment (s : string)
| TDecl (s : string) | TUnknownDecl (s : string) | TPi (s : string).

Inductive pclass := PPlain | PIndexed | PValidating.
Inductive pexc := XMultipleRoot | XInvalidClose | XMissedClose | XInvalidAttrName | XAttributeError.
Inductive pres (A : Type) := POk (a : A) | PRaise (e : pexc).
Arguments POk {A}. Arguments PRaise {A}.

Record pstate := { pstk : list frame;          (* _inTag, innermost first *)
                   pdone : option tag;         (* the root once it has been closed *)
                   has_root : bool;            (* self.root is not None *)
                   pdoctype : option string;
                   pnext : nat }.
Definition pinit : pstate := {| pstk := []; pdone := None; has_root := false; pdoctype := None; pnext := 0 |}.
Definition the_doc : option nat := Some 0.

Definition with_stk (s : pstate) (l : list frame) : pstate :=
  {| pstk := l; pdone := pdone s; has_root := has_root s; pdoctype := pdoctype s; pnext := pnext s |}.

(* inTag[-1].appendText(x) *)
Definition top_append_text (x : string) (s : pstate) : pstate := with_stk s (push_block (BText x) (pstk s)).
(* inTag.pop(): the element stays linked under its parent; in the zipper it is plugged into the frame below *)
Definition pop_frame (s : pstate) : pstate :=
  match pstk s with
  | f :: g :: r => with_stk s (push_block (BTag (Tag (fh f) (fbs f))) (g :: r))
  | [f] => {| pstk := []; pdone := Some (Tag (fh f) (fbs f)); has_root := has_root s; pdoctype := pdoctype s; pnext := pnext s |}
  | [] => s
  end.
Fixpoint pop_until (fuel : nat) (n : string) (s : pstate) : pstate :=
  match fuel with 0 => s | S k =>
    match pstk s with
    | [] => s
    | f :: _ => if String.eqb (name (fh f)) n then pop_frame s else pop_until k n (pop_frame s)
    end end.

Definition comment_text (c : string) : string := "<!--" +++ c +++ "-->".

(* AdvancedTag(tagName, attributeList, isSelfClosing, ownerDocument=self) *)
Definition make_tag (u : nat) (n : string) (a : list (string * option string)) (leaf : bool) (p : option nat) : pres tag :=
  match intake a st0 with
  | (st, Attr.ROk) => POk (Tag (mk_hdr u n st leaf p the_doc) [BText ""])
  | _ => PRaise XAttributeError
  end.

Definition handle_start (cls : pclass) (s : pstate) (n0 : string) (a : list (string * option string)) (selfc : bool) : pres pstate :=
  if (match cls with PValidating => negb (forallb (fun kv => valid_attr_name (fst kv)) a) | _ => false end)
  then PRaise XInvalidAttrName else
  let n := lower n0 in
  let leaf := selfc || is_void n in
  match make_tag (pnext s) n a leaf (top_uid (pstk s)) with
  | PRaise e => PRaise e
  | POk (Tag h bs) =>
    if negb (has_root s) then
      (* root = newTag *)
      if leaf then POk {| pstk := []; pdone := Some (Tag h bs); has_root := true; pdoctype := pdoctype s; pnext := S (pnext s) |}
      else POk {| pstk := [{| fh := h; fbs := bs |}]; pdone := None; has_root := true; pdoctype := pdoctype s; pnext := S (pnext s) |}
    else match pstk s with
         | [] => PRaise XMultipleRoot
         | _ => if leaf
                then POk {| pstk := push_block (BTag (Tag h bs)) (pstk s); pdone := pdone s; has_root := true;
                            pdoctype := pdoctype s; pnext := S (pnext s) |}
                else POk {| pstk := {| fh := h; fbs := bs |} :: pstk s; pdone := pdone s; has_root := true;
                            pdoctype := pdoctype s; pnext := S (pnext s) |}
         end
  end.

(* AdvancedHTMLParser.handle_endtag: any open element of that name (searched from the bottom)? pop down to it *)
Definition handle_end_plain (s : pstate) (n : string) : pstate :=
  if has_name n (pstk s) then pop_until (length (pstk s)) n s else s.
(* ValidatingAdvancedHTMLParser.handle_endtag *)
Definition handle_end_validating (s : pstate) (n : string) : pres pstate :=
  match pstk s with
  | [] => PRaise XInvalidClose
  | f :: _ => if negb (has_name n (pstk s)) then PRaise XInvalidClose
              else if negb (String.eqb (name (fh f)) n) then PRaise XMissedClose
              else POk (pop_frame s)
  end.

Definition in_root_text (s : pstate) (x : string) : pres pstate :=
  match pstk s with [] => PRaise XMultipleRoot | _ => POk (top_append_text x s) end.

Definition pstep (cls : pclass) (s : pstate) (t : token) : pres pstate :=
  match t with
  | TStart n a selfc => handle_start cls s n a selfc
  | TEnd n => match cls with PValidating => handle_end_validating s n | _ => POk (handle_end_plain s n) end
  | TData d => if String.eqb d "" then POk s
               else match pstk s with
                    | [] => if String.eqb (strip d) "" then POk s else PRaise XMultipleRoot
                    | _ => POk (top_append_text d s)
                    end
  | TEntity e => in_root_text s ("&" +++ e +++ ";")
  | TChar c => in_root_text s ("&#" +++ c +++ ";")
  | TComment c => in_root_text s (comment_text c)
  | TDecl d => POk {| pstk := pstk s; pdone := pdone s; has_root := has_root s; pdoctype := Some d; pnext := pnext s |}
  | TUnknownDecl d => match pdoctype s with
                      | Some x => if nonempty x then POk s
                                  else POk {| pstk := pstk s; pdone := pdone s; has_root := has_root s; pdoctype := Some d; pnext := pnext s |}
                      | None => POk {| pstk := pstk s; pdone := pdone s; has_root := has_root s; pdoctype := Some d; pnext := pnext s |}
                      end
  | TPi _ => POk s
  end.

Fixpoint prun (cls : pclass) (s : pstate) (ts : list token) : pres pstate :=
  match ts with
  | [] => POk s
  | t :: r => match pstep cls s t with POk s' => prun cls s' r | PRaise e => PRaise e end
  end.

(* the tree that exists when the tokens are used up: every element still open stays linked under its parent *)
Fixpoint plug_all (fuel : nat) (s : pstate) : pstate :=
  match fuel with 0 => s | S k => match pstk s with [] => s | _ => plug_all k (pop_frame s) end end.
Definition tree_of (s : pstate) : option tag := pdone (plug_all (length (pstk s)) s).

(* the token-level image of addStartTag(contents, '<xxxblank>') + '</xxxblank>': the wrapper start goes right after a
   leading doctype declaration (optionally preceded by newlines then blanks), the wrapper end goes last *)
Definition is_doctype_decl (d : string) : bool := prefix_b "doctype" (lower d).
Definition nl_then_blanks (s : string) : bool :=
  forallb (fun c => Ascii.eqb c " " || Ascii.eqb c (ascii_of_nat 9))
          (chars (lstrip_by (fun c => Ascii.eqb c (ascii_of_nat 10)) s)).
Definition wrap (ts : list token) : list token :=
  let w := TStart invisible_root_tag [] false in
  let e := [TEnd invisible_root_tag] in
  match ts with
  | TDecl d :: r => if is_doctype_decl d then TDecl d :: w :: r ++ e else w :: ts ++ e
  | TData ws :: TDecl d :: r => if is_doctype_decl d && nl_then_blanks ws then TData ws :: TDecl d :: w :: r ++ e else w :: ts ++ e
  | _ => w :: ts ++ e
  end.

(* feed: first pass; MultipleRootNodeException is caught once: reset, then the wrapped second pass *)
Definition feed (cls : pclass) (ts1 : list token) (ts2 : list token) : pres pstate :=
  match prun cls pinit ts1 with
  | POk s => POk s
  | PRaise XMultipleRoot => prun cls pinit ts2
  | PRaise e => PRaise e
  end.
Definition needs_second_pass (cls : pclass) (ts1 : list token) : bool :=
  match prun cls pinit ts1 with PRaise XMultipleRoot => true | _ => false end.

(* getRootNodes *)
Definition root_nodes (r : option tag) : list tag :=
  match r with
  | None => []
  | Some t => if String.eqb (name (hd_ t)) invisible_root_tag then tags_of (bs_ t) else [t]
  end.
