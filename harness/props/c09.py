"""C09 - the class attribute, className, classList and the rendered HTML never diverge."""
import itertools
import json
import re

from harness import core
from harness.core import clist
from harness.props import attrs_common as ac
from harness.props.c08 import snapshot

OPERANDS = ['a', 'b', 'c', 'a b', ' a ', 'b  c', '', 'A', 'a-b']


def words(v):
    v = re.sub('[ ][ ]+', ' ', v.strip())
    return [x for x in v.split(' ') if x]


class C09(core.Check):
    ID = 'C09'
    RUN_MODULE = 'Corr.Run_Attr'
    RUN_FN = 'run_attr'
    CASE_TYPE = '((origin * list (string * option string)) * bool * list op)'
    SHARD = 250
    RULE = ('operation histories over the class list of one element: addClass, removeClass, className=, setAttribute/removeAttribute("class"), '
            'attributes["class"]=/del, interleaved synchronising reads, operands {a,b,c,"a b"," a ","b  c","",A,a-b}; elements direct, parsed '
            '(irregular whitespace, value-less class), cloned, unpickled; full snapshot of all views after each operation. quick: exhaustive '
            'length<=2, sampled 3, random <=30; thorough: exhaustive 3, sampled 4. non-trivial = the class list changes at least once')
    TRUSTED = ['str.strip/split on ASCII space as transcribed in Model/Str.v', 'html.parser for the re-parse view (oracle only)']
    ASSUMPTIONS = ['class names are ASCII without tabs/newlines (the operand set of the property)']
    PARTIAL = ['classList-returns-a-copy and re-parse of the start tag are checked by the oracle on every history, not in Gallina']

    def _alphabet(self):
        ops = []
        for v in OPERANDS:
            ops += [['addClass', v], ['removeClass', v], ['className', v], ['setAttribute', 'class', v], ['setitem', 'class', v]]
        ops += [['removeAttribute', 'class'], ['delitem', 'class']]
        return ops

    def generate(self):
        rng = self.rng
        alpha = self._alphabet()
        seeds = [('direct', []), ('parsed', [['class', '  x   y ']]), ('parsed', [['class', None]]), ('cloned', [['class', 'a b a']]),
                 ('unpickled', [['class', 'c'], ['id', 'i']]), ('direct', [['Class', 'b']])]
        cases = []
        for sd in seeds:
            cases.append(dict(origin=sd[0], attrs=sd[1], ops=[]))
        n_ex = 0
        maxk = 2 if self.tier == 'quick' else 3
        for k in range(1, maxk + 1):
            for combo in itertools.product(alpha, repeat=k):
                cases.append(dict(origin='direct', attrs=[], ops=[list(o) for o in combo]))
                n_ex += 1
        nsamp = 600 if self.tier == 'quick' else 40000
        for _ in range(nsamp):
            sd = rng.choice(seeds)
            k = 3 if self.tier == 'quick' else 4
            cases.append(dict(origin=sd[0], attrs=sd[1], ops=[list(rng.choice(alpha)) for _ in range(k)]))
        nrand = 300 if self.tier == 'quick' else 5000
        reads = [['read', 'items'], ['read', 'startTag'], ['read', 'has', 'class'], ['read', 'get', 'class'], ['setAttribute', 'id', 'v'],
                 ['removeAttribute', 'id']]
        for _ in range(nrand):
            sd = rng.choice(seeds)
            ops = [list(rng.choice(alpha if rng.random() < 0.8 else reads)) for _ in range(rng.randint(1, 30))]
            cases.append(dict(origin=sd[0], attrs=sd[1], ops=ops))
        self.stats.update(exhaustive_family=n_ex, sampled=nsamp, random_histories=nrand, alphabet=len(alpha))
        return ac.alternate_each(cases)

    def run_impl(self, case):
        return ac.run_case(case)

    def coq_case(self, case):
        return ac.coq_case(case)

    def oracle(self, case):
        t, keep = ac.new_element(case['origin'], case['attrs'])
        cl = []
        for n, v in case['attrs']:
            if n.lower() == 'class':
                cl = words(v) if v is not None else []
        bad = self._views(t, cl, 'initially')
        if bad:
            return bad
        for op in case['ops']:
            k = op[0]
            res = ac.apply_op(t, op)
            expect = 'ok'
            if k in ('className',) or (k in ('setAttribute', 'setitem') and op[1].lower() == 'class'):
                v = op[-1]
                cl = words(v)
            elif k in ('removeAttribute', 'delitem') and op[1].lower() == 'class':
                cl = []
            elif k == 'addClass':
                before = list(cl)
                for w in words(op[1]):
                    if w not in cl:
                        cl.append(w)
                for w in set(cl):
                    if cl.count(w) > max(1, before.count(w)):
                        return 'spec error'
            elif k == 'removeClass':
                ws = words(op[1])
                removed = None
                for w in ws:
                    if w in cl:
                        cl.remove(w)
                        removed = w
                expect = None   # return value: the name when a single present name was removed (documented), else None
                if len(ws) == 1:
                    expect = 'ok:' + (removed if removed else 'None')
            if expect is not None and res != expect:
                return '%s: outcome %s, expected %s' % (op, res, expect)
            if res.startswith('exc:'):
                return '%s raised %s' % (op, res)
            bad = self._views(t, cl, 'after %s' % (op,))
            if bad:
                return bad
        return None

    def _views(self, t, cl, when):
        if list(t.classList) != cl:
            return '%s: classList = %r, expected %r' % (when, list(t.classList), cl)
        if list(t.classNames) != cl:
            return '%s: classNames = %r, expected %r' % (when, list(t.classNames), cl)
        if '' in t.classList:
            return '%s: empty class name in classList' % when
        cn = ' '.join(cl)
        present = bool(cl)
        # presence before any synchronising read
        if t.hasAttribute('class') != present:
            return '%s: hasAttribute("class") is %s with class list %r' % (when, t.hasAttribute('class'), cl)
        if ('class' in t.attributes) != present:
            return '%s: "class" in attributes is %s with class list %r' % (when, 'class' in t.attributes, cl)
        if t.className != cn:
            return '%s: className = %r, expected %r' % (when, t.className, cn)
        ga = t.getAttribute('class')
        if (ga or '') != cn:
            return '%s: getAttribute("class") = %r, expected %r' % (when, ga, cn)
        if (t.attributes['class'] or '') != cn:
            return '%s: attributes["class"] = %r, expected %r' % (when, t.attributes['class'], cn)
        if ('class' in list(t.attributes.keys())) != present:
            return '%s: "class" in keys() is %s with class list %r' % (when, not present, cl)
        for n in set(cl + ['a', 'b', 'A', '', 'a b']):
            if t.hasClass(n) != (n in cl):
                return '%s: hasClass(%r) is %s with class list %r' % (when, n, t.hasClass(n), cl)
        st = t.getStartTag()
        if not isinstance(st, str):
            return '%s: getStartTag() returned %r' % (when, st)
        m = re.findall(r'class="([^"]*)"', st)
        if present:
            if m != [cn]:
                return '%s: start tag %r does not carry class=%r exactly once' % (when, st, cn)
        elif 'class' in st:
            return '%s: start tag %r shows a class attribute for an empty class list' % (when, st)
        r = ac.reparse_attrs(t)
        if list(r.classList) != cl:
            return '%s: re-parsed class list %r, expected %r' % (when, list(r.classList), cl)
        # classList is a copy
        got = t.classList
        got.append('zzz')
        if list(t.classList) != cl:
            return '%s: mutating the list returned by classList changed the element' % when
        return None

    def shrink_candidates(self, case):
        ops = case['ops']
        for i in range(len(ops) - 1, -1, -1):
            yield dict(case, ops=ops[:i] + ops[i + 1:])
        if case['origin'] != 'direct':
            yield dict(case, origin='direct')

    def nontrivial_key(self, case, snap):
        parts = snap.split('\x1f')
        states = set(p.rsplit('|L', 1)[-1] for p in parts)
        return json.dumps(case, sort_keys=True) if len(states) > 1 else None

    def finding_key(self, case, what):
        w = re.sub(r"^(initially|after \[[^\]]*\]): ", '', what)
        return re.sub(r"[\[\(\{'\"=].*$", '', w).strip()[:60]


CHECK = C09
