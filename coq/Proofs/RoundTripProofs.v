(* C01: serialisation is the rendering of the token list; the token list rebuilds the tree. *)
From AHP Require Import Model.Base Model.Str Model.Attr Model.Dom Model.Serial Model.Parser Model.RoundTrip Gen.Tables
     Proofs.DomProofs Proofs.ParserProofs.

(* ---------------- 1. outer_html t = render (toks_of t) ---------------- *)
Lemma concat_s_app' a b : concat_s (a ++ b) = concat_s a +++ concat_s b.
Proof. apply concat_s_app. Qed.
Lemma render_app a b : render (a ++ b) = render a +++ render b.
Proof. unfold render. now rewrite map_app, concat_s_app. Qed.

Theorem render_factor : forall t, outer_html t = render (toks_of t).
Proof.
  induction t as [h bs IH] using tag_ind'. simpl. destruct (sc h) eqn:Es.
  - unfold render. simpl. unfold end_tag. rewrite Es. now rewrite !append_nil_r.
  - change (PStart h :: ?x ++ [PEnd h]) with ([PStart h] ++ x ++ [PEnd h]).
    rewrite !render_app. unfold render at 1 3. simpl. rewrite !append_nil_r. f_equal. f_equal.
    induction bs as [|[s|c] bs IHb]; simpl in *; auto.
    + unfold render in *. simpl. rewrite IHb by exact IH. destruct (is_raw (name h)); reflexivity.
    + inversion IH as [|? ? Hc IH']; subst. rewrite render_app, <- Hc. f_equal. apply IHb. exact IH'.
Qed.

(* ---------------- 2. the token list rebuilds the tree (segment lemma) ---------------- *)
(* the handler calls a tree's own serialisation amounts to, text blocks taken whole (chunking is the lexer contract) *)
Fixpoint retoks (t : tag) : list token :=
  match t with
  | Tag h bs =>
      if sc h then [TStart (name h) (lexed_attrs (attrs h)) true]
      else TStart (name h) (lexed_attrs (attrs h)) false ::
           (fix go (l : list (block tag)) : list token :=
              match l with
              | [] => []
              | BText s :: r => (if String.eqb s "" then [] else [TData s]) ++ go r
              | BTag c :: r => retoks c ++ go r
              end) bs
           ++ [TEnd (name h)]
  end.

(* the tree the parser builds from them: renumbered in document order from u, parent p, owned by the parser, attributes
   re-read from the start tag, empty text blocks gone (a fresh element starts with one) *)
Definition reattrs (a : Attr.st) : Attr.st := fst (intake (lexed_attrs a) st0).
Fixpoint rebuild (t : tag) (u : nat) (p : option nat) {struct t} : tag * nat :=
  match t with
  | Tag h bs =>
      let h0 := mk_hdr u (name h) (reattrs (attrs h)) (sc h) p the_doc in
      if sc h then (Tag h0 [BText ""], S u)
      else
        (fix go (l : list (block tag)) (acc : frame) (nx : nat) {struct l} : tag * nat :=
           match l with
           | [] => (Tag (fh acc) (fbs acc), nx)
           | BText s :: r => if String.eqb s "" then go r acc nx
                             else go r (match push_block (BText s) [acc] with f :: _ => f | [] => acc end) nx
           | BTag c :: r => let '(c', nx') := rebuild c nx (Some u) in
                            go r (match push_block (BTag c') [acc] with f :: _ => f | [] => acc end) nx'
           end) bs {| fh := h0; fbs := [BText ""] |} (S u)
  end.

(* the domain: names are lower-case, void names are marked self-closing, no empty text is needed *)
Inductive InDom : tag -> Prop :=
| InDom_intro h bs : lower (name h) = name h -> (is_void (name h) = true -> sc h = true) ->
    (sc h = true -> bs = [BText ""] \/ bs = []) ->
    Forall InDom (tags_of bs) -> InDom (Tag h bs).

Lemma prun_app cls a b s : prun cls s (a ++ b) = match prun cls s a with POk s' => prun cls s' b | PRaise e => PRaise e end.
Proof. revert s. induction a as [|t a IH]; intros s; simpl; auto. destruct (pstep cls s t); auto. Qed.

Definition push_top (b : block tag) (s : pstate) : pstate := with_stk s (push_block b (pstk s)).
Definition set_next (s : pstate) (n : nat) : pstate :=
  {| pstk := pstk s; pdone := pdone s; has_root := has_root s; pdoctype := pdoctype s; pnext := n |}.

Lemma make_tag_eq u n a leaf p : make_tag u n a leaf p = POk (Tag (mk_hdr u n (fst (intake a st0)) leaf p the_doc) [BText ""]).
Proof. unfold make_tag. pose proof (intake_ok a st0) as H. destruct (intake a st0) as [st r]. simpl in *. now subst. Qed.

Lemma rebuild_eq h bs u p : rebuild (Tag h bs) u p =
  let h0 := mk_hdr u (name h) (reattrs (attrs h)) (sc h) p the_doc in
  if sc h then (Tag h0 [BText ""], S u)
  else (fix go (l : list (block tag)) (acc : frame) (nx : nat) {struct l} : tag * nat :=
           match l with
           | [] => (Tag (fh acc) (fbs acc), nx)
           | BText s :: r => if String.eqb s "" then go r acc nx
                             else go r (match push_block (BText s) [acc] with f :: _ => f | [] => acc end) nx
           | BTag c :: r => let '(c', nx') := rebuild c nx (Some u) in
                            go r (match push_block (BTag c') [acc] with f :: _ => f | [] => acc end) nx'
           end) bs {| fh := h0; fbs := [BText ""] |} (S u).
Proof. reflexivity. Qed.

(* a balanced segment appends one child to the innermost open element and restores the stack *)
Theorem segment : forall t, InDom t -> forall s f r, pstk s = f :: r -> has_root s = true ->
  prun PPlain s (retoks t) =
  POk (set_next (push_top (BTag (fst (rebuild t (pnext s) (Some (uid (fh f)))))) s) (snd (rebuild t (pnext s) (Some (uid (fh f)))))).
Proof.
  induction t as [h bs IH] using tag_ind'. intros Hd s f r Es Hr.
  inversion Hd as [h' bs' Hlow Hvoid Hsc Hall]; subst.
  cbn [retoks]. rewrite (rebuild_eq h bs). destruct (sc h) eqn:Esc.
  - (* self-closed / void: a leaf *)
    cbn [prun]. simpl pstep. unfold handle_start. rewrite Hlow. rewrite make_tag_eq. rewrite Hr. cbn [negb]. rewrite Es. simpl orb.
    unfold push_top, set_next, with_stk. cbn [pstk pdone has_root pdoctype pnext fst snd]. rewrite Es, Hr. reflexivity.
  - (* open, children, close *)
    assert (Hnv : is_void (name h) = false) by (destruct (is_void (name h)); auto; specialize (Hvoid eq_refl); congruence).
    set (h0 := mk_hdr (pnext s) (name h) (reattrs (attrs h)) false (Some (uid (fh f))) the_doc).
    set (s1 := {| pstk := {| fh := h0; fbs := [BText ""] |} :: f :: r; pdone := pdone s; has_root := true; pdoctype := pdoctype s; pnext := S (pnext s) |}).
    assert (Hstep : pstep PPlain s (TStart (name h) (lexed_attrs (attrs h)) false) = POk s1).
    { simpl. unfold handle_start. rewrite Hlow, make_tag_eq, Hr. cbn [negb]. rewrite Es, Hnv. reflexivity. }
    cbn [prun]. rewrite Hstep.
    (* the children: generalised over the frame accumulated so far *)
    assert (G : forall l acc nx, Forall InDom (tags_of l) ->
              Forall (fun t => InDom t -> forall s f r, pstk s = f :: r -> has_root s = true ->
                        prun PPlain s (retoks t) = POk (set_next (push_top (BTag (fst (rebuild t (pnext s) (Some (uid (fh f)))))) s)
                                                               (snd (rebuild t (pnext s) (Some (uid (fh f))))))) (tags_of l) ->
              uid (fh acc) = pnext s -> name (fh acc) = name h ->
              forall s2, pstk s2 = acc :: f :: r -> has_root s2 = true -> pnext s2 = nx -> pdone s2 = pdone s -> pdoctype s2 = pdoctype s ->
              prun PPlain s2 ((fix go (l : list (block tag)) : list token :=
                                 match l with [] => [] | BText s :: r => (if String.eqb s "" then [] else [TData s]) ++ go r
                                            | BTag c :: r => retoks c ++ go r end) l ++ [TEnd (name h)]) =
              let res := (fix go (l : list (block tag)) (acc : frame) (nx : nat) {struct l} : tag * nat :=
                 match l with
                 | [] => (Tag (fh acc) (fbs acc), nx)
                 | BText s :: r => if String.eqb s "" then go r acc nx
                                   else go r (match push_block (BText s) [acc] with f :: _ => f | [] => acc end) nx
                 | BTag c :: r => let '(c', nx') := rebuild c nx (Some (pnext s)) in
                                  go r (match push_block (BTag c') [acc] with f :: _ => f | [] => acc end) nx'
                 end) l acc nx in
              POk {| pstk := push_block (BTag (fst res)) (f :: r); pdone := pdone s; has_root := true; pdoctype := pdoctype s; pnext := snd res |}).
    { clear - Hr. induction l as [|[x|c] l IHl]; intros acc nx Hin HIH Hu Hn s2 E2 Hr2 Hnx Hd2 Hdt2.
      - simpl. unfold handle_end_plain. rewrite E2. simpl. rewrite Hn, String.eqb_refl. simpl. rewrite E2, Hn, String.eqb_refl.
        unfold pop_frame. rewrite E2. unfold with_stk. simpl. rewrite Hr2, Hd2, Hdt2, Hnx. reflexivity.
      - simpl in Hin, HIH. cbn [app]. destruct (String.eqb x "") eqn:Ex.
        + simpl app. apply IHl; auto.
        + simpl app. cbn [prun]. simpl pstep. rewrite Ex, E2. cbn [prun].
          apply IHl; auto.
          * unfold top_append_text, with_stk. simpl. rewrite E2. reflexivity.
      - simpl in Hin, HIH. inversion Hin as [|? ? Hc Hin']; subst. inversion HIH as [|? ? Hseg HIH']; subst.
        rewrite <- app_assoc. rewrite prun_app. rewrite (Hseg Hc s2 acc (f :: r) E2 Hr2). rewrite Hu.
        destruct (rebuild c (pnext s2) (Some (pnext s))) as [c' nx'] eqn:Erb. cbn [fst snd].
        apply IHl; auto.
        * unfold set_next, push_top, with_stk. simpl. rewrite E2. reflexivity. }
    specialize (G bs {| fh := h0; fbs := [BText ""] |} (S (pnext s)) Hall IH eq_refl eq_refl s1 eq_refl eq_refl eq_refl eq_refl eq_refl).
    cbv zeta in G. rewrite G. unfold set_next, push_top, with_stk. cbn [pstk pdone has_root pdoctype pnext]. rewrite Es, Hr. reflexivity.
Qed.

(* ---------------- 3. a whole document: the root element ---------------- *)
Definition push1 (b : block tag) (acc : frame) : frame := match push_block b [acc] with f :: _ => f | [] => acc end.
Fixpoint kids (l : list (block tag)) (acc : frame) (nx u : nat) : frame * nat :=
  match l with
  | [] => (acc, nx)
  | BText s :: r => if String.eqb s "" then kids r acc nx u else kids r (push1 (BText s) acc) nx u
  | BTag c :: r => let '(c', nx') := rebuild c nx (Some u) in kids r (push1 (BTag c') acc) nx' u
  end.
Lemma rebuild_kids h bs u p : sc h = false ->
  rebuild (Tag h bs) u p =
  let '(acc, nx) := kids bs {| fh := mk_hdr u (name h) (reattrs (attrs h)) false p the_doc; fbs := [BText ""] |} (S u) u in
  (Tag (fh acc) (fbs acc), nx).
Proof.
  intros Hs. rewrite rebuild_eq. cbv zeta. rewrite Hs.
  generalize {| fh := mk_hdr u (name h) (reattrs (attrs h)) false p the_doc; fbs := [BText ""] |}. generalize (S u).
  induction bs as [|[s|c] bs IH]; intros nx acc; simpl.
  - reflexivity.
  - destruct (String.eqb s ""); apply IH.
  - destruct (rebuild c nx (Some u)) as [c' nx']. apply IH.
Qed.

Lemma push_block_push1 b acc rest : push_block b (acc :: rest) = push1 b acc :: rest.
Proof. destruct b; reflexivity. Qed.
Lemma push1_name b acc : name (fh (push1 b acc)) = name (fh acc). Proof. destruct b; reflexivity. Qed.
Lemma push1_uid b acc : uid (fh (push1 b acc)) = uid (fh acc). Proof. destruct b; reflexivity. Qed.

(* the children of an open element whose frame is on top of any stack *)
Lemma kids_run : forall l acc nx rest s2 u nm,
  Forall InDom (tags_of l) -> uid (fh acc) = u -> name (fh acc) = nm ->
  pstk s2 = acc :: rest -> has_root s2 = true -> pnext s2 = nx ->
  prun PPlain s2 ((fix go (l : list (block tag)) : list token :=
                     match l with [] => [] | BText s :: r => (if String.eqb s "" then [] else [TData s]) ++ go r
                                | BTag c :: r => retoks c ++ go r end) l ++ [TEnd nm]) =
  let '(acc', nx') := kids l acc nx u in
  POk (pop_frame {| pstk := acc' :: rest; pdone := pdone s2; has_root := true; pdoctype := pdoctype s2; pnext := nx' |}).
Proof.
  induction l as [|[x|c] l IHl]; intros acc nx rest s2 u nm Hin Hu Hn E2 Hr2 Hnx.
  - simpl. unfold handle_end_plain. rewrite E2. simpl. rewrite Hn, String.eqb_refl. simpl. rewrite E2, Hn, String.eqb_refl.
    f_equal. unfold pop_frame. rewrite E2. cbn [pstk]. destruct rest; unfold with_stk; cbn [pstk pdone has_root pdoctype pnext]; rewrite Hr2, Hnx; reflexivity.
  - simpl in Hin. cbn [kids]. destruct (String.eqb x "") eqn:Ex.
    + simpl app. apply IHl; auto.
    + simpl app. cbn [prun]. simpl pstep. rewrite Ex, E2. cbn [prun].
      assert (E' : pstk (top_append_text x s2) = push1 (BText x) acc :: rest).
      { unfold top_append_text, with_stk. cbn [pstk]. rewrite E2. apply push_block_push1. }
      assert (Hu' : uid (fh (push1 (BText x) acc)) = u) by (now rewrite push1_uid).
      assert (Hn' : name (fh (push1 (BText x) acc)) = nm) by (now rewrite push1_name).
      exact (IHl (push1 (BText x) acc) nx rest (top_append_text x s2) u nm Hin Hu' Hn' E' Hr2 Hnx).
  - simpl in Hin. inversion Hin as [|? ? Hc Hin']; subst. cbn [kids].
    rewrite <- app_assoc. rewrite prun_app. rewrite (segment c Hc s2 acc rest E2 Hr2).
    destruct (rebuild c (pnext s2) (Some (uid (fh acc)))) as [c' nx'] eqn:Erb. cbn [fst snd].
    assert (E' : pstk (set_next (push_top (BTag c') s2) nx') = push1 (BTag c') acc :: rest).
    { unfold set_next, push_top, with_stk. cbn [pstk]. rewrite E2. apply push_block_push1. }
    assert (Hu' : uid (fh (push1 (BTag c') acc)) = uid (fh acc)) by (now rewrite push1_uid).
    assert (Hn' : name (fh (push1 (BTag c') acc)) = name (fh acc)) by (now rewrite push1_name).
    exact (IHl (push1 (BTag c') acc) nx' rest (set_next (push_top (BTag c') s2) nx') (uid (fh acc)) (name (fh acc)) Hin' Hu' Hn' E' Hr2 eq_refl).
Qed.

(* feeding a tree's own handler calls to a fresh parser rebuilds it as the root *)
Theorem root_roundtrip t : InDom t -> exists s, prun PPlain pinit (retoks t) = POk s /\ tree_of s = Some (fst (rebuild t 0 None)) /\ pstk s = [].
Proof.
  intros Hd. destruct t as [h bs]. inversion Hd as [h' bs' Hlow Hvoid Hsc Hall]; subst.
  cbn [retoks]. destruct (sc h) eqn:Esc.
  - rewrite rebuild_eq. cbv zeta. rewrite Esc. cbn [prun]. simpl pstep. unfold handle_start. rewrite Hlow, make_tag_eq. simpl.
    eexists. split; [reflexivity|]. split; reflexivity.
  - assert (Hnv : is_void (name h) = false) by (destruct (is_void (name h)); auto; specialize (Hvoid eq_refl); congruence).
    rewrite (rebuild_kids h bs 0 None Esc).
    set (acc0 := {| fh := mk_hdr 0 (name h) (reattrs (attrs h)) false None the_doc; fbs := [BText ""] |}).
    set (s1 := {| pstk := [acc0]; pdone := None; has_root := true; pdoctype := None; pnext := 1 |}).
    assert (Hstep : pstep PPlain pinit (TStart (name h) (lexed_attrs (attrs h)) false) = POk s1).
    { simpl. unfold handle_start. rewrite Hlow, make_tag_eq. simpl. rewrite Hnv. reflexivity. }
    cbn [prun]. rewrite Hstep.
    pose proof (kids_run bs acc0 1 [] s1 0 (name h) Hall eq_refl eq_refl eq_refl eq_refl eq_refl) as G.
    rewrite G. destruct (kids bs acc0 1 0) as [acc' nx']. eexists. split; [reflexivity|]. split; reflexivity.
Qed.
