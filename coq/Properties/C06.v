(* C06 — every search returns exactly the matching elements of its scope, once, in document order.
   descendants t is the pre-order listing of the strict descendants; the element-level and document-level searches are
   filters over it; the collection-level searches visit members and their descendants in order of discovery. *)
From AHP Require Import Model.Base Model.Str Model.Attr Model.Dom Model.Search Proofs.DomProofs Proofs.StrProofs Proofs.SearchProofs.

Theorem C06_element_exact : forall f t, below f t = filter f (descendants t).
Proof. exact below_spec. Qed.
Theorem C06_document_exact : forall f root, from_root_search f root true = filter f (root :: descendants root).
Proof. exact from_root_spec. Qed.
Theorem C06_document_multiroot_exact : forall f root, from_root_search f root false = filter f (descendants root).
Proof. exact from_wrapper_spec. Qed.
Theorem C06_first_element : forall f t, first_below f t = hd_error (filter f (descendants t)).
Proof. exact first_below_spec. Qed.
Theorem C06_first_document : forall f root, first_from_root f root true = hd_error (filter f (root :: descendants root)).
Proof. exact first_from_root_spec. Qed.
(* each element once when uids are unique (the C04 invariant) *)
Theorem C06_once : forall f t, NoDup (map tuid (descendants t)) -> NoDup (map tuid (below f t)).
Proof. exact below_once. Qed.
(* collections: order of discovery, walking the members in sequence; sound, duplicate free, complete *)
Theorem C06_collection_order : forall f ms, coll_search f ms = fold_left (add_if f) (flat_map (fun m => m :: descendants m) ms) [].
Proof. exact coll_search_spec. Qed.
Theorem C06_collection_exact : forall f ms,
  let scope := flat_map (fun m => m :: descendants m) ms in
  (forall x, In x (coll_search f ms) -> f x = true /\ In x scope)
  /\ NoDup (map tuid (coll_search f ms))
  /\ (forall x, In x scope -> f x = true -> present x (coll_search f ms) = true).
Proof. exact coll_search_correct. Qed.
(* a class query with several names matches the elements carrying all of them *)
Theorem C06_classes : forall names t, has_all_classes names t = true <-> forall n, In n names -> In n (class_list t).
Proof. exact all_classes_spec. Qed.
Theorem C06_class_names_nonempty : forall q n, In n (class_names q) -> n <> "".
Proof. exact class_names_nonempty. Qed.

Example C06_ex : class_names " z  x w " = ["z"; "x"; "w"].
Proof. reflexivity. Qed.
