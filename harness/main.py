import importlib
import sys
from harness import core


def main(argv):
    if not argv or argv[0] in ('-h', '--help'):
        print('usage: vcheck <Cnn>|setup|selftest [--tier quick|thorough] [--replay file]')
        return 2
    if argv[0] == 'setup':
        ok, log = core.build()
        print(log[-3000:])
        gate = core.source_gate()
        for g in gate:
            print('GATE:', g)
        return 0 if ok and not gate else 1
    prop = argv[0].upper()
    mod = importlib.import_module('harness.props.%s' % prop.lower())
    return core.main_check(mod.CHECK, argv[1:])


if __name__ == '__main__':
    sys.exit(main(sys.argv[1:]))
