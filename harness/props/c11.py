"""C11 - formatting preserves the document: structure, attributes, text, preformatted."""
import json
import re

from harness import core
from harness.core import cs, clist
from harness.props import parse_common as pc
from harness.props import c02
from harness.props import fmt_common as fc

WS = re.compile(r'\s+')


def parse(html):
    import AdvancedHTMLParser as A
    p = A.AdvancedHTMLParser()
    p.parseStr(html)
    return p


def struct(e):
    from AdvancedHTMLParser.Tags import AdvancedTag
    from AdvancedHTMLParser.constants import TAG_ITEM_BINARY_ATTRIBUTES as BIN
    attrs = []
    for k, v in e.attributes.items():
        v = str(v) if k in ('class', 'style') else v
        if k in BIN and v == '':
            v = None
        attrs.append([k, v])
    own = ''.join(b for b in e.blocks if not isinstance(b, AdvancedTag))
    return [e.tagName, attrs, WS.sub('', own) if e.tagName not in ('script', 'style') else None,
            [struct(b) for b in e.blocks if isinstance(b, AdvancedTag)]]


def preserved(e, out, inside=False):
    """-> list of (kind, path, content) for pre/code (outermost) and script/style"""
    from AdvancedHTMLParser.Tags import AdvancedTag
    res = []
    i = 0
    for b in e.blocks:
        if not isinstance(b, AdvancedTag):
            continue
        if b.tagName in ('pre', 'code'):
            res.append(('pre', b.innerHTML))
        elif b.tagName in ('script', 'style'):
            res.append(('raw', ''.join(x for x in b.blocks if isinstance(x, str))))
            res += preserved(b, out)
        else:
            res += preserved(b, out)
    return res


def check_preserves(inp_html, out_html, what):
    pi, po = parse(inp_html), parse(out_html)
    ri, ro = pi.getRoot(), po.getRoot()
    if ri is None:
        return None
    if ro is None:
        return '%s of %r lost the whole document (output %r)' % (what, inp_html, out_html)
    if (pi.doctype or None) != (po.doctype or None):
        return '%s of %r changed the doctype' % (what, inp_html)
    si, so = struct(ri), struct(ro)
    if ri.tagName == 'xxxblank' or ro.tagName == 'xxxblank':
        # a document with several top-level nodes: compare the top-level nodes
        if ri.tagName != ro.tagName:
            ni = [struct(x) for x in pi.getRootNodes()]
            no = [struct(x) for x in po.getRootNodes()]
            if ni != no:
                return '%s of %r changed elements/attributes/text: %s -> %s' % (what, inp_html, json.dumps(ni), json.dumps(no))
            # top-level text (text beside the root elements) with more than white space in it is not dropped either
            from AdvancedHTMLParser.Tags import AdvancedTag as _T

            def toptext(r):
                if r.tagName != 'xxxblank':
                    return ''
                return re.sub(r'\s+', '', ''.join(b for b in r.blocks if not isinstance(b, _T)))
            if toptext(ri) != toptext(ro):
                return '%s of %r changed the top-level text %r -> %r (output %r)' % (what, inp_html, toptext(ri), toptext(ro), out_html)
            return None
    if si != so:
        return '%s of %r changed elements/attributes/text (whitespace removed): %s -> %s (output %r)' % (what, inp_html, json.dumps(si), json.dumps(so), out_html)
    # comments and entity / character references survive verbatim, in order (both are kept as text blocks by the parser)
    def all_text(e):
        from AdvancedHTMLParser.Tags import AdvancedTag
        return ''.join(all_text(b) if isinstance(b, AdvancedTag) else b for b in e.blocks)
    ti, to = all_text(ri), all_text(ro)
    ci, co = re.findall(r'<!--.*?-->', ti, re.S), re.findall(r'<!--.*?-->', to, re.S)
    if ci != co:
        return '%s of %r changed the comments: %r -> %r' % (what, inp_html, ci, co)
    fi, fo = re.findall(r'&#?[A-Za-z0-9]+;', ti), re.findall(r'&#?[A-Za-z0-9]+;', to)
    if fi != fo:
        return '%s of %r changed the entity / character references: %r -> %r' % (what, inp_html, fi, fo)
    a, b = preserved(ri, False), preserved(ro, True)
    if len(a) != len(b):
        return '%s of %r changed the preserved elements' % (what, inp_html)
    for (k1, c1), (k2, c2) in zip(a, b):
        if k1 == 'pre':
            if c1 != c2:
                return '%s of %r changed preformatted content %r -> %r' % (what, inp_html, c1, c2)
        else:
            if c2 != c1 and not (c2.startswith(c1) and re.fullmatch(r'\n[ \t]*', c2[len(c1):])):
                return '%s of %r changed script/style content %r -> %r' % (what, inp_html, c1, c2)
    return None


class C11(core.Check):
    ID = 'C11'
    RUN_MODULE = 'Corr.Run_Fmt'
    RUN_FN = 'run_fmt'
    CASE_TYPE = fc.CASE_TYPE
    SHARD = 100
    RULE = ('documents of C01\'s generator plus deep nesting, long inline runs, nested preformatted elements with inline children and leading/trailing/'
            'internal whitespace, tabs, CR/LF, multi-root fragments; x 13 configurations (pretty with indent "", " ", "  ", tab, 4; mini; slim with and '
            'without slimSelfClosing; slim-mini; encoding utf-8/None); formatter output fed back into the formatter. The model is fed the handler calls '
            'recorded from the formatter and must reproduce the output string exactly; the oracle re-parses input and output and compares elements, '
            'nesting, attributes, doctype, whitespace-free text, preformatted bytes and script/style content. non-trivial = >= 2 elements')
    TRUSTED = ['stdlib html.parser tokenizer (in the loop through recorded handler calls of the formatter)']
    ASSUMPTIONS = ['documents are in C01\'s domain']
    PARTIAL = ['the statement "the output parses back to the same tree" is checked by the oracle through the real parser on every case; the '
               'theorems relate the formatter\'s own tree to the parser\'s tree on the same handler calls (simulation), not the re-parse of the output text']

    def generate(self):
        rng = self.rng
        cases = []
        n = 110 if self.tier == 'quick' else 2500
        for _ in range(n):
            toks = fc.gen_doc(rng, deep=self.tier == 'thorough')
            doctype = rng.choice([None, None, '<!DOCTYPE html>\n'])
            cfgs = rng.sample(fc.CONFIGS, 3 if self.tier == 'quick' else 5)
            for cfg in cfgs:
                cases.append(dict(toks=toks, doctype=doctype, cfg=cfg, again=rng.random() < 0.4))
        self.stats.update(documents=n, configurations=len(fc.CONFIGS))
        return cases

    def _run(self, case):
        html = c02.render(case['toks'], case.get('doctype'))
        res = [fc.format_recorded(case['cfg'], html)]
        if case.get('again') and isinstance(res[0][3], str):
            res.append(fc.format_recorded(case['cfg'], res[0][3]))
        return res

    def run_impl(self, case):
        res = self._run(case)
        self._last = (id(case), res)
        if not all(pc.names_ascii(f, s) for o, f, s, out in res):
            return None
        return '\x1f'.join(('O' + core.hx(out)) if (o == 'ok' and isinstance(out, str)) else (o if o != 'ok' else 'none') for o, f, s, out in res)

    def coq_case(self, case):
        res = self._last[1] if getattr(self, '_last', (None,))[0] == id(case) else self._run(case)
        return '(%s, %s)' % (fc.coq_cfg(case['cfg']), clist(pc.coq_doc(f, s) for o, f, s, out in res))

    def oracle(self, case):
        html = c02.render(case['toks'], case.get('doctype'))
        cfg = case['cfg']
        try:
            out = fc.run_format(cfg, html)
        except Exception as e:
            return 'formatter %s raised %s on %r' % (cfg, type(e).__name__, html)
        if out is None:
            return None
        if not isinstance(out, str):
            return 'formatter %s returned %r' % (cfg, type(out).__name__)
        bad = check_preserves(html, out, 'formatter %s' % json.dumps(cfg))
        if bad:
            return bad
        if case.get('again'):
            out2 = fc.run_format(cfg, out)
            if out2 is not None:
                bad = check_preserves(out, out2, 'formatter %s fed its own output' % json.dumps(cfg))
                if bad:
                    return bad
        if cfg['kind'] in ('pretty', 'mini') and 'encoding' not in cfg:
            p = parse(html)
            if p.getRoot() is not None:
                via = p.getMiniHTML() if cfg['kind'] == 'mini' else p.getFormattedHTML(cfg['indent'])
                direct = fc.run_format(cfg, p.getHTML())
                if via != direct:
                    return 'getFormattedHTML/getMiniHTML differs from the formatter class on %r' % html
        return None

    def shrink_candidates(self, case):
        toks = case['toks']
        for i in range(len(toks) - 1, -1, -1):
            nt = toks[:i] + toks[i + 1:]
            if not nt or any(a[0] == 'T' and b[0] == 'T' for a, b in zip(nt, nt[1:])):
                continue
            yield dict(case, toks=nt)
        for i, t in enumerate(toks):
            if t[0] == 'S' and t[2]:
                yield dict(case, toks=toks[:i] + [[t[0], t[1], [], t[3]]] + toks[i + 1:])
        if case.get('doctype'):
            yield dict(case, doctype=None)
        if case.get('again'):
            yield dict(case, again=False)

    def nontrivial_key(self, case, snap):
        return json.dumps(case, sort_keys=True) if sum(1 for t in case['toks'] if t[0] == 'S') >= 2 else None

    def finding_key(self, case, what):
        w = re.sub(r'^formatter \{[^}]*\}( fed its own output)? of ', '', what)
        w = re.sub(r"^(?:'[^']*'|\"[^\"]*\") ", '', w)
        return re.sub(r"[:%].*$|'.*$|\".*$", '', w)[:50]


CHECK = C11
