(* IndexedParser.v — IndexedAdvancedHTMLParser.handle_starttag (Parser.py 1192-1199): every element is handed to _indexTag when
   its start tag is handled; _reset (Parser.py 1436-1444) empties the maps before each pass of feed. *)
From AHP Require Import Model.Base Model.Str Model.Attr Model.Dom Model.Search Model.Index Model.Parser Gen.Tables.

(* ---- the indexed parser: every successfully created element is indexed when its start tag is handled ---- *)
Definition created (cls : pclass) (s : pstate) (t : token) : option tag :=
  match t with
  | TStart n0 a selfc =>
      let n := lower n0 in
      match make_tag (pnext s) n a (selfc || is_void n) (top_uid (pstk s)) with POk x => Some x | PRaise _ => None end
  | _ => None
  end.
Definition istep (c : icfg) (cls : pclass) (si : pstate * idx) (t : token) : pres (pstate * idx) :=
  match pstep cls (fst si) t with
  | POk s' => POk (s', match created cls (fst si) t with Some x => index_tag c x (snd si) | None => snd si end)
  | PRaise e => PRaise e
  end.
Fixpoint irun (c : icfg) (cls : pclass) (si : pstate * idx) (ts : list token) : pres (pstate * idx) :=
  match ts with
  | [] => POk si
  | t :: r => match istep c cls si t with POk si' => irun c cls si' r | PRaise e => PRaise e end
  end.
(* feed of the indexed parser: _reset (which empties the maps) before each pass *)
Definition ifeed (c : icfg) (cls : pclass) (i : idx) (ts1 ts2 : list token) : pres (pstate * idx) :=
  match irun c cls (pinit, reset_idx i) ts1 with
  | POk r => POk r
  | PRaise XMultipleRoot => irun c cls (pinit, reset_idx i) ts2
  | PRaise e => PRaise e
  end.

