"""C17 - pickled and cloned documents are faithful, independent copies."""
import copy
import json
import pickle
import re

from harness import core
from harness.core import cs, clist
from harness.props import parse_common as pc
from harness.props import c01, c02

KINDS = ['plain', 'indexed']
EDITS = ['setattr', 'addclass', 'style', 'append', 'remove', 'text', 'removeattr']


class C17(core.Check):
    ID = 'C17'
    RUN_MODULE = 'Corr.Run_Copy'
    RUN_FN = 'run_copy'
    CASE_TYPE = 'ccase'
    SHARD = 60
    RULE = ('C01 trees as documents owned by the plain and the indexed parser (random index configuration) and as detached element trees, pickled '
            'with each protocol 0-5 and loaded back: serialisation, uids element for element, parent and owner links inside the copy, doctype, '
            'working indexes, re-pickling; then one random edit on the copy or on the original and a re-comparison of the other side; cloneNode, '
            'copy.copy and copy.deepcopy of random elements (class, style, boolean, value-less, quoted attributes): childless, tag-equal, new uid, '
            'unequal under ==, no shared state. The model reproduces the snapshot of the unpickled document and the start tags of the clones. '
            'non-trivial = tree with at least 3 elements')
    TRUSTED = ['stdlib html.parser tokenizer (documents enter the model as recorded handler calls)', 'stdlib pickle and copy (the __getstate__/__setstate__/__copy__ hooks they call are modelled)']
    ASSUMPTIONS = ['elements are pickled detached or through their parser (pickling an element that is still attached is outside the domain)']
    PARTIAL = ['attribute fidelity of the copy is proved for every mapping built by the constructor (parsing, AdvancedTag(name, attrList)) with '
               'non-degenerate style declarations; for mappings reached through later lazy writes (e.g. a style set through the style object '
               'after a class was synchronised) the order of class/style in the copy can differ - outside the quantified domain, evaluated per case']

    def generate(self):
        rng = self.rng
        cases = []
        n = 72 if self.tier == 'quick' else 1500
        for i in range(n):
            st = c01.gen_tree(rng, maxdepth=4)
            if st[2] or st[0] in c01.VOIDS:
                st = ['div', [], False, [st, 'tail']]
            doctype = rng.random() < 0.3
            multi = None
            if i % 4 == 3 and i % 5 != 4:
                # a multi-root document: text and a second element after the first root
                multi = [rng.choice(['mid', ' ', '&amp;', '<!--c-->', '']), c01.gen_tree(rng, maxdepth=2, budget=[4]), rng.choice(['', ' tail'])]
                if multi[1][2] or multi[1][0] in c01.VOIDS:
                    multi[1] = ['p', [], False, ['x']]
            cases.append(dict(kind=KINDS[i % 2], flags=[rng.random() < 0.7 for _ in range(4)], tree=st, doctype=doctype, protocol=i % 6, multi=multi,
                              detached=(i % 5 == 4), side=rng.choice(['copy', 'orig']), edit=rng.choice(EDITS), sel=rng.random(),
                              clones=[rng.random() for _ in range(3)]))
        self.stats.update(trees=n)
        return cases

    # ------------------------------------------------------------------
    @staticmethod
    def _html(case):
        toks = c01.tree_tokens(case['tree'])
        m = case.get('multi')
        if m and not case.get('detached'):
            toks = toks + ([['T', m[0]]] if m[0] else []) + c01.tree_tokens(m[1]) + ([['T', m[2]]] if m[2] else [])
        return ('<!DOCTYPE html>' if case['doctype'] else '') + c02.render(toks, None)

    @staticmethod
    def _mk(case):
        import AdvancedHTMLParser as A
        if case['kind'] == 'indexed':
            f = case['flags']
            return A.IndexedAdvancedHTMLParser(indexIDs=f[0], indexNames=f[1], indexClassNames=f[2], indexTagNames=f[3])
        return A.AdvancedHTMLParser()

    @staticmethod
    def _edit(root, case, parser=None):
        from AdvancedHTMLParser.Tags import AdvancedTag
        els = [x for x in pc.preorder(root) if x.tagName != 'xxxblank'] or pc.preorder(root)     # not the invisible wrapper: its tag is never printed
        e = els[int(case['sel'] * len(els)) % len(els)]
        k = case['edit']
        if k == 'setattr':
            e.setAttribute('data-edit', 'v')
        elif k == 'addclass':
            e.addClass('edited')
        elif k == 'style':
            e.style.color = 'blue'
        elif k == 'append':
            if e.isSelfClosing:
                e = els[0]
            e.appendChild(AdvancedTag('i', [('id', 'new')]))
        elif k == 'remove':
            if e.parentNode is not None:
                e.remove()
            else:
                e.appendText('!')
        elif k == 'text':
            if e.isSelfClosing:
                e = els[0]
            e.appendText('more')
        else:
            for n in list(e.attributes.keys())[:1]:
                e.removeAttribute(n)
            e.setAttribute('title', 'T')

    @staticmethod
    def _links_ok(root, owner, foreign_ids):
        """parent and owner links of every element point into this tree / to this owner, never to the other side"""
        els = pc.preorder(root)
        mine = {id(e) for e in els}
        for e in els:
            par = e.parentNode
            if e is root:
                if par is not None and id(par) in foreign_ids:
                    return 'the root of the copy has a parent in the original'
            elif par is None or id(par) not in mine:
                return 'element <%s> of the copy has a parent outside the copy' % e.tagName
            if e.ownerDocument is not owner:
                return 'element <%s> of the copy has ownerDocument %r, expected %r' % (e.tagName, type(e.ownerDocument).__name__, type(owner).__name__)
            for c in e.children:
                if c.parentNode is not e:
                    return 'child <%s> does not point back to its parent in the copy' % c.tagName
        return None

    def oracle(self, case):
        from AdvancedHTMLParser.Tags import AdvancedTag
        proto = case['protocol']
        if case['detached']:
            orig = c01.build_api(case['tree'])
            try:
                cp = pickle.loads(pickle.dumps(orig, protocol=proto))
            except Exception as ex:
                return 'pickling a detached tree raised %s' % core.exc_name(ex)
            ser = lambda x: x.outerHTML
            oroot, croot, oown, cown = orig, cp, None, None
        else:
            p = self._mk(case)
            p.parseStr(self._html(case))
            try:
                q = pickle.loads(pickle.dumps(p, protocol=proto))
            except Exception as ex:
                return 'pickling the parser raised %s' % core.exc_name(ex)
            if type(q) is not type(p):
                return 'the unpickled object is a %s' % type(q).__name__
            orig, cp = p, q
            ser = lambda x: x.getHTML()
            oroot, croot, oown, cown = p.getRoot(), q.getRoot(), p, q
            if q.doctype != p.doctype:
                return 'doctype %r became %r' % (p.doctype, q.doctype)
        h0 = ser(orig)
        if ser(cp) != h0:
            return 'serialisation differs: %r vs %r' % (h0[:120], ser(cp)[:120])
        oe, ce = pc.preorder(oroot), pc.preorder(croot)
        if [e.uid for e in oe] != [e.uid for e in ce]:
            return 'uids differ element for element'
        if {id(e) for e in oe} & {id(e) for e in ce}:
            return 'the copy shares element objects with the original'
        bad = self._links_ok(croot, cown, {id(e) for e in oe})
        if bad:
            return bad
        if not case['detached'] and case['kind'] == 'indexed':
            ids = [e.getAttribute('id') for e in ce]
            for e in ce:
                i = e.getAttribute('id')
                if i and ids.count(i) == 1 and cp.indexIDs and cp.getElementById(i) is not cp.getElementById(i, useIndex=False):
                    return 'the id index of the unpickled parser does not find id %r' % i
            for tn in {e.tagName for e in ce}:
                a, b = cp.getElementsByTagName(tn), cp.getElementsByTagName(tn, useIndex=False)
                if [id(x) for x in a] != [id(x) for x in b]:
                    return 'the tag index of the unpickled parser is out of step for %r' % tn
                if any(id(x) not in {id(e) for e in ce} for x in a):
                    return 'the tag index of the unpickled parser returns elements of the original'
        # searched, re-pickled
        try:
            again = pickle.loads(pickle.dumps(cp, protocol=proto))
            if ser(again) != h0:
                return 're-pickling the copy changes the serialisation'
        except Exception as ex:
            return 're-pickling the copy raised %s' % core.exc_name(ex)
        # independence
        try:
            if case['side'] == 'copy':
                self._edit(croot, case)
                if ser(orig) != h0:
                    return 'an edit (%s) on the copy shows in the original' % case['edit']
                if ser(cp) == h0 and case['edit'] != 'remove':
                    return 'an edit (%s) on the copy had no effect on the copy' % case['edit']
            else:
                self._edit(oroot, case)
                if ser(cp) != h0:
                    return 'an edit (%s) on the original shows in the copy' % case['edit']
        except Exception as ex:
            return 'editing the %s raised %s' % (case['side'], core.exc_name(ex))
        # clones
        src = c01.build_api(case['tree']) if case['detached'] else self._mk(case)
        if not case['detached']:
            src.parseStr(self._html(case))
            src = src.getRoot()
        els = pc.preorder(src)
        for ci, sel in enumerate(case['clones']):
            e = els[int(sel * len(els)) % len(els)]
            if ci >= 1:
                # an element that was rendered and then edited through the DOM API: its copies carry the same name / value pairs
                e.outerHTML
                e.setAttribute('data-late', '1')
                if ci == 2:
                    e.setAttribute('checked', 'checked')
                    e.style.color = 'red'
            for how, f in (('cloneNode', lambda x: x.cloneNode()), ('copy.copy', copy.copy), ('copy.deepcopy', copy.deepcopy)):
                try:
                    c = f(e)
                except Exception as ex:
                    return '%s raised %s' % (how, core.exc_name(ex))
                if len(c.children) != 0 or c.innerHTML != '':
                    return '%s is not childless' % how
                if c.tagName != e.tagName or not c.isTagEqual(e) or not e.isTagEqual(c):
                    return '%s of %s is not tag-equal: %s' % (how, e.getStartTag(), c.getStartTag())
                if dict(c.getAttributesDict()) != dict(e.getAttributesDict()):
                    return '%s of %s has attributes %r' % (how, e.getStartTag(), c.getAttributesDict())
                if c.uid == e.uid or c == e or not (c != e):
                    return '%s shares the identity of the original (uid / ==)' % how
                before = e.getStartTag()
                c.addClass('k')
                c.setAttribute('data-c', '1')
                c.style.margin = '1px'
                if e.getStartTag() != before:
                    return 'changing the %s result changes the original: %s' % (how, e.getStartTag())
                cb = c.getStartTag()
                e.addClass('orig')
                e.style.padding = '2px'
                if c.getStartTag() != cb:
                    return 'changing the original changes the %s result' % how
                e.removeClass('orig')
                e.style.padding = ''
        return None

    # ------------------------------------------------------------------ correspondence
    def _trace(self, case):
        html = self._html(case)
        recp = pc.rec_class(case['kind'])()
        rec = pc.parse_recorded(recp, html)
        p = self._mk(case)
        p.parseStr(html)
        q = pickle.loads(pickle.dumps(p, protocol=case['protocol']))
        out = pc.doc_snapshot(q)
        els = pc.preorder(p.getRoot())
        ranks = [int(sel * len(els)) % len(els) for sel in case['clones']]
        out += '|C' + ';'.join(core.hx(els[r].cloneNode().getStartTag()) + ',' + core.hx(copy.deepcopy(els[r]).getStartTag()) for r in ranks)
        return rec, ranks, out

    def run_impl(self, case):
        if case['detached']:
            return None
        rec, ranks, out = self._trace(case)
        self._last = (id(case), rec, ranks)
        if rec[0] != 'ok' or not pc.names_ascii(rec[1], rec[2]):
            return None
        return out

    def coq_case(self, case):
        if getattr(self, '_last', (None,))[0] == id(case):
            rec, ranks = self._last[1], self._last[2]
        else:
            rec, ranks, _ = self._trace(case)
        return '(%s, %s, %s)' % (pc.PCLASS[case['kind']], pc.coq_doc(rec[1], rec[2]), clist(str(r) for r in ranks))

    def shrink_candidates(self, case):
        st = case['tree']
        for b in st[3]:
            if not isinstance(b, str) and not b[2] and b[0] not in c01.VOIDS:
                yield dict(case, tree=b)
        for i in range(len(st[3])):
            yield dict(case, tree=[st[0], st[1], st[2], st[3][:i] + st[3][i + 1:]])
        if st[1]:
            yield dict(case, tree=[st[0], st[1][1:], st[2], st[3]])
        if case['doctype']:
            yield dict(case, doctype=False)

    def nontrivial_key(self, case, snap):
        return json.dumps(case['tree']) if json.dumps(case['tree']).count('[[') >= 1 and len(re.findall(r'\["[a-z0-9]+", \[', json.dumps(case['tree']))) >= 3 else None

    def finding_key(self, case, what):
        return re.sub(r'[^a-z]+', '-', what.lower())[:60]


CHECK = C17
