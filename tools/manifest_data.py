SOURCE_COMMITS = []
_WIP = 'model/proof/correspondence for this property not built yet in this development (work in progress; not a limit of the technique)'
NOT_APPLICABLE = {('C%02d' % i): _WIP for i in range(1, 21)}
CHECKS = {
 'C18': dict(
   text='Theorems (Coq, closed under the global context) over all operand lists and all collections satisfying the ordered-set invariant: '
        'constructor, +, +=, -, -= keep the invariant, never raise, and produce exactly first-occurrence union / exact removal; getAllNodes, '
        'getAllNodeUids, contains(Uid) agree with the pre-order of the trees below the members; ==/!=/hash by (class, uid). The model is the '
        'hand transcription of TagCollection in Model/Collection.v, tied to /repo on every run by executing thousands of operation histories '
        'on the real TagCollection and on the model inside coqc (vm_compute) and comparing full snapshots after every operation.',
   note='Trusted: Coq kernel + vm_compute; the harness (generator, adapter, printers); uuid4 freshness; CPython list/set semantics as transcribed. '
        'The model covers Tags.py TagCollection.__init__/__add__/__iadd__/__sub__/__isub__/_hasTag/append/remove/getAllNodes/getAllNodeUids/contains/containsUid, '
        'AdvancedTag.getAllChildNodes/getAllNodes/getAllNodeUids/containsUid/__eq__/__ne__/__hash__, uniqueTags.'),
}
