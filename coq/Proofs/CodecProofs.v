(* Codec theorems over the string functions of Model/Str.v (C09, C10, C17):
   - styleToDict (as_str d) = d for well-formed style dictionaries; styleToDict produces well-formed dictionaries from
     non-degenerate declaration lists; hence the normalisation the library applies twice is idempotent;
   - words (join " " cl) = cl for well-formed class lists: className and classList are one state. *)
From Coq Require Import Lia.
From AHP Require Import Model.Base Model.Str Model.Attr Proofs.StrProofs.

Lemma app_assoc_s (a b c : string) : (a +++ b) +++ c = a +++ (b +++ c).
Proof. induction a; simpl; auto. now rewrite IHa. Qed.
Lemma app_nil_s (a : string) : a +++ "" = a.
Proof. induction a; simpl; auto. now rewrite IHa. Qed.

(* ---- reversal ---- *)
Lemma rev_s_app s : forall acc, rev_s s acc = rev_s s "" +++ acc.
Proof.
  induction s as [|c s IH]; intros acc; simpl; auto. rewrite IH, (IH (String c "")). now rewrite app_assoc_s.
Qed.
Lemma srev_cons c s : srev (String c s) = srev s +++ String c "".
Proof. unfold srev. simpl. apply rev_s_app. Qed.
Lemma srev_app a b : srev (a +++ b) = srev b +++ srev a.
Proof.
  induction a as [|c a IH]; simpl.
  - unfold srev at 3. simpl. now rewrite app_nil_s.
  - rewrite !srev_cons, IH. now rewrite app_assoc_s.
Qed.
Lemma srev_invol s : srev (srev s) = s.
Proof. induction s as [|c s IH]; auto. rewrite srev_cons, srev_app, IH. reflexivity. Qed.

(* ---- stripping ---- *)
Definition starts_ok (s : string) : Prop := match s with String c _ => is_ws c = false | EmptyString => False end.
Definition ends_ok (s : string) : Prop := starts_ok (srev s).
Lemma lstrip_ok s : starts_ok s -> lstrip_by is_ws s = s.
Proof. destruct s; simpl; [tauto|]. intros H. now rewrite H. Qed.
Lemma rstrip_ok s : ends_ok s -> rstrip_by is_ws s = s.
Proof. unfold ends_ok, rstrip_by. intros H. rewrite lstrip_ok; auto. apply srev_invol. Qed.
Lemma strip_ok s : starts_ok s -> ends_ok s -> strip s = s.
Proof. intros H1 H2. unfold strip, strip_by. rewrite (lstrip_ok s H1). now apply rstrip_ok. Qed.
Lemma lstrip_space s : lstrip_by is_ws (String " " s) = lstrip_by is_ws s.
Proof. reflexivity. Qed.
Lemma strip_space s : starts_ok s -> ends_ok s -> strip (String " " s) = s.
Proof. intros H1 H2. unfold strip, strip_by. rewrite lstrip_space, (lstrip_ok s H1). now apply rstrip_ok. Qed.
Lemma starts_ok_app a b : starts_ok a -> starts_ok (a +++ b).
Proof. destruct a; simpl; tauto. Qed.
Lemma ends_ok_app a b : ends_ok b -> ends_ok (a +++ b).
Proof. unfold ends_ok. rewrite srev_app. apply starts_ok_app. Qed.

(* ---- splitting ---- *)
Definition no_char (c : ascii) (s : string) : Prop := has_char c s = false.
Lemma no_char_cons c x s : no_char c (String x s) <-> Ascii.eqb c x = false /\ no_char c s.
Proof. unfold no_char, has_char. simpl. rewrite orb_false_iff. tauto. Qed.
Lemma split_c_nosep sep s : forall cur, no_char sep s -> split_c sep s cur = [srev (rev_s s cur)] \/ True.
Proof. auto. Qed.
Lemma split_c_app sep a b : no_char sep a -> forall cur, split_c sep (a +++ String sep b) cur = srev (rev_s a cur) :: split_c sep b "".
Proof.
  induction a as [|x a IH]; intros Hn cur; simpl.
  - now rewrite Ascii.eqb_refl.
  - apply no_char_cons in Hn as [Hx Hn]. rewrite Ascii.eqb_sym in Hx. rewrite Hx. now apply IH.
Qed.
Lemma split_c_last sep a : no_char sep a -> forall cur, split_c sep a cur = [srev (rev_s a cur)].
Proof.
  induction a as [|x a IH]; intros Hn cur; simpl; auto.
  apply no_char_cons in Hn as [Hx Hn]. rewrite Ascii.eqb_sym in Hx. rewrite Hx. now apply IH.
Qed.
Lemma srev_rev_s a cur : srev (rev_s a cur) = srev cur +++ a.
Proof. revert cur. induction a as [|x a IH]; intros cur; simpl; [now rewrite app_nil_s|]. rewrite IH, srev_cons, app_assoc_s. reflexivity. Qed.
Lemma split_app sep a b : no_char sep a -> split sep (a +++ String sep b) = a :: split sep b.
Proof. intros H. unfold split. rewrite split_c_app; auto. now rewrite srev_rev_s. Qed.
Lemma split_last sep a : no_char sep a -> split sep a = [a].
Proof. intros H. unfold split. rewrite split_c_last; auto. now rewrite srev_rev_s. Qed.
Lemma find_c_app sep a b : no_char sep a -> forall pre, find_c sep (a +++ String sep b) pre = Some (srev pre +++ a, b).
Proof.
  induction a as [|x a IH]; intros Hn pre; simpl.
  - rewrite Ascii.eqb_refl. now rewrite app_nil_s.
  - apply no_char_cons in Hn as [Hx Hn]. rewrite Ascii.eqb_sym in Hx. rewrite Hx, IH; auto. rewrite srev_cons, app_assoc_s. reflexivity.
Qed.

Lemma no_char_app c a b : no_char c (a +++ b) <-> no_char c a /\ no_char c b.
Proof.
  induction a as [|x a IH]; simpl.
  - unfold no_char at 2. simpl. tauto.
  - rewrite !no_char_cons, IH. tauto.
Qed.

(* ---- well-formed style dictionaries: what styleToDict produces from non-degenerate declarations ---- *)
Definition good_name (n : string) : Prop := starts_ok n /\ ends_ok n /\ no_char ":" n /\ no_char ";" n /\ lower n = n.
Definition good_value (v : string) : Prop := starts_ok v /\ ends_ok v /\ no_char ";" v.
Definition good_entry (nv : string * string) : Prop := good_name (fst nv) /\ good_value (snd nv).
Definition GoodStyle (d : sdict) : Prop := NoDup (keys d) /\ Forall good_entry d.
Definition item (nv : string * string) : string := fst nv +++ ": " +++ snd nv.

Lemma as_str_cons nv r : r <> [] -> as_str (nv :: r) = item nv +++ String ";" (String " " (as_str r)).
Proof. unfold as_str, join. destruct r as [|x r]; [congruence|]. intros _. cbn [map sjoin]. reflexivity. Qed.
Lemma as_str_one nv : as_str [nv] = item nv.
Proof. reflexivity. Qed.
Lemma item_no_semi nv : good_entry nv -> no_char ";" (item nv).
Proof. intros [(_ & _ & _ & Hn & _) (_ & _ & Hv)]. unfold item. rewrite !no_char_app. repeat split; auto. Qed.

(* the pieces between semicolons *)
Lemma split_as_str : forall d pfx, Forall good_entry d -> d <> [] -> no_char ";" pfx ->
  split ";" (pfx +++ as_str d) = match d with nv :: r => (pfx +++ item nv) :: map (fun x => String " " (item x)) r | [] => [] end.
Proof.
  induction d as [|nv r IH]; intros pfx Hg Hne Hp; [congruence|]. inversion Hg as [|? ? Hnv Hr]; subst.
  destruct r as [|x r].
  - rewrite as_str_one. cbn [map]. apply split_last. apply no_char_app. split; auto. now apply item_no_semi.
  - rewrite as_str_cons by discriminate. rewrite <- app_assoc_s. rewrite split_app.
    2:{ apply no_char_app. split; auto. now apply item_no_semi. }
    f_equal. change (String " " (as_str (x :: r))) with (String " " "" +++ as_str (x :: r)).
    rewrite (IH (String " " "") Hr); [|discriminate|reflexivity]. reflexivity.
Qed.

Lemma piece_step pfx nv d0 : good_entry nv -> (pfx = "" \/ pfx = String " " "") ->
  match find_c ":" (pfx +++ item nv) "" with Some (n, v) => od_set (lower (strip n)) (strip v) d0 | None => d0 end = od_set (fst nv) (snd nv) d0.
Proof.
  intros [(Hs & He & Hc & _ & Hl) (Hvs & Hve & _)] Hp. unfold item. rewrite <- app_assoc_s.
  change (": " +++ snd nv) with (String ":" (String " " (snd nv))).
  rewrite find_c_app.
  2:{ apply no_char_app. split; auto. destruct Hp as [->| ->]; reflexivity. }
  change (srev "") with "". cbn [append].
  assert (E1 : strip (pfx +++ fst nv) = fst nv) by (destruct Hp as [->| ->]; cbn [append]; [now apply strip_ok | now apply strip_space]).
  rewrite E1, Hl, strip_space; auto.
Qed.

Lemma ends_as_str : forall r nv, Forall good_entry (nv :: r) -> ends_ok (as_str (nv :: r)).
Proof.
  induction r as [|x r IH]; intros nv Hg.
  - rewrite as_str_one. unfold item. inversion Hg as [|? ? [_ (_ & He & _)] _]; subst. rewrite <- app_assoc_s. now apply ends_ok_app.
  - rewrite as_str_cons by discriminate. apply ends_ok_app.
    change (String ";" (String " " (as_str (x :: r)))) with ("; " +++ as_str (x :: r)). apply ends_ok_app. apply IH. now inversion Hg.
Qed.

Theorem styleToDict_as_str d : GoodStyle d -> styleToDict (as_str d) = d.
Proof.
  intros [Hn Hg]. destruct d as [|nv r]; [reflexivity|]. unfold styleToDict.
  assert (Hstrip : strip (as_str (nv :: r)) = as_str (nv :: r)).
  { inversion Hg as [|? ? [(Hs & _) _] Hr]; subst. apply strip_ok.
    - destruct r; [rewrite as_str_one | rewrite as_str_cons by discriminate]; unfold item; rewrite ?app_assoc_s; now apply starts_ok_app.
    - now apply ends_as_str. }
  rewrite Hstrip. change (as_str (nv :: r)) with ("" +++ as_str (nv :: r)). rewrite (split_as_str (nv :: r) "" Hg); [|discriminate|reflexivity].
  cbn [fold_left]. inversion Hg as [|? ? Hnv Hr]; subst.
  rewrite (piece_step "" nv [] Hnv (or_introl eq_refl)). cbn [od_set].
  (* the remaining pieces rebuild the rest of the dictionary *)
  assert (G : forall l acc, Forall good_entry l ->
            fold_left (fun d0 it => match find_c ":" it "" with Some (n, v) => od_set (lower (strip n)) (strip v) d0 | None => d0 end)
                      (map (fun x => String " " (item x)) l) acc
            = fold_left (fun a kv => od_set (fst kv) (snd kv) a) l acc).
  { induction l as [|x l IHl]; intros acc Hl; cbn [map fold_left]; auto. inversion Hl; subst.
    change (String " " (item x)) with (String " " "" +++ item x). rewrite (piece_step (String " " "") x acc); auto. }
  rewrite (G r [(fst nv, snd nv)] Hr). rewrite od_rebuild.
  - destruct nv; reflexivity.
  - unfold keys in Hn. simpl in Hn. now inversion Hn.
  - intros k Hk [Hin|[]]. simpl in Hin. unfold keys in Hn. simpl in Hn. inversion Hn; subst. tauto.
Qed.

(* ================= styleToDict produces well-formed dictionaries (non-degenerate declarations) ================= *)
Lemma lower_c_ws x : is_ws (lower_c x) = is_ws x.
Proof. destruct x as [[] [] [] [] [] [] [] []]; reflexivity. Qed.
Lemma lower_c_colon x : Ascii.eqb ":" (lower_c x) = Ascii.eqb ":" x.
Proof. destruct x as [[] [] [] [] [] [] [] []]; reflexivity. Qed.
Lemma lower_c_semi x : Ascii.eqb ";" (lower_c x) = Ascii.eqb ";" x.
Proof. destruct x as [[] [] [] [] [] [] [] []]; reflexivity. Qed.
Lemma lower_app a b : lower (a +++ b) = lower a +++ lower b.
Proof. induction a; simpl; auto. now rewrite IHa. Qed.
Lemma srev_lower s : srev (lower s) = lower (srev s).
Proof. induction s as [|c s IH]; auto. cbn [lower]. rewrite !srev_cons, IH, lower_app. reflexivity. Qed.
Lemma starts_ok_lower s : starts_ok s -> starts_ok (lower s).
Proof. destruct s; simpl; auto. now rewrite lower_c_ws. Qed.
Lemma ends_ok_lower s : ends_ok s -> ends_ok (lower s).
Proof. unfold ends_ok. rewrite srev_lower. apply starts_ok_lower. Qed.
Lemma no_char_lower c s : (forall x, Ascii.eqb c (lower_c x) = Ascii.eqb c x) -> no_char c s -> no_char c (lower s).
Proof.
  intros Hc. induction s as [|x s IH]; auto. cbn [lower]. rewrite !no_char_cons. intros [H1 H2]. split; auto. now rewrite Hc.
Qed.

Lemma no_char_lstrip c s : no_char c s -> no_char c (lstrip_by is_ws s).
Proof. induction s as [|x s IH]; auto. intros H. simpl. destruct (is_ws x); auto. apply IH. now apply no_char_cons in H. Qed.
Lemma no_char_srev c s : no_char c s -> no_char c (srev s).
Proof.
  induction s as [|x s IH]; auto. intros H. apply no_char_cons in H as [H1 H2]. rewrite srev_cons. apply no_char_app. split; auto.
  apply no_char_cons. split; auto. reflexivity.
Qed.
Lemma no_char_strip c s : no_char c s -> no_char c (strip s).
Proof. intros H. unfold strip, strip_by, rstrip_by. apply no_char_srev, no_char_lstrip, no_char_srev, no_char_lstrip. exact H. Qed.

Lemma lstrip_result s : lstrip_by is_ws s = "" \/ starts_ok (lstrip_by is_ws s).
Proof. induction s as [|x s IH]; simpl; auto. destruct (is_ws x) eqn:E; auto. Qed.
Lemma lstrip_snoc a c : is_ws c = false -> lstrip_by is_ws (a +++ String c "") = lstrip_by is_ws a +++ String c "".
Proof. intros Hc. induction a as [|x a IH]; simpl; [now rewrite Hc|]. destruct (is_ws x); auto. Qed.
Lemma rstrip_keeps_start s : starts_ok s -> starts_ok (rstrip_by is_ws s).
Proof.
  destruct s as [|c s]; simpl; [tauto|]. intros Hc. unfold rstrip_by. rewrite srev_cons, lstrip_snoc by exact Hc.
  rewrite srev_app. simpl. exact Hc.
Qed.
Lemma strip_result s : strip s = "" \/ (starts_ok (strip s) /\ ends_ok (strip s)).
Proof.
  unfold strip, strip_by. destruct (lstrip_result s) as [E|Hs].
  - left. rewrite E. reflexivity.
  - set (t := lstrip_by is_ws s) in *. unfold rstrip_by. destruct (lstrip_result (srev t)) as [E|He].
    + left. rewrite E. reflexivity.
    + right. split.
      * apply (rstrip_keeps_start t Hs).
      * unfold ends_ok. now rewrite srev_invol.
Qed.
Lemma strip_nonempty_ok s : strip s <> "" -> starts_ok (strip s) /\ ends_ok (strip s).
Proof. intros H. destruct (strip_result s); tauto. Qed.

(* pieces of a split carry no separator; the name part of a declaration carries no colon *)
Lemma no_char_rev_s c s : forall acc, no_char c s -> no_char c acc -> no_char c (rev_s s acc).
Proof.
  induction s as [|x s IH]; intros acc Hs Ha; auto. apply no_char_cons in Hs as [H1 H2]. simpl. apply IH; auto.
  apply no_char_cons. split; auto.
Qed.
Lemma split_c_no_sep sep s : forall cur, no_char sep cur -> Forall (no_char sep) (split_c sep s cur).
Proof.
  induction s as [|x s IH]; intros cur Hc; simpl.
  - constructor; auto. now apply no_char_srev.
  - destruct (Ascii.eqb x sep) eqn:E.
    + constructor; [now apply no_char_srev | apply IH; reflexivity].
    + apply IH. apply no_char_cons. split; auto. now rewrite Ascii.eqb_sym.
Qed.
Lemma split_no_sep sep s : Forall (no_char sep) (split sep s).
Proof. apply split_c_no_sep. reflexivity. Qed.
Lemma find_c_no_sep sep s : forall pre n v, no_char sep pre -> find_c sep s pre = Some (n, v) -> no_char sep n.
Proof.
  induction s as [|x s IH]; intros pre n v Hp H; simpl in H; [discriminate|].
  destruct (Ascii.eqb x sep) eqn:E.
  - inversion H; subst. now apply no_char_srev.
  - eapply IH; [|exact H]. apply no_char_cons. split; auto. now rewrite Ascii.eqb_sym.
Qed.
Lemma find_c_parts sep s : forall pre n v, find_c sep s pre = Some (n, v) -> srev pre +++ s = n +++ String sep v.
Proof.
  induction s as [|x s IH]; intros pre n v H; simpl in H; [discriminate|].
  destruct (Ascii.eqb x sep) eqn:E.
  - inversion H; subst. apply Ascii.eqb_eq in E. now subst.
  - apply IH in H. rewrite srev_cons, app_assoc_s in H. exact H.
Qed.

Lemma od_set_Forall {V} (P : string * V -> Prop) k v d : P (k, v) -> Forall P d -> Forall P (od_set k v d).
Proof.
  intros Hp. induction d as [|[k' v'] d IH]; intros H; simpl; [constructor; auto|].
  inversion H; subst. destruct (String.eqb k k'); constructor; auto.
Qed.
Lemma od_del_Forall {V} (P : string * V -> Prop) k d : Forall P d -> Forall P (od_del k d).
Proof. induction d as [|[k' v'] d IH]; intros H; simpl; auto. inversion H; subst. destruct (String.eqb k k'); auto. Qed.

(* a declaration list is non-degenerate when no declaration has an empty name or an empty value *)
Definition decl_ok (it : string) : Prop :=
  match find_c ":" it "" with Some (n, v) => strip n <> "" /\ strip v <> "" | None => True end.
Theorem styleToDict_good s : Forall decl_ok (split ";" (strip s)) -> GoodStyle (styleToDict s).
Proof.
  intros Hd. unfold styleToDict.
  assert (G : forall l acc, Forall (no_char ";") l -> Forall decl_ok l -> GoodStyle acc ->
            GoodStyle (fold_left (fun d it => match find_c ":" it "" with Some (n, v) => od_set (lower (strip n)) (strip v) d | None => d end) l acc)).
  { induction l as [|it l IH]; intros acc Hs Hk Ha; cbn [fold_left]; auto.
    inversion Hs as [|? ? Hs1 Hs2]; subst. inversion Hk as [|? ? Hk1 Hk2]; subst. apply IH; auto.
    unfold decl_ok in Hk1. destruct (find_c ":" it "") as [[n v]|] eqn:E; auto. destruct Hk1 as [Hn Hv]. destruct Ha as [Ha1 Ha2].
    split; [now apply keys_od_set_NoDup|]. apply od_set_Forall; auto.
    pose proof (find_c_parts ":" it "" n v E) as Hp. change (srev "") with "" in Hp. cbn [append] in Hp.
    assert (Hsemi : no_char ";" n /\ no_char ";" v).
    { rewrite Hp in Hs1. apply no_char_app in Hs1 as [H1 H2]. apply no_char_cons in H2. tauto. }
    destruct (strip_nonempty_ok n Hn) as [Hn1 Hn2]. destruct (strip_nonempty_ok v Hv) as [Hv1 Hv2].
    split; cbn [fst snd].
    - repeat split.
      + now apply starts_ok_lower.
      + now apply ends_ok_lower.
      + apply no_char_lower; [apply lower_c_colon|]. apply no_char_strip. eapply find_c_no_sep; [|exact E]. reflexivity.
      + apply no_char_lower; [apply lower_c_semi|]. apply no_char_strip. tauto.
      + apply lower_idem.
    - repeat split; auto. apply no_char_strip. tauto. }
  apply G; auto; [apply split_no_sep | split; constructor].
Qed.
(* the normalisation the library applies twice (StyleAttribute(value) then the copy through str) is idempotent *)
Corollary style_normalise_idempotent s : Forall decl_ok (split ";" (strip s)) -> styleToDict (as_str (styleToDict s)) = styleToDict s.
Proof. intros H. apply styleToDict_as_str. now apply styleToDict_good. Qed.
(* writes through the style object keep the dictionary well formed *)
Lemma GoodStyle_put n v d : GoodStyle d -> good_name n -> good_value v -> GoodStyle (style_put n v d).
Proof.
  intros [H1 H2] Hn Hv. unfold style_put. destruct (String.eqb v "").
  - split; [now apply keys_od_del_NoDup | now apply od_del_Forall].
  - split; [now apply keys_od_set_NoDup | apply od_set_Forall; auto; split; auto].
Qed.

(* ================= class names ================= *)
Definition good_word (w : string) : Prop := w <> "" /\ no_char " " w.
Definition GoodClasses (cl : list string) : Prop :=
  Forall good_word cl /\ match cl with [] => True | w :: _ => starts_ok w end /\ match rev cl with [] => True | w :: _ => ends_ok w end.

Lemma collapse_word w rest : no_char " " w -> collapse_sp (w +++ rest) false = w +++ collapse_sp rest false.
Proof.
  revert rest. induction w as [|c w IH]; intros rest Hn; simpl; auto. apply no_char_cons in Hn as [Hc Hw].
  unfold is_sp. rewrite Ascii.eqb_sym, Hc. now rewrite IH.
Qed.
Lemma collapse_word_after_space w rest : good_word w -> collapse_sp (w +++ rest) true = w +++ collapse_sp rest false.
Proof.
  intros [Hne Hn]. destruct w as [|c w]; [congruence|]. apply no_char_cons in Hn as [Hc Hw]. simpl.
  unfold is_sp. rewrite Ascii.eqb_sym, Hc. now rewrite collapse_word.
Qed.
Lemma join_cons w r : r <> [] -> join " " (w :: r) = w +++ String " " (join " " r).
Proof. destruct r; [congruence|]. reflexivity. Qed.
Lemma collapse_join : forall cl, Forall good_word cl -> collapse_sp (join " " cl) false = join " " cl
                                                          /\ (cl <> [] -> collapse_sp (join " " cl) true = join " " cl).
Proof.
  induction cl as [|w r IH]; intros Hg; [split; [reflexivity|congruence]|]. inversion Hg as [|? ? Hw Hr]; subst.
  destruct (IH Hr) as [IH1 IH2]. destruct r as [|x r].
  - unfold join. cbn [sjoin]. split; [|intros _].
    + rewrite <- (app_nil_s w) at 1. rewrite collapse_word by apply Hw. simpl. now rewrite app_nil_s.
    + rewrite <- (app_nil_s w) at 1. rewrite collapse_word_after_space by exact Hw. simpl. now rewrite app_nil_s.
  - rewrite join_cons by discriminate. split; [|intros _].
    + rewrite collapse_word by apply Hw. f_equal. simpl. f_equal. apply IH2. discriminate.
    + rewrite collapse_word_after_space by exact Hw. f_equal. simpl. f_equal. apply IH2. discriminate.
Qed.
Lemma split_join : forall cl, Forall good_word cl -> cl <> [] -> split " " (join " " cl) = cl.
Proof.
  induction cl as [|w r IH]; intros Hg Hne; [congruence|]. inversion Hg as [|? ? Hw Hr]; subst. destruct r as [|x r].
  - unfold join. cbn [sjoin]. apply split_last. apply Hw.
  - rewrite join_cons by discriminate. rewrite split_app by apply Hw. f_equal. apply IH; auto. discriminate.
Qed.
Lemma filter_good cl : Forall good_word cl -> filter nonempty cl = cl.
Proof.
  induction 1 as [|w r [Hne _] Hr IH]; simpl; auto. unfold nonempty at 1. destruct (String.eqb w "") eqn:E; [apply String.eqb_eq in E; congruence|].
  simpl. now rewrite IH.
Qed.
Lemma starts_join w r : starts_ok w -> starts_ok (join " " (w :: r)).
Proof. intros H. destruct r; [exact H|]. rewrite join_cons by discriminate. now apply starts_ok_app. Qed.
Lemma ends_join' : forall cl : list string, cl <> [] -> (match rev cl with [] => True | w :: _ => ends_ok w end) -> ends_ok (join " " cl).
Proof.
  induction cl as [|w r IH]; intros Hne H; [congruence|]. destruct r as [|x r].
  - exact H.
  - rewrite join_cons by discriminate. apply ends_ok_app. change (String " " (join " " (x :: r))) with (String " " "" +++ join " " (x :: r)).
    apply ends_ok_app. apply IH; [discriminate|]. simpl in H |- *. destruct (rev r ++ [x]) eqn:E; [destruct (rev r); discriminate|].
    simpl in H. exact H.
Qed.
(* className and classList are one state: re-reading the joined names gives the list back *)
Theorem words_join cl : GoodClasses cl -> words (join " " cl) = cl.
Proof.
  intros (Hg & Hs & He). destruct cl as [|w r]; [reflexivity|]. unfold words, stripWordsOnly.
  rewrite strip_ok; [| now apply starts_join | apply ends_join'; [discriminate | exact He]].
  destruct (collapse_join (w :: r) Hg) as [Hc _]. rewrite Hc, split_join; auto; [|discriminate]. now apply filter_good.
Qed.
