(* C20 — fragment APIs build what the document parser would build, attached where asked. *)
From AHP Require Import Model.Base Model.Str Model.Attr Model.Dom Model.Serial Model.Parser Model.Fragment Gen.Tables
     Proofs.DomProofs Proofs.ParserProofs Proofs.FragmentProofs.

(* the list-returning constructors return the top-level nodes of one and the same parse; the element list is the element part
   of the block list (outermost elements included) *)
Theorem C20_constructors_agree : forall ts1 ts2 s, feed PPlain ts1 ts2 = POk s ->
  createElementsFromHTML ts1 ts2 = POk (root_nodes (tree_of s)) /\ createBlocksFromHTML ts1 ts2 = POk (top_blocks (tree_of s))
  /\ tags_of (top_blocks (tree_of s)) = root_nodes (tree_of s).
Proof. exact fragment_constructors_agree. Qed.
(* createElementFromHTML: the root when the first pass accepts (then the document parser needs no second pass either);
   MultipleRootNodeException exactly when the first pass raises it *)
Theorem C20_single : forall ts1 s, prun PPlain pinit ts1 = POk s ->
  createElementFromHTML ts1 = POk (tree_of s) /\ feed PPlain ts1 [] = POk s.
Proof. exact createElementFromHTML_single. Qed.
Theorem C20_raises : forall ts1, prun PPlain pinit ts1 = PRaise XMultipleRoot -> createElementFromHTML ts1 = PRaise XMultipleRoot.
Proof. exact createElementFromHTML_raises. Qed.
(* appendInnerHTML = appending the blocks one by one: innerHTML afterwards = previous blocks' HTML ++ the nodes' HTML *)
Theorem C20_append_html : forall bs t, bs <> [] -> inner_html (appendBlocks_here bs t) = blocks_html (bs_ t) +++ blocks_html bs.
Proof. exact appendBlocks_html. Qed.
(* every new element's parent is the target, its owner the target's document; the structural invariant is kept *)
Theorem C20_append_links : forall c t, let t' := appendChild_here c t in
  exists c', In c' (tags_of (bs_ t')) /\ tuid c' = tuid c /\ parent (hd_ c') = Some (tuid t) /\ owner (hd_ c') = owner (hd_ t).
Proof. exact appended_child_links. Qed.
Theorem C20_append_WF : forall bs p o t, Forall (fun c => exists pc oc, WF pc oc c) (tags_of bs) -> WF p o t -> WF p o (appendBlocks_here bs t).
Proof. exact appendBlocks_WF. Qed.
(* createElement: detached, lower-cased, empty *)
Theorem C20_createElement : forall u n, let t := createElement u n in
  parent (hd_ t) = None /\ owner (hd_ t) = None /\ name (hd_ t) = lower n /\ children (hd_ t) = [] /\ bs_ t = [BText ""] /\ WF None None t.
Proof. exact createElement_spec. Qed.

Example C20_ex :
  let body := [TData "x"; TStart "div" [] false; TData "y"; TEnd "div"; TStart "br" [] false] in
  match createBlocksFromHTML [TData "x"] (wrap body), createElementFromHTML [TData "x"] with
  | POk bs, PRaise XMultipleRoot => map block_html bs = [""; "x"; "<div >y</div>"; "<br />"]
  | _, _ => False
  end.
Proof. vm_compute. reflexivity. Qed.
