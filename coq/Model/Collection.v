(* Collection.v — TagCollection (Tags.py:2272-2361, 2567-2624), AdvancedTag.getAllChildNodes / getAllNodes /
   getAllNodeUids / contains / containsUid (Tags.py:1220-1319), uniqueTags (Tags.py:86-100),
   element identity __eq__/__ne__/__hash__ (Tags.py:2207-2269).
   Elements are identified by uid (creation rank); a collection is the Python list plus the uid set. *)
From AHP Require Import Model.Base.

(* the element trees below the members: only uid and the element-children list matter here *)
Inductive tr := T (u : nat) (kids : list tr).
Definition tuid (t : tr) : nat := match t with T u _ => u end.
Definition tkids (t : tr) : list tr := match t with T _ k => k end.

Record coll := { items : list nat; uids : list nat }.

Fixpoint mem (u : nat) (l : list nat) : bool :=
  match l with [] => false | x :: r => Nat.eqb x u || mem u r end.
Fixpoint remove_first (u : nat) (l : list nat) : list nat :=
  match l with [] => [] | x :: r => if Nat.eqb x u then r else x :: remove_first u r end.
Definition set_add (u : nat) (s : list nat) := if mem u s then s else u :: s.
Definition set_remove (u : nat) (s : list nat) := filter (fun x => negb (Nat.eqb x u)) s.

Inductive cres := COk (c : coll) | CValueError | CKeyError.

Definition cempty : coll := {| items := []; uids := [] |}.
(* _hasTag: tag.uid in self.uids *)
Definition hasTag (c : coll) (u : nat) : bool := mem u (uids c).
(* append: list.append + uids.add *)
Definition append (c : coll) (u : nat) : coll := {| items := items c ++ [u]; uids := set_add u (uids c) |}.
(* remove: list.remove (ValueError when absent) then set.remove (KeyError when absent) *)
Definition remove (c : coll) (u : nat) : cres :=
  if mem u (items c) then
    (if mem u (uids c) then COk {| items := remove_first u (items c); uids := set_remove u (uids c) |} else CKeyError)
  else CValueError.

(* __iadd__ *)
Definition iadd (c : coll) (others : list nat) : coll :=
  fold_left (fun c o => if hasTag c o then c else append c o) others c.
(* __init__(values) = list.__init__; uids = set(); self.__iadd__(values) *)
Definition mk (values : list nat) : coll := iadd cempty values.
(* __add__: ret = TagCollection(self[:]); for other: if ret._hasTag(other) is False: ret.append(other) *)
Definition add (c : coll) (others : list nat) : coll := iadd (mk (items c)) others.
(* __isub__ *)
Fixpoint isub (c : coll) (others : list nat) : cres :=
  match others with
  | [] => COk c
  | o :: r => if hasTag c o then match remove c o with COk c' => isub c' r | e => e end else isub c r
  end.
(* __sub__: ret = TagCollection(self[:]); for other: if ret._hasTag(other) is True: ret.remove(other) *)
Definition sub (c : coll) (others : list nat) : cres := isub (mk (items c)) others.

(* AdvancedTag.getAllChildNodes: ret = TagCollection(); for child in children: ret.append(child); ret += child.getAllChildNodes() *)
Fixpoint all_child_nodes (t : tr) : coll :=
  match t with
  | T _ kids =>
    (fix go (ks : list tr) (acc : coll) : coll :=
       match ks with
       | [] => acc
       | k :: r => go r (iadd (append acc (tuid k)) (items (all_child_nodes k)))
       end) kids cempty
  end.
(* AdvancedTag.getAllNodes: TagCollection([self]) += getAllChildNodes() *)
Definition all_nodes (t : tr) : coll := iadd (mk [tuid t]) (items (all_child_nodes t)).

(* AdvancedTag.containsUid *)
Fixpoint contains_uid (t : tr) (u : nat) : bool :=
  match t with
  | T v kids => Nat.eqb v u || (fix go (ks : list tr) : bool := match ks with [] => false | k :: r => contains_uid k u || go r end) kids
  end.

(* getAllChildNodeUids / getAllNodeUids (python sets, represented as lists; compared after sorting) *)
Fixpoint all_child_uids (t : tr) : list nat :=
  match t with
  | T _ kids =>
    (fix go (ks : list tr) (acc : list nat) : list nat :=
       match ks with
       | [] => acc
       | k :: r => go r (fold_left (fun s u => set_add u s) (all_child_uids k) (set_add (tuid k) acc))
       end) kids []
  end.
Definition all_node_uids (t : tr) : list nat :=
  fold_left (fun s u => set_add u s) (all_child_uids t) [tuid t].

(* pre-order strict descendants (the specification side of the traversal) *)
Fixpoint pre (t : tr) : list nat :=
  match t with T _ kids => flat_map (fun k => tuid k :: pre k) kids end.
Definition pre_self (t : tr) : list nat := tuid t :: pre t.

(* looking an element up in the universe *)
Fixpoint find_tr (u : nat) (t : tr) : option tr :=
  match t with
  | T v kids => if Nat.eqb v u then Some t else
      (fix go (ks : list tr) : option tr :=
         match ks with [] => None | k :: r => match find_tr u k with Some x => Some x | None => go r end end) kids
  end.
Fixpoint find_in (u : nat) (w : list tr) : option tr :=
  match w with [] => None | t :: r => match find_tr u t with Some x => Some x | None => find_in u r end end.

(* TagCollection level, relative to the universe w giving the tree below each member *)
Definition elem (w : list tr) (u : nat) : tr := match find_in u w with Some t => t | None => T u [] end.
(* getAllNodes (repaired: ret += [tag]; ret += tag.getAllChildNodes()) *)
Definition coll_all_nodes (w : list tr) (c : coll) : coll :=
  fold_left (fun ret u => iadd (iadd ret [u]) (items (all_child_nodes (elem w u)))) (items c) cempty.
Definition coll_all_node_uids (w : list tr) (c : coll) : list nat :=
  fold_left (fun s u => fold_left (fun s x => set_add x s) (all_node_uids (elem w u)) s) (items c) [].
Definition coll_contains_uid (w : list tr) (c : coll) (u : nat) : bool :=
  existsb (fun m => contains_uid (elem w m) u) (items c).

(* uniqueTags: the seen-set is never filled, de-duplication happens in TagCollection(ret) *)
Definition unique_tags (l : list nat) : coll := mk l.

(* first occurrences of l not already seen — the specification of + *)
Fixpoint fresh (seen l : list nat) : list nat :=
  match l with [] => [] | o :: r => if mem o seen then fresh seen r else o :: fresh (o :: seen) r end.
Definition dedup (l : list nat) : list nat := fresh [] l.

(* element identity: same concrete class and same uid *)
Record ident := { icls : nat; iuid : nat }.
Definition tag_eq (a b : ident) : bool := Nat.eqb (icls a) (icls b) && Nat.eqb (iuid a) (iuid b).
Definition tag_ne (a b : ident) : bool := if Nat.eqb (icls a) (icls b) then negb (Nat.eqb (iuid a) (iuid b)) else true.
Definition tag_hash (a : ident) : nat := iuid a.

(* insertion sort, for printing python sets canonically *)
Fixpoint insert_sorted (x : nat) (l : list nat) : list nat :=
  match l with [] => [x] | y :: r => if x <=? y then x :: l else y :: insert_sorted x r end.
Definition sort_nats (l : list nat) : list nat := fold_right insert_sorted [] l.
