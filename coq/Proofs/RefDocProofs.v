(* C05: the world model refines the plain list-of-blocks reference document (Spec/RefDoc.v). *)
From AHP Require Import Model.Base Model.Str Model.Attr Model.Dom Spec.RefDoc Proofs.DomProofs.

Definition absw (w : world) : rworld := map abs w.

Lemma abs_uid t : ruid (abs t) = tuid t. Proof. destruct t; reflexivity. Qed.
Lemma abs_set_owner_rec o : forall t, abs (set_owner_rec o t) = abs t.
Proof.
  induction t as [h bs IH] using tag_ind'. simpl. f_equal. rewrite map_map.
  induction bs as [|[s|c] bs IHb]; simpl in *; auto; [f_equal; auto|].
  inversion IH; subst. f_equal; [f_equal; auto | auto].
Qed.
Lemma abs_reparent p o c : abs (reparent p o c) = abs c.
Proof. unfold reparent. rewrite abs_set_owner_rec. destruct c; reflexivity. Qed.

Lemma abs_update_at u f rf : (forall x, abs (f x) = rf (abs x)) -> forall t, abs (update_at u f t) = r_update_at u rf (abs t).
Proof.
  intros Hf. induction t as [h bs IH] using tag_ind'. simpl. destruct (Nat.eqb (uid h) u); [apply Hf|].
  simpl. f_equal. rewrite !map_map.
  induction bs as [|[s|c] bs IHb]; simpl in *; auto; [f_equal; auto|].
  inversion IH; subst. f_equal; [f_equal; auto | auto].
Qed.
Lemma abs_find u : forall t, r_find u (abs t) = option_map abs (find u t).
Proof.
  induction t as [h bs IH] using tag_ind'. simpl. destruct (Nat.eqb (uid h) u); [reflexivity|].
  induction bs as [|[s|c] bs IHb]; simpl in *; auto.
  inversion IH as [|? ? Hc IH']; subst. rewrite Hc. destruct (find u c); simpl; auto.
Qed.
Lemma abs_wfind u w : r_wfind u (absw w) = option_map abs (wfind u w).
Proof. induction w as [|t w IH]; simpl; auto. rewrite abs_find. destruct (find u t); simpl; auto. Qed.
Lemma abs_wupdate u f rf w : (forall x, abs (f x) = rf (abs x)) -> absw (wupdate u f w) = r_wupdate u rf (absw w).
Proof. intros Hf. unfold absw, wupdate, r_wupdate. rewrite !map_map. apply map_ext. intros t. now apply abs_update_at. Qed.
Lemma abs_take_root u d : r_take_root u (absw d) = option_map (fun xd => (abs (fst xd), absw (snd xd))) (take_root u d).
Proof.
  induction d as [|t r IH]; simpl; auto. rewrite abs_uid. destruct (Nat.eqb (tuid t) u); [reflexivity|].
  rewrite IH. destruct (take_root u r) as [[x r']|]; reflexivity.
Qed.
Lemma abs_take_detached u w : r_take_detached u (absw w) = option_map (fun xd => (abs (fst xd), absw (snd xd))) (take_detached u w).
Proof.
  destruct w as [|d r]; simpl; auto. rewrite abs_take_root. destruct (take_root u r) as [[x r']|]; reflexivity.
Qed.

Lemma abs_index_of k bs : r_index_of k (map (bmap abs) bs) = index_of k bs.
Proof.
  induction bs as [|b bs IH]; simpl; auto.
  assert (E : rbeq (bmap abs b) k = beq b k) by (destruct b, k; simpl; auto; now rewrite abs_uid). rewrite E, IH. reflexivity.
Qed.
Lemma abs_find_child c bs : r_find_child c (map (bmap abs) bs) = option_map abs (find_child c bs).
Proof. induction bs as [|[s|x] bs IH]; simpl; auto. rewrite abs_uid. destruct (Nat.eqb (tuid x) c); auto. Qed.
Lemma abs_remove_uid c bs : r_remove_first c (map (bmap abs) bs) = map (bmap abs) (remove_uid_block c bs).
Proof. induction bs as [|[s|x] bs IH]; simpl; auto; [now rewrite IH|]. rewrite abs_uid. destruct (Nat.eqb (tuid x) c); simpl; auto. now rewrite IH. Qed.
Lemma abs_removeText_blocks s bs :
  r_removeText_blocks s (map (bmap abs) bs) = (map (bmap abs) (fst (removeText_blocks s bs)), snd (removeText_blocks s bs)).
Proof.
  induction bs as [|[b|x] bs IH]; simpl; auto.
  - destruct (containsb s b); simpl; auto. rewrite IH. destruct (removeText_blocks s bs); reflexivity.
  - rewrite IH. destruct (removeText_blocks s bs); reflexivity.
Qed.
Lemma abs_removeTextAll_blocks s bs :
  r_removeTextAll_blocks s (map (bmap abs) bs) = (map (bmap abs) (fst (removeTextAll_blocks s bs)), snd (removeTextAll_blocks s bs)).
Proof.
  induction bs as [|[b|x] bs IH]; simpl; auto.
  - rewrite IH. destruct (removeTextAll_blocks s bs); simpl. destruct (containsb s b); reflexivity.
  - rewrite IH. destruct (removeTextAll_blocks s bs); reflexivity.
Qed.

(* ---- each local effect is the documented list operation ---- *)
Lemma abs_appendText_here s x : abs (appendText_here s x) = r_append (BText s) (abs x).
Proof. destruct x as [h bs]. simpl. now rewrite map_app. Qed.
Lemma abs_appendChild_here c x : abs (appendChild_here c x) = r_append (BTag (abs c)) (abs x).
Proof. destruct x as [h bs]. simpl. rewrite map_app. simpl. now rewrite abs_reparent. Qed.
Lemma abs_insertTag_here bi c x : abs (insertTag_here bi c x) = r_insert bi (BTag (abs c)) (abs x).
Proof. destruct x as [h bs]. simpl. rewrite map_insert_at. simpl. now rewrite abs_reparent. Qed.
Lemma abs_insertText_here bi s x : abs (insertText_here bi s x) = r_insert bi (BText s) (abs x).
Proof. destruct x as [h bs]. simpl. now rewrite map_insert_at. Qed.
Lemma abs_removeChild_here c x : abs (removeChild_here c x) = r_removeChild c (abs x).
Proof. destruct x as [h bs]. simpl. now rewrite abs_remove_uid. Qed.
Lemma abs_removeText_here s x : abs (removeText_here s x) = r_removeText s (abs x).
Proof. destruct x as [h bs]. unfold removeText_here. simpl. now rewrite abs_removeText_blocks. Qed.
Lemma abs_removeTextAll_here s x : abs (removeTextAll_here s x) = r_removeTextAll s (abs x).
Proof. destruct x as [h bs]. unfold removeTextAll_here. simpl. now rewrite abs_removeTextAll_blocks. Qed.

(* ---- each call refines its documented effect: same new document, same return value ---- *)
Definition Refines (cw : world * ret) (rw : rworld * ret) : Prop := absw (fst cw) = fst rw /\ snd cw = snd rw.

Theorem appendText_refines w t s : Refines (appendText w t s) (r_appendText (absw w) t s).
Proof. split; [|reflexivity]. simpl. apply abs_wupdate. apply abs_appendText_here. Qed.
Theorem appendChild_refines w t c : Refines (appendChild w t c) (r_appendChild (absw w) t c).
Proof.
  unfold appendChild, r_appendChild. rewrite abs_take_detached. destruct (take_detached c w) as [[ct w']|]; simpl; [|split; reflexivity].
  split; [|reflexivity]. simpl. apply abs_wupdate. apply abs_appendChild_here.
Qed.
Theorem appendBlock_refines w t b : Refines (appendBlock w t b) (r_appendBlock (absw w) t b).
Proof. destruct b; simpl; [apply appendText_refines | apply appendChild_refines]. Qed.
Theorem appendBlocks_refines t bs : forall w, Refines (appendBlocks w t bs) (r_appendBlocks (absw w) t bs).
Proof.
  induction bs as [|b bs IH]; intros w; simpl; [split; reflexivity|].
  destruct (appendBlock_refines w t b) as [H1 H2]. destruct (appendBlock w t b) as [w' r]. destruct (r_appendBlock (absw w) t b) as [rw' rr].
  simpl in *. subst. destruct rr; try (split; reflexivity). apply IH.
Qed.
Theorem insert_rel_refines after w t child ref : Refines (insert_rel after w t child ref) (r_insert_rel after (absw w) t child ref).
Proof.
  unfold insert_rel, r_insert_rel. destruct ref as [r|]; [|apply appendBlock_refines].
  rewrite abs_wfind. destruct (wfind t w) as [[h bs]|]; simpl; [|split; reflexivity].
  rewrite abs_index_of. destruct (index_of r bs) as [bi0|]; [|split; reflexivity].
  destruct child as [s|c].
  - split; [|reflexivity]. simpl. apply abs_wupdate. apply abs_insertText_here.
  - rewrite abs_take_detached. destruct (take_detached c w) as [[ct w']|]; simpl; [|split; reflexivity].
    split; [|reflexivity]. simpl. apply abs_wupdate. apply abs_insertTag_here.
Qed.

Lemma existsb_children_find c h bs p o : WF p o (Tag h bs) ->
  existsb (Nat.eqb c) (children h) = match find_child c bs with Some _ => true | None => false end.
Proof.
  intros H. inversion H as [p' o0 h' bs' Hp Ho Hch Ht Hs Hall]; subst. rewrite Hch. clear.
  induction bs as [|[s|x] bs IH]; simpl; auto. rewrite Nat.eqb_sym. destruct (Nat.eqb (tuid x) c); simpl; auto.
Qed.
Theorem removeChild_refines w t c : WFw w -> Refines (removeChild w t c) (r_removeChildW (absw w) t c).
Proof.
  intros Hw. unfold removeChild, r_removeChildW. rewrite abs_wfind. destruct (wfind t w) as [[h bs]|] eqn:E; simpl; [|split; reflexivity].
  destruct (wfind_WF _ _ _ Hw E) as (p & o & Hwf). rewrite (existsb_children_find c h bs p o Hwf).
  rewrite abs_find_child. destruct (find_child c bs) as [ct|]; simpl; [|split; reflexivity].
  split; [|reflexivity]. simpl. unfold absw. rewrite map_app. simpl. rewrite abs_reparent. f_equal.
  apply abs_wupdate. apply abs_removeChild_here.
Qed.
Theorem removeChildren_refines t cs : forall w acc, WFw w -> Refines (removeChildren w t cs acc) (r_removeChildren (absw w) t cs acc).
Proof.
  induction cs as [|c cs IH]; intros w acc Hw; simpl; [split; reflexivity|].
  destruct (removeChild_refines w t c Hw) as [H1 H2]. pose proof (removeChild_WFw w t c Hw) as Hw'.
  destruct (removeChild w t c) as [w' r]. destruct (r_removeChildW (absw w) t c) as [rw' rr]. simpl in *. subst.
  destruct rr; try (split; reflexivity); apply IH; exact Hw'.
Qed.
Theorem removeText_refines w t s : Refines (removeText w t s) (r_removeTextW (absw w) t s).
Proof.
  unfold removeText, r_removeTextW. rewrite abs_wfind. destruct (wfind t w) as [[h bs]|]; simpl; [|split; reflexivity].
  rewrite abs_removeText_blocks. simpl. split; [|reflexivity]. simpl. apply abs_wupdate. apply abs_removeText_here.
Qed.
Theorem removeTextAll_refines w t s : Refines (removeTextAll w t s) (r_removeTextAllW (absw w) t s).
Proof.
  unfold removeTextAll, r_removeTextAllW. rewrite abs_wfind. destruct (wfind t w) as [[h bs]|]; simpl; [|split; reflexivity].
  rewrite abs_removeTextAll_blocks. simpl. split; [|reflexivity]. simpl. apply abs_wupdate. apply abs_removeTextAll_here.
Qed.
Theorem removeBlock_refines w t b : WFw w -> Refines (removeBlock w t b) (r_removeBlock (absw w) t b).
Proof. intros Hw. destruct b; simpl; [apply removeText_refines | now apply removeChild_refines]. Qed.
Theorem removeBlocks_refines t bs : forall w acc, WFw w -> Refines (removeBlocks w t bs acc) (r_removeBlocks (absw w) t bs acc).
Proof.
  induction bs as [|b bs IH]; intros w acc Hw; simpl; [split; reflexivity|].
  destruct (removeBlock_refines w t b Hw) as [H1 H2]. pose proof (removeBlock_WFw w t b Hw) as Hw'.
  destruct (removeBlock w t b) as [w' r]. destruct (r_removeBlock (absw w) t b) as [rw' rr]. simpl in *. subst.
  destruct rr; try (split; reflexivity); apply IH; exact Hw'.
Qed.

(* failing calls change nothing (reference block that is not a child, removing a non-child, appendChild(None)) *)
Theorem insert_bad_reference after w t child r h bs :
  wfind t w = Some (Tag h bs) -> index_of r bs = None -> insert_rel after w t child (Some r) = (w, RValueError).
Proof. intros H1 H2. unfold insert_rel. now rewrite H1, H2. Qed.
Theorem insert_ValueError_atomic after w t child ref : snd (insert_rel after w t child ref) = RValueError -> fst (insert_rel after w t child ref) = w.
Proof.
  unfold insert_rel. destruct ref as [r|].
  - destruct (wfind t w) as [[h bs]|]; simpl; auto. destruct (index_of r bs); simpl; auto.
    destruct child as [s|c]; simpl; [discriminate|]. destruct (take_detached c w) as [[ct w']|]; simpl; [discriminate|auto].
  - destruct child as [s|c]; simpl; [discriminate|]. unfold appendChild. destruct (take_detached c w) as [[ct w']|]; simpl; [discriminate|auto].
Qed.
Theorem removeChild_non_child w t c h bs : wfind t w = Some (Tag h bs) -> find_child c bs = None -> removeChild w t c = (w, RNone).
Proof. intros H1 H2. unfold removeChild. rewrite H1, H2. destruct (existsb (Nat.eqb c) (children h)); reflexivity. Qed.
Theorem removeChild_None_atomic w t c : snd (removeChild w t c) = RNone -> fst (removeChild w t c) = w.
Proof.
  unfold removeChild. destruct (wfind t w) as [[h bs]|]; simpl; auto. destruct (existsb (Nat.eqb c) (children h)); simpl; auto.
  destruct (find_child c bs); simpl; [discriminate|auto].
Qed.
Theorem appendChild_None_atomic w t : step w (OAppendChildNone t) = (w, RKeyError).
Proof. reflexivity. Qed.
