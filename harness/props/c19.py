"""C19 - typed DOM properties are total functions of the stored attribute text."""
import json
import re

from harness import core
from harness.core import cs, copt
from harness.props import attrs_common as ac

CORPUS = ['', '0', '1', '5', '-1', '-5', '+3', '007', '1000', '1001', '65534', '65535', '99999999999999999999', '1.5', '1e3', ' 7 ', '\t8\n',
          '0x10', '1_0', '१२', 'abc', 'on', 'OFF', 'Get', 'POST', 'anonymous', 'Use-Credentials', 'subtitles', 'CAPTIONS', 'true', 'False', 'x y',
          '2.5', '7.0', '-1.5', '.5', 'inf', 'Infinity', '-inf', 'nan', '1e999', '0b11', '5 ', '3px']

_tables = {}


def tables():
    if _tables:
        return _tables
    from AdvancedHTMLParser import constants as c
    _tables.update(links=set(c.TAG_ITEM_ATTRIBUTE_LINKS), add={k: set(v) for k, v in c.TAG_NAMES_TO_ADDITIONAL_ATTRIBUTES.items()},
                   rename=dict(c.TAG_ITEM_CHANGE_NAME_FROM_ITEM), binary=set(c.TAG_ITEM_BINARY_ATTRIBUTES),
                   js=set(c.ALL_JAVASCRIPT_EVENT_ATTRIBUTES))
    return _tables


def cells():
    t = tables()
    out = []
    for tag in sorted(t['add']) + ['div']:
        # the generic linked names are exercised on div, input, form and td; the per-element names on their own element
        props = set(t['add'].get(tag, set()))
        if tag in ('div', 'input', 'form', 'td'):
            props |= t['links']
        for prop in sorted(props):
            if prop == 'className':
                continue            # C09
            out.append((tag, prop))
    return out


def py_int(s):
    try:
        return int(s)
    except (ValueError, TypeError):
        return None


# ------------------------------------------------------------------------------------------------ the documented rules, restated
# the boolean HTML attributes and the property -> HTML attribute names, restated independently of the library's tables
BOOLEAN_ATTRS = {'hidden', 'checked', 'selected', 'autoplay', 'controls', 'loop', 'muted', 'compact', 'novalidate', 'noresize', 'autofocus',
                 'disabled', 'formnovalidate', 'multiple', 'readonly', 'required', 'declare', 'reversed', 'async', 'defer', 'nowrap', 'default'}
SPECIAL_HTML_NAMES = {'className': 'class', 'acceptCharset': 'accept-charset', 'httpEquiv': 'http-equiv', 'encoding': 'enctype'}


def html_name(prop):
    return SPECIAL_HTML_NAMES.get(prop, prop.lower())


def documented(tag, prop, present, text):
    """expected value of reading `prop` on <tag> whose HTML attribute is absent (present False) or holds `text` (None = value-less)"""
    t = tables()
    html = html_name(prop)
    empty = (not present) or text is None or text == ''

    def capped(default, lo, hi, invalid):
        if not present:
            return default
        if empty:
            return ''
        v = py_int(text)
        if v is None:
            return invalid
        return max(lo, min(hi, v))

    def ranged(default, lo, invalid):
        if not present:
            return default
        if empty:
            return ''
        v = py_int(text)
        if v is None or v < lo:
            return invalid
        return v

    def posint(default):
        if not present:
            return default
        v = py_int(text) if text is not None else None
        return default if (v is None or v < 0) else v

    def enum(values, absent, invalid, empty_value):
        if not present:
            return absent
        if empty:
            return empty_value
        v = text.lower()
        return v if v in values else invalid
    if prop == 'tabIndex':
        if empty:
            return -1
        v = py_int(text)
        return 0 if v is None else v
    if prop in ('span', 'colSpan'):
        return capped(1, 1, 1000, 1)
    if prop == 'rowSpan':
        return capped(1, 0, 65534, 0)
    if prop in ('hspace', 'vspace'):
        return posint(0)
    if prop == 'maxLength':
        if not present:
            return -1
        if empty:
            return '0'
        v = py_int(text)
        return -1 if (v is None or v < 0) else v
    if prop == 'size':
        if tag == 'input':
            return posint(20)
        return (text if present else '')
    if prop in ('cols', 'rows'):
        if tag == 'textarea':
            d = 20 if prop == 'cols' else 2
            return ranged(d, 1, d)
        return (text if present else '')
    if prop == 'crossOrigin':
        return enum(('use-credentials', 'anonymous'), None, 'anonymous', None)
    if prop == 'autocomplete':
        if tag == 'form':
            return enum(('on', 'off'), 'on', 'on', 'on')
        return enum(('on', 'off'), '', '', '')
    if prop == 'method':
        return enum(('get', 'post'), 'get', 'get', '')
    if prop == 'kind':
        return enum(('captions', 'chapters', 'descriptions', 'metadata', 'subtitles'), 'subtitles', 'metadata', 'metadata')
    if prop == 'form':
        return None
    if prop == 'sandbox':
        return [x for x in re.sub('[ ][ ]+', ' ', (text or '').strip()).split(' ') if x] if present else []
    if html == 'spellcheck':
        if not present:
            return False
        if text is None:
            return UNSPECIFIED          # a value-less spellcheck attribute: the documentation does not say
        return text.lower() not in ('false', '0')
    if html in BOOLEAN_ATTRS:
        return bool(present)
    if not present:
        return None if html.startswith('on') else ''
    return text


UNSPECIFIED = object()


def show(v):
    if v is None:
        return 'N'
    if v is True:
        return 'T'
    if v is False:
        return 'F'
    if isinstance(v, int):
        return 'I%d' % v
    if isinstance(v, list):
        return 'L' + ','.join(core.hx(x) for x in v)
    if isinstance(v, str):
        return 'S' + core.hx(v)
    return 'E'


class C19(core.Check):
    ID = 'C19'
    RUN_MODULE = 'Corr.Run_C19'
    RUN_FN = 'run_C19'
    CASE_TYPE = '(string * string * cstate)'
    SHARD = 400
    RULE = ('the full table of (element name, linked property) pairs shipped with the library x a corpus of 32 attribute texts (empty, signed, huge, '
            'fractional, padded, hex, underscore, non-ASCII digits, mixed-case keywords, words) x {attribute absent, set via HTML incl. value-less, '
            'set via dot-assignment incl. True/False}; quick: every cell absent + 3 sampled texts per cell and state; thorough: the whole product. '
            'Read value, outcome of the assignment, stored HTML attribute and start tag are compared with the model (dispatch over the regenerated '
            'tables + rule interpreter) and with an independent re-statement of the documented rules. non-trivial = attribute present')
    TRUSTED = ['tools/translate.py (rule descriptors and dispatch tables are regenerated from constants.py on every run, fail-closed)',
               'Python int() on ASCII text as transcribed (py_int); non-ASCII digits are compared by the oracle only']
    ASSUMPTIONS = ['elements are detached (the form property has no ancestor to find)']
    PARTIAL = []

    def generate(self):
        rng = self.rng
        cs_ = cells()
        cases = []
        for tag, prop in cs_:
            cases.append(dict(tag=tag, prop=prop, state=['absent']))
            texts = CORPUS if self.tier == 'thorough' else rng.sample(CORPUS, 3)
            for tx in texts:
                cases.append(dict(tag=tag, prop=prop, state=['html', tx]))
            cases.append(dict(tag=tag, prop=prop, state=['html', None]))      # the value-less spelling, for every cell in both tiers
            if self.tier != 'thorough':
                tricky = ['2.5', 'inf', '1e999', '-1.5', '1e3', 'Infinity']
                cases.append(dict(tag=tag, prop=prop, state=['html', tricky[len(cases) % len(tricky)]]))    # text that float() accepts and int() does not
                cases.append(dict(tag=tag, prop=prop, state=['html', '']))    # ... and the empty value
                cases.append(dict(tag=tag, prop=prop, state=['dot', '']))
            texts = CORPUS if self.tier == 'thorough' else rng.sample(CORPUS, 2)
            for tx in texts:
                cases.append(dict(tag=tag, prop=prop, state=['dot', tx]))
            if self.tier == 'thorough' or rng.random() < 0.3:
                cases.append(dict(tag=tag, prop=prop, state=['dotbool', rng.random() < 0.5]))
        # the cells with a value rule of their own (numeric clamps and defaults, enumerations): their boundary texts in both tiers,
        # through the HTML attribute and through dot-assignment.  Appended after the sampled families, which stay as they were.
        if self.tier != 'thorough':
            from AdvancedHTMLParser import constants as K
            ruled = set(K.TAG_ITEM_ATTRIBUTES_SPECIAL_VALUES) | set(K.TAG_ITEM_ATTRIBUTES_SPECIAL_VALIDATION)
            bounds = ['0', '00', '+0', '-0', ' 0 ', '1', '-1', '1000', '1001', '65534', '65535', '99999999999999999999', '007', ' 7 ']
            nb = 0
            for tag, prop in cs_:
                if prop in ruled:
                    for tx in bounds:
                        cases.append(dict(tag=tag, prop=prop, state=['html', tx]))
                        cases.append(dict(tag=tag, prop=prop, state=['dot', tx]))
                        nb += 2
            self.stats.update(boundary_cases=nb)
        self.stats.update(cells=len(cs_), corpus=len(CORPUS))
        return cases

    def extra_search(self, budget_s):
        """after a broken obligation (a regenerated table no longer equals the documentation): every cell x the whole corpus, until the budget is spent"""
        import time
        t0 = time.time()
        for tag, prop in cells():
            for tx in CORPUS + [None]:
                for how in ('html', 'dot'):
                    if how == 'dot' and tx is None:
                        continue
                    if time.time() - t0 > budget_s:
                        return
                    yield dict(tag=tag, prop=prop, state=[how, tx])

    def _element(self, case, independent=False):
        from AdvancedHTMLParser.Tags import AdvancedTag
        t = tables()
        html = html_name(case['prop']) if independent else t['rename'].get(case['prop'], case['prop']).lower()
        st = case['state']
        res = 'ok'
        if st[0] == 'absent':
            el = AdvancedTag(case['tag'])
        elif st[0] == 'html':
            el = AdvancedTag(case['tag'], [(html, st[1])])
        else:
            el = AdvancedTag(case['tag'])
            try:
                setattr(el, case['prop'], st[1])
            except Exception as e:
                res = 'exc:' + core.exc_name(e)
        return el, html, res

    def run_impl(self, case):
        st = case['state']
        if st[0] in ('html', 'dot') and isinstance(st[1], str) and not st[1].isascii():
            return None
        el, html, res = self._element(case)
        try:
            v = getattr(el, case['prop'])
            vs = show(v)
        except Exception as e:
            vs = 'exc:' + core.exc_name(e)
        return '%s|%s|%s|%s' % (res, vs, ac.pv(el.getAttribute(html)), core.hx(self._start_attrs(el, case['tag'])))

    @staticmethod
    def _start_attrs(el, tag):
        st = el.getStartTag()
        body = st[len('<' + tag):]
        body = body[:-3] if body.endswith(' />') else body[:-2]
        return body.strip()

    def coq_case(self, case):
        st = case['state']
        if st[0] == 'absent':
            c = 'CAbsent'
        elif st[0] == 'html':
            c = '(CHtml %s)' % copt(st[1])
        elif st[0] == 'dot':
            c = '(CDot %s)' % copt(st[1])
        else:
            c = '(CDotBool %s)' % ('true' if st[1] else 'false')
        return '(%s, %s, %s)' % (cs(case['tag']), cs(case['prop']), c)

    def oracle(self, case):
        t = tables()
        tag, prop, st = case['tag'], case['prop'], case['state']
        el, html, res = self._element(case, independent=True)
        binary = html in BOOLEAN_ATTRS
        if st[0] in ('dot', 'dotbool'):
            val = st[1]
            should_raise = False
            if prop == 'maxLength':
                if isinstance(val, str) and val != '':
                    v = py_int(val)
                    should_raise = v is None or v < 0
            if should_raise != res.startswith('exc:'):
                return 'assigning %r to %s.%s: %s, expected %s' % (val, tag, prop, res, 'IndexSizeError' if should_raise else 'no exception')
            if res.startswith('exc:'):
                if res != 'exc:IndexSizeError':
                    return 'assigning %r to %s.%s raised %s' % (val, tag, prop, res)
                if el.hasAttribute(html):
                    return 'a failed assignment to %s.%s stored the attribute' % (tag, prop)
                return None
            # stored under the HTML name
            if binary:
                present, text = bool(val), ''
            elif html == 'spellcheck':
                if isinstance(val, str):
                    present, text = True, ('false' if val.lower() in ('false', '0') else 'true')
                else:
                    present, text = True, ('true' if val else 'false')
            else:
                present, text = True, str(val)
            others = [k for k in el.attributes.keys() if k != html]
            if others:
                return 'assigning %s.%s also created the attributes %r' % (tag, prop, others)
            if el.hasAttribute(html) != present:
                return 'after %s.%s = %r the attribute %r is %s' % (tag, prop, val, html, 'present' if el.hasAttribute(html) else 'absent')
            if present and not binary and el.getAttribute(html) != text:
                return 'after %s.%s = %r the attribute %r holds %r, expected %r' % (tag, prop, val, html, el.getAttribute(html), text)
        elif st[0] == 'html':
            present, text = True, st[1]
        else:
            present, text = False, None
        try:
            got = getattr(el, prop)
        except Exception as e:
            return 'reading %s.%s with attribute %s raised %s' % (tag, prop, 'absent' if not present else repr(text), type(e).__name__)
        exp = documented(tag, prop, present, text)
        if exp is UNSPECIFIED:
            return None
        from AdvancedHTMLParser.SpecialAttributes import DOMTokenList
        if isinstance(got, DOMTokenList):
            got = list(got)
        if got != exp or type(got) is not type(exp):
            return 'reading %s.%s with attribute %s gives %r, the documented rule gives %r' % (
                tag, prop, 'absent' if not present else repr(text), got, exp)
        return None

    def shrink_candidates(self, case):
        return []

    def nontrivial_key(self, case, snap):
        return json.dumps(case, sort_keys=True) if case['state'][0] != 'absent' else None

    def finding_key(self, case, what):
        return re.sub(r'^(reading|assigning .* to|after) \S+', '', re.sub(r"with attribute .*$|'.*$", '', what))[:40] + '/' + case['prop']


CHECK = C19
