(* Search.v — the search entry points: Parser.py getElementsBy* / getElementById / getElementsCustomFilter /
   getFirstElementCustomFilter / find / filter / filterOr (306-540, 641-856), Tags.py element level (1862-2000, 2167-2200)
   and TagCollection level (_subset 2292, 2402-2575, filter* 2640-2735), QueryableList bridge (hand model of
   filterAnd / filterOr for eq, ne, contains, icontains, in). *)
From AHP Require Import Model.Base Model.Str Model.Attr Model.Dom Model.Props Gen.Tables.

(* attribute reads used by the searches *)
Definition attr_of (t : tag) (n : string) : pyv := snd (getAttribute n (attrs (hd_ t))).       (* getAttribute(n) : None when absent *)
Definition attr_str (t : tag) (n : string) : option string := match attr_of t n with PStr x => Some x | _ => None end.
Definition attr_or_empty (t : tag) (n : string) : string :=                                       (* getAttribute(n, '') as text *)
  let a := attrs (hd_ t) in
  let s := sync a in
  let k := lower n in
  if String.eqb k "class" then className a else if String.eqb k "style" then as_str (sty a)
  else if is_binary k then match snd (getAttribute n a) with PStr x => x | PTrue => "True" | _ => "False" end
  else if od_has k (dict s) then match getitem k s with PStr x => x | _ => "None" end else "".
Definition class_list (t : tag) : list string := classes (attrs (hd_ t)).
Definition kids (t : tag) : list tag := tags_of (bs_ t).

(* the predicate family of the correspondence run *)
Inductive pred := PHasAttr (a : string) | PTag (n : string) | PTextContains (s : string) | PNot (p : pred) | PAnd (p q : pred).
Fixpoint sat_pred (p : pred) (t : tag) : bool :=
  match p with
  | PHasAttr a => hasAttribute a (attrs (hd_ t))
  | PTag n => String.eqb (name (hd_ t)) n
  | PTextContains s => containsb s (text (hd_ t))
  | PNot q => negb (sat_pred q t)
  | PAnd a b => sat_pred a t && sat_pred b t
  end.

(* ---- the common recursion shape: test each child, then search below it ---- *)
Fixpoint below (f : tag -> bool) (t : tag) {struct t} : list tag :=
  match t with
  | Tag _ bs => (fix go (l : list (block tag)) : list tag :=
                   match l with
                   | [] => []
                   | BTag c :: r => (if f c then [c] else []) ++ below f c ++ go r
                   | _ :: r => go r
                   end) bs
  end.
(* document level: the root element itself is tested when searching from a real root *)
Definition from_root_search (f : tag -> bool) (root : tag) (from_root : bool) : list tag :=
  (if from_root && f root then [root] else []) ++ below f root.
Fixpoint first_below (f : tag -> bool) (t : tag) {struct t} : option tag :=
  match t with
  | Tag _ bs => (fix go (l : list (block tag)) : option tag :=
                   match l with
                   | [] => None
                   | BTag c :: r => if f c then Some c else match first_below f c with Some x => Some x | None => go r end
                   | _ :: r => go r
                   end) bs
  end.
Definition first_from_root (f : tag -> bool) (root : tag) (from_root : bool) : option tag :=
  if from_root && f root then Some root else first_below f root.

(* ---- criteria ---- *)
Definition pyv_eq_str (v : pyv) (s : string) : bool := match v with PStr x => String.eqb x s | _ => false end.
Definition class_names (q : string) : list string := filter nonempty (map strip (split " " (strip q))).
Definition has_all_classes (names : list string) (t : tag) : bool := forallb (fun n => smem n (class_list t)) names.

(* ---- collection level: _subset with uid de-duplication ---- *)
Fixpoint subset_into (f : tag -> bool) (t : tag) (acc : list tag) {struct t} : list tag :=
  match t with
  | Tag h bs =>
      let acc1 := if f t && negb (existsb (fun x => Nat.eqb (tuid x) (uid h)) acc) then acc ++ [t] else acc in
      (fix go (l : list (block tag)) (acc : list tag) : list tag :=
         match l with [] => acc | BTag c :: r => go r (subset_into f c acc) | _ :: r => go r acc end) bs acc1
  end.
Definition coll_search (f : tag -> bool) (members : list tag) : list tag :=
  fold_left (fun acc m => subset_into f m acc) members [].

(* getAllChildNodes / getAllNodes (pre-order) *)
Fixpoint descendants (t : tag) : list tag :=
  match t with Tag _ bs => (fix go (l : list (block tag)) : list tag :=
                              match l with [] => [] | BTag c :: r => c :: descendants c ++ go r | _ :: r => go r end) bs end.
Definition dedup_tags (l : list tag) : list tag :=
  fold_left (fun acc t => if existsb (fun x => Nat.eqb (tuid x) (tuid t)) acc then acc else acc ++ [t]) l [].

(* ---- find keyword compiler ---- *)
Inductive kwval := KOne (s : string) | KList (l : list string).
Definition ends_with (suffix s : string) : bool := prefix_b (srev suffix) (srev s).
Definition drop_suffix (n : nat) (s : string) : string := srev (drop n (srev s)).
Definition kw_values (v : kwval) : list string := match v with KOne s => [s] | KList l => l end.
Definition field_text (t : tag) (key : string) : string :=
  if String.eqb key "tagname" then name (hd_ t) else if String.eqb key "text" then text (hd_ t) else attr_or_empty t key.
Inductive fres := FOk (f : tag -> bool) | FValueError.
Definition find_test (key0 : string) (v : kwval) : fres :=
  let key := lower key0 in
  let ic := ends_with "__icontains" key in
  let co := ends_with "__contains" key in
  if ic || co then
    let base := drop_suffix (if ic then 11 else 10) key in
    if String.eqb base "tagname" then FValueError
    else FOk (fun t => let x := (if String.eqb base "text" then text (hd_ t) else attr_or_empty t base) in
                       existsb (fun w => if ic then containsb (lower w) (lower x) else containsb w x) (kw_values v))
  else FOk (fun t => smem (field_text t key) (kw_values v)).
Fixpoint find_tests (kws : list (string * kwval)) : option (list (tag -> bool)) :=
  match kws with
  | [] => Some []
  | (k, v) :: r => match find_test k v, find_tests r with FOk f, Some fs => Some (f :: fs) | _, _ => None end
  end.

(* ---- QueryableList: filterAnd / filterOr for eq ne contains icontains in ---- *)
Definition field_value (t : tag) (field : string) : option string :=
  let f := lower field in
  if String.eqb f "tagname" then Some (name (hd_ t)) else if String.eqb f "text" then Some (text (hd_ t))
  else match attr_of t f with PStr x => Some x | PTrue => Some "True" | PFalse => Some "False" | PNone => None end.
Definition ostr_eqb (a : option string) (b : string) : bool := match a with Some x => String.eqb x b | None => false end.
(* the last "__" splits field and operation (greedy field) *)
Fixpoint split_op (s : string) (acc : string) : option (string * string) :=
  (* scans the reversed key for the first "__" *)
  match s with
  | String "_" (String "_" r) => if String.eqb r "" then None else Some (srev r, acc)
  | String c r => split_op r (String c acc)
  | EmptyString => None
  end.
Definition ql_test (key : string) (v : kwval) : option (tag -> bool) :=
  let '(field, op) := match split_op (srev key) "" with Some (f, o) => (f, o) | None => (key, "eq") end in
  let one := match v with KOne s => s | KList _ => "" end in
  if String.eqb op "eq" then Some (fun t => ostr_eqb (field_value t field) one)
  else if String.eqb op "ne" then Some (fun t => negb (ostr_eqb (field_value t field) one))
  else if String.eqb op "contains" then Some (fun t => match field_value t field with Some x => containsb one x | None => false end)
  else if String.eqb op "icontains" then Some (fun t => match field_value t field with Some x => containsb (lower one) (lower x) | None => false end)
  else if String.eqb op "in" then Some (fun t => match field_value t field with Some x => smem x (kw_values v) | None => false end)
  else None.
Fixpoint ql_tests (kws : list (string * kwval)) : option (list (tag -> bool)) :=
  match kws with
  | [] => Some []
  | (k, v) :: r => match ql_test k v, ql_tests r with Some f, Some fs => Some (f :: fs) | _, _ => None end
  end.
Definition ql_filter (isor : bool) (tests : list (tag -> bool)) (nodes : list tag) : list tag :=
  filter (fun t => if isor then existsb (fun f => f t) tests else forallb (fun f => f t) tests) nodes.

(* ---- queries and receivers ---- *)
Inductive query :=
| QTagName (n : string) | QName (n : string) | QClass (s : string) | QAttr (a v : string) | QAttrValues (a : string) (vs : list string)
| QId (i : string) | QCustom (p : pred) | QFirst (p : pred) | QFind (kws : list (string * kwval))
| QFilter (all isor : bool) (kws : list (string * kwval)).
Inductive recv := RDoc | RElem (u : nat) | RColl (us : list nat).
Inductive sres := SList (l : list tag) | SOne (o : option tag) | SUnsupported | SValueError.

Definition criterion (q : query) (lower_names : bool) : option (tag -> bool) :=
  match q with
  | QTagName n => Some (fun t => String.eqb (name (hd_ t)) (if lower_names then lower n else n))
  | QName n => Some (fun t => pyv_eq_str (attr_of t "name") n)
  | QClass s => match class_names s with [] => None | names => Some (has_all_classes names) end
  | QAttr a v => Some (fun t => pyv_eq_str (attr_of t (if lower_names then lower a else a)) v)
  | QAttrValues a vs => Some (fun t => match attr_of t (if lower_names then lower a else a) with PStr x => smem x vs | _ => false end)
  | QId i => Some (fun t => pyv_eq_str (attr_of t "id") i)
  | QCustom p | QFirst p => Some (sat_pred p)
  | _ => None
  end.

(* document-level search: from_root is false for the invisible wrapper *)
Definition doc_query (root : tag) (q : query) : sres :=
  let from_root := negb (String.eqb (name (hd_ root)) invisible_root_tag) in
  let all_nodes := (if from_root then [root] else []) ++ descendants root in
  match q with
  | QFind kws => match kws with
                 | [] => SList []
                 | _ => match find_tests kws with
                        | Some fs => SList (from_root_search (fun t => forallb (fun f => f t) fs) root from_root)
                        | None => SValueError end
                 end
  | QFilter all isor kws => if all then SUnsupported
                            else match ql_tests kws with Some fs => SList (ql_filter isor fs all_nodes) | None => SValueError end
  | QId _ => match criterion q false with Some f => SOne (first_from_root f root from_root) | None => SUnsupported end
  | QFirst _ => match criterion q false with Some f => SOne (first_from_root f root from_root) | None => SUnsupported end
  | _ => match criterion q false with Some f => SList (from_root_search f root from_root) | None => SUnsupported end
  end.
Definition elem_query (e : tag) (q : query) : sres :=
  match q with
  | QTagName _ | QFind _ => SUnsupported
  | QFilter all isor kws => if all then SUnsupported
                            else match ql_tests kws with Some fs => SList (ql_filter isor fs (e :: descendants e)) | None => SValueError end
  | QId _ | QFirst _ => match criterion q false with Some f => SOne (first_below f e) | None => SUnsupported end
  | _ => match criterion q false with Some f => SList (below f e) | None => SUnsupported end
  end.
Definition coll_query (ms : list tag) (q : query) : sres :=
  match q with
  | QFind _ | QFirst _ => SUnsupported
  | QFilter all isor kws =>
      match ql_tests kws with
      | Some fs => SList (ql_filter isor fs (if all then dedup_tags (flat_map (fun m => m :: descendants m) ms) else ms))
      | None => SValueError end
  | QId i => SOne ((fix go (l : list tag) : option tag :=
                      match l with
                      | [] => None
                      | m :: r => if String.eqb (attr_or_empty m "id") i then Some m
                                  else match first_below (fun t => pyv_eq_str (attr_of t "id") i) m with Some x => Some x | None => go r end
                      end) ms)
  | QName n => SList (coll_search (fun t => String.eqb (attr_or_empty t "name") n) ms)
  | QClass s => match class_names s with
                | [] => SList (coll_search (fun t => smem (strip s) (class_list t)) ms)
                | names => SList (coll_search (has_all_classes names) ms) end
  | _ => match criterion q true with Some f => SList (coll_search f ms) | None => SUnsupported end
  end.
