(* C07 — indexes are transparent.  For a well-formed document with unique uids (the C04 invariant, kept by every edit:
   C07_edits_keep_hypotheses) and an index that was rebuilt from it (reindex c doc i0 — what parsing, reindex() and
   setRoot() produce), every indexed search answers exactly what the unindexed search answers from the same root:
   same elements, same order, for every combination of enabled indexes and from every sub-element.
   scope doc sub is the list of elements the unindexed search examines (C06: it returns the filter of that list). *)
From AHP Require Import Model.Base Model.Str Model.Attr Model.Dom Model.Search Model.Index Model.Parser Model.IndexedParser
     Proofs.DomProofs Proofs.SearchProofs Proofs.IndexProofs Proofs.IndexedParserProofs.

Theorem C07_tag_name : forall doc o, WF None o doc -> NoDup (uids_of doc) -> forall c i0 sub sc n,
  scope doc sub = Some sc -> ix_tag c = true ->
  indexed_query c (reindex c doc i0) doc sub true (QTagName n) = plain_query doc sub (QTagName n).
Proof. exact transparent_tagname. Qed.
Theorem C07_name : forall doc o, WF None o doc -> NoDup (uids_of doc) -> forall c i0 sub sc n,
  scope doc sub = Some sc -> ix_name c = true -> n <> "" ->
  indexed_query c (reindex c doc i0) doc sub true (QName n) = plain_query doc sub (QName n).
Proof. exact transparent_name. Qed.
(* one or several class names, any spacing; elements listing a class twice are still returned once *)
Theorem C07_class_names : forall doc o, WF None o doc -> NoDup (uids_of doc) -> forall c i0 sub sc s,
  scope doc sub = Some sc -> ix_class c = true -> class_names s <> [] ->
  indexed_query c (reindex c doc i0) doc sub true (QClass s) = plain_query doc sub (QClass s).
Proof. exact transparent_class. Qed.
Theorem C07_attribute : forall doc o, WF None o doc -> NoDup (uids_of doc) -> forall c i0 sub sc a v m0,
  scope doc sub = Some sc -> od_get a (others i0) = Some m0 ->
  indexed_query c (reindex c doc i0) doc sub true (QAttr a v) = plain_query doc sub (QAttr a v).
Proof. exact transparent_attr. Qed.
Theorem C07_id : forall doc o, WF None o doc -> NoDup (uids_of doc) -> forall c i0 sub sc x,
  scope doc sub = Some sc -> ix_id c = true -> x <> "" ->
  length (filter (fun t => pyv_eq_str (attr_of t "id") x) (all_nodes doc)) <= 1 ->
  indexed_query c (reindex c doc i0) doc sub true (QId x) = plain_query doc sub (QId x).
Proof. exact transparent_id. Qed.
(* several values (not a single-criterion search): the same elements, each once; order is not claimed *)
Theorem C07_attribute_values : forall doc o, WF None o doc -> NoDup (uids_of doc) -> forall c i0 sub sc a vs m0,
  scope doc sub = Some sc -> od_get a (others i0) = Some m0 ->
  exists l1 l2, indexed_query c (reindex c doc i0) doc sub true (QAttrValues a vs) = IList l1
                /\ plain_query doc sub (QAttrValues a vs) = IList l2
                /\ NoDup l1 /\ NoDup l2 /\ forall u, In u l1 <-> In u l2.
Proof. exact transparent_attrvalues. Qed.
(* useIndex=False: the unindexed search itself, whatever the maps hold *)
Theorem C07_use_index_false : forall doc c i sub q,
  (match q with QTagName _ | QName _ | QClass _ | QAttr _ _ | QAttrValues _ _ | QId _ => True | _ => False end) ->
  indexed_query c i doc sub false q = plain_query doc sub q.
Proof. exact no_index_is_plain. Qed.
(* the unindexed side is the filter of the scope (C06), so no answer lies outside the requested subtree *)
Theorem C07_plain_is_scope_filter : forall doc sub sc q f, scope doc sub = Some sc -> criterion q false = Some f ->
  (match q with QTagName _ | QName _ | QClass _ | QAttr _ _ | QAttrValues _ _ => True | _ => False end) ->
  plain_query doc sub q = IList (map tuid (filter f sc)).
Proof. exact plain_list. Qed.
(* the subtree test of the indexed searches (_hasTagInParentLine) holds exactly for the strict descendants *)
Theorem C07_parent_line : forall doc o, WF None o doc -> NoDup (uids_of doc) -> forall r sub, find r doc = Some sub ->
  forall u, below_root doc r u = true <-> In u (map tuid (descendants sub)).
Proof. exact below_root_spec. Qed.
(* what the maps hold after (re)indexing: exactly the matching elements of the document, in document order *)
Theorem C07_tag_map : forall c n, ix_tag c = true -> forall els i,
  mm_get n (tagmap (index_all c els i)) = mm_get n (tagmap i) ++ map tuid (filter (fun t => String.eqb (name (hd_ t)) n) els).
Proof. exact tagmap_all. Qed.
Theorem C07_name_map : forall c n, ix_name c = true -> n <> "" -> forall els i,
  mm_get n (namemap (index_all c els i)) = mm_get n (namemap i) ++ map tuid (filter (fun t => pyv_eq_str (attr_of t "name") n) els).
Proof. exact namemap_all. Qed.
(* reindex starts from empty maps: nothing stale survives, whatever the maps held before *)
Theorem C07_reindex_forgets : forall c doc i i', map fst (others i) = map fst (others i') -> reindex c doc i = reindex c doc i'.
Proof. exact reindex_forgets. Qed.
(* parsing: the index built element by element while the start tags are handled (retry after a multiple-root failure included)
   is the index reindex() builds from the finished tree; the parsed tree is the one the plain parser model builds *)
Theorem C07_parse_time_index : forall c cls i ts1 ts2 s' i' root,
  ifeed c cls i ts1 ts2 = POk (s', i') -> tree_of s' = Some root -> i' = reindex c root i /\ feed cls ts1 ts2 = POk s'.
Proof. exact parse_index_is_reindex. Qed.
(* ... and every parsed document meets the uniqueness hypothesis: its uids are its document-order ranks *)
Theorem C07_parsed_uids_unique : forall cls ts1 ts2 s root, feed cls ts1 ts2 = POk s -> tree_of s = Some root ->
  uids_of root = seq 0 (pnext s) /\ NoDup (uids_of root).
Proof. exact parsed_uids_are_ranks. Qed.
(* the hypotheses are invariants of the edit histories *)
Theorem C07_edits_keep_hypotheses : forall edits doc o, WF None o doc -> NoDup (uids_of doc) ->
  WF None o (fold_left apply_edit edits doc) /\ NoDup (uids_of (fold_left apply_edit edits doc)).
Proof. exact history_inv. Qed.

(* non-vacuity: a concrete document meets the hypotheses, and a sub-element scope exists *)
Definition ex_doc : tag :=
  appendChild_here (appendChild_here (new_tag 2 "b" (fst (intake [("class", Some "x x y")] st0)) false None None)
                                     (new_tag 1 "p" (fst (intake [("id", Some "a")] st0)) false None None))
                   (new_tag 0 "div" st0 false None None).
Example C07_ex_hyp : WF None None ex_doc /\ NoDup (uids_of ex_doc) /\ scope ex_doc (Some 1) <> None.
Proof. split; [apply wfb_sound; vm_compute; reflexivity|]. split; [apply nodup_natb_sound; vm_compute; reflexivity|]. vm_compute. discriminate. Qed.
Example C07_ex_query :
  indexed_query {| ix_id := true; ix_name := true; ix_class := true; ix_tag := true |}
                (reindex {| ix_id := true; ix_name := true; ix_class := true; ix_tag := true |} ex_doc idx0) ex_doc (Some 1) true (QClass " y  x ")
  = IList [2].
Proof. vm_compute. reflexivity. Qed.
