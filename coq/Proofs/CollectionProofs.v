(* Proofs about Model/Collection.v (C18). *)
From AHP Require Import Model.Base Model.Collection.

Definition Inv (c : coll) : Prop := NoDup (items c) /\ (forall u, In u (uids c) <-> In u (items c)).

Lemma mem_In u l : mem u l = true <-> In u l.
Proof. induction l as [|x l IH]; simpl. - split; [discriminate|tauto].
  - rewrite orb_true_iff, Nat.eqb_eq, IH. tauto. Qed.
Lemma mem_nIn u l : mem u l = false <-> ~ In u l.
Proof. rewrite <- mem_In. destruct (mem u l); intuition congruence. Qed.

Lemma inv_empty : Inv cempty. Proof. split; [constructor | intros; simpl; tauto]. Qed.

Lemma NoDup_snoc (l : list nat) u : NoDup (l ++ [u]) <-> NoDup l /\ ~ In u l.
Proof.
  induction l as [|x l IH]; simpl.
  - split; [intros _; split; [constructor|tauto] | intros _; constructor; [simpl; tauto|constructor]].
  - split.
    + intros H. inversion H as [|? ? Hn Hd]; subst. apply IH in Hd as [Hd Hu]. split.
      * constructor; auto. intro Hi. apply Hn. apply in_or_app; auto.
      * intros [->|Hi]; [apply Hn, in_or_app; right; left; reflexivity | auto].
    + intros [H Hu]. inversion H as [|? ? Hn Hd]; subst. constructor.
      * intro Hi. apply in_app_or in Hi as [Hi|[->|[]]]; auto.
      * apply IH. split; auto.
Qed.
Lemma set_add_In x u s : In x (set_add u s) <-> x = u \/ In x s.
Proof. unfold set_add. destruct (mem u s) eqn:E; simpl.
  - apply mem_In in E. split; [auto|intros [->|H]; auto].
  - split; [intros [->|H]; auto | intros [->|H]; auto]. Qed.
Lemma set_remove_In x u s : In x (set_remove u s) <-> In x s /\ x <> u.
Proof. unfold set_remove. rewrite filter_In, negb_true_iff, Nat.eqb_neq. tauto. Qed.
Lemma remove_first_In (l : list nat) u x : NoDup l -> (In x (remove_first u l) <-> In x l /\ x <> u).
Proof.
  induction l as [|y l IH]; simpl; intros Hd; [tauto|]. inversion Hd as [|? ? Hn Hd']; subst.
  destruct (Nat.eqb y u) eqn:E.
  - apply Nat.eqb_eq in E; subst. split.
    + intros Hi. split; auto. intros ->. auto.
    + intros [[->|Hi] Hne]; [congruence|auto].
  - apply Nat.eqb_neq in E. simpl. rewrite (IH Hd'). split.
    + intros [->|[Hi Hne]]; auto.
    + intros [[->|Hi] Hne]; auto.
Qed.
Lemma remove_first_NoDup (l : list nat) u : NoDup l -> NoDup (remove_first u l).
Proof.
  induction l as [|y l IH]; simpl; intros Hd; auto. inversion Hd as [|? ? Hn Hd']; subst.
  destruct (Nat.eqb y u); auto. constructor; auto. rewrite remove_first_In by auto. tauto.
Qed.
Lemma remove_first_filter (l : list nat) u : NoDup l -> remove_first u l = filter (fun x => negb (Nat.eqb x u)) l.
Proof.
  induction l as [|y l IH]; simpl; intros Hd; auto. inversion Hd as [|? ? Hn Hd']; subst.
  destruct (Nat.eqb y u) eqn:E; simpl.
  - apply Nat.eqb_eq in E; subst. symmetry. rewrite <- (filter_ext_in (fun _ => true)).
    + clear. induction l; simpl; congruence.
    + intros a Ha. symmetry. apply negb_true_iff, Nat.eqb_neq. intros ->. auto.
  - now rewrite IH.
Qed.

Lemma inv_append c u : Inv c -> hasTag c u = false -> Inv (append c u).
Proof.
  intros [Hnd Hiff] Hh. unfold hasTag in Hh. apply mem_nIn in Hh.
  split; simpl.
  - apply NoDup_snoc. split; auto. rewrite <- Hiff. exact Hh.
  - intros x. rewrite set_add_In, in_app_iff, Hiff. simpl. intuition.
Qed.

Lemma mem_snoc u l x : mem u (l ++ [x]) = mem u l || Nat.eqb x u.
Proof. induction l; simpl; [now rewrite orb_false_r|]. rewrite IHl. now rewrite orb_assoc. Qed.
Lemma fresh_ext s1 s2 l : (forall u, mem u s1 = mem u s2) -> fresh s1 l = fresh s2 l.
Proof. revert s1 s2. induction l as [|o r IH]; intros s1 s2 H; simpl; auto. rewrite H.
  destruct (mem o s2); auto. f_equal. apply IH. intros u. simpl. now rewrite H. Qed.

Theorem iadd_spec l : forall c, Inv c -> Inv (iadd c l) /\ items (iadd c l) = items c ++ fresh (items c) l.
Proof.
  induction l as [|o r IH]; intros c Hc; simpl.
  - split; auto. now rewrite app_nil_r.
  - unfold iadd in *. simpl. destruct (hasTag c o) eqn:E.
    + destruct (IH c Hc) as [Hi Hs]. split; auto. rewrite Hs.
      assert (mem o (items c) = true) as ->; auto.
      unfold hasTag in E. apply mem_In in E. apply mem_In. now apply Hc.
    + assert (Hn : mem o (items c) = false).
      { unfold hasTag in E. apply mem_nIn in E. apply mem_nIn. intro Hi. apply E. now apply Hc. }
      rewrite Hn. destruct (IH (append c o) (inv_append c o Hc E)) as [Hi Hs]. split; auto.
      rewrite Hs. simpl. rewrite <- app_assoc. simpl. f_equal. f_equal.
      apply fresh_ext. intros u. rewrite mem_snoc. simpl. now rewrite orb_comm.
Qed.

Corollary mk_spec l : Inv (mk l) /\ items (mk l) = dedup l.
Proof. destruct (iadd_spec l cempty inv_empty) as [H1 H2]. split; auto. Qed.

Lemma fresh_disjoint : forall l seen, NoDup l -> (forall x, In x l -> ~ In x seen) -> fresh seen l = l.
Proof.
  induction l as [|o r IH]; intros seen Hd Hdisj; simpl; auto.
  inversion Hd as [|? ? Hn Hd']; subst.
  assert (mem o seen = false) as -> by (apply mem_nIn, Hdisj; left; reflexivity).
  f_equal. apply IH; auto. intros x Hx [->|Hs]; [auto| apply (Hdisj x); auto; right; auto].
Qed.
Lemma dedup_nodup_id l : NoDup l -> dedup l = l.
Proof. intros Hd. apply fresh_disjoint; auto. Qed.

(* "+" keeps the ordered-set invariant for ANY operand list and appends exactly the new elements once, in order *)
Theorem add_spec c l : Inv c -> Inv (add c l) /\ items (add c l) = items c ++ fresh (items c) l.
Proof.
  intros Hc. unfold add. destruct (mk_spec (items c)) as [Hm Hi].
  rewrite (dedup_nodup_id _ (proj1 Hc)) in Hi.
  destruct (iadd_spec l (mk (items c)) Hm) as [H1 H2]. split; auto. now rewrite H2, Hi.
Qed.

Lemma filter_filter' (f g : nat -> bool) l : filter f (filter g l) = filter (fun x => g x && f x) l.
Proof. induction l as [|a l IH]; simpl; auto. destruct (g a); simpl; [destruct (f a); simpl; congruence | auto]. Qed.

(* "-=" / "-" never raise, keep the invariant, remove exactly the named elements *)
Theorem isub_spec l : forall c, Inv c ->
  exists c', isub c l = COk c' /\ Inv c' /\ items c' = filter (fun x => negb (mem x l)) (items c).
Proof.
  induction l as [|o r IH]; intros c Hc; simpl.
  - exists c. split; [reflexivity|]. split; [exact Hc|]. clear. induction (items c) as [|a l IHl]; simpl; congruence.
  - destruct (hasTag c o) eqn:E.
    + unfold hasTag in E. unfold remove. rewrite E.
      assert (Hin : mem o (items c) = true) by (apply mem_In, Hc, mem_In, E). rewrite Hin.
      set (c1 := {| items := remove_first o (items c); uids := set_remove o (uids c) |}).
      assert (Hc1 : Inv c1).
      { split; simpl. - apply remove_first_NoDup, Hc.
        - intros u. rewrite set_remove_In, remove_first_In by apply Hc. destruct Hc as [_ Hiff]. rewrite Hiff. tauto. }
      destruct (IH c1 Hc1) as (c' & H1 & H2 & H3). exists c'. split; [exact H1|]. split; [exact H2|].
      rewrite H3. simpl. rewrite remove_first_filter by apply Hc. rewrite filter_filter'.
      apply filter_ext. intros x. rewrite negb_orb. rewrite (Nat.eqb_sym o x). reflexivity.
    + destruct (IH c Hc) as (c' & H1 & H2 & H3). exists c'. split; [exact H1|]. split; [exact H2|].
      rewrite H3. apply filter_ext_in. intros x Hx.
      assert (Nat.eqb o x = false) as ->; auto.
      apply Nat.eqb_neq. intros ->. unfold hasTag in E. apply mem_nIn in E. apply E. now apply Hc.
Qed.

Theorem sub_spec c l : Inv c ->
  exists c', sub c l = COk c' /\ Inv c' /\ items c' = filter (fun x => negb (mem x l)) (items c).
Proof.
  intros Hc. unfold sub. destruct (mk_spec (items c)) as [Hm Hi].
  rewrite (dedup_nodup_id _ (proj1 Hc)) in Hi.
  destruct (isub_spec l (mk (items c)) Hm) as (c' & H1 & H2 & H3). exists c'. split; [exact H1|]. split; [exact H2|]. now rewrite H3, Hi.
Qed.

(* ---------------- trees ---------------- *)
Section TrInd.
  Variable P : tr -> Prop.
  Hypothesis H : forall u kids, Forall P kids -> P (T u kids).
  Fixpoint tr_ind' (t : tr) : P t :=
    match t with
    | T u kids => H u kids ((fix go (ks : list tr) : Forall P ks :=
                              match ks with [] => Forall_nil P | k :: r => Forall_cons k (tr_ind' k) (go r) end) kids)
    end.
End TrInd.

Definition pre_kids (ks : list tr) : list nat := flat_map (fun k => tuid k :: pre k) ks.
Lemma pre_unfold u ks : pre (T u ks) = pre_kids ks. Proof. reflexivity. Qed.

Lemma NoDup_app_inv {A} (l1 l2 : list A) : NoDup (l1 ++ l2) -> NoDup l1 /\ NoDup l2 /\ (forall x, In x l2 -> ~ In x l1).
Proof.
  induction l1 as [|a l1 IH]; simpl; intros Hd.
  - repeat split; auto. constructor.
  - inversion Hd as [|? ? Hn Hd']; subst. destruct (IH Hd') as (H1 & H2 & H3). repeat split; auto.
    + constructor; auto. intro Hi. apply Hn, in_or_app; auto.
    + intros x Hx [->|Hi]; [apply Hn, in_or_app; auto | eapply H3; eauto].
Qed.

Lemma NoDup_app_intro {A} (l1 l2 : list A) : NoDup l1 -> NoDup l2 -> (forall x, In x l2 -> ~ In x l1) -> NoDup (l1 ++ l2).
Proof.
  induction l1 as [|a l1 IH]; simpl; intros H1 H2 Hd; auto. inversion H1; subst. constructor.
  - intro Hi. apply in_app_or in Hi as [Hi|Hi]; auto. apply (Hd a); simpl; auto.
  - apply IH; auto. intros x Hx Hi. apply (Hd x); simpl; auto.
Qed.

(* getAllChildNodes lists the strict descendants in document (pre-)order, each once *)
Theorem all_child_nodes_spec t : NoDup (pre t) -> Inv (all_child_nodes t) /\ items (all_child_nodes t) = pre t.
Proof.
  induction t as [u kids IHk] using tr_ind'. intros Hd. rewrite pre_unfold in *. simpl.
  assert (G : forall ks acc, Forall (fun t => NoDup (pre t) -> Inv (all_child_nodes t) /\ items (all_child_nodes t) = pre t) ks ->
             Inv acc -> NoDup (items acc ++ pre_kids ks) ->
             let r := (fix go (ks : list tr) (acc : coll) : coll :=
                match ks with [] => acc | k :: r => go r (iadd (append acc (tuid k)) (items (all_child_nodes k))) end) ks acc in
             Inv r /\ items r = items acc ++ pre_kids ks).
  { clear. induction ks as [|k ks IH]; intros acc HF Hacc Hnd; simpl.
    - split; auto. now rewrite app_nil_r.
    - inversion HF as [|? ? Hk HF']; subst. simpl in Hnd.
      apply NoDup_app_inv in Hnd as (Ha & Hrest & Hdisj).
      inversion Hrest as [|? ? Hku Hrest']; subst.
      apply NoDup_app_inv in Hrest' as (Hpk & Hpks & Hdisj2).
      destruct (Hk Hpk) as [Hik Hitems].
      assert (Hfresh : hasTag acc (tuid k) = false).
      { unfold hasTag. apply mem_nIn. intro Hi. apply Hacc in Hi. apply (Hdisj (tuid k)); simpl; auto. }
      pose proof (inv_append acc (tuid k) Hacc Hfresh) as Hinv1.
      destruct (iadd_spec (items (all_child_nodes k)) _ Hinv1) as [Hinv2 Hit2].
      rewrite Hitems in *.
      assert (Hf : fresh (items (append acc (tuid k))) (pre k) = pre k).
      { apply fresh_disjoint; auto. simpl. intros x Hx Hi. apply in_app_or in Hi as [Hi|[<-|[]]].
        - apply (Hdisj x); auto. simpl. right. apply in_or_app; auto.
        - apply Hku, in_or_app; auto. }
      rewrite Hf in Hit2.
      specialize (IH (iadd (append acc (tuid k)) (pre k)) HF' Hinv2).
      rewrite Hit2 in IH. simpl in IH. rewrite <- !app_assoc in IH. simpl in IH.
      destruct IH as [I1 I2].
      + apply NoDup_app_intro; auto.
      + split; auto. }
  destruct (G kids cempty IHk inv_empty Hd) as [G1 G2]. split; auto.
Qed.

Theorem all_nodes_spec t : NoDup (pre_self t) -> Inv (all_nodes t) /\ items (all_nodes t) = pre_self t.
Proof.
  intros Hd. unfold pre_self in *. inversion Hd as [|? ? Hn Hd']; subst.
  destruct (all_child_nodes_spec t Hd') as [H1 H2]. unfold all_nodes.
  destruct (mk_spec [tuid t]) as [M1 M2]. simpl in M2.
  destruct (iadd_spec (items (all_child_nodes t)) _ M1) as [I1 I2]. split; auto.
  rewrite I2, M2, H2. simpl. f_equal. apply fresh_disjoint; auto. simpl. intros x Hx [<-|[]]. auto.
Qed.

Lemma mem_app u l1 l2 : mem u (l1 ++ l2) = mem u l1 || mem u l2.
Proof. induction l1 as [|a l IH]; simpl; auto. now rewrite IH, orb_assoc. Qed.

Theorem contains_uid_spec t u : contains_uid t u = mem u (pre_self t).
Proof.
  induction t as [v kids IHk] using tr_ind'. simpl. f_equal.
  induction kids as [|k ks IH]; simpl; auto. inversion IHk as [|? ? Hk Hks]; subst.
  rewrite Hk, (IH Hks). unfold pre_self. simpl.
  rewrite mem_app, orb_assoc. reflexivity.
Qed.

(* identity *)
Theorem tag_eq_spec a b : icls a = icls b -> (tag_eq a b = true <-> iuid a = iuid b).
Proof. intros E. unfold tag_eq. rewrite E, Nat.eqb_refl. simpl. apply Nat.eqb_eq. Qed.
Theorem tag_eq_hash a b : tag_eq a b = true -> tag_hash a = tag_hash b.
Proof. unfold tag_eq, tag_hash. intros H. apply andb_true_iff in H as [_ H]. now apply Nat.eqb_eq. Qed.
Theorem tag_ne_spec a b : tag_ne a b = negb (tag_eq a b).
Proof. unfold tag_ne, tag_eq. destruct (Nat.eqb (icls a) (icls b)); reflexivity. Qed.

(* ---------------- collection level ---------------- *)
Lemma iadd_app c l1 l2 : iadd (iadd c l1) l2 = iadd c (l1 ++ l2).
Proof. unfold iadd. now rewrite fold_left_app. Qed.

Definition members_pre (w : list tr) (ms : list nat) : list nat :=
  flat_map (fun u => u :: items (all_child_nodes (elem w u))) ms.

Lemma coll_all_nodes_fold w ms : forall acc,
  fold_left (fun ret u => iadd (iadd ret [u]) (items (all_child_nodes (elem w u)))) ms acc = iadd acc (members_pre w ms).
Proof.
  induction ms as [|m ms IH]; intros acc; [reflexivity|].
  cbn [fold_left]. rewrite IH. unfold members_pre. cbn [flat_map]. rewrite !iadd_app. f_equal.
Qed.

(* TagCollection.getAllNodes: members and their descendants, each once, in order of first discovery *)
Theorem coll_all_nodes_spec w c :
  Inv (coll_all_nodes w c) /\ items (coll_all_nodes w c) = dedup (members_pre w (items c)).
Proof.
  unfold coll_all_nodes. rewrite coll_all_nodes_fold.
  destruct (iadd_spec (members_pre w (items c)) cempty inv_empty) as [H1 H2]. split; auto.
Qed.
Lemma members_pre_wf w ms :
  (forall m, In m ms -> NoDup (pre (elem w m)) /\ tuid (elem w m) = m) ->
  members_pre w ms = flat_map (fun u => pre_self (elem w u)) ms.
Proof.
  induction ms as [|m ms IH]; intros H; simpl; auto.
  destruct (H m (or_introl eq_refl)) as [Hd Hu].
  destruct (all_child_nodes_spec _ Hd) as [_ ->]. unfold pre_self at 1. rewrite Hu. simpl. f_equal. f_equal.
  apply IH. intros x Hx. apply H. now right.
Qed.

Theorem coll_contains_uid_spec w c u :
  coll_contains_uid w c u = existsb (fun m => mem u (pre_self (elem w m))) (items c).
Proof.
  unfold coll_contains_uid. induction (items c) as [|m ms IH]; simpl; auto.
  now rewrite contains_uid_spec, IH.
Qed.

Lemma fold_set_add_In l : forall s x, In x (fold_left (fun s u => set_add u s) l s) <-> In x l \/ In x s.
Proof.
  induction l as [|a l IH]; intros s x; simpl; [tauto|]. rewrite IH, set_add_In. intuition.
Qed.

Theorem all_child_uids_spec t x : In x (all_child_uids t) <-> In x (pre t).
Proof.
  revert x. induction t as [u kids IHk] using tr_ind'. intros x. rewrite pre_unfold. simpl.
  assert (G : forall ks acc, Forall (fun t => forall x, In x (all_child_uids t) <-> In x (pre t)) ks ->
     In x ((fix go (ks : list tr) (acc : list nat) : list nat :=
       match ks with [] => acc
       | k :: r => go r (fold_left (fun s u => set_add u s) (all_child_uids k) (set_add (tuid k) acc)) end) ks acc)
     <-> In x acc \/ In x (pre_kids ks)).
  { clear. induction ks as [|k ks IH]; intros acc HF; simpl; [tauto|].
    inversion HF as [|? ? Hk HF']; subst. rewrite IH by auto. rewrite fold_set_add_In, set_add_In, Hk, in_app_iff.
    intuition. }
  rewrite G by auto. simpl. tauto.
Qed.
Theorem all_node_uids_spec t x : In x (all_node_uids t) <-> In x (pre_self t).
Proof. unfold all_node_uids, pre_self. rewrite fold_set_add_In, all_child_uids_spec. simpl. intuition. Qed.

Theorem coll_all_node_uids_spec w c x :
  In x (coll_all_node_uids w c) <-> exists m, In m (items c) /\ In x (pre_self (elem w m)).
Proof.
  unfold coll_all_node_uids.
  assert (G : forall ms s, In x (fold_left (fun s u => fold_left (fun s x => set_add x s) (all_node_uids (elem w u)) s) ms s)
            <-> In x s \/ exists m, In m ms /\ In x (pre_self (elem w m))).
  { induction ms as [|m ms IH]; intros s; simpl.
    - split; [auto | intros [H|(m & [] & _)]; auto].
    - rewrite IH, fold_set_add_In, all_node_uids_spec. split.
      + intros [[H|H]|(m' & H1 & H2)]; eauto 6.
      + intros [H|(m' & [<-|H1] & H2)]; eauto 6. }
  rewrite G. simpl. split; [intros [[]|H]; auto | auto].
Qed.

Theorem unique_tags_spec l : Inv (unique_tags l) /\ items (unique_tags l) = dedup l.
Proof. apply mk_spec. Qed.

(* what the specification lists mean *)
Lemma fresh_In seen l x : In x (fresh seen l) <-> In x l /\ ~ In x seen.
Proof.
  revert seen. induction l as [|o r IH]; intros seen; simpl; [tauto|].
  destruct (mem o seen) eqn:E.
  - apply mem_In in E. rewrite IH. split; [tauto|]. intros [[<-|H] Hn]; tauto.
  - apply mem_nIn in E. simpl. rewrite IH. simpl. split.
    + intros [<-|[H1 H2]]; auto.
    + intros [[<-|H] Hn]; auto. destruct (Nat.eq_dec o x); auto. right. tauto.
Qed.
Lemma fresh_NoDup seen l : NoDup (fresh seen l).
Proof.
  revert seen. induction l as [|o r IH]; intros seen; simpl; [constructor|].
  destruct (mem o seen); auto. constructor; auto. rewrite fresh_In. simpl. tauto.
Qed.

(* ---------- histories: any sequence of the four operators from any constructor call ---------- *)
Inductive cop := OIAdd (l : list nat) | OAdd (l : list nat) | OISub (l : list nat) | OSub (l : list nat).
Definition cstep (c : cres) (o : cop) : cres :=
  match c with
  | COk c => match o with OIAdd l => COk (iadd c l) | OAdd l => COk (add c l) | OISub l => isub c l | OSub l => sub c l end
  | e => e
  end.
(* the abstract ordered set: a duplicate-free list *)
Definition astep (s : list nat) (o : cop) : list nat :=
  match o with
  | OIAdd l | OAdd l => s ++ fresh s l
  | OISub l | OSub l => filter (fun x => negb (mem x l)) s
  end.
Lemma cstep_refines c o : Inv c -> exists c', cstep (COk c) o = COk c' /\ Inv c' /\ items c' = astep (items c) o.
Proof.
  intros H. destruct o as [l|l|l|l]; cbn [cstep astep].
  - destruct (iadd_spec l c H) as [H1 H2]. eauto.
  - destruct (add_spec c l H) as [H1 H2]. eauto.
  - exact (isub_spec l c H).
  - exact (sub_spec c l H).
Qed.
Theorem history_refines : forall ops c, Inv c ->
  exists c', fold_left cstep ops (COk c) = COk c' /\ Inv c' /\ items c' = fold_left astep ops (items c).
Proof.
  induction ops as [|o r IH]; intros c H; cbn [fold_left]; [eauto|].
  destruct (cstep_refines c o H) as (c1 & E & H1 & I1). rewrite E. destruct (IH c1 H1) as (c' & E' & H' & I'). rewrite I1 in I'. eauto.
Qed.
Corollary history_from_ctor l0 ops :
  exists c', fold_left cstep ops (COk (mk l0)) = COk c' /\ Inv c' /\ items c' = fold_left astep ops (dedup l0).
Proof. destruct (mk_spec l0) as [H E]. rewrite <- E. now apply history_refines. Qed.
