(* C05 — each mutation has exactly its documented effect; failed calls change nothing.
   Refines cw rw: forgetting the redundant fields of the new world gives the reference document's new state, and the
   return values are equal.  The reference document (Spec/RefDoc.v) is a plain list-of-blocks tree. *)
From AHP Require Import Model.Base Model.Str Model.Attr Model.Dom Spec.RefDoc Proofs.DomProofs Proofs.RefDocProofs Proofs.RemoveProofs.

Theorem C05_appendText : forall w t s, Refines (appendText w t s) (r_appendText (absw w) t s).
Proof. exact appendText_refines. Qed.
Theorem C05_appendChild : forall w t c, Refines (appendChild w t c) (r_appendChild (absw w) t c).
Proof. exact appendChild_refines. Qed.
Theorem C05_appendBlock : forall w t b, Refines (appendBlock w t b) (r_appendBlock (absw w) t b).
Proof. exact appendBlock_refines. Qed.
Theorem C05_appendBlocks : forall t bs w, Refines (appendBlocks w t bs) (r_appendBlocks (absw w) t bs).
Proof. exact appendBlocks_refines. Qed.
Theorem C05_insert : forall after w t child ref, Refines (insert_rel after w t child ref) (r_insert_rel after (absw w) t child ref).
Proof. exact insert_rel_refines. Qed.
Theorem C05_removeChild : forall w t c, WFw w -> Refines (removeChild w t c) (r_removeChildW (absw w) t c).
Proof. exact removeChild_refines. Qed.
Theorem C05_removeChildren : forall t cs w acc, WFw w -> Refines (removeChildren w t cs acc) (r_removeChildren (absw w) t cs acc).
Proof. exact removeChildren_refines. Qed.
Theorem C05_removeText : forall w t s, Refines (removeText w t s) (r_removeTextW (absw w) t s).
Proof. exact removeText_refines. Qed.
Theorem C05_removeTextAll : forall w t s, Refines (removeTextAll w t s) (r_removeTextAllW (absw w) t s).
Proof. exact removeTextAll_refines. Qed.
Theorem C05_removeBlock : forall w t b, WFw w -> Refines (removeBlock w t b) (r_removeBlock (absw w) t b).
Proof. exact removeBlock_refines. Qed.
Theorem C05_removeBlocks : forall t bs w acc, WFw w -> Refines (removeBlocks w t bs acc) (r_removeBlocks (absw w) t bs acc).
Proof. exact removeBlocks_refines. Qed.
(* remove(): the element is taken out of the element that has it among its blocks - which is the one its parentNode link names,
   in every well-formed world with unique uids (the reference document has no parent links and searches structurally) *)
Theorem C05_remove : forall w c, WFw w -> NoDup (world_uids w) -> Refines (remove_ w c) (r_remove (absw w) c).
Proof. exact remove_refines. Qed.
(* failed calls leave the whole world as it was *)
Theorem C05_atomic_bad_reference : forall after w t child r h bs,
  wfind t w = Some (Tag h bs) -> index_of r bs = None -> insert_rel after w t child (Some r) = (w, RValueError).
Proof. exact insert_bad_reference. Qed.
Theorem C05_atomic_ValueError : forall after w t child ref,
  snd (insert_rel after w t child ref) = RValueError -> fst (insert_rel after w t child ref) = w.
Proof. exact insert_ValueError_atomic. Qed.
Theorem C05_atomic_non_child : forall w t c h bs, wfind t w = Some (Tag h bs) -> find_child c bs = None -> removeChild w t c = (w, RNone).
Proof. exact removeChild_non_child. Qed.
Theorem C05_atomic_None : forall w t c, snd (removeChild w t c) = RNone -> fst (removeChild w t c) = w.
Proof. exact removeChild_None_atomic. Qed.
Theorem C05_atomic_appendChild_None : forall w t, step w (OAppendChildNone t) = (w, RKeyError).
Proof. exact appendChild_None_atomic. Qed.

Example C05_ex :
  let w := mk_world true [DStart "div" false; DData "xx"; DStart "a" false; DEnd "a"; DEnd "div"] [("s1", false)] in
  fst (rstep (absw w) (ORemoveText 0 "x")) = absw (fst (step w (ORemoveText 0 "x")))
  /\ snd (step w (ORemoveText 0 "x")) = RStr "xx" /\ wfwb w = true.
Proof. vm_compute. auto. Qed.
