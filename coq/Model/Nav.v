(* Nav.v — the navigation properties of Tags.py (firstChild 930, firstElementChild 951, lastChild 965, lastElementChild 985,
   nextSibling 999, nextElementSibling 1025, previousSibling, previousElementSibling, getPeers 1342, childElementCount 1405),
   as the code computes them: through parentNode, and the blocks list or the children list of the parent. *)
From AHP Require Import Model.Base Model.Str Model.Attr Model.Dom.

Inductive nres := NNone | NText (s : string) | NTag (u : nat) | NExc.
Definition blk_res (b : block tag) : nres := match b with BText s => NText s | BTag c => NTag (tuid c) end.
(* list.index(self): elements compare by uid *)
Fixpoint block_index (u : nat) (l : list (block tag)) (i : nat) : option nat :=
  match l with
  | [] => None
  | BTag c :: r => if Nat.eqb (tuid c) u then Some i else block_index u r (S i)
  | _ :: r => block_index u r (S i)
  end.
Fixpoint nat_index (u : nat) (l : list nat) (i : nat) : option nat :=
  match l with [] => None | x :: r => if Nat.eqb x u then Some i else nat_index u r (S i) end.
Definition parent_tag (w : world) (t : tag) : option tag := match parent (hd_ t) with Some p => wfind p w | None => None end.

Definition next_sibling (w : world) (t : tag) : nres :=
  match parent_tag w t with
  | None => NNone
  | Some p => match block_index (tuid t) (bs_ p) 0 with
              | None => NExc                                        (* blocks.index raises ValueError *)
              | Some i => if Nat.eqb i (length (bs_ p) - 1) then NNone
                          else match nth_error (bs_ p) (S i) with Some b => blk_res b | None => NExc end
              end
  end.
Definition previous_sibling (w : world) (t : tag) : nres :=
  match parent_tag w t with
  | None => NNone
  | Some p => match block_index (tuid t) (bs_ p) 0 with
              | None => NExc
              | Some 0 => NNone
              | Some (S i) => match nth_error (bs_ p) i with Some b => blk_res b | None => NExc end
              end
  end.
Definition next_element_sibling (w : world) (t : tag) : nres :=
  match parent_tag w t with
  | None => NNone
  | Some p => let ch := children (hd_ p) in
              match nat_index (tuid t) ch 0 with
              | None => NExc
              | Some i => if Nat.eqb i (length ch - 1) then NNone else match nth_error ch (S i) with Some u => NTag u | None => NExc end
              end
  end.
Definition previous_element_sibling (w : world) (t : tag) : nres :=
  match parent_tag w t with
  | None => NNone
  | Some p => let ch := children (hd_ p) in
              match nat_index (tuid t) ch 0 with
              | None => NExc
              | Some 0 => NNone
              | Some (S i) => match nth_error ch i with Some u => NTag u | None => NExc end
              end
  end.
(* the first block is skipped when it is the empty text the constructor puts there *)
Definition first_idx (bs : list (block tag)) : option nat :=
  match bs with [] => None | BText s :: _ => Some (if String.eqb s "" then 1 else 0) | BTag _ :: _ => Some 0 end.
Definition first_child (t : tag) : nres :=
  match first_idx (bs_ t) with
  | None => NExc                                                     (* blocks[0] on an empty list *)
  | Some i => if Nat.eqb (length (bs_ t)) i then NNone else match nth_error (bs_ t) i with Some b => blk_res b | None => NNone end
  end.
Definition last_child (t : tag) : nres :=
  match first_idx (bs_ t) with
  | None => NExc
  | Some i => if Nat.leb (length (bs_ t)) i then NNone else match rev (bs_ t) with b :: _ => blk_res b | [] => NNone end
  end.
Definition first_element_child (t : tag) : nres := match children (hd_ t) with [] => NNone | u :: _ => NTag u end.
Definition last_element_child (t : tag) : nres := match rev (children (hd_ t)) with [] => NNone | u :: _ => NTag u end.
Definition peers (w : world) (t : tag) : option (list nat) :=
  match parent_tag w t with None => None | Some p => Some (filter (fun u => negb (Nat.eqb u (tuid t))) (children (hd_ p))) end.
Definition child_element_count (t : tag) : nat := length (children (hd_ t)).
