(* C04 — DOM structural invariants hold after any history of mutations.
   WF p o t: the element's parent/owner links are p/o, its children list is exactly the element entries of its block
   list (same order), its text is the concatenation of its text blocks, it is not self-closing when it has text or
   children, and all of this holds below it with itself as parent and the same owner.
   WFw w: the document root is parentless with one owner throughout; every detached/removed root is parentless and
   owned by no document throughout.  Statements only; proofs in Proofs/DomProofs.v. *)
From AHP Require Import Model.Base Model.Str Model.Attr Model.Dom Model.Nav Proofs.DomProofs Proofs.NavProofs.
From Coq Require Import Permutation.

(* one call of any public mutator (failing calls included) keeps every reachable element within the invariant *)
Theorem C04_step : forall w o, WFw w -> WFw (fst (step w o)).
Proof. exact step_WFw. Qed.
(* ... hence every reachable state of every history *)
Theorem C04_reachable : forall ops w, WFw w -> WFw (fold_left (fun w o => fst (step w o)) ops w).
Proof. exact history_WFw. Qed.
(* the starting points: any token sequence built by the parser or through the DOM API, plus fresh spare elements *)
Theorem C04_seed : forall po ts spares, WFw (mk_world po ts spares).
Proof. exact mk_world_WFw. Qed.
Theorem C04_seed_tree : forall own ts, match fst (dbuild own ts) with Some t => WF None own t | None => True end.
Proof. exact dbuild_WF. Qed.
(* no element is created, lost, duplicated or put under two parents: the multiset of uids is unchanged by the calls
   that move elements (precondition of the property: the child is a detached root, the target lies outside it) *)
Theorem C04_appendChild_uids : forall w t c ct w' x, NoDup (world_uids w) -> take_detached c w = Some (ct, w') -> wfind t w' = Some x ->
  Permutation (world_uids (fst (appendChild w t c))) (world_uids w).
Proof. exact appendChild_uids. Qed.
Theorem C04_insert_uids : forall after w t c r h bs bi0 ct w' x, NoDup (world_uids w) ->
  wfind t w = Some (Tag h bs) -> index_of r bs = Some bi0 -> take_detached c w = Some (ct, w') -> wfind t w' = Some x ->
  Permutation (world_uids (fst (insert_rel after w t (KTag c) (Some r)))) (world_uids w).
Proof. exact insertTag_uids. Qed.
Theorem C04_removeChild_uids : forall w t c, NoDup (world_uids w) -> Permutation (world_uids (fst (removeChild w t c))) (world_uids w).
Proof. exact removeChild_uids. Qed.
(* navigation (Model/Nav.v transcribes the properties as coded: element siblings through the children list, node siblings
   through the block list): under the invariant both describe one order - nextElementSibling is the first element among the
   blocks that follow - and next / previous are inverse along a block list without repeated elements *)
Theorem C04_next_element_sibling : forall w p t pp o, parent_tag w t = Some p -> WF pp o p -> forall i,
  block_index (tuid t) (bs_ p) 0 = Some i ->
  next_element_sibling w t = match tags_of (skipn (S i) (bs_ p)) with c :: _ => NTag (tuid c) | [] => NNone end.
Proof. exact next_element_is_next_tag_block. Qed.
Theorem C04_positions_agree : forall u bs i, block_index u bs 0 = Some i ->
  nat_index u (map tuid (tags_of bs)) 0 = Some (count_tags i bs) /\ (exists c, nth_error bs i = Some (BTag c) /\ tuid c = u)
  /\ tags_of (skipn (S i) bs) = skipn (S (count_tags i bs)) (tags_of bs).
Proof. exact index_agree. Qed.
Theorem C04_next_previous_inverse : forall bs u i c, NoDup (map tuid (tags_of bs)) ->
  block_index u bs 0 = Some i -> nth_error bs (S i) = Some (BTag c) -> block_index (tuid c) bs 0 = Some (S i).
Proof. exact next_previous_inverse. Qed.

(* the decidable form of the invariant is sound (it is evaluated by the kernel on every correspondence case) *)
Theorem C04_checker_sound : forall w, wfwb w = true -> WFw w.
Proof. exact wfwb_sound. Qed.

(* non-vacuity: a parsed 6-node document with spares, after a history that appends, inserts and removes *)
Example C04_ex :
  let w := mk_world true [DStart "div" false; DStart "a" false; DData "x"; DEnd "a"; DData "yy"; DStart "br" false;
                          DStart "b" true; DStart "p" false; DStart "i" false; DEnd "i"; DEnd "p"; DEnd "div"]
                    [("s1", false); ("s2", true)] in
  let w' := fold_left (fun w o => fst (step w o))
              [OInsertBefore 1 (KTag 6) (Some (KText "x")); OAppendText 7 "q"; ORemove 4; OInsertAfter 0 (KTag 7) (Some (KText "yy"))] w in
  wfwb w = true /\ wfwb w' = true /\ nodup_natb (world_uids w') = true /\ length (world_uids w') = 8.
Proof. vm_compute. auto. Qed.
