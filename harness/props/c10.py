"""C10 - the style attribute and the style object are one state seen three ways."""
import itertools
import json
import re

from harness import core
from harness.core import clist
from harness.props import attrs_common as ac
from harness.props.c08 import snapshot

PROPS = [('display', 'display'), ('color', 'color'), ('paddingTop', 'padding-top'), ('fontWeight', 'font-weight'),
         ('float', 'float'), ('marginLeft', 'margin-left')]
VALUES = ['block', '5px', 'bold', 'red', '', 'left']
STRINGS = ['', 'display: block', 'color:red;float:left', ' padding-top : 5px ; ', 'a:b;a:c', 'Color: RED', 'display: none;;']
COPY_SRC = 'color: blue; margin-left: 2px'


def camel2dash(s):
    return ''.join('-' + ch.lower() if ch.isupper() else ch for ch in s)


def parse_style(s):
    d = []
    for item in s.strip().split(';'):
        if ':' not in item:
            continue
        i = item.index(':')
        n, v = item[:i].strip().lower(), item[i + 1:].strip()
        for e in d:
            if e[0] == n:
                e[1] = v
                break
        else:
            d.append([n, v])
    return d


def render(d):
    return '; '.join('%s: %s' % (n, v) for n, v in d)


class C10(core.Check):
    ID = 'C10'
    RUN_MODULE = 'Corr.Run_Attr'
    RUN_FN = 'run_attr'
    CASE_TYPE = '((origin * list (string * option string)) * bool * list op)'
    SHARD = 250
    RULE = ('write histories over the style of one element: style.<camel>=, style.setProperty, setStyle, setStyles, style=<string>, '
            'style=<other element\'s style>, setAttribute/removeAttribute("style"), attributes["style"]=/del, interleaved synchronising reads; '
            '6 properties (single-word and camelCase/dash pairs) x values {block,5px,bold,red,"",left} and 7 whole-style strings; elements direct, '
            'parsed, cloned, unpickled; all views snapshotted after each write. quick: exhaustive length 1, sampled 2-3, random <=25; thorough: '
            'exhaustive 2, sampled 3. non-trivial = the style mapping changes at least once')
    TRUSTED = ['str.strip/split/lower/isupper on ASCII as transcribed in Model/Str.v', 'html.parser for the re-parse view (oracle only)']
    ASSUMPTIONS = ['values are trimmed and contain no ";"; whole-style strings contain at least one well-formed declaration or are empty']
    PARTIAL = ['non-aliasing after copying a style, style equality ignoring order and the re-parse view are checked by the oracle on every '
               'history; in the functional model non-aliasing holds by construction']

    def _alphabet(self):
        ops = []
        for camel, dash in PROPS:
            for v in VALUES:
                ops += [['styleDot', camel, v], ['setProperty', dash, v], ['setStyle', dash, v], ['styleDot', dash, v] if '-' not in dash else ['setStyles', [[dash, v]]]]
                if camel != dash:
                    ops += [['setStyle', camel, v], ['setStyles', [[camel, v]]]]          # camelCase names through the element-level setters
        for s in STRINGS:
            ops += [['styleAssign', s], ['setAttribute', 'style', s], ['setitem', 'style', s]]
        ops += [['removeAttribute', 'style'], ['delitem', 'style'], ['styleCopy', COPY_SRC]]
        return ops

    def generate(self):
        rng = self.rng
        alpha = self._alphabet()
        seeds = [('direct', []), ('parsed', [['style', 'color: red; display:block']]), ('cloned', [['style', 'float:left']]),
                 ('unpickled', [['style', 'padding-top: 5px'], ['id', 'i']]), ('parsed', [['style', '']]), ('direct', [['STYLE', 'Color: RED']])]
        cases = [dict(origin=sd[0], attrs=sd[1], ops=[]) for sd in seeds]
        n_ex = 0
        maxk = 1 if self.tier == 'quick' else 2
        for k in range(1, maxk + 1):
            for combo in itertools.product(alpha, repeat=k):
                for sd in (seeds[:2] if k == 1 else seeds[:1]):
                    cases.append(dict(origin=sd[0], attrs=sd[1], ops=[list(o) for o in combo]))
                    n_ex += 1
        # a whole-style assignment that holds the same declarations as the current mapping in another order must replace the order
        for how in ('styleAssign', 'setAttribute', 'setitem'):
            for a, b in (('float', 'color'), ('display', 'padding-top'), ('color', 'font-weight')):
                asg = '%s: X; %s: Y' % (b, a)
                op3 = [how, asg] if how == 'styleAssign' else [how, 'style', asg]
                for sd in seeds[:3]:
                    cases.append(dict(origin=sd[0], attrs=sd[1], ops=[['setStyle', a, 'Y'], ['setStyle', b, 'X'], ['removeAttribute', 'id'], op3, ['read', 'startTag']]))
                    cases.append(dict(origin='direct', attrs=[['style', '%s: Y; %s: X' % (a, b)]], ops=[op3]))
        nsamp = 1500 if self.tier == 'quick' else 60000
        for _ in range(nsamp):
            sd = rng.choice(seeds)
            cases.append(dict(origin=sd[0], attrs=sd[1], ops=[list(rng.choice(alpha)) for _ in range(rng.choice([2, 3]))]))
        nrand = 300 if self.tier == 'quick' else 5000
        reads = [['read', 'items'], ['read', 'startTag'], ['read', 'has', 'style'], ['read', 'get', 'style'], ['setAttribute', 'id', 'v'],
                 ['read', 'keys']]
        for _ in range(nrand):
            sd = rng.choice(seeds)
            ops = [list(rng.choice(alpha if rng.random() < 0.8 else reads)) for _ in range(rng.randint(1, 25))]
            cases.append(dict(origin=sd[0], attrs=sd[1], ops=ops))
        self.stats.update(exhaustive_family=n_ex, sampled=nsamp, random_histories=nrand, alphabet=len(alpha))
        return ac.alternate_each(cases)

    def _other(self):
        t, _ = ac.new_element('direct', [['style', COPY_SRC]])
        return t

    def run_impl(self, case):
        return ac.run_case(case, self._other())

    def coq_case(self, case):
        return ac.coq_case(case)

    def oracle(self, case):
        t, keep = ac.new_element(case['origin'], case['attrs'])
        other = self._other()
        sd = []
        for n, v in case['attrs']:
            if n.lower() == 'style':
                sd = parse_style(v or '')

        def put(n, v):
            if v in ('', None):
                sd[:] = [e for e in sd if e[0] != n]
                return
            for e in sd:
                if e[0] == n:
                    e[1] = v
                    return
            sd.append([n, v])
        bad = self._views(t, sd, 'initially')
        if bad:
            return bad
        for op in case['ops']:
            k = op[0]
            res = ac.apply_op(t, op, other)
            if res != 'ok':
                return '%s raised %s' % (op, res)
            if k == 'styleDot':
                put(camel2dash(op[1]), op[2])
            elif k == 'setProperty':
                put(op[1], op[2])
            elif k == 'setStyle':
                put(camel2dash(op[1]), op[2])
            elif k == 'setStyles':
                for n, v in op[1]:
                    put(camel2dash(n), v)
            elif k == 'styleAssign' or (k in ('setAttribute', 'setitem') and op[1].lower() == 'style'):
                sd[:] = parse_style(op[-1])
            elif k in ('removeAttribute', 'delitem') and op[1].lower() == 'style':
                sd[:] = []
            elif k == 'styleCopy':
                sd[:] = parse_style(COPY_SRC)
                # never aliases: writing to the copy leaves the source alone and vice versa
                other.style.color = 'green'
                if t.style.color != 'blue':
                    return 'after copying a style, a write to the source showed in the copy'
                other.style.color = 'blue'
            bad = self._views(t, sd, 'after %s' % (op,))
            if bad:
                return bad
            if str(other.style) != COPY_SRC:
                return 'after %s: the other element\'s style changed to %r' % (op, str(other.style))
        return None

    def _views(self, t, sd, when):
        want = render(sd)
        m = dict((n, v) for n, v in sd)
        st0 = t.style
        for camel, dash in PROPS:
            if getattr(st0, camel) != m.get(dash, ''):
                return '%s: style.%s = %r, mapping says %r' % (when, camel, getattr(st0, camel), m.get(dash, ''))
            if t.getStyle(dash) != m.get(dash, ''):
                return '%s: getStyle(%r) = %r, mapping says %r' % (when, dash, t.getStyle(dash), m.get(dash, ''))
        for n, v in sd:
            if t.getStyle(n) != v:
                return '%s: getStyle(%r) = %r, mapping says %r' % (when, n, t.getStyle(n), v)
        if str(t.style) != want:
            return '%s: str(style) = %r, mapping renders as %r' % (when, str(t.style), want)
        ga = t.getAttribute('style')
        if str(ga if ga is not None else '') != want:
            return '%s: getAttribute("style") = %r, mapping renders as %r' % (when, str(ga), want)
        st = t.getStartTag()
        if not isinstance(st, str):
            return '%s: getStartTag() returned %r' % (when, st)
        found = re.findall(r'style="([^"]*)"', st)
        if sd:
            if found != [want]:
                return '%s: start tag %r does not carry style=%r exactly once' % (when, st, want)
        elif 'style' in st:
            return '%s: start tag %r shows a style attribute although no property remains' % (when, st)
        r = ac.reparse_attrs(t)
        if parse_style(str(r.style)) != [list(e) for e in sd] or str(r.style) != want:
            return '%s: re-parsed style %r, mapping renders as %r' % (when, str(r.style), want)
        # a style string parses to the same mapping as its rendering
        if parse_style(render(sd)) != [list(e) for e in sd]:
            return 'spec error'
        from AdvancedHTMLParser.SpecialAttributes import StyleAttribute
        if StyleAttribute.styleToDict(want) != dict(m) or list(StyleAttribute.styleToDict(want).items()) != [tuple(e) for e in sd]:
            return '%s: styleToDict(%r) differs from the mapping' % (when, want)
        rev = render(list(reversed(sd)))
        if not (t.style == StyleAttribute(rev)) or (t.style != StyleAttribute(rev)):
            return '%s: style equality depends on property order' % when
        if sd and (t.style == StyleAttribute(render(sd[1:]))):
            return '%s: style equals a style with fewer properties' % when
        return None

    def shrink_candidates(self, case):
        ops = case['ops']
        for i in range(len(ops) - 1, -1, -1):
            yield dict(case, ops=ops[:i] + ops[i + 1:])
        if case['origin'] != 'direct':
            yield dict(case, origin='direct')

    def nontrivial_key(self, case, snap):
        parts = snap.split('\x1f')
        states = set(p.rsplit('|Y', 1)[-1] for p in parts)
        return json.dumps(case, sort_keys=True) if len(states) > 1 else None

    def finding_key(self, case, what):
        w = re.sub(r"^(initially|after \[[^\]]*\]): ", '', what)
        return re.sub(r"[\[\(\{'\"=].*$", '', w).strip()[:60]


CHECK = C10
