(* Index.v — IndexedAdvancedHTMLParser (Parser.py 1102-1445): the four built-in indexes (id, name, class name, tag name),
   the attribute indexes of addIndexOnAttribute, _indexTag / _indexTagRecursive, reindex, disableIndexing,
   removeIndexOnAttribute, _hasTagInParentLine, and the indexed getElementsBy* / getElementById entry points with their
   fall back to the unindexed searches of Search.v.
   The index maps hold element identities (uids); an identity is resolved through the current document. *)
From AHP Require Import Model.Base Model.Str Model.Attr Model.Dom Model.Search Gen.Tables.

Record icfg := { ix_id : bool; ix_name : bool; ix_class : bool; ix_tag : bool }.
(* defaultdict(list) / {value: [tags]} : keys in insertion order, elements in insertion order *)
Definition mmap := list (string * list nat).
Fixpoint mm_add (k : string) (u : nat) (m : mmap) : mmap :=
  match m with
  | [] => [(k, [u])]
  | (k', l) :: r => if String.eqb k k' then (k', l ++ [u]) :: r else (k', l) :: mm_add k u r
  end.
Definition mm_get (k : string) (m : mmap) : list nat := match od_get k m with Some l => l | None => [] end.

Record idx := { idmap : list (string * nat); namemap : mmap; classmap : mmap; tagmap : mmap;
                others : list (string * mmap) }.         (* _otherAttributeIndexes, in dict order *)
(* _resetIndexInternal: the four maps are emptied, each attribute index is emptied but kept *)
Definition reset_idx (i : idx) : idx :=
  {| idmap := []; namemap := []; classmap := []; tagmap := []; others := map (fun kv => (fst kv, [])) (others i) |}.
Definition idx0 : idx := {| idmap := []; namemap := []; classmap := []; tagmap := []; others := [] |}.

(* _indexID / _indexName: only truthy values; _indexClassName: one entry per item of classNames; _indexTagName;
   _otherIndexFunction: every value that is not None (string values are the only ones a string query can equal) *)
Definition truthy_str (v : pyv) : option string := match v with PStr x => if nonempty x then Some x else None | _ => None end.
Definition index_tag (c : icfg) (t : tag) (i : idx) : idx :=
  let u := tuid t in
  {| idmap := if ix_id c then match truthy_str (attr_of t "id") with Some x => od_set x u (idmap i) | None => idmap i end else idmap i;
     namemap := if ix_name c then match truthy_str (attr_of t "name") with Some x => mm_add x u (namemap i) | None => namemap i end else namemap i;
     classmap := if ix_class c then fold_left (fun m cn => mm_add cn u m) (class_list t) (classmap i) else classmap i;
     tagmap := if ix_tag c then mm_add (name (hd_ t)) u (tagmap i) else tagmap i;
     others := map (fun kv => (fst kv, match attr_of t (fst kv) with PStr x => mm_add x u (snd kv) | _ => snd kv end)) (others i) |}.
(* _indexTagRecursive(root): the element, then each child in turn = document order *)
Definition index_all (c : icfg) (els : list tag) (i : idx) : idx := fold_left (fun i t => index_tag c t i) els i.
Definition all_nodes (doc : tag) : list tag := doc :: descendants doc.
Definition reindex (c : icfg) (doc : tag) (i : idx) : idx := index_all c (all_nodes doc) (reset_idx i).

(* _hasTagInParentLine(tag, root): walk the parentNode links upwards; fuel = number of elements of the document *)
Definition parent_of (doc : tag) (u : nat) : option nat := match find u doc with Some t => parent (hd_ t) | None => None end.
Fixpoint in_line (fuel : nat) (doc : tag) (u r : nat) : bool :=
  match fuel with
  | 0 => false
  | S k => match parent_of doc u with
           | None => false
           | Some p => if Nat.eqb p r then true else in_line k doc p r
           end
  end.
Definition below_root (doc : tag) (r : nat) (u : nat) : bool := in_line (length (all_nodes doc)) doc u r.

(* TagCollection(elements): __iadd__ keeps the first occurrence of each uid *)
Definition dedup (l : list nat) : list nat := fold_left (fun acc u => if existsb (Nat.eqb u) acc then acc else acc ++ [u]) l [].

(* ---- the entry points; sub = None for root='root', Some uid for a sub-element ---- *)
Inductive ires := IList (l : list nat) | IOne (o : option nat) | IUnsupported.
Definition uids_of_sres (r : sres) : ires :=
  match r with SList l => IList (map tuid l) | SOne o => IOne (option_map tuid o) | _ => IUnsupported end.
Definition plain_query (doc : tag) (sub : option nat) (q : query) : ires :=
  match sub with
  | None => uids_of_sres (doc_query doc q)
  | Some r => match find r doc with
              | Some e => match q with
                          | QTagName n => IList (map tuid (below (fun t => String.eqb (name (hd_ t)) n) e))   (* the parser level searches any root *)
                          | _ => uids_of_sres (elem_query e q)
                          end
              | None => IUnsupported
              end
  end.
Definition restrict (doc : tag) (sub : option nat) (l : list nat) : list nat :=
  match sub with
  | None => if String.eqb (name (hd_ doc)) invisible_root_tag then filter (below_root doc (tuid doc)) l else l
  | Some r => filter (below_root doc r) l
  end.
Definition has_classes_now (doc : tag) (names : list string) (u : nat) : bool :=
  match find u doc with Some t => has_all_classes names t | None => false end.
Definition indexed_query (c : icfg) (i : idx) (doc : tag) (sub : option nat) (use_index : bool) (q : query) : ires :=
  match q with
  | QTagName n => if use_index && ix_tag c then IList (dedup (restrict doc sub (mm_get n (tagmap i)))) else plain_query doc sub q
  | QName n => if use_index && ix_name c then IList (dedup (restrict doc sub (mm_get n (namemap i)))) else plain_query doc sub q
  | QId x => if use_index && ix_id c
             then IOne (match od_get x (idmap i) with
                        | Some u => match restrict doc sub [u] with [] => None | _ => Some u end
                        | None => None end)
             else plain_query doc sub q
  | QClass s => if use_index && ix_class c
                then match class_names s with
                     | [] => IUnsupported                      (* classNames.pop(0) on an empty list *)
                     | first :: more => IList (dedup (restrict doc sub (filter (has_classes_now doc more) (mm_get first (classmap i)))))
                     end
                else plain_query doc sub q
  | QAttr a v => if use_index then match od_get a (others i) with
                                   | Some m => IList (dedup (restrict doc sub (mm_get v m)))
                                   | None => plain_query doc sub q end
                 else plain_query doc sub q
  | QAttrValues a vs => if use_index then match od_get a (others i) with
                                          | Some m => IList (restrict doc sub (dedup (flat_map (fun v => mm_get v m) vs)))
                                          | None => plain_query doc sub q end
                        else plain_query doc sub q
  | _ => IUnsupported
  end.

(* ---- histories ---- *)
Inductive edit :=
| ESetAttr (r : nat) (n v : string) | ERemoveAttr (r : nat) (n : string) | EAddClass (r : nat) (c : string)
| ERemoveClass (r : nat) (c : string) | ESetClass (r : nat) (v : string)
| EAppendNew (r : nat) (n : string) (a : list (string * option string)) | ERemove (r : nat).
Inductive reconf := CAddIndex (a : string) | CRemoveIndex (a : string) | CDisable | CReindex (a b c d : option bool).

Definition with_attrs (a : Attr.st) (t : tag) : tag :=
  let 'Tag h bs := t in
  Tag {| uid := uid h; name := name h; attrs := a; sc := sc h; text := text h; parent := parent h; owner := owner h;
         children := children h; indent := indent h |} bs.
Definition on_attrs (f : Attr.st -> Attr.st) (t : tag) : tag := with_attrs (f (attrs (hd_ t))) t.
Definition nth_uid (doc : tag) (r : nat) : option nat := option_map tuid (nth_error (all_nodes doc) r).
Definition fresh_uid (doc : tag) : nat := S (list_max (map tuid (all_nodes doc))).
Definition apply_edit (doc : tag) (e : edit) : tag :=
  let at_rank r (f : tag -> tag) := match nth_uid doc r with Some u => update_at u f doc | None => doc end in
  match e with
  | ESetAttr r n v => at_rank r (on_attrs (fun a => fst (setAttribute n (Some v) a)))
  | ERemoveAttr r n => at_rank r (on_attrs (removeAttribute n))
  | EAddClass r c => at_rank r (on_attrs (addClass c))
  | ERemoveClass r c => at_rank r (on_attrs (fun a => fst (removeClass c a)))
  | ESetClass r v => at_rank r (on_attrs (set_className (Some v)))
  | EAppendNew r n a => at_rank r (appendChild_here (new_tag (fresh_uid doc) n (fst (intake a st0)) false None None))
  | ERemove r => match nth_error (all_nodes doc) r with
                 | Some t => match parent (hd_ t) with Some p => update_at p (removeChild_here (tuid t)) doc | None => doc end
                 | None => doc
                 end
  end.

Record ist := { icf : icfg; iix : idx }.
Definition set_flags (c : icfg) (a b : option bool) : icfg :=
  {| ix_id := match a with Some x => x | None => ix_id c end; ix_name := match b with Some x => x | None => ix_name c end;
     ix_class := ix_class c; ix_tag := ix_tag c |}.
Definition with_others (o : list (string * mmap)) (i : idx) : idx :=
  {| idmap := idmap i; namemap := namemap i; classmap := classmap i; tagmap := tagmap i; others := o |}.
Definition apply_reconf (doc : tag) (s : ist) (r : reconf) : ist :=
  match r with
  | CAddIndex a => {| icf := icf s; iix := with_others (od_set (lower a) [] (others (iix s))) (iix s) |}
  | CRemoveIndex a => {| icf := icf s; iix := with_others (od_del (lower a) (others (iix s))) (iix s) |}
  | CDisable => {| icf := {| ix_id := false; ix_name := false; ix_class := false; ix_tag := false |}; iix := reset_idx (iix s) |}
  (* reindex(newIndexIDs, newIndexNames, newIndexClassNames, newIndexTagNames): the last two are stored under other attribute
     names by the code and change nothing; answers do not depend on the flags in any case (theorem transparency) *)
  | CReindex a b _ _ => let c := set_flags (icf s) a b in {| icf := c; iix := reindex c doc (iix s) |}
  end.
