"""C20 - fragment APIs build what the document parser would build, attached where asked."""
import json
import re

from harness import core
from harness.core import cs, clist
from harness.props import parse_common as pc
from harness.props import c01, c02


def frag_html(case):
    return c02.render(case['toks'], None)


class C20(core.Check):
    ID = 'C20'
    RUN_MODULE = 'Corr.Run_C20'
    RUN_FN = 'run_C20'
    CASE_TYPE = 'c20case'
    SHARD = 120
    RULE = ('fragments rendered from C01 trees: a single element, text + element + text, several elements with and without separating whitespace, '
            'text only, whitespace around one element; createElementFromHTML / createElementsFromHTML / createBlocksFromHTML on each, and '
            'appendInnerHTML onto empty, non-empty, self-closed and void-looking targets, detached and inside documents of each parser class; '
            'createElement with mixed-case names. The model is fed the handler calls recorded from the temporary parser. '
            'non-trivial = the fragment has >= 2 top-level nodes or nested elements')
    TRUSTED = ['stdlib html.parser tokenizer (in the loop through recorded handler calls of the temporary parser)']
    ASSUMPTIONS = ['empty and whitespace-only fragments are outside the domain']
    PARTIAL = ['the ownerDocument of the target\'s document is checked by the oracle (the model has one document id)']

    def generate(self):
        rng = self.rng
        cases = []
        n = 260 if self.tier == 'quick' else 5000
        shapes = {}
        for _ in range(n):
            kind = rng.choice(['single', 'text-elem-text', 'several', 'several-ws', 'text-only', 'ws-around', 'elem-text', 'elem-text-elem', 'text-elem'])
            t1 = c01.gen_tree(rng, maxdepth=2, budget=[5])
            t2 = c01.gen_tree(rng, maxdepth=1, budget=[3])
            if kind == 'single':
                toks = c01.tree_tokens(t1)
            elif kind == 'text-elem-text':
                toks = [['T', rng.choice(['x', 'pre ', '&amp;', ' and ', '\n lead'])]] + c01.tree_tokens(t1) + [['T', rng.choice(['y', ' post', '<!--c-->', ' tail\n', ' z '])]]
            elif kind == 'several':
                toks = c01.tree_tokens(t1) + c01.tree_tokens(t2)
            elif kind == 'several-ws':
                toks = c01.tree_tokens(t1) + [['T', rng.choice([' ', '\n', '  \n'])]] + c01.tree_tokens(t2)
            elif kind == 'elem-text':
                toks = c01.tree_tokens(t1) + [['T', rng.choice([' tail', 'after', 'x', '&amp;', '<!--c-->', ' trailing text\n'])]]
            elif kind == 'text-elem':
                toks = [['T', rng.choice(['lead ', 'x', '&amp;', '<!--c-->'])]] + c01.tree_tokens(t1)
            elif kind == 'elem-text-elem':
                toks = c01.tree_tokens(t1) + [['T', rng.choice(['tail', ' mid ', '&#65;'])]] + c01.tree_tokens(t2)
            elif kind == 'text-only':
                toks = [['T', rng.choice(['just text', 'a &amp; b', 'x', ' world', 'trail \n', '  both  '])]]
            else:
                toks = [['T', rng.choice([' ', '\n '])]] + c01.tree_tokens(t1) + [['T', rng.choice([' ', '\n'])]]
            shapes[kind] = shapes.get(kind, 0) + 1
            target = rng.choice([dict(html='<div></div>', path=[]), dict(html='<div>x<b>y</b></div>', path=[]), dict(html='<div><span /></div>', path=[0]),
                                 dict(html='<div><br></div>', path=[0]), dict(html='<ul><li>a</li><li>b</li></ul>', path=[1])])
            cases.append(dict(toks=toks, kind=kind, target=target, owner=rng.choice(['detached', 'plain', 'indexed', 'validating']),
                              name=rng.choice(['div', 'DIV', 'Span', 'BR', 'custom-el'])))
        self.stats.update(fragment_shapes=shapes)
        return cases

    # ------------------------------------------------------------------ implementation
    def _target(self, case):
        import AdvancedHTMLParser as A
        from AdvancedHTMLParser.Validator import ValidatingAdvancedHTMLParser
        t = case['target']
        cls = {'detached': A.AdvancedHTMLParser, 'plain': A.AdvancedHTMLParser, 'indexed': A.IndexedAdvancedHTMLParser,
               'validating': ValidatingAdvancedHTMLParser}[case['owner']]
        p = cls()
        p.parseStr(t['html'])
        e = p.getRoot()
        if case['owner'] == 'detached':
            # the same tree through the DOM API, owned by no document
            e = c01.build_api(self._stree(e))
            p = None
        root = e
        for i in t['path']:
            e = e.children[i]
        return p, root, e

    def _stree(self, e):
        from AdvancedHTMLParser.Tags import AdvancedTag
        return [e.tagName, [[k, (str(v) if v is not None else None)] for k, v in e.attributes.items()], bool(e.isSelfClosing),
                [self._stree(b) if isinstance(b, AdvancedTag) else b for b in e.blocks if b != '' or True][1:]]

    def _record_fragment(self, html):
        """handler calls of the temporary parser used by createBlocksFromHTML / createElementsFromHTML (parseStr)"""
        p = pc.rec_class('plain')()
        return pc.parse_recorded(p, html)

    def run_impl(self, case):
        import AdvancedHTMLParser as A
        html = frag_html(case)
        o, f, s = self._record_fragment(html)
        self._last = (id(case), (o, f, s))
        if not pc.names_ascii(f, s):
            return None
        parts = []
        P = A.AdvancedHTMLParser
        # createElementFromHTML
        try:
            e = P.createElementFromHTML(html)
            parts.append('E' + core.hx(e.outerHTML))
        except Exception as ex:
            parts.append('Eexc:' + core.exc_name(ex))
        try:
            es = P.createElementsFromHTML(html)
            parts.append('L' + ','.join(core.hx(x.outerHTML) for x in es))
        except Exception as ex:
            parts.append('Lexc:' + core.exc_name(ex))
        try:
            bs = P.createBlocksFromHTML(html)
            parts.append('B' + ','.join(('T' + core.hx(b)) if isinstance(b, str) else ('E' + core.hx(b.outerHTML)) for b in bs))
        except Exception as ex:
            parts.append('Bexc:' + core.exc_name(ex))
        p, root, tgt = self._target(case)
        try:
            tgt.appendInnerHTML(html)
            rank = {id(x): i for i, x in enumerate(pc.preorder(root))}
            parts.append('A' + pc.snap_tree(root, rank, p, set()))
        except Exception as ex:
            parts.append('Aexc:' + core.exc_name(ex))
        c = P().createElement(case['name'])
        parts.append('C%s,%s,%s,%s' % (c.tagName, '-' if c.parentNode is None else '?', '-' if c.ownerDocument is None else '?', core.hx(c.outerHTML)))
        return '\x1f'.join(parts)

    def coq_case(self, case):
        o, f, s = self._last[1] if getattr(self, '_last', (None,))[0] == id(case) else self._record_fragment(frag_html(case))
        # the target document as recorded tokens too
        p = pc.rec_class('plain')()
        to, tf, ts = pc.parse_recorded(p, case['target']['html'])
        return '(%s, %s, %s, %s, %s)' % (pc.coq_doc(f, s), pc.coq_doc(tf, ts), clist(str(i) for i in case['target']['path']),
                                         'true' if case['owner'] != 'detached' else 'false', cs(case['name']))

    # ------------------------------------------------------------------ oracle
    def oracle(self, case):
        import AdvancedHTMLParser as A
        from AdvancedHTMLParser.exceptions import MultipleRootNodeException
        html = frag_html(case)
        P = A.AdvancedHTMLParser
        ref = P()
        ref.parseStr(html)
        rroot = ref.getRoot()
        if rroot is None:
            return None
        multi = rroot.tagName == 'xxxblank'
        top_blocks = [b for b in (rroot.blocks if multi else [rroot])]
        top_elems = ref.getRootNodes()
        nonblank_text = any(isinstance(b, str) and b.strip() for b in top_blocks)
        # createElementFromHTML
        try:
            e = P.createElementFromHTML(html)
            if len(top_elems) != 1 or nonblank_text:
                return 'createElementFromHTML(%r) did not raise although the fragment has several top-level nodes' % html
            if e.outerHTML != top_elems[0].outerHTML:
                return 'createElementFromHTML(%r) returned %r, the parser\'s root is %r' % (html, e.outerHTML, top_elems[0].outerHTML)
        except MultipleRootNodeException:
            if len(top_elems) == 1 and not nonblank_text:
                return 'createElementFromHTML(%r) raised MultipleRootNodeException for exactly one top-level element' % html
        except Exception as ex:
            return 'createElementFromHTML(%r) raised %s' % (html, type(ex).__name__)
        # createElementsFromHTML
        try:
            es = P.createElementsFromHTML(html)
        except Exception as ex:
            return 'createElementsFromHTML(%r) raised %s' % (html, type(ex).__name__)
        if [x.outerHTML for x in es] != [x.outerHTML for x in top_elems]:
            return 'createElementsFromHTML(%r) returned %r, the top-level elements are %r' % (html, [x.outerHTML for x in es], [x.outerHTML for x in top_elems])
        # createBlocksFromHTML
        try:
            bs = P.createBlocksFromHTML(html)
        except Exception as ex:
            return 'createBlocksFromHTML(%r) raised %s' % (html, type(ex).__name__)
        ser = lambda blocks: [b if isinstance(b, str) else ('<E>' + b.outerHTML) for b in blocks if b != '']
        if ser(bs) != ser(top_blocks):
            return 'createBlocksFromHTML(%r) returned %r, the top-level nodes are %r' % (html, ser(bs), ser(top_blocks))
        if ''.join(b if isinstance(b, str) else b.outerHTML for b in bs) != ref.getHTML():
            return 'createBlocksFromHTML(%r): the blocks do not serialise to the fragment\'s own serialisation' % html
        # appendInnerHTML
        p, root, tgt = self._target(case)
        before = tgt.innerHTML
        was_sc = tgt.isSelfClosing
        old = set(id(x) for x in pc.preorder(root))
        try:
            tgt.appendInnerHTML(html)
        except Exception as ex:
            return 'appendInnerHTML(%r) raised %s' % (html, type(ex).__name__)
        expect_added = ''.join(b if isinstance(b, str) else b.outerHTML for b in top_blocks)
        if tgt.innerHTML != before + expect_added:
            return 'appendInnerHTML(%r): innerHTML is %r, expected %r' % (html, tgt.innerHTML, before + expect_added)
        new_top = [b for b in tgt.blocks if not isinstance(b, str) and id(b) not in old]
        if len(new_top) != len(top_elems):
            return 'appendInnerHTML(%r) added %d elements, the fragment has %d top-level elements' % (html, len(new_top), len(top_elems))
        for x in new_top:
            if x.parentNode is not tgt:
                return 'appendInnerHTML(%r): parentNode of a new element is not the target' % html
            for y in pc.preorder(x):
                if y.ownerDocument is not tgt.ownerDocument:
                    return 'appendInnerHTML(%r): ownerDocument of a new element is not the target\'s document' % html
        # createElement
        c = P().createElement(case['name'])
        if c.tagName != case['name'].lower() or c.parentNode is not None or c.ownerDocument is not None or c.children or c.innerHTML != '':
            return 'createElement(%r) is not a detached, lower-cased, empty element' % case['name']
        return None

    def shrink_candidates(self, case):
        toks = case['toks']
        for i in range(len(toks) - 1, -1, -1):
            nt = toks[:i] + toks[i + 1:]
            if not nt or any(a[0] == 'T' and b[0] == 'T' for a, b in zip(nt, nt[1:])):
                continue
            if not any(t[0] != 'T' or t[1].strip() for t in nt):
                continue
            yield dict(case, toks=nt)
        if case['owner'] != 'plain':
            yield dict(case, owner='plain')

    def nontrivial_key(self, case, snap):
        n = sum(1 for t in case['toks'] if t[0] == 'S')
        return json.dumps(case, sort_keys=True) if (n >= 2 or case['kind'] != 'single') else None

    def finding_key(self, case, what):
        return re.sub(r"\(.*$", '', what)[:40]


CHECK = C20
