(* C06: every search returns exactly the matches of its scope, once, in document order. *)
From AHP Require Import Model.Base Model.Str Model.Attr Model.Dom Model.Search Proofs.DomProofs Proofs.StrProofs.

(* element level: the recursion of the code is a filter over the pre-order of the strict descendants *)
Theorem below_spec f : forall t, below f t = filter f (descendants t).
Proof.
  induction t as [h bs IH] using tag_ind'. simpl.
  induction bs as [|[s|c] bs IHb]; simpl in *; auto.
  inversion IH as [|? ? Hc IH']; subst. rewrite Hc, (IHb IH'). rewrite filter_app. destruct (f c); reflexivity.
Qed.
(* document level, searching from a real root: the root element itself is in scope *)
Theorem from_root_spec f root : from_root_search f root true = filter f (root :: descendants root).
Proof. unfold from_root_search. simpl. rewrite below_spec. destruct (f root); reflexivity. Qed.
Theorem from_wrapper_spec f root : from_root_search f root false = filter f (descendants root).
Proof. unfold from_root_search. simpl. apply below_spec. Qed.

(* single-result forms: the first match in that order, or None *)
Theorem first_below_spec f : forall t, first_below f t = hd_error (filter f (descendants t)).
Proof.
  induction t as [h bs IH] using tag_ind'. simpl.
  induction bs as [|[s|c] bs IHb]; simpl in *; auto.
  inversion IH as [|? ? Hc IH']; subst. destruct (f c) eqn:E; simpl; auto.
  rewrite Hc, filter_app. destruct (filter f (descendants c)); simpl; auto.
Qed.
Theorem first_from_root_spec f root : first_from_root f root true = hd_error (filter f (root :: descendants root)).
Proof. unfold first_from_root. simpl. destruct (f root); simpl; auto. apply first_below_spec. Qed.

(* collection level: members and their descendants in order of discovery, each element once *)
Definition present (x : tag) (acc : list tag) : bool := existsb (fun y => Nat.eqb (tuid y) (tuid x)) acc.
Definition add_if (f : tag -> bool) (acc : list tag) (x : tag) : list tag := if f x && negb (present x acc) then acc ++ [x] else acc.
Lemma subset_into_fold f : forall t acc, subset_into f t acc = fold_left (add_if f) (t :: descendants t) acc.
Proof.
  induction t as [h bs IH] using tag_ind'. intros acc. simpl.
  assert (E : (if f (Tag h bs) && negb (existsb (fun x => Nat.eqb (tuid x) (uid h)) acc) then acc ++ [Tag h bs] else acc) = add_if f acc (Tag h bs)) by reflexivity.
  rewrite E. generalize (add_if f acc (Tag h bs)). clear E acc.
  induction bs as [|[s|c] bs IHb]; intros acc; simpl in *; auto.
  inversion IH as [|? ? Hc IH']; subst. rewrite Hc. simpl. rewrite fold_left_app. apply IHb. exact IH'.
Qed.
Theorem coll_search_spec f ms : coll_search f ms = fold_left (add_if f) (flat_map (fun m => m :: descendants m) ms) [].
Proof.
  unfold coll_search. generalize (@nil tag). induction ms as [|m ms IH]; intros acc; simpl; auto.
  rewrite subset_into_fold, IH. simpl. rewrite fold_left_app. reflexivity.
Qed.
(* what add_if computes: every result satisfies the criterion and comes from the scope; no uid twice *)
Lemma fold_add_if_sound f l : forall acc, (forall x, In x acc -> f x = true) -> forall x, In x (fold_left (add_if f) l acc) -> f x = true.
Proof.
  induction l as [|a l IH]; intros acc Hacc x; simpl; auto. apply IH. intros y Hy. unfold add_if in Hy.
  destruct (f a && negb (present a acc)) eqn:E; auto. apply in_app_or in Hy as [Hy|[<-|[]]]; auto.
  now apply andb_true_iff in E as [E _].
Qed.
Lemma fold_add_if_in f l : forall acc x, In x (fold_left (add_if f) l acc) -> In x acc \/ In x l.
Proof.
  induction l as [|a l IH]; intros acc x; simpl; auto. intros H. apply IH in H as [H|H]; auto.
  unfold add_if in H. destruct (f a && negb (present a acc)); auto. apply in_app_or in H as [H|[<-|[]]]; auto.
Qed.
Lemma fold_add_if_nodup f l : forall acc, NoDup (map tuid acc) -> NoDup (map tuid (fold_left (add_if f) l acc)).
Proof.
  induction l as [|a l IH]; intros acc Hacc; simpl; auto. apply IH. unfold add_if.
  destruct (f a && negb (present a acc)) eqn:E; auto. apply andb_true_iff in E as [_ E]. apply negb_true_iff in E.
  rewrite map_app. simpl. clear - Hacc E. unfold present in E. induction acc as [|y acc IHa]; simpl in *; [constructor; [tauto|constructor]|].
  inversion Hacc as [|? ? Hn Hd]; subst. apply orb_false_iff in E as [E1 E2]. apply Nat.eqb_neq in E1. constructor.
  - rewrite in_app_iff. simpl. intros [H|[H|[]]]; auto.
  - apply IHa; auto.
Qed.
(* nothing is missed: a matching element of the scope, or one with the same uid, is in the result *)
Lemma fold_add_if_complete f l : forall acc x, In x l -> f x = true -> present x (fold_left (add_if f) l acc) = true.
Proof.
  assert (Mono : forall l0 acc x, present x acc = true -> present x (fold_left (add_if f) l0 acc) = true).
  { induction l0 as [|a l0 IH]; intros acc x H; simpl; auto. apply IH. unfold add_if. destruct (f a && negb (present a acc)); auto.
    unfold present in *. rewrite existsb_app, H. reflexivity. }
  induction l as [|a l IH]; intros acc x Hin Hf; simpl; [destruct Hin|]. destruct Hin as [<-|Hin]; [|now apply IH].
  apply Mono. unfold add_if. rewrite Hf. simpl. destruct (present a acc) eqn:E; simpl; auto.
  unfold present. rewrite existsb_app. simpl. now rewrite Nat.eqb_refl, orb_true_r.
Qed.
Theorem coll_search_correct f ms :
  let scope := flat_map (fun m => m :: descendants m) ms in
  (forall x, In x (coll_search f ms) -> f x = true /\ In x scope)
  /\ NoDup (map tuid (coll_search f ms))
  /\ (forall x, In x scope -> f x = true -> present x (coll_search f ms) = true).
Proof.
  cbv zeta. rewrite coll_search_spec. repeat split.
  - eapply fold_add_if_sound; eauto. intros y [].
  - apply fold_add_if_in in H as [[]|H]; auto.
  - apply fold_add_if_nodup. constructor.
  - intros x H1 H2. now apply fold_add_if_complete.
Qed.

(* several class names: the element must carry all of them, whatever their order, number or the spaces between them *)
Theorem all_classes_spec names t : has_all_classes names t = true <-> forall n, In n names -> In n (class_list t).
Proof. unfold has_all_classes. rewrite forallb_forall. split; intros H n Hn; [apply smem_In | apply smem_In]; auto. Qed.
Lemma class_names_nonempty q n : In n (class_names q) -> n <> "".
Proof. unfold class_names. intros H. apply filter_In in H as [_ H]. unfold nonempty in H. apply negb_true_iff, String.eqb_neq in H. exact H. Qed.

(* a filter over a list keeps order and multiplicity: results are a sub-sequence of the scope *)
Lemma filter_NoDup_map {A} (g : A -> nat) f (l : list A) : NoDup (map g l) -> NoDup (map g (filter f l)).
Proof.
  induction l as [|a l IH]; simpl; intros H; auto. inversion H; subst. destruct (f a); simpl; auto.
  constructor; auto. intro Hi. apply H2. apply in_map_iff in Hi as (x & Hx & Hin). apply filter_In in Hin as [Hin _].
  rewrite <- Hx. now apply in_map.
Qed.
Theorem below_once f t : NoDup (map tuid (descendants t)) -> NoDup (map tuid (below f t)).
Proof. intros H. rewrite below_spec. now apply filter_NoDup_map. Qed.
