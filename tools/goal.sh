#!/bin/bash
# usage: goal.sh File.v LINE  — print the proof state after LINE lines (development aid only)
f=$1; n=$2
( head -n $n "$f"; echo 'Show.' ) | timeout 120 coqtop -Q /verif/coq AHP 2>&1 | tail -n ${3:-40}
