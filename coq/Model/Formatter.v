(* Formatter.v — Formatter.py: AdvancedHTMLFormatter / AdvancedHTMLMiniFormatter / AdvancedHTMLSlimTagFormatter /
   AdvancedHTMLSlimTagMiniFormatter as one machine over the recorded handler calls: the parser skeleton plus
   currentIndentLevel, inPreformatted, _indent and handle_data's whitespace rewriting; AdvancedTagSlim.getStartTag. *)
From AHP Require Import Model.Base Model.Str Model.Attr Model.Dom Model.Serial Model.Parser Gen.Tables.

Record cfg := { cindent : string; cmini : bool; cslim : bool; cslimsc : bool }.

Record fstate := { fps : pstate; flevel : nat; finpre : nat }.
Definition finit : fstate := {| fps := pinit; flevel := 0; finpre := 0 |}.

Definition is_preserve (n : string) : bool := smem n preserve_contents_tags.
Fixpoint repeat_s (s : string) (n : nat) : string := match n with 0 => "" | S k => s +++ repeat_s s k end.
(* _getIndent *)
Definition get_indent (c : cfg) (level : nat) : string :=
  if cmini c then "" else String (ascii_of_nat 10) "" +++ repeat_s (cindent c) level.

(* handle_data's rewriting outside preserved elements *)
Definition is_crlf (c : ascii) : bool := Ascii.eqb c (ascii_of_nat 10) || Ascii.eqb c (ascii_of_nat 13).
Fixpoint tab2sp (s : string) : string :=
  match s with String c r => String (if Ascii.eqb c (ascii_of_nat 9) then " "%char else c) (tab2sp r) | EmptyString => EmptyString end.
Definition starts_sp (s : string) : bool := match s with String c _ => is_sp c | EmptyString => false end.
Definition ends_sp (s : string) : bool := starts_sp (srev s).
Definition fmt_data (d : string) : string :=
  let d1 := strip_by is_crlf (tab2sp d) in
  let d2 := if starts_sp d1 then " " +++ lstrip d1 else d1 in
  if ends_sp d2 then rstrip d2 +++ " " else d2.

Definition set_indent (h : hdr) (i : string) : hdr :=
  {| uid := uid h; name := name h; attrs := attrs h; sc := sc h; text := text h; parent := parent h; owner := owner h;
     children := children h; indent := i |}.
Definition with_ps (s : fstate) (p : pstate) : fstate := {| fps := p; flevel := flevel s; finpre := finpre s |}.

Definition fhandle_start (c : cfg) (s : fstate) (n0 : string) (a : list (string * option string)) (selfc : bool) : pres fstate :=
  let p := fps s in
  let n := lower n0 in
  let leaf := selfc || is_void n in
  let st := fst (intake a st0) in
  let h0 := mk_hdr (pnext p) n st leaf (top_uid (pstk p)) None in
  let h := if finpre s =? 0 then set_indent h0 (get_indent c (flevel s)) else h0 in
  let t := Tag h [BText ""] in
  let placed : pres pstate :=
    if negb (has_root p) then
      if leaf then POk {| pstk := []; pdone := Some t; has_root := true; pdoctype := pdoctype p; pnext := S (pnext p) |}
      else POk {| pstk := [{| fh := h; fbs := [BText ""] |}]; pdone := None; has_root := true; pdoctype := pdoctype p; pnext := S (pnext p) |}
    else match pstk p with
         | [] => PRaise XMultipleRoot
         | _ => if leaf
                then POk {| pstk := push_block (BTag t) (pstk p); pdone := pdone p; has_root := true; pdoctype := pdoctype p; pnext := S (pnext p) |}
                else POk {| pstk := {| fh := h; fbs := [BText ""] |} :: pstk p; pdone := pdone p; has_root := true; pdoctype := pdoctype p; pnext := S (pnext p) |}
         end in
  match placed with
  | PRaise e => PRaise e
  | POk p' =>
      if leaf then POk {| fps := p'; flevel := flevel s; finpre := finpre s |}
      else POk {| fps := p';
                  flevel := if String.eqb n invisible_root_tag then flevel s else S (flevel s);
                  finpre := if is_preformatted n then S (finpre s) else finpre s |}
  end.

(* the pop loop of handle_endtag: implicit closes decrement the level (and inPreformatted for pre/code) *)
Fixpoint fpop_until (fuel : nat) (n : string) (s : fstate) : fstate :=
  match fuel with 0 => s | S k =>
    match pstk (fps s) with
    | [] => s
    | f :: _ =>
        if String.eqb (name (fh f)) n then
          {| fps := pop_frame (fps s);
             flevel := if String.eqb n invisible_root_tag then flevel s else pred (flevel s);
             finpre := if is_preformatted n then pred (finpre s) else finpre s |}
        else fpop_until k n {| fps := pop_frame (fps s); flevel := pred (flevel s);
                               finpre := if is_preformatted (name (fh f)) then pred (finpre s) else finpre s |}
    end end.
Definition fhandle_end (s : fstate) (n : string) : fstate :=
  if has_name n (pstk (fps s)) then fpop_until (length (pstk (fps s))) n s else s.

Definition fin_root_text (s : fstate) (x : string) : pres fstate :=
  match pstk (fps s) with [] => PRaise XMultipleRoot | _ => POk (with_ps s (top_append_text x (fps s))) end.

Definition fstep (c : cfg) (s : fstate) (t : token) : pres fstate :=
  match t with
  | TStart n a selfc => fhandle_start c s n a selfc
  | TEnd n => POk (fhandle_end s n)
  | TData d =>
      if String.eqb d "" then POk s
      else match pstk (fps s) with
           | [] => if String.eqb (strip d) "" then POk s else PRaise XMultipleRoot
           | f :: _ =>
               let d' := if (finpre s =? 0) && negb (is_preserve (name (fh f))) then fmt_data d else d in
               POk (with_ps s (top_append_text d' (fps s)))
           end
  | TEntity e => fin_root_text s ("&" +++ e +++ ";")
  | TChar x => fin_root_text s ("&#" +++ x +++ ";")
  | TComment x => fin_root_text s (comment_text x)
  | TDecl d => match pstep PPlain (fps s) (TDecl d) with POk p => POk (with_ps s p) | PRaise e => PRaise e end
  | TUnknownDecl d => match pstep PPlain (fps s) (TUnknownDecl d) with POk p => POk (with_ps s p) | PRaise e => PRaise e end
  | TPi _ => POk s
  end.
Fixpoint frun (c : cfg) (s : fstate) (ts : list token) : pres fstate :=
  match ts with
  | [] => POk s
  | t :: r => match fstep c s t with POk s' => frun c s' r | PRaise e => PRaise e end
  end.
Definition ffeed (c : cfg) (ts1 ts2 : list token) : pres fstate :=
  match frun c finit ts1 with
  | POk s => POk s
  | PRaise XMultipleRoot => frun c finit ts2
  | PRaise e => PRaise e
  end.
Definition fneeds_second (c : cfg) (ts1 : list token) : bool :=
  match frun c finit ts1 with PRaise XMultipleRoot => true | _ => false end.

(* serialisation with the formatter's tag class: AdvancedTagSlim.getStartTag post-processes the last characters *)
Definition fstart_tag (c : cfg) (h : hdr) : string :=
  let a := start_attrs (sync (attrs h)) in
  let astr := if String.eqb a "" then "" else " " +++ a in
  indent h +++ "<" +++ name h +++ astr +++
  (if sc h then (if cslim c && cslimsc c then "/>" else " />") else (if cslim c then ">" else " >")).
Fixpoint fouter (c : cfg) (t : tag) : string :=
  match t with
  | Tag h bs =>
      fstart_tag c h +++
      (if sc h then "" else
         (fix go (l : list (block tag)) : string :=
            match l with [] => "" | BText s :: r => s +++ go r | BTag x :: r => fouter c x +++ go r end) bs)
      +++ end_tag h
  end.
Definition finner (c : cfg) (t : tag) : string :=
  match t with Tag h bs => if sc h then "" else concat_s (map (fun b => match b with BText s => s | BTag x => fouter c x end) bs) end.
Definition fget_html (c : cfg) (s : fstate) : option string :=
  match tree_of (fps s) with
  | None => None
  | Some r => Some (doctype_line (pdoctype (fps s)) +++ (if is_invisible r then finner c r else fouter c r))
  end.
