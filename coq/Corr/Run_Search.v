(* Correspondence driver for C06: a document (recorded handler calls) and a list of (receiver, query). *)
From AHP Require Export Model.Base Model.Str Model.Attr Model.Dom Model.Serial Model.Parser Model.Search Corr.Run_Parse.

Definition scase := ((list token * option (list token)) * list (recv * query))%type.

Definition show_sres (r : sres) : string :=
  match r with
  | SList l => show_nats (map tuid l)
  | SOne (Some t) => "E" +++ nat_to_string (tuid t)
  | SOne None => "None"
  | SUnsupported => "unsupported"
  | SValueError => "exc:ValueError"
  end.
Definition find_elem (root : tag) (u : nat) : option tag := find u root.
Definition run_query (root : tag) (rq : recv * query) : string :=
  let '(r, q) := rq in
  match r with
  | RDoc => show_sres (doc_query root q)
  | RElem u => match find_elem root u with Some e => show_sres (elem_query e q) | None => "?elem" end
  | RColl us => show_sres (coll_query (flat_map (fun u => match find_elem root u with Some e => [e] | None => [] end) us) q)
  end.
Definition run_search (c : scase) : string :=
  let '(d, qs) := c in
  match feed PPlain (fst d) (match snd d with Some x => x | None => [] end) with
  | POk s => match tree_of s with
             | Some root => sjoin (String (ascii_of_nat 31) "") (map (run_query root) qs)
             | None => "no-root"
             end
  | PRaise e => show_exc e
  end.
