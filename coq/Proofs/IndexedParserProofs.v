(* The index the indexed parser holds after a parse is the index of the finished tree (C07); the uids of a parsed document are
   its document-order ranks, hence unique (hypothesis of C07, C14, C16); its attribute mappings have duplicate-free keys (C16). *)
From Coq Require Import Lia.
From AHP Require Import Model.Base Model.Str Model.Attr Model.Dom Model.Search Model.Index Model.Parser Model.IndexedParser Gen.Tables
     Proofs.DomProofs Proofs.SearchProofs Proofs.IndexProofs.

(* ---- what the index functions read of an element ---- *)
Definition view := (nat * string * Attr.st * string)%type.
Definition hview (h : hdr) : view := (uid h, name h, attrs h, indent h).
Definition tview (t : tag) : view := hview (hd_ t).
Definition vtag (v : view) : tag := let '(u, n, a, _) := v in Tag (mk_hdr u n a false None None) [].
Lemma index_tag_view c t i : index_tag c t i = index_tag c (vtag (tview t)) i.
Proof. destruct t as [h bs]. reflexivity. Qed.
Definition index_views (c : icfg) (vs : list view) (i : idx) : idx := fold_left (fun i v => index_tag c (vtag v) i) vs i.
Lemma index_all_views c els : forall i, index_all c els i = index_views c (map tview els) i.
Proof. unfold index_all, index_views. induction els as [|t els IH]; intros i; cbn [fold_left map]; auto. Qed.
Lemma index_views_app c a b i : index_views c (a ++ b) i = index_views c b (index_views c a i).
Proof. unfold index_views. apply fold_left_app. Qed.

(* ---- document order of a parser state: the zipper read from the outermost frame inwards ---- *)
Definition nodes_view (t : tag) : list view := map tview (all_nodes t).
Definition frame_view (f : frame) : list view := hview (fh f) :: flat_map nodes_view (tags_of (fbs f)).
Definition zview (l : list frame) : list view := flat_map frame_view (rev l).
Definition sview (s : pstate) : list view := (match pdone s with Some t => nodes_view t | None => [] end) ++ zview (pstk s).

Lemma nodes_view_unfold h bs : nodes_view (Tag h bs) = hview h :: flat_map nodes_view (tags_of bs).
Proof.
  unfold nodes_view. rewrite all_nodes_unfold. simpl. f_equal.
  induction (tags_of bs) as [|c l IH]; simpl; auto. now rewrite map_app, IH.
Qed.
Lemma zview_cons f r : zview (f :: r) = zview r ++ frame_view f.
Proof. unfold zview. simpl. rewrite flat_map_app. simpl. now rewrite app_nil_r. Qed.
Lemma hview_set_h h sc' tx ch : hview (set_h h sc' tx ch) = hview h.
Proof. reflexivity. Qed.
Lemma zview_push_text x l : zview (push_block (BText x) l) = zview l.
Proof.
  destruct l as [|f r]; simpl; auto. rewrite !zview_cons. f_equal. unfold frame_view. simpl. rewrite tags_of_app. simpl. now rewrite app_nil_r.
Qed.
Lemma zview_push_tag c l : l <> [] -> zview (push_block (BTag c) l) = zview l ++ nodes_view c.
Proof.
  destruct l as [|f r]; [congruence|]. intros _. simpl. rewrite !zview_cons, <- app_assoc. f_equal.
  unfold frame_view. simpl. rewrite tags_of_app, flat_map_app. simpl. now rewrite app_nil_r.
Qed.

(* the stack is empty before the first element, and once the root has been closed *)
Definition Inv (s : pstate) : Prop := (has_root s = false -> pstk s = [] /\ pdone s = None) /\ (pdone s = None \/ pstk s = []).
Lemma Inv_init : Inv pinit.
Proof. split; auto. Qed.

Lemma sview_pop s : Inv s -> sview (pop_frame s) = sview s /\ Inv (pop_frame s).
Proof.
  intros [H1 H2]. unfold pop_frame. destruct (pstk s) as [|f [|g r]] eqn:E; auto; [split; [|split]; auto; rewrite E; auto| |].
  - (* the root is closed *)
    destruct H2 as [H2|H2]; [|congruence]. split.
    + unfold sview. cbn [pdone pstk]. rewrite H2, E, zview_cons, nodes_view_unfold. unfold zview, frame_view. cbn [rev flat_map app].
      now rewrite app_nil_r.
    + split; cbn [pdone pstk has_root]; auto. intros Hr. destruct (H1 Hr) as [Hk _]. congruence.
  - split.
    + unfold sview, with_stk. cbn [pdone pstk]. rewrite E. rewrite zview_push_tag by discriminate. rewrite (zview_cons f (g :: r)).
      now rewrite nodes_view_unfold.
    + split; cbn [pdone pstk has_root with_stk].
      * intros Hr. destruct (H1 Hr) as [Hk _]. congruence.
      * destruct H2 as [H2|H2]; [now left | congruence].
Qed.
Lemma sview_pop_until n : forall fuel s, Inv s -> sview (pop_until fuel n s) = sview s /\ Inv (pop_until fuel n s).
Proof.
  induction fuel as [|k IH]; intros s Hi; simpl; auto. destruct (pstk s) as [|f r] eqn:E; auto.
  destruct (sview_pop s Hi) as [Hv Hi']. destruct (String.eqb (name (fh f)) n); auto.
  destruct (IH (pop_frame s) Hi') as [Hv2 Hi2]. split; auto. congruence.
Qed.
Lemma sview_text x s : Inv s -> sview (top_append_text x s) = sview s /\ Inv (top_append_text x s).
Proof.
  intros [H1 H2]. unfold top_append_text, sview, with_stk. simpl. rewrite zview_push_text. split; auto. split; simpl.
  - intros Hr. destruct (H1 Hr) as [Hk Hd]. rewrite Hk. auto.
  - destruct H2 as [H2|H2]; auto. right. rewrite H2. reflexivity.
Qed.

(* ---- one token ---- *)
Definition new_views (cls : pclass) (s : pstate) (t : token) : list view :=
  match created cls s t with Some x => [tview x] | None => [] end.

Lemma make_tag_view u n a leaf p x : make_tag u n a leaf p = POk x -> bs_ x = [BText ""] /\ nodes_view x = [tview x].
Proof.
  unfold make_tag. destruct (intake a st0) as [st [| |]]; try discriminate. intros H. inversion H; subst. split; auto.
Qed.

Lemma pstep_view cls s t s' : Inv s -> pstep cls s t = POk s' -> sview s' = sview s ++ new_views cls s t /\ Inv s'.
Proof.
  intros Hi. pose proof Hi as [H1 H2]. unfold new_views. destruct t as [n0 a selfc|n|d|e|ch|cm|d|d|p]; cbn [pstep created].
  - (* start tag *)
    unfold handle_start. destruct (match cls with PValidating => negb (forallb (fun kv => valid_attr_name (fst kv)) a) | _ => false end); [discriminate|].
    destruct (make_tag (pnext s) (lower n0) a (selfc || is_void (lower n0)) (top_uid (pstk s))) as [[h bs]|e] eqn:Em; [|discriminate].
    destruct (make_tag_view _ _ _ _ _ _ Em) as [Hb Hv]. simpl in Hb. subst bs.
    destruct (has_root s) eqn:Hr; cbn [negb].
    + destruct (pstk s) as [|f r] eqn:Ek; [discriminate|].
      destruct (selfc || is_void (lower n0)); intros H; inversion H; subst; clear H; split.
      * unfold sview. cbn [pdone pstk].
        change ({| fh := set_h (fh f) false (text (fh f)) (children (fh f) ++ [tuid (Tag h [BText ""])]); fbs := fbs f ++ [BTag (Tag h [BText ""])] |} :: r)
          with (push_block (BTag (Tag h [BText ""])) (f :: r)).
        rewrite zview_push_tag by discriminate. rewrite Ek, Hv. now rewrite app_assoc.
      * split; cbn [pdone pstk has_root]; [discriminate|]. destruct H2 as [H2|H2]; [now left|congruence].
      * unfold sview. cbn [pdone pstk]. rewrite Ek. rewrite (zview_cons _ (f :: r)). unfold frame_view. cbn [fh fbs tags_of flat_map].
        now rewrite app_assoc.
      * split; cbn [pdone pstk has_root]; [discriminate|]. destruct H2 as [H2|H2]; [now left|congruence].
    + destruct (H1 eq_refl) as [Hk Hd].
      destruct (selfc || is_void (lower n0)); intros H; inversion H; subst; clear H; split.
      * unfold sview. cbn [pdone pstk]. rewrite Hk, Hd, Hv. reflexivity.
      * split; cbn [pdone pstk has_root]; [discriminate|now right].
      * unfold sview. cbn [pdone pstk]. rewrite Hk, Hd. unfold zview, frame_view. cbn. reflexivity.
      * split; cbn [pdone pstk has_root]; [discriminate|now left].
  - (* end tag *)
    rewrite app_nil_r. destruct cls; cbn.
    + intros H. inversion H; subst. unfold handle_end_plain. destruct (has_name n (pstk s)); auto. now apply sview_pop_until.
    + intros H. inversion H; subst. unfold handle_end_plain. destruct (has_name n (pstk s)); auto. now apply sview_pop_until.
    + unfold handle_end_validating. destruct (pstk s) as [|f r] eqn:Ek; [discriminate|].
      destruct (negb (has_name n (f :: r))); [discriminate|]. destruct (negb (String.eqb (name (fh f)) n)); [discriminate|].
      intros H. inversion H; subst. now apply sview_pop.
  - (* data *)
    rewrite app_nil_r. destruct (String.eqb d ""); [intros H; inversion H; subst; auto|].
    destruct (pstk s) eqn:Ek; [destruct (String.eqb (strip d) ""); [intros H; inversion H; subst; auto|discriminate]|].
    intros H. inversion H; subst. now apply sview_text.
  - rewrite app_nil_r. unfold in_root_text. destruct (pstk s) eqn:Ek; [discriminate|]. intros H. inversion H; subst. now apply sview_text.
  - rewrite app_nil_r. unfold in_root_text. destruct (pstk s) eqn:Ek; [discriminate|]. intros H. inversion H; subst. now apply sview_text.
  - rewrite app_nil_r. unfold in_root_text. destruct (pstk s) eqn:Ek; [discriminate|]. intros H. inversion H; subst. now apply sview_text.
  - rewrite app_nil_r. intros H. inversion H; subst. auto.
  - rewrite app_nil_r. destruct (pdoctype s) as [x|]; [destruct (nonempty x)|]; intros H; inversion H; subst; auto.
  - rewrite app_nil_r. intros H. inversion H; subst. auto.
Qed.

(* ---- a whole pass, and the finished tree ---- *)
Lemma irun_view c cls : forall ts s i s' i', Inv s -> irun c cls (s, i) ts = POk (s', i') ->
  exists vs, sview s' = sview s ++ vs /\ i' = index_views c vs i /\ Inv s' /\ prun cls s ts = POk s'.
Proof.
  induction ts as [|t ts IH]; intros s i s' i' Hi H; simpl in H.
  - inversion H; subst. exists []. rewrite app_nil_r. split; [reflexivity|]. split; [reflexivity|]. split; [exact Hi|reflexivity].
  - unfold istep in H. cbn [fst snd] in H. destruct (pstep cls s t) as [s1|e] eqn:Ep; [|discriminate].
    destruct (pstep_view cls s t s1 Hi Ep) as [Hv Hi1].
    destruct (IH _ _ _ _ Hi1 H) as (vs & Hvs & Hix & Hi' & Hp).
    exists (new_views cls s t ++ vs). split; [|split; [|split; [exact Hi'|]]].
    + now rewrite Hvs, Hv, app_assoc.
    + rewrite Hix, index_views_app. f_equal. unfold new_views. destruct (created cls s t); reflexivity.
    + simpl. now rewrite Ep.
Qed.
Lemma pop_frame_len s : length (pstk (pop_frame s)) = Nat.pred (length (pstk s)).
Proof. unfold pop_frame. destruct (pstk s) as [|f [|g r]] eqn:E; simpl; rewrite ?E; reflexivity. Qed.
Lemma plug_all_view : forall fuel s, Inv s -> length (pstk s) <= fuel ->
  sview (plug_all fuel s) = sview s /\ pstk (plug_all fuel s) = [].
Proof.
  induction fuel as [|k IH]; intros s Hi Hl; simpl.
  - destruct (pstk s); [auto | simpl in Hl; lia].
  - destruct (pstk s) as [|f r] eqn:E; [auto|]. destruct (sview_pop s Hi) as [Hv Hi'].
    destruct (IH (pop_frame s) Hi') as [Hv2 Hk]; [rewrite pop_frame_len, E; simpl in *; lia|]. split; auto. congruence.
Qed.
Lemma tree_of_view s root : Inv s -> tree_of s = Some root -> sview s = nodes_view root.
Proof.
  intros Hi H. unfold tree_of in H. destruct (plug_all_view (length (pstk s)) s Hi (le_n _)) as [Hv Hk].
  rewrite <- Hv. unfold sview. rewrite H, Hk. unfold zview. simpl. now rewrite app_nil_r.
Qed.

(* the index the indexed parser holds after parseStr is the one reindex() would build from the finished tree *)
Theorem parse_index_is_reindex c cls i ts1 ts2 s' i' root :
  ifeed c cls i ts1 ts2 = POk (s', i') -> tree_of s' = Some root -> i' = reindex c root i /\ feed cls ts1 ts2 = POk s'.
Proof.
  intros H Ht. unfold ifeed in H. unfold feed, reindex. rewrite index_all_views.
  assert (G : forall ts, irun c cls (pinit, reset_idx i) ts = POk (s', i') ->
                         i' = index_views c (map tview (all_nodes root)) (reset_idx i) /\ prun cls pinit ts = POk s').
  { intros ts Hr. destruct (irun_view c cls ts pinit (reset_idx i) s' i' Inv_init Hr) as (vs & Hvs & Hix & Hi' & Hp).
    split; auto. rewrite Hix. f_equal. change (sview pinit) with (@nil view) in Hvs. simpl in Hvs.
    rewrite <- Hvs. now apply tree_of_view. }
  assert (E : forall ts e, irun c cls (pinit, reset_idx i) ts = PRaise e -> prun cls pinit ts = PRaise e).
  { intros ts. generalize pinit (reset_idx i). induction ts as [|t ts IH]; intros s0 i0 e Hr; simpl in *; [discriminate|].
    unfold istep in Hr. cbn [fst snd] in Hr. destruct (pstep cls s0 t) as [s1|e1]; [eapply IH; eauto | congruence]. }
  destruct (irun c cls (pinit, reset_idx i) ts1) as [[s1 i1]|e] eqn:E1.
  - inversion H; subst. destruct (G ts1 E1) as [G1 G2]. now rewrite G2.
  - rewrite (E ts1 e E1). destruct e; try discriminate. destruct (G ts2 H) as [G1 G2]. auto.
Qed.

(* ---- uids of a parsed document are its document-order ranks ---- *)
Definition vuid (v : view) : nat := fst (fst (fst v)).
Lemma make_tag_uid u n a leaf p x : make_tag u n a leaf p = POk x -> tuid x = u.
Proof. unfold make_tag. destruct (intake a st0) as [st [| |]]; try discriminate. intros H. inversion H; subst. reflexivity. Qed.
Lemma pstep_next cls s t s' : pstep cls s t = POk s' ->
  map vuid (new_views cls s t) = seq (pnext s) (length (new_views cls s t)) /\ pnext s' = pnext s + length (new_views cls s t).
Proof.
  unfold new_views. destruct t as [n0 a selfc|n|d|e|ch|cm|d|d|p]; cbn [pstep created].
  - unfold handle_start. destruct (match cls with PValidating => negb (forallb (fun kv => valid_attr_name (fst kv)) a) | _ => false end); [discriminate|].
    destruct (make_tag (pnext s) (lower n0) a (selfc || is_void (lower n0)) (top_uid (pstk s))) as [[h bs]|e] eqn:Em; [|discriminate].
    pose proof (make_tag_uid _ _ _ _ _ _ Em) as Hu.
    destruct (negb (has_root s)); [|destruct (pstk s); [discriminate|]]; destruct (selfc || is_void (lower n0)); intros H; inversion H; subst;
      cbn [pnext map length seq]; unfold vuid, tview, hview; cbn [fst hd_]; unfold tuid in Hu; cbn [hd_] in Hu; rewrite Hu; split; auto; lia.
  - intros H. split; [reflexivity|]. cbn [length]. rewrite Nat.add_0_r. destruct cls; cbn in H.
    + inversion H; subst. unfold handle_end_plain. destruct (has_name n (pstk s)); auto. clear. generalize (length (pstk s)). intros fuel.
      revert s. induction fuel as [|k IH]; intros s; simpl; auto. destruct (pstk s) as [|f r] eqn:E; auto.
      assert (P : pnext (pop_frame s) = pnext s) by (unfold pop_frame; rewrite E; destruct r; reflexivity).
      destruct (String.eqb (name (fh f)) n); auto. now rewrite IH.
    + inversion H; subst. unfold handle_end_plain. destruct (has_name n (pstk s)); auto. clear. generalize (length (pstk s)). intros fuel.
      revert s. induction fuel as [|k IH]; intros s; simpl; auto. destruct (pstk s) as [|f r] eqn:E; auto.
      assert (P : pnext (pop_frame s) = pnext s) by (unfold pop_frame; rewrite E; destruct r; reflexivity).
      destruct (String.eqb (name (fh f)) n); auto. now rewrite IH.
    + unfold handle_end_validating in H. destruct (pstk s) as [|f r] eqn:Ek; [discriminate|].
      destruct (negb (has_name n (f :: r))); [discriminate|]. destruct (negb (String.eqb (name (fh f)) n)); [discriminate|].
      inversion H; subst. unfold pop_frame. rewrite Ek. destruct r; reflexivity.
  - intros H. split; [reflexivity|]. cbn [length]. rewrite Nat.add_0_r. destruct (String.eqb d ""); [inversion H; auto|].
    destruct (pstk s); [destruct (String.eqb (strip d) ""); [inversion H; auto|discriminate]|]. inversion H; reflexivity.
  - intros H. split; [reflexivity|]. cbn [length]. rewrite Nat.add_0_r. unfold in_root_text in H. destruct (pstk s); [discriminate|]. inversion H; reflexivity.
  - intros H. split; [reflexivity|]. cbn [length]. rewrite Nat.add_0_r. unfold in_root_text in H. destruct (pstk s); [discriminate|]. inversion H; reflexivity.
  - intros H. split; [reflexivity|]. cbn [length]. rewrite Nat.add_0_r. unfold in_root_text in H. destruct (pstk s); [discriminate|]. inversion H; reflexivity.
  - intros H. split; [reflexivity|]. cbn [length]. rewrite Nat.add_0_r. inversion H; reflexivity.
  - intros H. split; [reflexivity|]. cbn [length]. rewrite Nat.add_0_r. destruct (pdoctype s) as [x|]; [destruct (nonempty x)|]; inversion H; reflexivity.
  - intros H. split; [reflexivity|]. cbn [length]. rewrite Nat.add_0_r. inversion H; reflexivity.
Qed.
Lemma prun_ranks cls : forall ts s s', Inv s -> map vuid (sview s) = seq 0 (pnext s) -> prun cls s ts = POk s' ->
  map vuid (sview s') = seq 0 (pnext s') /\ Inv s'.
Proof.
  induction ts as [|t ts IH]; intros s s' Hi Hs H; simpl in H; [inversion H; subst; auto|].
  destruct (pstep cls s t) as [s1|e] eqn:Ep; [|discriminate].
  destruct (pstep_view cls s t s1 Hi Ep) as [Hv Hi1]. destruct (pstep_next cls s t s1 Ep) as [Hn Hp].
  apply (IH s1 s' Hi1); auto. rewrite Hv, map_app, Hs, Hn, Hp. now rewrite seq_app.
Qed.
Theorem parsed_uids_are_ranks cls ts1 ts2 s root : feed cls ts1 ts2 = POk s -> tree_of s = Some root ->
  uids_of root = seq 0 (pnext s) /\ NoDup (uids_of root).
Proof.
  intros H Ht.
  assert (G : forall ts, prun cls pinit ts = POk s -> uids_of root = seq 0 (pnext s)).
  { intros ts Hr. destruct (prun_ranks cls ts pinit s Inv_init eq_refl Hr) as [Hs Hi].
    rewrite (tree_of_view s root Hi Ht) in Hs. unfold nodes_view in Hs. rewrite map_map in Hs.
    rewrite <- uids_all_nodes. rewrite <- Hs. apply map_ext. intros [h bs]. reflexivity. }
  assert (E : uids_of root = seq 0 (pnext s)).
  { unfold feed in H. destruct (prun cls pinit ts1) as [s1|e] eqn:E1; [inversion H; subst; eauto|]. destruct e; try discriminate. eauto. }
  split; auto. rewrite E. apply seq_NoDup.
Qed.

(* ---- the attribute mappings of a parsed document have duplicate-free keys (hypothesis GoodAttrs of C16) ---- *)
From AHP Require Import Proofs.StrProofs Proofs.AttrProofs Proofs.ObserveProofs.
Definition vgood (v : view) : Prop := KeysOK (snd (fst v)).
Lemma make_tag_good u n a leaf p x : make_tag u n a leaf p = POk x -> vgood (tview x).
Proof.
  unfold make_tag. destruct (intake a st0) as [st r] eqn:E. destruct r; try discriminate. intros H. inversion H; subst.
  unfold vgood, tview, hview. cbn [snd hd_ attrs mk_hdr]. pose proof (inv_intake a st0 inv_st0) as [Hk _]. now rewrite E in Hk.
Qed.
Lemma prun_good cls : forall ts s s', Inv s -> Forall vgood (sview s) -> prun cls s ts = POk s' -> Forall vgood (sview s') /\ Inv s'.
Proof.
  induction ts as [|t ts IH]; intros s s' Hi Hs H; simpl in H; [inversion H; subst; auto|].
  destruct (pstep cls s t) as [s1|e] eqn:Ep; [|discriminate].
  destruct (pstep_view cls s t s1 Hi Ep) as [Hv Hi1]. apply (IH s1 s' Hi1); auto. rewrite Hv. apply Forall_app. split; auto.
  unfold new_views, created. destruct t; auto.
  destruct (make_tag (pnext s) (lower n) a (selfc || is_void (lower n)) (top_uid (pstk s))) eqn:Em; auto.
  constructor; auto. eapply make_tag_good; eauto.
Qed.
Theorem parsed_good_attrs cls ts1 ts2 s root : feed cls ts1 ts2 = POk s -> tree_of s = Some root -> GoodAttrs root.
Proof.
  intros H Ht.
  assert (G : forall ts, prun cls pinit ts = POk s -> GoodAttrs root).
  { intros ts Hr. destruct (prun_good cls ts pinit s Inv_init (Forall_nil _) Hr) as [Hs Hi].
    rewrite (tree_of_view s root Hi Ht) in Hs. unfold nodes_view in Hs. rewrite Forall_map in Hs.
    unfold GoodAttrs. eapply Forall_impl; [|exact Hs]. intros [h bs] Hx. exact Hx. }
  unfold feed in H. destruct (prun cls pinit ts1) as [s1|e] eqn:E1; [inversion H; subst; eauto|]. destruct e; try discriminate. eauto.
Qed.
