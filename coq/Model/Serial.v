(* Serial.v — serialisation: Tags.py getStartTag / getEndTag / innerHTML / outerHTML / textContent and
   Parser.py getHTML.  The attribute part is Attr.start_attrs on the synchronised store. *)
From AHP Require Import Model.Base Model.Str Model.Attr Model.Dom Gen.Tables.

Definition is_preformatted (n : string) : bool := smem n preformatted_tags.

(* getStartTag: "%s<%s%s >" / "%s<%s%s />" *)
Definition start_tag (h : hdr) : string :=
  let a := start_attrs (sync (attrs h)) in
  let astr := if String.eqb a "" then "" else " " +++ a in
  indent h +++ "<" +++ name h +++ astr +++ (if sc h then " />" else " >").
(* getEndTag *)
Definition end_tag (h : hdr) : string :=
  if sc h then ""
  else if nonempty (indent h) && is_preformatted (name h) then "</" +++ name h +++ ">"
  else indent h +++ "</" +++ name h +++ ">".

Fixpoint outer_html (t : tag) : string :=
  match t with
  | Tag h bs =>
      start_tag h +++
      (if sc h then "" else
         (fix go (l : list (block tag)) : string :=
            match l with [] => "" | BText s :: r => s +++ go r | BTag c :: r => outer_html c +++ go r end) bs)
      +++ end_tag h
  end.
Definition block_html (b : block tag) : string := match b with BText s => s | BTag c => outer_html c end.
Definition inner_html (t : tag) : string :=
  match t with Tag h bs => if sc h then "" else concat_s (map block_html bs) end.

Fixpoint text_content (t : tag) : string :=
  match t with
  | Tag h bs => (fix go (l : list (block tag)) : string :=
                   match l with [] => "" | BText s :: r => s +++ go r | BTag c :: r => text_content c +++ go r end) bs
  end.

(* Parser.getHTML: doctype line, inner HTML of the invisible wrapper / outer HTML of a real root; ValueError without root *)
Definition doctype_line (d : option string) : string :=
  match d with Some x => if nonempty x then "<!" +++ x +++ ">" +++ String (ascii_of_nat 10) "" else "" | None => "" end.
Definition is_invisible (t : tag) : bool := String.eqb (name (hd_ t)) invisible_root_tag.
Definition get_html (root : option tag) (d : option string) : option string :=
  match root with
  | None => None
  | Some r => Some (doctype_line d +++ (if is_invisible r then inner_html r else outer_html r))
  end.
