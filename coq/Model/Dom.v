(* Dom.v — elements, trees, worlds and the public mutators of Tags.py (456-835): appendText, appendChild,
   appendBlock(s), insertBefore/insertAfter (_insertBlockAt), removeChild(ren), removeBlock(s), removeText,
   removeTextAll, remove.  Nested tree with the redundant fields kept (children beside blocks, cached text,
   parent/owner back links, the self-closing flag); operations are addressed by uid and act on a world
   (document root + detached roots).  DESIGN 3.2. *)
From AHP Require Import Model.Base Model.Str Model.Attr Gen.Tables.

Record hdr := { uid : nat; name : string; attrs : Attr.st; sc : bool; text : string;
                parent : option nat; owner : option nat; children : list nat; indent : string }.
Inductive block (T : Type) := BText (s : string) | BTag (t : T).
Arguments BText {T}. Arguments BTag {T}.
Inductive tag := Tag (h : hdr) (bs : list (block tag)).
Definition hd_ (t : tag) : hdr := let 'Tag h _ := t in h.
Definition bs_ (t : tag) : list (block tag) := let 'Tag _ b := t in b.
Definition tuid (t : tag) : nat := uid (hd_ t).
Definition bmap {A B} (g : A -> B) (b : block A) : block B := match b with BText s => BText s | BTag t => BTag (g t) end.
Fixpoint texts_of {T} (bs : list (block T)) : list string :=
  match bs with [] => [] | BText s :: r => s :: texts_of r | _ :: r => texts_of r end.
Fixpoint tags_of {T} (bs : list (block T)) : list T :=
  match bs with [] => [] | BTag t :: r => t :: tags_of r | _ :: r => tags_of r end.
Definition concat_s (l : list string) : string := fold_right String.append "" l.

Definition set_h (h : hdr) (sc' : bool) (text' : string) (children' : list nat) : hdr :=
  {| uid := uid h; name := name h; attrs := attrs h; sc := sc'; text := text'; parent := parent h; owner := owner h;
     children := children'; indent := indent h |}.
Definition set_po (h : hdr) (p o : option nat) : hdr :=
  {| uid := uid h; name := name h; attrs := attrs h; sc := sc h; text := text h; parent := p; owner := o;
     children := children h; indent := indent h |}.
Definition mk_hdr (u : nat) (n : string) (a : Attr.st) (sc' : bool) (p o : option nat) : hdr :=
  {| uid := u; name := n; attrs := a; sc := sc'; text := ""; parent := p; owner := o; children := []; indent := "" |}.
(* AdvancedTag.__init__: blocks = [''] *)
Definition new_tag (u : nat) (n : string) (a : Attr.st) (sc' : bool) (p o : option nat) : tag := Tag (mk_hdr u n a sc' p o) [BText ""].

Fixpoint update_at (u : nat) (f : tag -> tag) (t : tag) {struct t} : tag :=
  match t with Tag h bs => if Nat.eqb (uid h) u then f t else Tag h (map (bmap (update_at u f)) bs) end.
Fixpoint find (u : nat) (t : tag) {struct t} : option tag :=
  match t with Tag h bs => if Nat.eqb (uid h) u then Some t else
    (fix go (l : list (block tag)) := match l with
       | [] => None | BTag c :: r => match find u c with Some x => Some x | None => go r end | _ :: r => go r end) bs end.
(* child.ownerDocument = o; for sub in child.getAllChildNodes(): sub.ownerDocument = o *)
Fixpoint set_owner_rec (o : option nat) (t : tag) {struct t} : tag :=
  match t with Tag h bs => Tag (set_po h (parent h) o) (map (bmap (set_owner_rec o)) bs) end.
Definition reparent (p : option nat) (o : option nat) (c : tag) : tag :=
  set_owner_rec o (let 'Tag hc bc := c in Tag (set_po hc p (owner hc)) bc).
Fixpoint uids_of (t : tag) : list nat :=
  match t with Tag h bs => uid h :: flat_map (fun b => match b with BTag c => uids_of c | BText _ => [] end) bs end.

(* the world: the document root (if any) first, then the detached roots *)
Definition world := list tag.
Fixpoint wfind (u : nat) (w : world) : option tag :=
  match w with [] => None | t :: r => match find u t with Some x => Some x | None => wfind u r end end.
Definition wupdate (u : nat) (f : tag -> tag) (w : world) : world := map (update_at u f) w.
(* a detached root other than the first (document) slot *)
Fixpoint take_root (u : nat) (w : world) : option (tag * world) :=
  match w with
  | [] => None
  | t :: r => if Nat.eqb (tuid t) u then Some (t, r)
              else match take_root u r with Some (x, r') => Some (x, t :: r') | None => None end
  end.
Definition take_detached (u : nat) (w : world) : option (tag * world) :=
  match w with
  | [] => None
  | d :: r => match take_root u r with Some (x, r') => Some (x, d :: r') | None => None end
  end.

Inductive blk := KText (s : string) | KTag (u : nat).   (* block arguments of API calls *)

(* list.index / list.remove / in on blocks: uid for tags, string equality for text *)
Definition beq (b : block tag) (k : blk) : bool :=
  match b, k with BText s, KText s' => String.eqb s s' | BTag t, KTag u => Nat.eqb (tuid t) u | _, _ => false end.
Fixpoint index_of (k : blk) (l : list (block tag)) : option nat :=
  match l with [] => None | b :: r => if beq b k then Some 0 else match index_of k r with Some i => Some (S i) | None => None end end.
Fixpoint insert_at {A} (i : nat) (x : A) (l : list A) : list A :=
  match i, l with 0, _ => x :: l | S k, y :: r => y :: insert_at k x r | S _, [] => [x] end.
Fixpoint remove_uid_block (u : nat) (l : list (block tag)) : list (block tag) :=
  match l with
  | [] => []
  | BTag t :: r => if Nat.eqb (tuid t) u then r else BTag t :: remove_uid_block u r
  | b :: r => b :: remove_uid_block u r
  end.
Fixpoint remove_nat (u : nat) (l : list nat) : list nat :=
  match l with [] => [] | x :: r => if Nat.eqb x u then r else x :: remove_nat u r end.
Fixpoint count_tags (n : nat) (l : list (block tag)) : nat :=
  match n, l with
  | 0, _ => 0 | _, [] => 0
  | S k, BTag _ :: r => S (count_tags k r)
  | S k, _ :: r => count_tags k r
  end.

(* Python: sub in s ; s.replace(sub, '', 1) ; s.replace(sub, '') *)
Fixpoint containsb (sub s : string) : bool :=
  prefix_b sub s || match s with String _ r => containsb sub r | EmptyString => false end.
Fixpoint drop (n : nat) (s : string) : string := match n, s with 0, _ => s | S k, String _ r => drop k r | _, _ => s end.
Fixpoint replace_first (sub s : string) : string :=
  if prefix_b sub s then drop (String.length sub) s
  else match s with String c r => String c (replace_first sub r) | EmptyString => EmptyString end.
Fixpoint replace_all_f (fuel : nat) (sub s : string) : string :=
  match fuel with 0 => s | S k =>
    match s with
    | EmptyString => EmptyString
    | String c r => if prefix_b sub s then replace_all_f k sub (drop (String.length sub) s) else String c (replace_all_f k sub r)
    end end.
Definition replace_all (sub s : string) : string := if String.eqb sub "" then s else replace_all_f (S (String.length s)) sub s.

(* ---- mutators on one element ---- *)
Definition appendText_here (s : string) (t : tag) : tag :=
  let 'Tag h bs := t in Tag (set_h h false (text h +++ s) (children h)) (bs ++ [BText s]).
Definition appendChild_here (c : tag) (t : tag) : tag :=
  let 'Tag h bs := t in
  Tag (set_h h false (text h) (children h ++ [tuid c])) (bs ++ [BTag (reparent (Some (uid h)) (owner h) c)]).
(* _insertBlockAt *)
Definition insertTag_here (bi : nat) (c : tag) (t : tag) : tag :=
  let 'Tag h bs := t in
  Tag (set_h h false (text h) (insert_at (count_tags bi bs) (tuid c) (children h)))
      (insert_at bi (BTag (reparent (Some (uid h)) (owner h) c)) bs).
Definition insertText_here (bi : nat) (s : string) (t : tag) : tag :=
  let 'Tag h bs := t in
  let bs' := insert_at bi (BText s) bs in Tag (set_h h false (concat_s (texts_of bs')) (children h)) bs'.

Inductive ret := ROk | RNone | RStr (s : string) | RList (l : list string) | RTrue | RFalse
               | RValueError | RKeyError | ROutOfDomain.

Definition appendText (w : world) (t : nat) (s : string) : world * ret := (wupdate t (appendText_here s) w, ROk).
Definition appendChild (w : world) (t c : nat) : world * ret :=
  match take_detached c w with
  | Some (ct, w') => (wupdate t (appendChild_here ct) w', ROk)
  | None => (w, ROutOfDomain)
  end.
Definition appendBlock (w : world) (t : nat) (b : blk) : world * ret :=
  match b with KText s => appendText w t s | KTag c => appendChild w t c end.
Fixpoint appendBlocks (w : world) (t : nat) (bs : list blk) : world * ret :=
  match bs with
  | [] => (w, ROk)
  | b :: r => match appendBlock w t b with (w', ROk) => appendBlocks w' t r | e => e end
  end.

Definition insert_rel (after : bool) (w : world) (t : nat) (child : blk) (ref : option blk) : world * ret :=
  match ref with
  | None => appendBlock w t child
  | Some r =>
    match wfind t w with
    | None => (w, ROutOfDomain)
    | Some (Tag h bs) =>
      match index_of r bs with
      | None => (w, RValueError)
      | Some bi0 =>
        let bi := if after then S bi0 else bi0 in
        match child with
        | KText s => (wupdate t (insertText_here bi s) w, ROk)
        | KTag c => match take_detached c w with
                    | None => (w, ROutOfDomain)
                    | Some (ct, w') => (wupdate t (insertTag_here bi ct) w', ROk)
                    end
        end
      end
    end
  end.

Definition removeChild_here (c : nat) (t : tag) : tag :=
  let 'Tag h bs := t in Tag (set_h h (sc h) (text h) (remove_nat c (children h))) (remove_uid_block c bs).
Fixpoint find_child (c : nat) (l : list (block tag)) : option tag :=
  match l with [] => None | BTag x :: r => if Nat.eqb (tuid x) c then Some x else find_child c r | _ :: r => find_child c r end.
Definition removeChild (w : world) (t c : nat) : world * ret :=
  match wfind t w with
  | None => (w, ROutOfDomain)
  | Some (Tag h bs) =>
    if existsb (Nat.eqb c) (children h) then
      match find_child c bs with
      | None => (w, RNone)                                  (* blocks.remove raises ValueError: caught *)
      | Some ct => (wupdate t (removeChild_here c) w ++ [reparent None None ct], ROk)
      end
    else (w, RNone)
  end.
Definition ret_s (r : ret) : string :=
  match r with ROk => "ok" | RNone => "None" | RStr s => "s" +++ hex s | RTrue => "True" | RFalse => "False" | _ => "?" end.
Fixpoint removeChildren (w : world) (t : nat) (cs : list nat) (acc : list string) : world * ret :=
  match cs with
  | [] => (w, RList acc)
  | c :: r => let '(w', x) := removeChild w t c in
              match x with ROutOfDomain => (w', x) | _ => removeChildren w' t r (acc ++ [ret_s x]) end
  end.
Definition remove_ (w : world) (c : nat) : world * ret :=
  match wfind c w with
  | Some (Tag hc _) => match parent hc with
                       | Some p => let '(w', _) := removeChild w p c in (w', RTrue)
                       | None => (w, RFalse) end
  | None => (w, ROutOfDomain)
  end.

Fixpoint removeText_blocks (s : string) (l : list (block tag)) : list (block tag) * option string :=
  match l with
  | [] => ([], None)
  | BText b :: r => if containsb s b then (BText (replace_first s b) :: r, Some b)
                    else let '(r', o) := removeText_blocks s r in (BText b :: r', o)
  | x :: r => let '(r', o) := removeText_blocks s r in (x :: r', o)
  end.
Fixpoint removeTextAll_blocks (s : string) (l : list (block tag)) : list (block tag) * list string :=
  match l with
  | [] => ([], [])
  | BText b :: r => let '(r', o) := removeTextAll_blocks s r in
                    if containsb s b then (BText (replace_all s b) :: r', b :: o) else (BText b :: r', o)
  | x :: r => let '(r', o) := removeTextAll_blocks s r in (x :: r', o)
  end.
Definition set_blocks_text (bs' : list (block tag)) (t : tag) : tag :=
  let 'Tag h _ := t in Tag (set_h h (sc h) (concat_s (texts_of bs')) (children h)) bs'.
Definition removeText_here (s : string) (t : tag) : tag := set_blocks_text (fst (removeText_blocks s (bs_ t))) t.
Definition removeTextAll_here (s : string) (t : tag) : tag := set_blocks_text (fst (removeTextAll_blocks s (bs_ t))) t.
Definition removeText (w : world) (t : nat) (s : string) : world * ret :=
  match wfind t w with
  | Some (Tag h bs) => (wupdate t (removeText_here s) w,
                        match snd (removeText_blocks s bs) with Some b => RStr b | None => RNone end)
  | None => (w, ROutOfDomain)
  end.
Definition removeTextAll (w : world) (t : nat) (s : string) : world * ret :=
  match wfind t w with
  | Some (Tag h bs) => (wupdate t (removeTextAll_here s) w, RList (map hex (snd (removeTextAll_blocks s bs))))
  | None => (w, ROutOfDomain)
  end.
Definition removeBlock (w : world) (t : nat) (b : blk) : world * ret :=
  match b with KTag c => removeChild w t c | KText s => removeText w t s end.
Fixpoint removeBlocks (w : world) (t : nat) (bs : list blk) (acc : list string) : world * ret :=
  match bs with
  | [] => (w, RList acc)
  | b :: r => let '(w', x) := removeBlock w t b in
              match x with ROutOfDomain => (w', x) | _ => removeBlocks w' t r (acc ++ [ret_s x]) end
  end.

Inductive op :=
| OAppendChild (t c : nat) | OAppendChildNone (t : nat) | OAppendText (t : nat) (s : string)
| OAppendBlock (t : nat) (b : blk) | OAppendBlocks (t : nat) (bs : list blk)
| OInsertBefore (t : nat) (c : blk) (r : option blk) | OInsertAfter (t : nat) (c : blk) (r : option blk)
| ORemoveChild (t c : nat) | ORemoveChildren (t : nat) (cs : list nat)
| ORemoveBlock (t : nat) (b : blk) | ORemoveBlocks (t : nat) (bs : list blk)
| ORemoveText (t : nat) (s : string) | ORemoveTextAll (t : nat) (s : string) | ORemove (c : nat).

Definition step (w : world) (o : op) : world * ret :=
  match o with
  | OAppendChild t c => appendChild w t c
  | OAppendChildNone t => (w, RKeyError)
  | OAppendText t s => appendText w t s
  | OAppendBlock t b => appendBlock w t b
  | OAppendBlocks t bs => appendBlocks w t bs
  | OInsertBefore t c r => insert_rel false w t c r
  | OInsertAfter t c r => insert_rel true w t c r
  | ORemoveChild t c => removeChild w t c
  | ORemoveChildren t cs => removeChildren w t cs []
  | ORemoveBlock t b => removeBlock w t b
  | ORemoveBlocks t bs => removeBlocks w t bs []
  | ORemoveText t s => removeText w t s
  | ORemoveTextAll t s => removeTextAll w t s
  | ORemove c => remove_ w c
  end.

(* ---------- seed construction (names, self-closed flag, text) ---------- *)
Inductive dtoken := DStart (n : string) (selfc : bool) | DEnd (n : string) | DData (s : string).
Record frame := { fh : hdr; fbs : list (block tag) }.
Definition is_void (n : string) : bool := smem n Gen.Tables.implicit_self_closing.
Definition push_block (b : block tag) (l : list frame) : list frame :=
  match l with
  | f :: r => {| fh := (match b with
                        | BText s => set_h (fh f) false (text (fh f) +++ s) (children (fh f))
                        | BTag c => set_h (fh f) false (text (fh f)) (children (fh f) ++ [tuid c]) end);
                 fbs := fbs f ++ [b] |} :: r
  | [] => []
  end.
Record pst := { stk : list frame; proot : option tag; nxt : nat }.
Definition close_top (s : pst) : pst :=
  match stk s with
  | f :: g :: r => {| stk := push_block (BTag (Tag (fh f) (fbs f))) (g :: r); proot := proot s; nxt := nxt s |}
  | [f] => {| stk := []; proot := Some (Tag (fh f) (fbs f)); nxt := nxt s |}
  | [] => s
  end.
Fixpoint has_name (n : string) (l : list frame) : bool :=
  match l with [] => false | f :: r => String.eqb (name (fh f)) n || has_name n r end.
Fixpoint close_until (fuel : nat) (n : string) (s : pst) : pst :=
  match fuel with 0 => s | S k =>
    match stk s with [] => s | f :: _ => if String.eqb (name (fh f)) n then close_top s else close_until k n (close_top s) end end.
Definition top_uid (l : list frame) : option nat := match l with f :: _ => Some (uid (fh f)) | [] => None end.
Definition dstep (own : option nat) (s : pst) (t : dtoken) : pst :=
  match t with
  | DStart n selfc =>
      match stk s, proot s with
      | [], Some _ => s                                        (* a second root: not generated *)
      | _, _ =>
        let leaf := selfc || is_void n in
        let h := mk_hdr (nxt s) n Attr.st0 leaf (top_uid (stk s)) own in
        if leaf then
          match stk s with
          | [] => {| stk := []; proot := Some (Tag h [BText ""]); nxt := S (nxt s) |}
          | _ => {| stk := push_block (BTag (Tag h [BText ""])) (stk s); proot := proot s; nxt := S (nxt s) |}
          end
        else {| stk := {| fh := h; fbs := [BText ""] |} :: stk s; proot := proot s; nxt := S (nxt s) |}
      end
  | DEnd n => if has_name n (stk s) then close_until (length (stk s)) n s else s
  | DData d => match stk s with [] => s | _ => {| stk := push_block (BText d) (stk s); proot := proot s; nxt := nxt s |} end
  end.
Fixpoint close_all (fuel : nat) (s : pst) : pst :=
  match fuel with 0 => s | S k => match stk s with [] => s | _ => close_all k (close_top s) end end.
Definition dbuild (own : option nat) (ts : list dtoken) : option tag * nat :=
  let s := fold_left (dstep own) ts {| stk := []; proot := None; nxt := 0 |} in
  let s := close_all (length (stk s)) s in (proot s, nxt s).

Definition mk_world (parser_owned : bool) (ts : list dtoken) (spares : list (string * bool)) : world :=
  let '(r, n) := dbuild (if parser_owned then Some 0 else None) ts in
  let docroot := match r with Some t => [t] | None => [] end in
  docroot ++ snd (fold_left (fun acc ns => (S (fst acc), snd acc ++ [new_tag (fst acc) (fst ns) Attr.st0 (snd ns || is_void (fst ns)) None None]))
                            spares (n, [])).

(* ---------- boolean checkers (used for non-vacuity examples and checked on every correspondence case) ---------- *)
Definition opt_nat_eqb (a b : option nat) : bool :=
  match a, b with Some x, Some y => Nat.eqb x y | None, None => true | _, _ => false end.
Fixpoint list_nat_eqb (a b : list nat) : bool :=
  match a, b with [], [] => true | x :: a', y :: b' => Nat.eqb x y && list_nat_eqb a' b' | _, _ => false end.
Fixpoint wfb (p o : option nat) (t : tag) {struct t} : bool :=
  match t with Tag h bs =>
    opt_nat_eqb (parent h) p && opt_nat_eqb (owner h) o
    && list_nat_eqb (children h) (map tuid (tags_of bs))
    && String.eqb (text h) (concat_s (texts_of bs))
    && (negb (sc h) || (match children h with [] => true | _ => false end && String.eqb (text h) ""))
    && (fix go (l : list (block tag)) : bool :=
          match l with [] => true | BTag c :: r => wfb (Some (uid h)) o c && go r | _ :: r => go r end) bs
  end.
Definition wfwb (w : world) : bool :=
  match w with [] => true | r :: d => wfb None (owner (hd_ r)) r && forallb (wfb None None) d end.
Fixpoint nodup_natb (l : list nat) : bool :=
  match l with [] => true | x :: r => negb (existsb (Nat.eqb x) r) && nodup_natb r end.
Definition world_uids (w : world) : list nat := flat_map uids_of w.
