(* Correspondence driver for C18: executes an operation history on the model and prints the
   snapshot the harness also prints from the real TagCollection objects. *)
From AHP Require Export Model.Base Model.Collection.

Inductive operand := OL (l : list nat) | OR (r : nat).
Inductive op :=
| ONew (r : nat) (x : operand)            (* reg r := TagCollection(x) *)
| OAdd (r s : nat) (x : operand)          (* reg r := reg s + x *)
| OIAdd (r : nat) (x : operand)           (* reg r += x *)
| OSub (r s : nat) (x : operand)          (* reg r := reg s - x *)
| OISub (r : nat) (x : operand)           (* reg r -= x *)
| OUnique (r : nat) (l : list nat).       (* reg r := uniqueTags(l) *)

Definition getreg (regs : list coll) (r : nat) : coll := nth r regs cempty.
Fixpoint setreg (regs : list coll) (r : nat) (c : coll) : list coll :=
  match regs, r with
  | [], _ => []
  | _ :: t, O => c :: t
  | h :: t, S r' => h :: setreg t r' c
  end.
Definition opnd (regs : list coll) (x : operand) : list nat :=
  match x with OL l => l | OR r => items (getreg regs r) end.

Definition bits (l : list bool) : string :=
  fold_right (fun (b : bool) s => String (if b then "1"%char else "0"%char) s) "" l.

Definition show_coll (w : list tr) (n : nat) (c : coll) : string :=
  let univ := seq 0 n in
  "I" +++ show_nats (items c) +++ "U" +++ show_nats (sort_nats (uids c))
  +++ "M" +++ bits (map (fun u => mem u (items c)) univ)
  +++ "C" +++ bits (map (coll_contains_uid w c) univ)
  +++ "A" +++ show_nats (items (coll_all_nodes w c))
  +++ "N" +++ show_nats (sort_nats (coll_all_node_uids w c)).

Definition show_regs (w : list tr) (n : nat) (regs : list coll) : string :=
  sjoin "|" (map (show_coll w n) regs).

Definition step (regs : list coll) (o : op) : list coll * string :=
  match o with
  | ONew r x => (setreg regs r (mk (opnd regs x)), "ok")
  | OAdd r s x => (setreg regs r (add (getreg regs s) (opnd regs x)), "ok")
  | OIAdd r x => (setreg regs r (iadd (getreg regs r) (opnd regs x)), "ok")
  | OSub r s x => match sub (getreg regs s) (opnd regs x) with
                  | COk c => (setreg regs r c, "ok")
                  | CValueError => (regs, "exc:ValueError") | CKeyError => (regs, "exc:KeyError") end
  | OISub r x => match isub (getreg regs r) (opnd regs x) with
                  | COk c => (setreg regs r c, "ok")
                  | CValueError => (regs, "exc:ValueError") | CKeyError => (regs, "exc:KeyError") end
  | OUnique r l => (setreg regs r (unique_tags l), "ok")
  end.

Fixpoint run_ops (w : list tr) (n : nat) (regs : list coll) (ops : list op) : list string :=
  match ops with
  | [] => []
  | o :: r => let '(regs', res) := step regs o in
              (res +++ ":" +++ show_regs w n regs') :: run_ops w n regs' r
  end.

(* identity cases: every ordered pair of the listed objects: ==, !=, hash equality *)
Definition show_ident (l : list ident) : string :=
  sjoin "," (map (fun a => bits (map (fun b => tag_eq a b) l) +++ "/" +++ bits (map (fun b => tag_ne a b) l)
                            +++ "/" +++ bits (map (fun b => Nat.eqb (tag_hash a) (tag_hash b)) l)) l).

Inductive c18case :=
| CaseOps (w : list tr) (n : nat) (ops : list op)     (* universe forest, number of elements, operations *)
| CaseIdent (l : list ident).

Definition run_C18 (c : c18case) : string :=
  match c with
  | CaseOps w n ops => sjoin ";" (run_ops w n [cempty; cempty] ops)
  | CaseIdent l => show_ident l
  end.
