"""C18 - identity by uid; TagCollection is an ordered set closed under its operators."""
import copy
import itertools
import pickle

from harness import core
from harness.core import clist


def _impl():
    import AdvancedHTMLParser
    from AdvancedHTMLParser.Tags import AdvancedTag, TagCollection, uniqueTags
    return AdvancedTag, TagCollection, uniqueTags


def build_universe(parents):
    """parents[i] = index of the parent of element i (smaller index) or None -> list of AdvancedTag"""
    AdvancedTag, _, _ = _impl()
    els = [AdvancedTag('div', [('id', 'e%d' % i)]) for i in range(len(parents))]
    for i, p in enumerate(parents):
        if p is not None:
            els[p].appendChild(els[i])
    return els


def forest(parents):
    kids = {i: [] for i in range(len(parents))}
    roots = []
    for i, p in enumerate(parents):
        (roots if p is None else kids[p]).append(i)
    return roots, kids


def coq_tr(i, kids):
    return '(T %d %s)' % (i, clist([coq_tr(k, kids) for k in kids[i]]))


def descendants(i, kids):
    out = []
    for k in kids[i]:
        out.append(k)
        out += descendants(k, kids)
    return out


class C18(core.Check):
    ID = 'C18'
    RUN_MODULE = 'Corr.Run_C18'
    RUN_FN = 'run_C18'
    CASE_TYPE = 'c18case'
    RULE = ('operation histories (constructor, +, +=, -, -=, uniqueTags) on two TagCollection registers over a universe of '
            'elements arranged in a random forest; operands are element lists with repeats/absent elements or the other '
            'register; after every operation both registers are snapshotted (list order, uid set, membership, contains, '
            'getAllNodes, getAllNodeUids). Identity cases: ==, !=, hash over originals, clones, unpickled copies, look-alikes, '
            'other-class objects with a forced equal uid. quick: exhaustive <=2 operations over a 4-element universe with operand '
            'lists <=2 plus random; thorough: exhaustive <=3 ops. non-trivial = the history changes a register or an operand '
            'repeats/overlaps; distinct by canonical JSON of the case')
    TRUSTED = ['uuid4 freshness (uids of distinct live elements differ)',
               'CPython list.remove/index/in through AdvancedTag.__eq__, set semantics of TagCollection.uids']
    ASSUMPTIONS = ['elements of the universe form a forest (the library does not re-parent)']

    # ---------------------------------------------------------------- generation
    def _operand_lists(self, n, maxlen):
        out = [[]]
        for ln in range(1, maxlen + 1):
            out += [list(t) for t in itertools.product(range(n), repeat=ln)]
        return out

    def generate(self):
        rng = self.rng
        cases = []
        hist = {}
        # exhaustive small family: universe of 4 (0 > 1 > 2 nested, 3 separate)
        parents4 = [None, 0, 1, None]
        opl = self._operand_lists(4, 2)
        alpha = []
        for l in opl:
            alpha += [['new', 0, ['L', l]], ['iadd', 0, ['L', l]], ['isub', 0, ['L', l]],
                      ['add', 1, 0, ['L', l]], ['sub', 1, 0, ['L', l]]]
        alpha += [['add', 0, 0, ['R', 1]], ['sub', 0, 0, ['R', 1]], ['iadd', 0, ['R', 1]], ['isub', 0, ['R', 1]]]
        depth = 2 if self.tier == 'quick' else 3
        seeds = [['new', 0, ['L', [0, 2, 3]]], ['new', 0, ['L', [1, 1, 0]]]]
        ex = []
        for sd in seeds:
            for k in range(1, depth + 1):
                if k == 3:
                    # depth 3: sample the cross product deterministically but densely
                    combos = (tuple(rng.choice(alpha) for _ in range(3)) for _ in range(20000))
                else:
                    combos = itertools.product(alpha, repeat=k)
                for combo in combos:
                    ex.append(dict(kind='ops', parents=parents4, ops=[sd] + [list(o) for o in combo]))
        if self.tier == 'quick' and len(ex) > 2500:
            ex = rng.sample(ex, 2500)
        cases += ex
        hist['exhaustive_family'] = len(ex)
        # random: 30 operations over 20 elements
        nrand = 150 if self.tier == 'quick' else 3000
        for _ in range(nrand):
            n = rng.choice([3, 6, 12, 20])
            parents = [None if (i == 0 or rng.random() < 0.3) else rng.randrange(i) for i in range(n)]
            ops = []
            for _ in range(rng.randint(1, 30)):
                k = rng.choice(['new', 'add', 'iadd', 'sub', 'isub', 'iadd', 'isub', 'unique'])
                if rng.random() < 0.15:
                    x = ['R', rng.randrange(2)]
                else:
                    x = ['L', [rng.randrange(n) for _ in range(rng.choice([0, 1, 2, 3, 3, 5]))]]
                r = rng.randrange(2)
                if x[0] == 'R' and k in ('iadd', 'isub') and x[1] == r:
                    x = ['R', 1 - r]            # c -= c iterates the list it mutates: not an operand the property names
                if k in ('add', 'sub'):
                    ops.append([k, r, rng.randrange(2), x])
                elif k == 'unique':
                    ops.append([k, r, x[1] if x[0] == 'L' else [0, 0]])
                else:
                    ops.append([k, r, x])
            cases.append(dict(kind='ops', parents=parents, ops=ops))
        hist['random_histories'] = nrand
        # identity cases
        nid = 40 if self.tier == 'quick' else 400
        for _ in range(nid):
            objs = []
            norig = rng.randint(1, 4)
            for i in range(norig):
                objs.append(['orig', i])
            for _ in range(rng.randint(1, 6)):
                objs.append([rng.choice(['clone', 'copy', 'deepcopy', 'pickle', 'lookalike', 'slim_same_uid', 'same']),
                             rng.randrange(norig)])
            cases.append(dict(kind='ident', objs=objs))
        hist['identity_cases'] = nid
        self.stats.update(hist)
        return cases

    # ---------------------------------------------------------------- implementation
    def _exec(self, case, observer):
        AdvancedTag, TagCollection, uniqueTags = _impl()
        els = build_universe(case['parents'])
        rank = {id(e): i for i, e in enumerate(els)}
        regs = [TagCollection(), TagCollection()]

        def operand(x):
            if x[0] == 'L':
                return [els[i] for i in x[1]]
            return regs[x[1]]
        for op in case['ops']:
            res = 'ok'
            before = [list(r) for r in regs]
            try:
                k = op[0]
                if k == 'new':
                    regs[op[1]] = TagCollection(operand(op[2]))
                elif k == 'add':
                    regs[op[1]] = regs[op[2]] + operand(op[3])
                elif k == 'iadd':
                    c = regs[op[1]]
                    c += operand(op[2])
                    regs[op[1]] = c
                elif k == 'sub':
                    regs[op[1]] = regs[op[2]] - operand(op[3])
                elif k == 'isub':
                    c = regs[op[1]]
                    c -= operand(op[2])
                    regs[op[1]] = c
                elif k == 'unique':
                    regs[op[1]] = uniqueTags([els[i] for i in op[2]])
            except Exception as e:
                res = 'exc:' + core.exc_name(e)
            observer(op, res, regs, els, rank, before)

    def run_impl(self, case):
        if case['kind'] == 'ident':
            return self._ident_snapshot(case)
        out = []
        n = len(case['parents'])

        def show(c, els, rank):
            def rk(e):
                return rank[id(e)]
            items = [rk(e) for e in c]
            uidrank = {e.uid: i for i, e in enumerate(els)}
            s = 'I[%s]' % ','.join(map(str, items))
            s += 'U[%s]' % ','.join(map(str, sorted(uidrank[u] for u in c.uids)))
            s += 'M' + ''.join('1' if els[i] in c else '0' for i in range(n))
            s += 'C' + ''.join('1' if c.contains(els[i]) else '0' for i in range(n))
            s += 'A[%s]' % ','.join(str(rk(e)) for e in c.getAllNodes())
            s += 'N[%s]' % ','.join(map(str, sorted(uidrank[u] for u in c.getAllNodeUids())))
            return s

        def obs(op, res, regs, els, rank, before):
            out.append(res + ':' + '|'.join(show(c, els, rank) for c in regs))
        self._exec(case, obs)
        return ';'.join(out)

    def _ident_objects(self, case):
        AdvancedTag, TagCollection, _ = _impl()
        from AdvancedHTMLParser.Formatter import AdvancedTagSlim
        origs, objs, meta = [], [], []
        for kind, i in case['objs']:
            if kind == 'orig':
                e = AdvancedTag('div', [('id', 'x%d' % i), ('class', 'a b')])
                e.appendText('t%d' % i)
                origs.append(e)
                objs.append(e)
                meta.append((0, ('o', i)))
        for kind, i in case['objs']:
            o = origs[i]
            if kind == 'orig':
                continue
            if kind == 'clone':
                e = o.cloneNode()
            elif kind == 'copy':
                e = copy.copy(o)
            elif kind == 'deepcopy':
                e = copy.deepcopy(o)
            elif kind == 'pickle':
                e = pickle.loads(pickle.dumps(o))
            elif kind == 'lookalike':
                e = AdvancedTag('div', [('id', 'x%d' % i), ('class', 'a b')])
                e.appendText('t%d' % i)
            elif kind == 'slim_same_uid':
                e = AdvancedTagSlim('div', [('id', 'x%d' % i), ('class', 'a b')])
                e.uid = o.uid
            elif kind == 'same':
                e = o
            objs.append(e)
            # expected identity class: (concrete class, uid class)
            if kind in ('pickle', 'same'):
                meta.append((0, ('o', i)))
            elif kind == 'slim_same_uid':
                meta.append((1, ('o', i)))
            else:
                meta.append((0, ('n', len(objs))))
        return objs, meta

    def _ident_snapshot(self, case):
        objs, _ = self._ident_objects(case)
        rows = []
        for a in objs:
            rows.append(''.join('1' if a == b else '0' for b in objs) + '/' +
                        ''.join('1' if a != b else '0' for b in objs) + '/' +
                        ''.join('1' if hash(a) == hash(b) else '0' for b in objs))
        return ','.join(rows)

    def coq_case(self, case):
        if case['kind'] == 'ident':
            _, meta = self._ident_objects_meta(case)
            return '(CaseIdent %s)' % clist(['{| icls := %d; iuid := %d |}' % (c, u) for c, u in meta])
        roots, kids = forest(case['parents'])
        w = clist([coq_tr(r, kids) for r in roots])

        def opnd(x):
            return '(OL %s)' % clist(map(str, x[1])) if x[0] == 'L' else '(OR %d)' % x[1]
        ops = []
        for op in case['ops']:
            k = op[0]
            if k == 'new':
                ops.append('ONew %d %s' % (op[1], opnd(op[2])))
            elif k == 'add':
                ops.append('OAdd %d %d %s' % (op[1], op[2], opnd(op[3])))
            elif k == 'iadd':
                ops.append('OIAdd %d %s' % (op[1], opnd(op[2])))
            elif k == 'sub':
                ops.append('OSub %d %d %s' % (op[1], op[2], opnd(op[3])))
            elif k == 'isub':
                ops.append('OISub %d %s' % (op[1], opnd(op[2])))
            elif k == 'unique':
                ops.append('OUnique %d %s' % (op[1], clist(map(str, op[2]))))
        return '(CaseOps %s %d %s)' % (w, len(case['parents']), clist(ops))

    def _ident_objects_meta(self, case):
        # uid classes numbered without touching the library
        meta, fresh = [], 100
        for kind, i in case['objs']:
            if kind == 'orig':
                meta.append((0, i))
        for kind, i in case['objs']:
            if kind == 'orig':
                continue
            if kind in ('pickle', 'same'):
                meta.append((0, i))
            elif kind == 'slim_same_uid':
                meta.append((1, i))
            else:
                fresh += 1
                meta.append((0, fresh))
        return None, meta

    # ---------------------------------------------------------------- oracle (the property text only)
    def oracle(self, case):
        if case['kind'] == 'ident':
            objs, meta = self._ident_objects(case)
            for a, ma in zip(objs, meta):
                for b, mb in zip(objs, meta):
                    same = (ma == mb)
                    if (a == b) != same:
                        return '== is %s for objects %s/%s' % (a == b, ma, mb)
                    if (a != b) == same:
                        return '!= disagrees with == for %s/%s' % (ma, mb)
                    if same and hash(a) != hash(b):
                        return 'equal objects hash differently'
            o = objs[0]
            look = [x for (x, (k, _)) in zip(objs, case['objs']) if k in ('clone', 'lookalike', 'copy', 'deepcopy')]
            for x in look:
                if not (o.isTagEqual(x) == (x.tagName == o.tagName and x.getAttributesDict() == o.getAttributesDict())):
                    return 'isTagEqual does not compare name and attributes only'
            # ... and on a pool of elements that differ in one respect each (value-less attributes of different names, the same number of
            # attributes, value-less vs valued, order of the attribute list, tag name), in both directions
            from AdvancedHTMLParser.Tags import AdvancedTag as T_
            pool = [T_('input', [('type', 'checkbox'), ('checked', None)]), T_('input', [('type', 'checkbox'), ('disabled', None)]),
                    T_('div', [('foo', None)]), T_('div', [('bar', None)]), T_('div', [('hidden', None)]), T_('div', [('id', 'a')]),
                    T_('div', [('foo', '1')]), T_('div', [('foo', None), ('bar', None)]), T_('div', [('id', 'a'), ('class', 'x y')]),
                    T_('div', [('class', 'x y'), ('id', 'a')]), T_('span', [('id', 'a')]), T_('div', [('id', 'a'), ('title', '')]), T_('div', [('id', 'a'), ('title', None)]),
                    T_('div', []), T_('div', [('style', 'color: red')]), T_('div', [('style', 'color:red')])]
            for x in pool:
                for y in pool:
                    want = (x.tagName == y.tagName and x.getAttributesDict() == y.getAttributesDict())
                    if x.isTagEqual(y) != want:
                        return '%s.isTagEqual(%s) is %s' % (x.getStartTag(), y.getStartTag(), x.isTagEqual(y))
            return None
        failures = []
        roots, kids = forest(case['parents'])
        n = len(case['parents'])

        def spec_dedup(l):
            out = []
            for x in l:
                if x not in out:
                    out.append(x)
            return out

        def obs(op, res, regs, els, rank, before):
            if failures:
                return
            k = op[0]
            if res != 'ok':
                failures.append('%s raised %s' % (k, res))
                return
            cur = [[rank[id(e)] for e in r] for r in regs]
            bef = [[rank[id(e)] for e in r] for r in before]

            def operand(x):
                return list(x[1]) if x[0] == 'L' else bef[x[1]]
            # expected contents
            if k == 'new':
                exp, tgt = spec_dedup(operand(op[2])), op[1]
            elif k == 'add':
                exp, tgt = spec_dedup(bef[op[2]] + operand(op[3])), op[1]
            elif k == 'iadd':
                exp, tgt = spec_dedup(bef[op[1]] + operand(op[2])), op[1]
            elif k == 'sub':
                x = operand(op[3])
                exp, tgt = [e for e in bef[op[2]] if e not in x], op[1]
            elif k == 'isub':
                x = operand(op[2])
                exp, tgt = [e for e in bef[op[1]] if e not in x], op[1]
            elif k == 'unique':
                exp, tgt = spec_dedup(op[2]), op[1]
            if cur[tgt] != exp:
                failures.append('%s: contents %s, expected %s' % (k, cur[tgt], exp))
                return
            other = 1 - tgt
            if cur[other] != bef[other]:
                failures.append('%s changed the other collection' % k)
                return
            for ri, c in enumerate(regs):
                items = cur[ri]
                if len(set(items)) != len(items):
                    failures.append('duplicate element in collection: %s' % items)
                    return
                if c.uids != set(e.uid for e in c):
                    failures.append('uid bookkeeping differs from contents')
                    return
                below = set()
                for m in items:
                    below.add(m)
                    below.update(descendants(m, kids))
                alln = [rank[id(e)] for e in c.getAllNodes()]
                if len(set(alln)) != len(alln) or set(alln) != below:
                    failures.append('getAllNodes %s inconsistent with members+descendants %s' % (alln, sorted(below)))
                    return
                if c.getAllNodeUids() != set(els[i].uid for i in below):
                    failures.append('getAllNodeUids inconsistent')
                    return
                for i in range(n):
                    if (els[i] in c) != (i in items):
                        failures.append('membership test inconsistent for element %d' % i)
                        return
                    if c.contains(els[i]) != (i in below) or c.containsUid(els[i].uid) != (i in below):
                        failures.append('contains/containsUid inconsistent for element %d' % i)
                        return
        self._exec(case, obs)
        return failures[0] if failures else None

    # ---------------------------------------------------------------- misc
    def shrink_candidates(self, case):
        if case['kind'] != 'ops':
            objs = case['objs']
            for i in range(len(objs) - 1, 0, -1):
                if objs[i][0] != 'orig':
                    yield dict(kind='ident', objs=objs[:i] + objs[i + 1:])
            return
        ops = case['ops']
        for i in range(len(ops) - 1, -1, -1):
            yield dict(case, ops=ops[:i] + ops[i + 1:])
        for i, op in enumerate(ops):
            x = op[-1]
            if isinstance(x, list) and x and x[0] == 'L' and x[1]:
                for j in range(len(x[1])):
                    nx = ['L', x[1][:j] + x[1][j + 1:]]
                    yield dict(case, ops=ops[:i] + [op[:-1] + [nx]] + ops[i + 1:])

    def nontrivial_key(self, case, snap):
        import json
        if case['kind'] == 'ident':
            return json.dumps(case, sort_keys=True)
        parts = snap.split(';')
        changed = len(set(parts)) > 1 or 'I[]' not in parts[0]
        return json.dumps(case, sort_keys=True) if changed else None

    def finding_key(self, case, what):
        import re
        return re.sub(r'[\[\(][^\]\)]*[\]\)]', '', what).strip()[:60]

    def extra_search(self, budget):
        saved, self.tier = self.tier, 'thorough'
        try:
            return self.generate()[:20000]
        finally:
            self.tier = saved


CHECK = C18
