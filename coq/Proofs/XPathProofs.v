(* C14: the evaluator of the code computes what the expression denotes. *)
From Coq Require Import Lia.
From AHP Require Import Model.Base Model.Str Model.Attr Model.Dom Model.Search Model.Index Model.Passes Model.XPath Proofs.PassesProofs.

Section EngineProofs.
  Variable num : Type.
  Variables nadd nsub nmul ndiv nmod : num -> num -> num.
  Variables neqb nltb nleb : num -> num -> bool.
  Variable nzero : num -> bool.
  Variable of_nat : nat -> num.
  Variable of_digits : string -> option num.

  Notation xval := (XPath.xval num).
  Notation app := (XPath.app num nadd nsub nmul ndiv nmod neqb nltb nleb nzero of_nat of_digits).
  Notation denote := (XPath.denote num nadd nsub nmul ndiv nmod neqb nltb nleb nzero of_nat of_digits).
  Notation eval := (XPath.eval num nadd nsub nmul ndiv nmod neqb nltb nleb nzero of_nat of_digits).
  Notation level := (XPath.level num).
  Notation ctx := (XPath.ctx).
  Notation pexpr := (PassesProofs.expr xval bop).

  Lemma rank_le2 o : rank o <= 2.
  Proof. destruct o; simpl; lia. Qed.

  (* the expression tree of a predicate body: operator nodes; everything else (literals, generators, function calls) is a leaf *)
  Fixpoint reify (c : ctx) (e : xexpr) : pexpr :=
    match e with
    | XBin o a b => Bin xval bop o (reify c a) (reify c b)
    | _ => Atom xval bop (denote c e)
    end.
  Lemma denote_reify c e : PassesProofs.denote xval bop app (reify c e) = denote c e.
  Proof. induction e; simpl; try reflexivity. now rewrite IHe1, IHe2. Qed.

  Lemma bare_inv x o left : bare x o left = true ->
    exists o' a b, x = XBin o' a b /\ (rank o' < rank o \/ (left = true /\ rank o' = rank o)).
  Proof.
    destruct x; simpl; try discriminate. intros H. exists o0, x1, x2. split; auto.
    apply orb_true_iff in H as [H|H]; [left; now apply Nat.ltb_lt|].
    apply andb_true_iff in H as [H _]. apply andb_true_iff in H as [H1 H2]. right. split; auto. now apply Nat.eqb_eq.
  Qed.

  (* the flat level built from the printed text is an admissible layout of the tree *)
  Lemma level_flay c : forall e, flay xval bop rank app (reify c e) (level (denote c) e).
  Proof.
    induction e; simpl; try (rewrite <- (denote_reify c) at 1; simpl; apply fl_val).
    - (* XNum..XPos and function calls are leaves *) apply (fl_val xval bop rank app (Atom xval bop (denote c (XNum n)))).
    - apply (fl_val xval bop rank app (Atom xval bop (denote c (XStr s)))).
    - apply (fl_val xval bop rank app (Atom xval bop (denote c (XAttr a)))).
    - apply (fl_val xval bop rank app (Atom xval bop (denote c XText))).
    - apply (fl_val xval bop rank app (Atom xval bop (denote c XLast))).
    - apply (fl_val xval bop rank app (Atom xval bop (denote c XPos))).
    - apply (fl_val xval bop rank app (Atom xval bop (denote c (XNorm o)))).
    - apply (fl_val xval bop rank app (Atom xval bop (denote c (XContains e1 e2)))).
    - apply (fl_val xval bop rank app (Atom xval bop (denote c (XConcat l)))).
    - apply fl_bin.
      + destruct (bare e1 o true) eqn:E.
        * apply bare_inv in E as (o' & a & b & -> & [Hlt|[_ Heq]]).
          -- apply fo_tighter; auto.
          -- apply fo_left; auto.
        * rewrite <- (denote_reify c e1). apply fo_val.
      + destruct (bare e2 o false) eqn:E.
        * apply bare_inv in E as (o' & a & b & -> & [Hlt|[Hf _]]); [|discriminate]. apply fo_tighter; auto.
        * rewrite <- (denote_reify c e2). apply fo_val.
  Qed.

  Lemma depth_pos e : 1 <= depth e.
  Proof. destruct e; simpl; try lia. destruct o; lia. Qed.
  (* the level only consults the evaluator on proper sub-expressions *)
  Lemma level_ext ev1 ev2 : forall e m, depth e <= m -> (forall x, depth x < m -> ev1 x = ev2 x) ->
    (match e with XBin _ _ _ => True | _ => False end) -> level ev1 e = level ev2 e.
  Proof.
    induction e; intros m Hd Hev Hb; try tauto. simpl in Hd.
    assert (H1 : (if bare e1 o true then level ev1 e1 else [V (ev1 e1)]) = (if bare e1 o true then level ev2 e1 else [V (ev2 e1)])).
    { destruct (bare e1 o true) eqn:E.
      - apply bare_inv in E as (o' & a & b & -> & _). apply (IHe1 m); auto. lia.
      - rewrite Hev; auto. lia. }
    assert (H2 : (if bare e2 o false then level ev1 e2 else [V (ev1 e2)]) = (if bare e2 o false then level ev2 e2 else [V (ev2 e2)])).
    { destruct (bare e2 o false) eqn:E.
      - apply bare_inv in E as (o' & a & b & -> & _). apply (IHe2 m); auto. lia.
      - rewrite Hev; auto. lia. }
    cbn [XPath.level]. rewrite H1. f_equal. f_equal. exact H2.
  Qed.

  (* the evaluator of the code (groups and function arguments first, then the three passes) = the denotation *)
  Theorem eval_denote : forall fuel c e, depth e <= fuel -> eval fuel c e = denote c e.
  Proof.
    induction fuel as [|k IH]; intros c e Hd; [pose proof (depth_pos e); lia|].
    destruct e as [n|s|a| | | |o|a b|l|o a b]; try reflexivity.
    - destruct o as [a|]; [|reflexivity]. simpl in Hd |- *. rewrite IH; auto. lia.
    - simpl in Hd |- *. rewrite !IH; auto; lia.
    - simpl in Hd. cbn [XPath.eval XPath.denote]. f_equal.
      induction l as [|x l IHl]; simpl in *; auto. rewrite IH by lia. f_equal. apply IHl. lia.
    - cbn [XPath.eval].
      rewrite (level_ext (eval k c) (denote c) (XBin o a b) (S k)); auto.
      + unfold XPath.passes. rewrite (passes_correct xval bop rank app rank_le2 _ _ (level_flay c (XBin o a b))).
        apply denote_reify.
      + intros x Hx. apply IH. lia.
  Qed.
  Corollary eval_depth c e : eval (depth e) c e = denote c e.
  Proof. apply eval_denote. lia. Qed.

  (* comparison and boolean rules of the property statement *)
  Lemma absent_attribute s : app OEq (VNull num) (VStr num s) = VBool num false /\ app ONe (VNull num) (VStr num s) = VBool num true
                             /\ app OEq (VStr num s) (VNull num) = VBool num false /\ app ONe (VStr num s) (VNull num) = VBool num true.
  Proof. repeat split; simpl; destruct (of_digits s); reflexivity. Qed.
  Lemma numeric_when_both_numeric a b x y : to_num num of_nat of_digits a = Some x -> to_num num of_nat of_digits b = Some y ->
    app OEq a b = VBool num (neqb x y) /\ app ONe a b = VBool num (negb (neqb x y)) /\ app OLt a b = VBool num (nltb x y)
    /\ app OGt a b = VBool num (nltb y x) /\ app OLe a b = VBool num (nleb x y) /\ app OGe a b = VBool num (nleb y x).
  Proof.
    intros Ha Hb. destruct a; try discriminate; destruct b; try discriminate; simpl in *; rewrite ?Ha, ?Hb;
      try (inversion Ha; subst); try (inversion Hb; subst); repeat split; reflexivity.
  Qed.
  Lemma ordering_needs_numbers a b o : In o [OLt; OGt; OLe; OGe] ->
    (to_num num of_nat of_digits a = None \/ to_num num of_nat of_digits b = None) -> app o a b = VErr num.
  Proof.
    intros Ho H. destruct a, b; simpl in *; try reflexivity;
      destruct Ho as [<-|[<-|[<-|[<-|[]]]]]; simpl; destruct H as [H|H]; rewrite ?H; try reflexivity; try discriminate;
      repeat match goal with |- context [match ?x with _ => _ end] => destruct x end; reflexivity.
  Qed.
End EngineProofs.

From AHP Require Import Proofs.SearchProofs.

Section StepProofs.
  Variable num : Type.
  Variables nadd nsub nmul ndiv nmod : num -> num -> num.
  Variables neqb nltb nleb : num -> num -> bool.
  Variable nzero : num -> bool.
  Variable of_nat : nat -> num.
  Variable of_digits : string -> option num.
  Variable doc : tag.

  Notation denote := (XPath.denote num nadd nsub nmul ndiv nmod neqb nltb nleb nzero of_nat of_digits).
  Notation eval := (XPath.eval num nadd nsub nmul ndiv nmod neqb nltb nleb nzero of_nat of_digits).
  Notation filter_pred := (XPath.filter_pred num nadd nsub nmul ndiv nmod neqb nltb nleb nzero of_nat of_digits doc).
  Notation ctx_of := (XPath.ctx_of doc).

  (* what a predicate says about one element, in terms of the denotation: true / the n-th among its same-named siblings *)
  Definition holds (p : xexpr) (t : tag) : keep := keep_of num neqb of_nat (ctx_of t) (denote (ctx_of t) p).
  Definition kept (p : xexpr) (t : tag) : bool := match holds p t with KYes => true | _ => false end.

  Theorem filter_pred_spec p : forall l l', filter_pred p l = XOk l' -> l' = filter (kept p) l /\ Forall (fun t => holds p t <> KErr) l.
  Proof.
    induction l as [|t l IH]; intros l' H; [inversion H; auto|].
    cbn [XPath.filter_pred] in H. rewrite (eval_depth num nadd nsub nmul ndiv nmod neqb nltb nleb nzero of_nat of_digits) in H.
    fold (holds p t) in H. cbn [filter]. unfold kept at 1.
    destruct (holds p t) eqn:E; destruct (filter_pred p l) as [l0|] eqn:El; try discriminate; inversion H; subst;
      destruct (IH _ eq_refl) as [Hl Hf]; (split; [now rewrite <- Hl | constructor; [rewrite E; discriminate | exact Hf]]).
  Qed.
  Theorem filter_pred_error p : forall l, filter_pred p l = XErr <-> Exists (fun t => holds p t = KErr) l.
  Proof.
    induction l as [|t l IH]; simpl; [split; [discriminate | intros H; inversion H]|].
    rewrite (eval_depth num nadd nsub nmul ndiv nmod neqb nltb nleb nzero of_nat of_digits).
    fold (holds p t). destruct (holds p t) eqn:E; destruct (filter_pred p l) as [l0|] eqn:El;
      split; intros H; try discriminate; try reflexivity; try (apply Exists_cons_tl; now apply IH); try (apply Exists_cons_hd; exact E);
      inversion H as [? ? Hh|? ? Ht]; subst; try congruence; apply IH in Ht; discriminate.
  Qed.

  (* TagCollection: first occurrences, each uid once *)
  Lemma dedup_fold_acc l : forall acc,
    fold_left (fun acc t => if existsb (fun x => Nat.eqb (tuid x) (tuid t)) acc then acc else acc ++ [t]) l acc
    = fold_left (add_if (fun _ => true)) l acc.
  Proof.
    induction l as [|t l IH]; intros acc; cbn [fold_left]; auto. rewrite IH. f_equal.
    unfold add_if, present. cbn [andb]. destruct (existsb (fun y => Nat.eqb (tuid y) (tuid t)) acc); reflexivity.
  Qed.
  Lemma dedup_as_fold l : dedup_tags l = fold_left (add_if (fun _ => true)) l [].
  Proof. unfold dedup_tags. apply dedup_fold_acc. Qed.
  Theorem dedup_tags_spec l : NoDup (map tuid (dedup_tags l)) /\ (forall x, In x (dedup_tags l) -> In x l)
                              /\ (forall x, In x l -> present x (dedup_tags l) = true).
  Proof.
    rewrite dedup_as_fold. repeat split.
    - apply fold_add_if_nodup. constructor.
    - intros x H. apply fold_add_if_in in H as [[]|H]; auto.
    - intros x H. now apply fold_add_if_complete.
  Qed.
End StepProofs.

(* ---------- the upward axes: the parentNode chain of a well-formed document ---------- *)
From AHP Require Import Proofs.DomProofs Proofs.IndexProofs.

Section Upward.
  Variables (doc : tag) (o : option nat).
  Hypothesis Hwf : WF None o doc.
  Hypothesis Hnd : NoDup (uids_of doc).

  Lemma parent_elem_spec t p : Sub t doc -> parent_elem doc t = Some p -> Sub p doc /\ In t (kids p) /\ parent (hd_ t) = Some (tuid p).
  Proof.
    intros Hs H. unfold parent_elem in H. destruct (parent (hd_ t)) as [pu|] eqn:Ep; [|discriminate].
    destruct (Sub_parent _ _ Hs _ _ Hwf) as [->|(y & Hy & Hty & Hp)].
    { inversion Hwf; subst. simpl in Ep. congruence. }
    rewrite Ep in Hp. inversion Hp; subst pu. rewrite (Sub_find _ _ Hy Hnd) in H. inversion H; subst y. repeat split; auto.
  Qed.
  (* the chain of ancestors and the subtree test of the indexed searches walk the same links *)
  Lemma ancestors_in_line r : forall fuel t, Sub t doc ->
    existsb (Nat.eqb r) (map tuid (ancestors doc fuel t)) = in_line fuel doc (tuid t) r.
  Proof.
    induction fuel as [|k IH]; intros t Hs; simpl; auto.
    unfold parent_of. rewrite (Sub_find _ _ Hs Hnd). unfold parent_elem.
    destruct (parent (hd_ t)) as [pu|] eqn:Ep; simpl; auto.
    destruct (find pu doc) as [p|] eqn:Ef.
    - assert (Hp : tuid p = pu) by (apply find_some_in in Ef; tauto). simpl. rewrite Hp.
      rewrite (Nat.eqb_sym r pu). destruct (Nat.eqb pu r) eqn:E; simpl; auto.
      rewrite IH by (eapply find_Sub; eauto). now rewrite Hp.
    - (* a dangling parent link cannot occur in a well-formed document *)
      exfalso. destruct (Sub_parent _ _ Hs _ _ Hwf) as [->|(y & Hy & _ & Hp)].
      + inversion Hwf; subst. simpl in Ep. congruence.
      + rewrite Ep in Hp. inversion Hp; subst pu. rewrite (Sub_find _ _ Hy Hnd) in Ef. discriminate.
  Qed.
  (* ancestor axis: exactly the elements that have the context element among their descendants *)
  Theorem ancestors_spec t r a : Sub t doc -> find r doc = Some a ->
    (In r (map tuid (ancestors doc (length (all_nodes doc)) t)) <-> In (tuid t) (map tuid (descendants a))).
  Proof.
    intros Hs Hr. rewrite <- (below_root_spec doc o Hwf Hnd r a Hr (tuid t)). unfold below_root.
    rewrite <- (ancestors_in_line r _ t Hs). rewrite existsb_exists. split.
    - intros H. exists r. split; auto. apply Nat.eqb_refl.
    - intros (x & Hx & E). apply Nat.eqb_eq in E. now subst.
  Qed.
End Upward.
