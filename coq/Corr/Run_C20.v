(* Correspondence driver for C20. *)
From AHP Require Export Model.Base Model.Str Model.Attr Model.Dom Model.Serial Model.Parser Model.Fragment Corr.Run_Parse.

Definition c20case := ((list token * option (list token)) * (list token * option (list token)) * list nat * bool * string)%type.
Definition sep := String (ascii_of_nat 31) "".
Definition second (d : list token * option (list token)) : list token := match snd d with Some x => x | None => [] end.

Definition run_C20 (c : c20case) : string :=
  let '(frag, tgt, path, owned, nm) := c in
  let ts1 := fst frag in let ts2 := second frag in
  let e := match createElementFromHTML ts1 with
           | POk (Some t) => "E" +++ hex (outer_html t) | POk None => "Eexc:AttributeError" | PRaise x => "E" +++ show_exc x end in
  let l := match createElementsFromHTML ts1 ts2 with
           | POk ts => "L" +++ sjoin "," (map (fun t => hex (outer_html t)) ts) | PRaise x => "L" +++ show_exc x end in
  let b := match createBlocksFromHTML ts1 ts2 with
           | POk bs => "B" +++ sjoin "," (map (fun b => match b with BText s => "T" +++ hex s | BTag t => "E" +++ hex (outer_html t) end) bs)
           | PRaise x => "B" +++ show_exc x end in
  let a := match feed PPlain (fst tgt) (second tgt) with
           | POk s =>
               match tree_of s with
               | Some root0 =>
                   let root := if owned then root0 else set_owner_rec None root0 in
                   match at_path path root with
                   | Some target =>
                       match appendInnerHTML_here ts1 ts2 target with
                       | POk _ =>
                           let root' := update_at (tuid target)
                                          (fun t => match appendInnerHTML_here ts1 ts2 t with POk t' => t' | PRaise _ => t end) root in
                           "A" +++ snap (renum root' 0 None)
                       | PRaise x => "A" +++ show_exc x
                       end
                   | None => "A?path"
                   end
               | None => "A?root"
               end
           | PRaise x => "A?" +++ show_exc x
           end in
  let el := createElement 0 nm in
  let cpart := "C" +++ name (hd_ el) +++ "," +++ opt2s (parent (hd_ el)) +++ "," +++ opt2s (owner (hd_ el)) +++ "," +++ hex (outer_html el) in
  e +++ sep +++ l +++ sep +++ b +++ sep +++ a +++ sep +++ cpart.
