(* C19 — typed DOM properties are total functions of the stored attribute text.
   The dispatch tables and rule descriptors in Gen/Tables.v are REGENERATED from constants.py on every run; the first
   group of theorems compares them with the independently written documentation table (Spec/PropSpec.v), so an edit of
   the source table re-opens them. *)
From AHP Require Import Model.Base Model.Str Model.PropRules Model.Attr Model.Props Gen.Tables Spec.PropSpec Proofs.StrProofs Proofs.PropsProofs.

(* the generated rule of every special property is the documented rule (finite table: checked cell by cell by the kernel) *)
Theorem C19_rules_as_documented : special_rules = doc_rules.
Proof. vm_compute. reflexivity. Qed.
Theorem C19_boolean_set_as_documented : binary_attributes = doc_boolean /\ binary_string_attributes = doc_boolean_string.
Proof. vm_compute. split; reflexivity. Qed.
(* every renaming is lower-casing, except the four documented special names *)
Theorem C19_html_names_as_documented :
  forallb (fun kv => String.eqb (lower (snd kv)) (lower (fst kv))
                     || existsb (fun d => String.eqb (fst d) (fst kv) && String.eqb (snd d) (snd kv)) doc_special_names) change_name = true.
Proof. vm_compute. reflexivity. Qed.
Theorem C19_only_maxLength_validates : special_validation_names = ["maxLength"].
Proof. vm_compute. reflexivity. Qed.

(* reading never raises, for every element name, property, attribute text and store *)
Theorem C19_read_total : forall tag prop s b, prop_get tag prop s b <> VRaiseIndexSize.
Proof. exact prop_get_total. Qed.
(* per rule family, for all attribute texts *)
Theorem C19_capped : forall fuel attr d l h inv empty tag s b, (l <= h)%Z ->
  let v := interp fuel (RIntCapped attr d (Some l) (Some h) inv empty) tag s b in
  (exists z, v = VInt z /\ (l <= z <= h)%Z) \/ v = of_const inv \/ v = empty_or_invalid inv empty.
Proof. exact capped_rule_range. Qed.
Theorem C19_ranged : forall fuel attr d lo hi inv empty tag s b,
  let v := interp fuel (RIntRange attr d lo hi inv empty) tag s b in
  (exists z, v = VInt z /\ in_range lo hi z = true) \/ v = of_const inv \/ v = empty_or_invalid inv empty.
Proof. exact range_rule_range. Qed.
Theorem C19_positive : forall fuel attr d inv tag s b,
  let v := interp fuel (RPosInt attr d inv) tag s b in (exists z, v = VInt z /\ (0 <= z)%Z) \/ v = of_const inv.
Proof. exact posint_rule_range. Qed.
Theorem C19_enumerated : forall fuel attr d values inv empty tag s b,
  let v := interp fuel (REnum attr d values inv empty) tag s b in
  (exists x, v = VStr x /\ In x values) \/ v = of_const inv \/ v = empty_or_invalid inv empty.
Proof. exact enum_rule_range. Qed.
Theorem C19_tabIndex : forall fuel attr tag s b, exists z, interp fuel (RIntOrMinus1 attr) tag s b = VInt z.
Proof. exact tabindex_rule. Qed.
Theorem C19_boolean : forall tag prop s b, linked tag prop = true -> od_get prop special_rules = None ->
  is_binary_string (renamed prop) = false -> is_binary (renamed prop) = true ->
  prop_get tag prop s b = VBool (match snd (getAttribute (renamed prop) s) with PFalse => false | _ => true end).
Proof. exact boolean_prop. Qed.

(* assignment: the only assignment to a linked property that raises is an out-of-range maxLength - for every element name,
   property, value (string, None, True/False) and attribute state; uses the finite, regenerated table fact that every linked
   property is stored under a valid attribute name *)
Theorem C19_only_maxLength_assignment_raises : forall tag prop v isbool s e, linked tag prop = true ->
  snd (prop_set tag prop v isbool s) = RExc e -> prop = "maxLength" /\ e = EIndexSize.
Proof. exact prop_set_raises_only_maxLength. Qed.

Example C19_ex :
  prop_get "td" "colSpan" (fst (intake [("colspan", Some "5000")] st0)) false = VInt 1000
  /\ prop_get "input" "readOnly" (fst (intake [("readonly", None)] st0)) false = VBool true
  /\ prop_get "form" "autocomplete" (fst (intake [("autocomplete", Some "")] st0)) false = VStr "on"
  /\ snd (prop_set "input" "maxLength" (Some "-3") None st0) = RExc EIndexSize.
Proof. vm_compute. repeat split; reflexivity. Qed.
