(* C18 — identity is by uid; TagCollection is an ordered set closed under its operators.
   Nothing but statements closed by [exact]; the proofs are in Proofs/CollectionProofs.v. *)
From AHP Require Import Model.Base Model.Collection Proofs.CollectionProofs.

(* Two element objects of the same class are equal exactly when they have the same uid, and equal
   objects hash alike; __ne__ is the negation of __eq__.  Name, attributes and content do not occur. *)
Theorem C18_identity : forall a b, icls a = icls b -> (tag_eq a b = true <-> iuid a = iuid b).
Proof. exact tag_eq_spec. Qed.
Theorem C18_identity_hash : forall a b, tag_eq a b = true -> tag_hash a = tag_hash b.
Proof. exact tag_eq_hash. Qed.
Theorem C18_identity_ne : forall a b, tag_ne a b = negb (tag_eq a b).
Proof. exact tag_ne_spec. Qed.

(* constructor: any operand list (duplicates included) gives an ordered set holding the first occurrences *)
Theorem C18_ctor : forall l, Inv (mk l) /\ items (mk l) = dedup l.
Proof. exact mk_spec. Qed.
(* += and +: closed, first-occurrence order, exactly the new elements appended once *)
Theorem C18_iadd : forall l c, Inv c -> Inv (iadd c l) /\ items (iadd c l) = items c ++ fresh (items c) l.
Proof. exact iadd_spec. Qed.
Theorem C18_add : forall c l, Inv c -> Inv (add c l) /\ items (add c l) = items c ++ fresh (items c) l.
Proof. exact add_spec. Qed.
(* -= and -: never raise (absent and repeated operands included), closed, remove exactly the named elements *)
Theorem C18_isub : forall l c, Inv c ->
  exists c', isub c l = COk c' /\ Inv c' /\ items c' = filter (fun x => negb (mem x l)) (items c).
Proof. exact isub_spec. Qed.
Theorem C18_sub : forall c l, Inv c ->
  exists c', sub c l = COk c' /\ Inv c' /\ items c' = filter (fun x => negb (mem x l)) (items c).
Proof. exact sub_spec. Qed.

(* histories: whatever sequence of +=, +, -=, - is applied to whatever the constructor built, no operation raises, the result
   is an ordered set with consistent uid bookkeeping, and its contents are those of the abstract duplicate-free list on which
   the additions append the new operands once (first occurrences) and the subtractions filter the named elements out *)
Theorem C18_history : forall l0 ops,
  exists c', fold_left cstep ops (COk (mk l0)) = COk c' /\ Inv c' /\ items c' = fold_left astep ops (dedup l0).
Proof. exact history_from_ctor. Qed.
Theorem C18_history_from_any : forall ops c, Inv c ->
  exists c', fold_left cstep ops (COk c) = COk c' /\ Inv c' /\ items c' = fold_left astep ops (items c).
Proof. exact history_refines. Qed.
Example C18_ex_history : fold_left cstep [OAdd [3;3;1]; OISub [1;1;7]; OIAdd [1]; OSub [2;2]] (COk (mk [1;2;1]))
  = COk {| items := [3;1]; uids := [1;3] |} /\ fold_left astep [OAdd [3;3;1]; OISub [1;1;7]; OIAdd [1]; OSub [2;2]] (dedup [1;2;1]) = [3;1].
Proof. vm_compute. split; reflexivity. Qed.

(* containment helpers agree with the trees below the members *)
Theorem C18_getAllChildNodes : forall t, NoDup (pre t) -> Inv (all_child_nodes t) /\ items (all_child_nodes t) = pre t.
Proof. exact all_child_nodes_spec. Qed.
Theorem C18_getAllNodes_tag : forall t, NoDup (pre_self t) -> Inv (all_nodes t) /\ items (all_nodes t) = pre_self t.
Proof. exact all_nodes_spec. Qed.
Theorem C18_containsUid_tag : forall t u, contains_uid t u = mem u (pre_self t).
Proof. exact contains_uid_spec. Qed.
Theorem C18_getAllNodes : forall w c,
  Inv (coll_all_nodes w c) /\ items (coll_all_nodes w c) = dedup (members_pre w (items c)).
Proof. exact coll_all_nodes_spec. Qed.
Theorem C18_getAllNodes_wf : forall w ms,
  (forall m, In m ms -> NoDup (pre (elem w m)) /\ tuid (elem w m) = m) ->
  members_pre w ms = flat_map (fun u => pre_self (elem w u)) ms.
Proof. exact members_pre_wf. Qed.
Theorem C18_containsUid : forall w c u,
  coll_contains_uid w c u = existsb (fun m => mem u (pre_self (elem w m))) (items c).
Proof. exact coll_contains_uid_spec. Qed.
Theorem C18_getAllNodeUids_tag : forall t x, In x (all_node_uids t) <-> In x (pre_self t).
Proof. exact all_node_uids_spec. Qed.
Theorem C18_getAllNodeUids : forall w c x,
  In x (coll_all_node_uids w c) <-> exists m, In m (items c) /\ In x (pre_self (elem w m)).
Proof. exact coll_all_node_uids_spec. Qed.
Theorem C18_uniqueTags : forall l, Inv (unique_tags l) /\ items (unique_tags l) = dedup l.
Proof. exact unique_tags_spec. Qed.
(* the specification lists are duplicate free and contain what their names say *)
Theorem C18_fresh_meaning : forall seen l x, In x (fresh seen l) <-> In x l /\ ~ In x seen.
Proof. exact fresh_In. Qed.
Theorem C18_fresh_nodup : forall seen l, NoDup (fresh seen l).
Proof. exact fresh_NoDup. Qed.

(* non-vacuity: the invariant is met by collections the operators build, incl. the repeated-operand cases *)
Example C18_ex_add : items (add (mk [1;2]) [3;3;2;4]) = [1;2;3;4] /\ Inv (mk [1;2]).
Proof. split; [reflexivity | apply mk_spec]. Qed.
Example C18_ex_sub : sub (mk [1;2;3]) [1;1;9] = COk {| items := [2;3]; uids := [3;2] |}.
Proof. reflexivity. Qed.
Example C18_ex_nested :
  let w := [T 0 [T 1 [T 2 []]; T 3 []]] in
  items (coll_all_nodes w (mk [1; 0])) = [1; 2; 0; 3] /\ NoDup (pre_self (elem w 0)).
Proof. split; [reflexivity | repeat constructor; simpl; intuition congruence]. Qed.
