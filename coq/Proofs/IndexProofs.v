(* C07: an index that was (re)built from the document answers every indexed search exactly as the unindexed search does. *)
From AHP Require Import Model.Base Model.Str Model.Attr Model.Dom Model.Search Model.Index Gen.Tables
     Proofs.StrProofs Proofs.DomProofs Proofs.SearchProofs.

(* ---------- 1. what the maps hold after indexing a list of elements ---------- *)
Lemma mm_get_add k k' u m : mm_get k (mm_add k' u m) = if String.eqb k k' then mm_get k m ++ [u] else mm_get k m.
Proof.
  unfold mm_get. induction m as [|[k0 l] m IH]; simpl.
  - destruct (String.eqb k k') eqn:E; simpl; reflexivity.
  - destruct (String.eqb k' k0) eqn:E0; simpl.
    + apply String.eqb_eq in E0. subst k0. destruct (String.eqb k k') eqn:E; reflexivity.
    + destruct (String.eqb k k0) eqn:E1.
      * destruct (String.eqb k k') eqn:E; auto. apply String.eqb_eq in E, E1. subst. rewrite String.eqb_refl in E0. discriminate.
      * exact IH.
Qed.

(* projections of one indexing step *)
Lemma tagmap_step c t i : tagmap (index_tag c t i) = if ix_tag c then mm_add (name (hd_ t)) (tuid t) (tagmap i) else tagmap i.
Proof. reflexivity. Qed.
Lemma namemap_step c t i : namemap (index_tag c t i) =
  if ix_name c then match truthy_str (attr_of t "name") with Some x => mm_add x (tuid t) (namemap i) | None => namemap i end else namemap i.
Proof. reflexivity. Qed.
Lemma classmap_step c t i : classmap (index_tag c t i) =
  if ix_class c then fold_left (fun m cn => mm_add cn (tuid t) m) (class_list t) (classmap i) else classmap i.
Proof. reflexivity. Qed.
Lemma idmap_step c t i : idmap (index_tag c t i) =
  if ix_id c then match truthy_str (attr_of t "id") with Some x => od_set x (tuid t) (idmap i) | None => idmap i end else idmap i.
Proof. reflexivity. Qed.
Lemma others_step c t i : others (index_tag c t i) =
  map (fun kv => (fst kv, match attr_of t (fst kv) with PStr x => mm_add x (tuid t) (snd kv) | _ => snd kv end)) (others i).
Proof. reflexivity. Qed.

(* tag names *)
Lemma tagmap_all c n : ix_tag c = true -> forall els i,
  mm_get n (tagmap (index_all c els i)) = mm_get n (tagmap i) ++ map tuid (filter (fun t => String.eqb (name (hd_ t)) n) els).
Proof.
  intros Hc. unfold index_all. induction els as [|t els IH]; intros i; simpl; [now rewrite app_nil_r|].
  rewrite IH, tagmap_step, Hc, mm_get_add. rewrite (String.eqb_sym n).
  destruct (String.eqb (name (hd_ t)) n); simpl; [now rewrite <- app_assoc | reflexivity].
Qed.
(* name attribute: only non-empty values are indexed, and only non-empty names are searched *)
Lemma truthy_eq v n : n <> "" -> (match truthy_str v with Some x => String.eqb n x | None => false end) = pyv_eq_str v n.
Proof.
  intros Hn. destruct v as [|x| |]; simpl; auto. unfold nonempty. destruct (String.eqb x "") eqn:E; simpl.
  - apply String.eqb_eq in E. subst. destruct (String.eqb "" n) eqn:E2; auto. apply String.eqb_eq in E2. congruence.
  - apply String.eqb_sym.
Qed.
Lemma namemap_all c n : ix_name c = true -> n <> "" -> forall els i,
  mm_get n (namemap (index_all c els i)) = mm_get n (namemap i) ++ map tuid (filter (fun t => pyv_eq_str (attr_of t "name") n) els).
Proof.
  intros Hc Hn. unfold index_all. induction els as [|t els IH]; intros i; simpl; [now rewrite app_nil_r|].
  rewrite IH, namemap_step, Hc. rewrite <- (truthy_eq (attr_of t "name") n Hn).
  destruct (truthy_str (attr_of t "name")) as [x|]; [|reflexivity].
  rewrite mm_get_add. destruct (String.eqb n x); simpl; [now rewrite <- app_assoc | reflexivity].
Qed.
(* class names: an element is entered once per item of its class list *)
Lemma classmap_one k u cl : forall m, mm_get k (fold_left (fun m cn => mm_add cn u m) cl m) = mm_get k m ++ repeat u (count_occ string_dec cl k).
Proof.
  induction cl as [|c cl IH]; intros m; simpl; [now rewrite app_nil_r|].
  rewrite IH, mm_get_add. destruct (string_dec c k) as [->|Hne].
  - rewrite String.eqb_refl. simpl. now rewrite <- app_assoc.
  - destruct (String.eqb k c) eqn:E; [apply String.eqb_eq in E; congruence | reflexivity].
Qed.
Lemma classmap_all c k : ix_class c = true -> forall els i,
  mm_get k (classmap (index_all c els i)) =
  mm_get k (classmap i) ++ flat_map (fun t => repeat (tuid t) (count_occ string_dec (class_list t) k)) els.
Proof.
  intros Hc. unfold index_all. induction els as [|t els IH]; intros i; simpl; [now rewrite app_nil_r|].
  rewrite IH, classmap_step, Hc, classmap_one. now rewrite <- app_assoc.
Qed.
(* attribute indexes *)
Lemma others_keys c els : forall i, map fst (others (index_all c els i)) = map fst (others i).
Proof.
  unfold index_all. induction els as [|t els IH]; intros i; simpl; auto. rewrite IH, others_step, map_map. reflexivity.
Qed.
Lemma od_get_map {V W} (g : string -> V -> W) k (d : list (string * V)) :
  od_get k (map (fun kv => (fst kv, g (fst kv) (snd kv))) d) = option_map (g k) (od_get k d).
Proof.
  induction d as [|[k0 v] d IH]; simpl; auto. destruct (String.eqb k k0) eqn:E; auto. apply String.eqb_eq in E. now subst.
Qed.
Lemma others_all c a v : forall els i m0, od_get a (others i) = Some m0 ->
  exists m, od_get a (others (index_all c els i)) = Some m
            /\ mm_get v m = mm_get v m0 ++ map tuid (filter (fun t => pyv_eq_str (attr_of t a) v) els).
Proof.
  unfold index_all. induction els as [|t els IH]; intros i m0 H0; simpl.
  - exists m0. now rewrite app_nil_r.
  - set (g := fun (k : string) (m : mmap) => match attr_of t k with PStr x => mm_add x (tuid t) m | _ => m end).
    assert (E : od_get a (others (index_tag c t i)) = Some (g a m0)).
    { rewrite others_step. change (od_get a (map (fun kv => (fst kv, g (fst kv) (snd kv))) (others i)) = Some (g a m0)).
      rewrite od_get_map, H0. reflexivity. }
    destruct (IH _ _ E) as (m & Hm & Hg). exists m. split; auto. rewrite Hg. unfold g.
    destruct (attr_of t a) as [|x| |]; simpl; auto.
    rewrite mm_get_add. rewrite (String.eqb_sym v). destruct (String.eqb x v); simpl; [now rewrite <- app_assoc | reflexivity].
Qed.
(* ids: the map keeps the last element entered for an id *)
Lemma idmap_all c x : ix_id c = true -> x <> "" -> forall els i,
  od_get x (idmap (index_all c els i)) =
  match rev (filter (fun t => pyv_eq_str (attr_of t "id") x) els) with t :: _ => Some (tuid t) | [] => od_get x (idmap i) end.
Proof.
  intros Hc Hx. unfold index_all. induction els as [|t els IH]; intros i; simpl; auto.
  rewrite IH, idmap_step, Hc. rewrite <- (truthy_eq (attr_of t "id") x Hx).
  destruct (truthy_str (attr_of t "id")) as [y|] eqn:Et.
  - destruct (String.eqb x y) eqn:E.
    + apply String.eqb_eq in E. subst y. simpl. rewrite od_get_set_same.
      destruct (rev (filter (fun t0 => pyv_eq_str (attr_of t0 "id") x) els)); reflexivity.
    + rewrite od_get_set_other by exact E. reflexivity.
  - reflexivity.
Qed.

(* ---------- 2. sub-elements of a document, document order, and the parentNode chain ---------- *)
Inductive Sub : tag -> tag -> Prop :=
| Sub_refl t : Sub t t
| Sub_child x c h bs : In c (tags_of bs) -> Sub x c -> Sub x (Tag h bs).

Lemma desc_unfold h bs : descendants (Tag h bs) = flat_map (fun c => c :: descendants c) (tags_of bs).
Proof. simpl. induction bs as [|[s|c] bs IH]; simpl; auto. now rewrite IH. Qed.
Lemma all_nodes_unfold h bs : all_nodes (Tag h bs) = Tag h bs :: flat_map all_nodes (tags_of bs).
Proof. unfold all_nodes at 1. rewrite desc_unfold. reflexivity. Qed.
Lemma uids_all_nodes : forall t, map tuid (all_nodes t) = uids_of t.
Proof.
  induction t as [h bs IH] using tag_ind'. rewrite all_nodes_unfold, uids_unfold. simpl. f_equal.
  induction bs as [|[s|c] bs IHb]; cbn [tags_of flat_map buids] in *; auto. inversion IH as [|? ? Hc IH']; subst.
  rewrite map_app, Hc, (IHb IH'). reflexivity.
Qed.
Lemma find_Sub u : forall t x, find u t = Some x -> Sub x t.
Proof.
  induction t as [h bs IH] using tag_ind'. intros x. simpl. destruct (Nat.eqb (uid h) u).
  - intros H. inversion H. constructor.
  - intros H. apply find_go_spec in H as (c & Hin & Hf). rewrite Forall_forall in IH. eapply Sub_child; eauto.
Qed.
Lemma Sub_trans x y z : Sub x y -> Sub y z -> Sub x z.
Proof. intros Hxy Hyz. induction Hyz; auto. eapply Sub_child; eauto. Qed.
Lemma Sub_desc x t : Sub x t -> x = t \/ In x (descendants t).
Proof.
  induction 1 as [t|x c h bs Hin Hs IH]; auto. right. rewrite desc_unfold. apply in_flat_map. exists c. split; auto.
  destruct IH as [->|IH]; [now left | now right].
Qed.
Lemma desc_Sub : forall t x, In x (descendants t) -> Sub x t.
Proof.
  induction t as [h bs IH] using tag_ind'. intros x. rewrite desc_unfold, in_flat_map. intros (c & Hc & Hx).
  rewrite Forall_forall in IH. eapply Sub_child; eauto. destruct Hx as [<-|Hx]; [constructor | auto].
Qed.
Lemma Sub_decompose x t : Sub x t -> exists pre post, all_nodes t = pre ++ all_nodes x ++ post.
Proof.
  induction 1 as [t|x c h bs Hin Hs IH].
  - exists [], []. now rewrite app_nil_r.
  - destruct IH as (pre & post & E). apply in_split in Hin as (l1 & l2 & El).
    exists (Tag h bs :: flat_map all_nodes l1 ++ pre), (post ++ flat_map all_nodes l2).
    rewrite all_nodes_unfold, El, flat_map_app. cbn [flat_map]. rewrite E. cbn [app]. f_equal. now rewrite <- !app_assoc.
Qed.
Lemma find_none u t : ~ In u (uids_of t) -> find u t = None.
Proof. intros H. destruct (find u t) eqn:E; auto. apply find_some_in in E as [E _]. tauto. Qed.
Lemma Sub_uids x t : Sub x t -> forall u, In u (uids_of x) -> In u (uids_of t).
Proof.
  induction 1 as [t|x c h bs Hin Hs IH]; auto. intros u Hu. rewrite uids_unfold. right.
  apply in_flat_map. exists (BTag c). split; [|now apply IH].
  clear - Hin. induction bs as [|[s|y] bs IHb]; simpl in *; [tauto|auto|]. destruct Hin as [->|Hin]; auto.
Qed.
Lemma tuid_in_uids t : In (tuid t) (uids_of t).
Proof. destruct t as [h bs]. rewrite uids_unfold. now left. Qed.
(* unique uids: an element of the document is found by its uid *)
Lemma Sub_find x t : Sub x t -> NoDup (uids_of t) -> find (tuid x) t = Some x.
Proof.
  induction 1 as [[h bs]|x c h bs Hin Hs IH]; intros Hnd.
  - simpl. now rewrite Nat.eqb_refl.
  - rewrite uids_unfold in Hnd. inversion Hnd as [|? ? Hnh Hnd']; subst.
    assert (Hx : In (tuid x) (uids_of c)) by (eapply Sub_uids; eauto; apply tuid_in_uids).
    simpl. destruct (Nat.eqb (uid h) (tuid x)) eqn:E.
    { apply Nat.eqb_eq in E. exfalso. apply Hnh. rewrite E. apply in_flat_map. exists (BTag c). split; auto.
      clear - Hin. induction bs as [|[s|y] bs IHb]; simpl in *; [tauto|auto|]. destruct Hin as [->|Hin]; auto. }
    clear E Hnh Hnd. induction bs as [|[s|y] bs IHb]; simpl in *; [tauto|auto|].
    destruct Hin as [->|Hin].
    + rewrite IH; auto. eapply NoDup_app_l; eauto.
    + rewrite find_none.
      * apply IHb; auto. eapply NoDup_app_r; eauto.
      * intro Hy. eapply NoDup_app_disj; eauto. apply in_flat_map. exists (BTag c). split; auto.
        clear - Hin. induction bs as [|[s|z] bs IHb]; simpl in *; [tauto|auto|]. destruct Hin as [->|Hin]; auto.
Qed.
Lemma Sub_WF x t : Sub x t -> forall p o, WF p o t -> exists p' o', WF p' o' x.
Proof.
  induction 1 as [t|x c h bs Hin Hs IH]; intros p o Hwf; eauto.
  inversion Hwf as [? ? ? ? _ _ _ _ _ Hall]; subst. rewrite Forall_forall in Hall. eapply IH; eauto.
Qed.
(* the parentNode field of an element of a well-formed document names the element it is a child of *)
Lemma Sub_parent x t : Sub x t -> forall p o, WF p o t ->
  x = t \/ exists y, Sub y t /\ In x (tags_of (bs_ y)) /\ parent (hd_ x) = Some (tuid y).
Proof.
  induction 1 as [t|x c h bs Hin Hs IH]; intros p o Hwf; auto. right.
  inversion Hwf as [? ? ? ? _ _ _ _ _ Hall]; subst. rewrite Forall_forall in Hall. specialize (Hall c Hin).
  destruct (IH _ _ Hall) as [->|(y & Hy & Hxy & Hp)].
  - exists (Tag h bs). split; [constructor|]. split; auto. inversion Hall; subst. simpl. assumption.
  - exists y. split; auto. eapply Sub_child; eauto.
Qed.
Lemma kid_len c (l : list tag) : In c l -> length (all_nodes c) <= length (flat_map all_nodes l).
Proof. induction l as [|d l IHl]; simpl; [tauto|]. rewrite app_length. intros [->|H]; [simpl; lia|]. specialize (IHl H). simpl in *. lia. Qed.
Lemma kid_desc x y s : In y (all_nodes s) -> In x (tags_of (bs_ y)) -> In x (descendants s).
Proof.
  intros Hy Hx. assert (Hxy : In x (descendants y)).
  { destruct y as [h bs]. rewrite desc_unfold. apply in_flat_map. exists x. split; auto. now left. }
  destruct Hy as [<-|Hy]; auto. apply desc_Sub in Hy. apply Sub_decompose in Hy as (pre & post & E).
  assert (Hi : In x (all_nodes s)) by (rewrite E; apply in_or_app; right; apply in_or_app; left; now right).
  destruct Hi as [<-|Hi]; auto.
  (* x = s would make s a strict descendant of itself through y: excluded below by sizes *)
  exfalso. assert (L : length (all_nodes s) = length (pre ++ all_nodes y ++ post)) by now rewrite E.
  rewrite !app_length in L.
  assert (Ls : S (length (all_nodes s)) <= length (all_nodes y)).
  { destruct y as [h bs]. rewrite all_nodes_unfold. cbn [length]. apply le_n_S. apply kid_len. exact Hx. }
  lia.
Qed.

Lemma in_line_mono doc r : forall k k' u, k <= k' -> in_line k doc u r = true -> in_line k' doc u r = true.
Proof.
  induction k as [|k IH]; intros k' u Hle H; [discriminate|]. destruct k' as [|k']; [lia|]. simpl in *.
  destruct (parent_of doc u) as [p|]; auto. destruct (Nat.eqb p r); auto. apply IH; auto. lia.
Qed.
Lemma in_line_extend doc c r : parent_of doc c = Some r -> forall k u, in_line k doc u c = true -> in_line (S k) doc u r = true.
Proof.
  intros Hc. induction k as [|k IH]; intros u H; [discriminate|]. simpl in H. cbn [in_line].
  destruct (parent_of doc u) as [p|] eqn:Ep; [|discriminate]. destruct (Nat.eqb p r) eqn:Er; auto.
  destruct (Nat.eqb p c) eqn:Ec.
  - apply Nat.eqb_eq in Ec. subst p. destruct k; simpl; rewrite Hc, Nat.eqb_refl; reflexivity.
  - apply IH in H. exact H.
Qed.

Section Line.
  Variables (doc : tag) (o : option nat).
  Hypothesis Hwf : WF None o doc.
  Hypothesis Hnd : NoDup (uids_of doc).

  Lemma in_line_complete : forall sub, Sub sub doc -> forall x, In x (descendants sub) ->
    exists k, k <= length (descendants sub) /\ in_line k doc (tuid x) (tuid sub) = true.
  Proof.
    induction sub as [h bs IH] using tag_ind'. intros Hs x Hx.
    destruct (Sub_WF _ _ Hs _ _ Hwf) as (p' & o' & Hw). inversion Hw as [? ? ? ? _ _ _ _ _ Hall]; subst.
    rewrite Forall_forall in IH, Hall.
    rewrite desc_unfold in Hx |- *. apply in_flat_map in Hx as (c & Hc & Hx).
    assert (Hcs : Sub c doc) by (eapply Sub_trans; [|exact Hs]; eapply Sub_child; eauto; constructor).
    assert (Hpc : parent_of doc (tuid c) = Some (uid h)).
    { unfold parent_of. rewrite (Sub_find _ _ Hcs Hnd). specialize (Hall c Hc). inversion Hall; subst. simpl. assumption. }
    assert (Hlen : S (length (descendants c)) <= length (flat_map (fun c0 => c0 :: descendants c0) (tags_of bs))).
    { exact (kid_len c (tags_of bs) Hc). }
    destruct Hx as [<-|Hx].
    - exists 1. split; [lia|]. simpl. unfold tuid at 2. simpl. rewrite Hpc, Nat.eqb_refl. reflexivity.
    - destruct (IH c Hc Hcs x Hx) as (k & Hk & Hl). exists (S k). split; [lia|].
      apply (in_line_extend doc (tuid c) (uid h) Hpc). exact Hl.
  Qed.

  Lemma in_line_sound sub r : find r doc = Some sub -> forall fuel u, in_line fuel doc u r = true -> In u (map tuid (descendants sub)).
  Proof.
    intros Hr. assert (Hsd : Sub sub doc) by (eapply find_Sub; eauto).
    assert (Hrs : tuid sub = r) by (apply find_some_in in Hr; tauto).
    induction fuel as [|k IH]; intros u H; [discriminate|]. simpl in H.
    unfold parent_of in H. destruct (find u doc) as [x|] eqn:Ex; [|discriminate].
    destruct (parent (hd_ x)) as [p|] eqn:Ep; [|discriminate].
    assert (Hxs : Sub x doc) by (eapply find_Sub; eauto).
    assert (Hux : tuid x = u) by (apply find_some_in in Ex; tauto).
    destruct (Sub_parent _ _ Hxs _ _ Hwf) as [->|(y & Hy & Hxy & Hp)].
    { inversion Hwf; subst. simpl in Ep. congruence. }
    rewrite Ep in Hp. inversion Hp; subst p. clear Hp.
    assert (Hfy : find (tuid y) doc = Some y) by (apply Sub_find; auto).
    destruct (Nat.eqb (tuid y) r) eqn:E.
    - apply Nat.eqb_eq in E. rewrite E, Hr in Hfy. inversion Hfy; subst y.
      rewrite <- Hux. apply in_map. eapply kid_desc; eauto. now left.
    - apply IH in H. apply in_map_iff in H as (y' & Hy' & Hin').
      assert (Hs' : Sub y' doc) by (eapply Sub_trans; [apply desc_Sub; eauto | auto]).
      apply Sub_find in Hs'; auto. rewrite Hy', Hfy in Hs'. inversion Hs'; subst y'.
      rewrite <- Hux. apply in_map. eapply kid_desc; eauto. now right.
  Qed.

  (* _hasTagInParentLine(x, root) holds exactly for the strict descendants of root *)
  Theorem below_root_spec r sub : find r doc = Some sub -> forall u,
    below_root doc r u = true <-> In u (map tuid (descendants sub)).
  Proof.
    intros Hr u. split; [apply in_line_sound; auto|].
    intros Hu. apply in_map_iff in Hu as (x & <- & Hx).
    assert (Hsd : Sub sub doc) by (eapply find_Sub; eauto).
    destruct (in_line_complete sub Hsd x Hx) as (k & Hk & Hl).
    assert (Hrs : tuid sub = r) by (apply find_some_in in Hr; tauto). rewrite Hrs in Hl.
    unfold below_root. eapply in_line_mono; [|exact Hl].
    destruct (Sub_decompose _ _ Hsd) as (pre & post & E). rewrite E, !app_length. unfold all_nodes at 1. simpl. lia.
  Qed.
End Line.

(* ---------- 3. restricting index entries to the scope of a search ---------- *)
Lemma filter_map_comm {A B} (g : A -> B) p l : filter p (map g l) = map g (filter (fun x => p (g x)) l).
Proof. induction l as [|a l IH]; simpl; auto. destruct (p (g a)); simpl; now rewrite IH. Qed.
Lemma filter_comm {A} (p q : A -> bool) l : filter p (filter q l) = filter q (filter p l).
Proof. induction l as [|a l IH]; simpl; auto. destruct (q a) eqn:Eq, (p a) eqn:Ep; simpl; rewrite ?Eq, ?Ep, IH; reflexivity. Qed.
Lemma filter_false {A} (p : A -> bool) l : (forall x, In x l -> p x = false) -> filter p l = [].
Proof. induction l as [|a l IH]; simpl; auto. intros H. rewrite (H a) by now left. apply IH. intros x Hx. apply H. now right. Qed.
Lemma filter_true {A} (p : A -> bool) l : (forall x, In x l -> p x = true) -> filter p l = l.
Proof. induction l as [|a l IH]; simpl; auto. intros H. rewrite (H a) by now left. f_equal. apply IH. intros x Hx. apply H. now right. Qed.
Lemma filter_andb {A} (p q : A -> bool) l : filter p (filter q l) = filter (fun x => q x && p x) l.
Proof. induction l as [|a l IH]; simpl; auto. destruct (q a); simpl; [destruct (p a)|]; now rewrite IH. Qed.

Definition in_scope (D : list tag) (x : tag) : bool := existsb (Nat.eqb (tuid x)) (map tuid D).
Lemma in_scope_iff D x : in_scope D x = true <-> In (tuid x) (map tuid D).
Proof.
  unfold in_scope. rewrite existsb_exists. split.
  - intros (y & Hy & E). apply Nat.eqb_eq in E. now rewrite E.
  - intros H. exists (tuid x). split; auto. apply Nat.eqb_refl.
Qed.
Lemma scope_filter pre D post : NoDup (map tuid (pre ++ D ++ post)) -> filter (in_scope D) (pre ++ D ++ post) = D.
Proof.
  intros Hnd. rewrite !map_app in Hnd. rewrite !filter_app.
  rewrite (filter_false _ pre), (filter_true _ D), (filter_false _ post); [now rewrite app_nil_r | | |].
  - intros x Hx. destruct (in_scope D x) eqn:E; auto. apply in_scope_iff in E. exfalso.
    apply NoDup_app_r in Hnd. apply (NoDup_app_disj _ _ (tuid x) Hnd E). now apply in_map.
  - intros x Hx. apply in_scope_iff. now apply in_map.
  - intros x Hx. destruct (in_scope D x) eqn:E; auto. apply in_scope_iff in E. exfalso.
    apply (NoDup_app_disj _ _ (tuid x) Hnd); [now apply in_map | apply in_or_app; now left].
Qed.

(* TagCollection(...) keeps first occurrences *)
Definition dstep (acc : list nat) (u : nat) : list nat := if existsb (Nat.eqb u) acc then acc else acc ++ [u].
Lemma dedup_fold l : dedup l = fold_left dstep l [].
Proof. reflexivity. Qed.
Lemma existsb_eqb_In u l : existsb (Nat.eqb u) l = true <-> In u l.
Proof. rewrite existsb_exists. split; [intros (y & Hy & E); apply Nat.eqb_eq in E; now subst | intros H; exists u; split; auto; apply Nat.eqb_refl]. Qed.
Lemma dedup_NoDup_acc l : forall acc, NoDup (acc ++ l) -> fold_left dstep l acc = acc ++ l.
Proof.
  induction l as [|u l IH]; intros acc H; simpl; [now rewrite app_nil_r|]. unfold dstep at 2.
  destruct (existsb (Nat.eqb u) acc) eqn:E.
  - apply existsb_eqb_In in E. exfalso. eapply NoDup_app_disj; eauto. now left.
  - rewrite IH; rewrite <- app_assoc; simpl; auto.
Qed.
Lemma dedup_NoDup l : NoDup l -> dedup l = l.
Proof. intros H. rewrite dedup_fold. now rewrite dedup_NoDup_acc. Qed.
Lemma existsb_filter P u acc : P u = true -> existsb (Nat.eqb u) (filter P acc) = existsb (Nat.eqb u) acc.
Proof.
  intros Hp. induction acc as [|a acc IH]; simpl; auto. destruct (P a) eqn:Ea; simpl; rewrite IH; auto.
  destruct (Nat.eqb u a) eqn:E; auto. apply Nat.eqb_eq in E. congruence.
Qed.
Lemma dedup_filter_acc P l : forall acc, fold_left dstep (filter P l) (filter P acc) = filter P (fold_left dstep l acc).
Proof.
  induction l as [|u l IH]; intros acc; simpl; auto. destruct (P u) eqn:Ep; simpl.
  - rewrite <- IH. f_equal. unfold dstep. rewrite (existsb_filter P u acc Ep).
    destruct (existsb (Nat.eqb u) acc); auto. rewrite filter_app. simpl. now rewrite Ep.
  - rewrite <- IH. f_equal. unfold dstep. destruct (existsb (Nat.eqb u) acc); auto. rewrite filter_app. simpl. rewrite Ep. now rewrite app_nil_r.
Qed.
Lemma dedup_filter P l : dedup (filter P l) = filter P (dedup l).
Proof. rewrite !dedup_fold. exact (dedup_filter_acc P l []). Qed.
Lemma dstep_repeat u n : forall acc, fold_left dstep (repeat u n) acc = if (0 <? n) && negb (existsb (Nat.eqb u) acc) then acc ++ [u] else acc.
Proof.
  induction n as [|n IH]; intros acc; simpl; auto. rewrite IH. unfold dstep.
  destruct (existsb (Nat.eqb u) acc) eqn:E; simpl.
  - rewrite E. simpl. now rewrite andb_false_r.
  - rewrite existsb_app. simpl. rewrite Nat.eqb_refl. simpl. rewrite orb_true_r. simpl. now rewrite andb_false_r.
Qed.
Lemma dedup_repeats (m : tag -> nat) els : forall acc, NoDup (acc ++ map tuid els) ->
  fold_left dstep (flat_map (fun t => repeat (tuid t) (m t)) els) acc = acc ++ map tuid (filter (fun t => 0 <? m t) els).
Proof.
  induction els as [|t els IH]; intros acc H; simpl; [now rewrite app_nil_r|].
  rewrite fold_left_app, dstep_repeat.
  assert (E : existsb (Nat.eqb (tuid t)) acc = false).
  { destruct (existsb (Nat.eqb (tuid t)) acc) eqn:E; auto. apply existsb_eqb_In in E. exfalso. eapply NoDup_app_disj; eauto. now left. }
  rewrite E. simpl. rewrite andb_true_r. destruct (0 <? m t) eqn:Em; simpl.
  - rewrite IH; rewrite <- app_assoc; simpl; auto.
  - apply IH. simpl in H. apply NoDup_remove_1 in H. exact H.
Qed.

Section Transparent.
  Variables (doc : tag) (o : option nat).
  Hypothesis Hwf : WF None o doc.
  Hypothesis Hnd : NoDup (uids_of doc).

  (* the elements an unindexed search looks at: root='root' on a single-root document tests the root too *)
  Definition scope (sub : option nat) : option (list tag) :=
    match sub with
    | None => Some (if String.eqb (name (hd_ doc)) invisible_root_tag then descendants doc else all_nodes doc)
    | Some r => option_map descendants (find r doc)
    end.

  Lemma below_root_filter r e f : find r doc = Some e ->
    filter (below_root doc r) (map tuid (filter f (all_nodes doc))) = map tuid (filter f (descendants e)).
  Proof.
    intros Hr. rewrite filter_map_comm, filter_comm. f_equal. f_equal.
    assert (Hs : Sub e doc) by (eapply find_Sub; eauto).
    destruct (Sub_decompose _ _ Hs) as (pre & post & E).
    rewrite (filter_ext (fun x => below_root doc r (tuid x)) (in_scope (descendants e))).
    2:{ intros x. apply Bool.eq_iff_eq_true. rewrite in_scope_iff. apply (below_root_spec doc o Hwf Hnd r e Hr). }
    rewrite E. unfold all_nodes at 1. change (pre ++ (e :: descendants e) ++ post) with (pre ++ ([e] ++ descendants e) ++ post).
    rewrite <- !app_assoc. rewrite (app_assoc pre [e]).
    apply scope_filter. rewrite !app_assoc. rewrite <- (app_assoc pre). change ([e] ++ descendants e) with (all_nodes e).
    rewrite <- app_assoc, <- E, uids_all_nodes. exact Hnd.
  Qed.
  Lemma find_root : find (tuid doc) doc = Some doc.
  Proof. destruct doc as [h bs]. simpl. now rewrite Nat.eqb_refl. Qed.
  Lemma restrict_scope sub sc f : scope sub = Some sc ->
    restrict doc sub (map tuid (filter f (all_nodes doc))) = map tuid (filter f sc).
  Proof.
    destruct sub as [r|]; simpl.
    - destruct (find r doc) as [e|] eqn:Er; simpl; [|discriminate]. intros H. inversion H; subst. now apply below_root_filter.
    - destruct (String.eqb (name (hd_ doc)) invisible_root_tag); intros H; inversion H; subst; auto.
      apply below_root_filter. apply find_root.
  Qed.
  Lemma scope_incl sub sc : scope sub = Some sc -> incl sc (all_nodes doc).
  Proof.
    destruct sub as [r|]; simpl.
    - destruct (find r doc) as [e|] eqn:Er; simpl; [|discriminate]. intros H x Hx. inversion H; subst.
      apply find_Sub in Er. assert (Hs : Sub x doc) by (eapply Sub_trans; [apply desc_Sub; eauto|auto]).
      apply Sub_desc in Hs as [->|Hs]; [now left | now right].
    - destruct (String.eqb (name (hd_ doc)) invisible_root_tag); intros H; inversion H; subst; intros x Hx; auto. now right.
  Qed.
  Lemma scope_NoDup sub sc : scope sub = Some sc -> NoDup (map tuid sc).
  Proof.
    assert (Hall : NoDup (map tuid (all_nodes doc))) by (rewrite uids_all_nodes; exact Hnd).
    assert (Hd : forall e, Sub e doc -> NoDup (map tuid (descendants e))).
    { intros e Hs. destruct (Sub_decompose _ _ Hs) as (pre & post & E). rewrite E, !map_app in Hall.
      apply NoDup_app_r, NoDup_app_l in Hall. unfold all_nodes in Hall. simpl in Hall. now inversion Hall. }
    destruct sub as [r|]; simpl.
    - destruct (find r doc) as [e|] eqn:Er; simpl; [|discriminate]. intros H. inversion H; subst. apply Hd. eapply find_Sub; eauto.
    - destruct (String.eqb (name (hd_ doc)) invisible_root_tag); intros H; inversion H; subst; auto. apply Hd. constructor.
  Qed.
  (* the indexed side of every list search: entries of the index, restricted, first occurrences *)
  Lemma indexed_list sub sc f : scope sub = Some sc ->
    dedup (restrict doc sub (map tuid (filter f (all_nodes doc)))) = map tuid (filter f sc).
  Proof.
    intros Hs. rewrite (restrict_scope sub sc f Hs). apply dedup_NoDup. apply filter_NoDup_map. eapply scope_NoDup; eauto.
  Qed.
  (* the unindexed side: Search.v's recursion over the same scope (C06) *)
  Lemma plain_list sub sc q f : scope sub = Some sc -> criterion q false = Some f ->
    (match q with QTagName _ | QName _ | QClass _ | QAttr _ _ | QAttrValues _ _ => True | _ => False end) ->
    plain_query doc sub q = IList (map tuid (filter f sc)).
  Proof.
    intros Hs Hc Hq. destruct sub as [r|]; simpl in Hs |- *.
    - destruct (find r doc) as [e|] eqn:Er; simpl in Hs; [|discriminate]. inversion Hs; subst.
      destruct q as [n|n|s|a v|a vs|x|p|p|kws|al isor kws]; try tauto; unfold elem_query; try rewrite Hc; simpl in Hc |- *.
      + inversion Hc; subst. now rewrite below_spec.
      + now rewrite below_spec.
      + now rewrite below_spec.
      + now rewrite below_spec.
      + now rewrite below_spec.
    - inversion Hs; subst. clear Hs.
      assert (G : map tuid (from_root_search f doc (negb (String.eqb (name (hd_ doc)) invisible_root_tag))) =
                  map tuid (filter f (if String.eqb (name (hd_ doc)) invisible_root_tag then descendants doc else all_nodes doc))).
      { destruct (String.eqb (name (hd_ doc)) invisible_root_tag); simpl; [now rewrite from_wrapper_spec | now rewrite from_root_spec]. }
      destruct q; try tauto; unfold doc_query; rewrite Hc; simpl; now rewrite G.
  Qed.

  Variables (c : icfg) (i0 : idx).
  Let ix := reindex c doc i0.

  Theorem transparent_tagname sub sc n : scope sub = Some sc -> ix_tag c = true ->
    indexed_query c ix doc sub true (QTagName n) = plain_query doc sub (QTagName n).
  Proof.
    intros Hs Hc. cbn [indexed_query andb]. rewrite Hc. unfold ix, reindex. rewrite (tagmap_all c n Hc).
    change (mm_get n (tagmap (reset_idx i0))) with (@nil nat). cbn [app].
    rewrite (indexed_list sub sc _ Hs). symmetry. apply plain_list; simpl; auto.
  Qed.
  Theorem transparent_name sub sc n : scope sub = Some sc -> ix_name c = true -> n <> "" ->
    indexed_query c ix doc sub true (QName n) = plain_query doc sub (QName n).
  Proof.
    intros Hs Hc Hn. cbn [indexed_query andb]. rewrite Hc. unfold ix, reindex. rewrite (namemap_all c n Hc Hn).
    change (mm_get n (namemap (reset_idx i0))) with (@nil nat). cbn [app].
    rewrite (indexed_list sub sc _ Hs). symmetry. apply plain_list; simpl; auto.
  Qed.
End Transparent.

(* ---------- 4. class names, attribute indexes, ids, value sets ---------- *)
Definition rpred (doc : tag) (sub : option nat) (u : nat) : bool :=
  match sub with
  | None => if String.eqb (name (hd_ doc)) invisible_root_tag then below_root doc (tuid doc) u else true
  | Some r => below_root doc r u
  end.
Lemma restrict_filter doc sub l : restrict doc sub l = filter (rpred doc sub) l.
Proof.
  unfold restrict, rpred. destruct sub as [r|]; auto. destruct (String.eqb (name (hd_ doc)) invisible_root_tag); auto.
  symmetry. now apply filter_true.
Qed.
Lemma count_smem k l : (0 <? count_occ string_dec l k) = smem k l.
Proof.
  induction l as [|y l IH]; simpl; auto. destruct (string_dec y k) as [->|Hne].
  - now rewrite String.eqb_refl.
  - rewrite IH. destruct (String.eqb k y) eqn:E; auto. apply String.eqb_eq in E. congruence.
Qed.
Lemma fold_dstep_In u l : forall acc, In u (fold_left dstep l acc) <-> In u acc \/ In u l.
Proof.
  induction l as [|a l IH]; intros acc; simpl; [tauto|]. rewrite IH. unfold dstep.
  destruct (existsb (Nat.eqb a) acc) eqn:E.
  - apply existsb_eqb_In in E. split; [tauto|]. intros [H|[<-|H]]; auto.
  - rewrite in_app_iff. simpl. tauto.
Qed.
Lemma fold_dstep_NoDup l : forall acc, NoDup acc -> NoDup (fold_left dstep l acc).
Proof.
  induction l as [|a l IH]; intros acc H; simpl; auto. apply IH. unfold dstep.
  destruct (existsb (Nat.eqb a) acc) eqn:E; auto.
  assert (Hn : ~ In a acc) by (intro Hi; apply existsb_eqb_In in Hi; congruence).
  clear E. induction acc as [|y acc IHa]; simpl; [constructor; [tauto|constructor]|].
  inversion H; subst. constructor.
  - rewrite in_app_iff. simpl. intros [Hi|[Hi|[]]]; auto. apply Hn. now left.
  - apply IHa; auto. intro Hi. apply Hn. now right.
Qed.
Lemma dedup_In u l : In u (dedup l) <-> In u l.
Proof. rewrite dedup_fold, fold_dstep_In. simpl. tauto. Qed.
Lemma dedup_is_NoDup l : NoDup (dedup l).
Proof. rewrite dedup_fold. apply fold_dstep_NoDup. constructor. Qed.
Lemma od_get_reset a (i : idx) m0 : od_get a (others i) = Some m0 -> od_get a (others (reset_idx i)) = Some [].
Proof.
  intros H. unfold reset_idx. cbn [others].
  change (od_get a (map (fun kv : string * mmap => (fst kv, (fun (_ : string) (_ : mmap) => @nil (string * list nat)) (fst kv) (snd kv))) (others i)) = Some []).
  rewrite od_get_map, H. reflexivity.
Qed.

Lemma find_self t : find (tuid t) t = Some t.
Proof. destruct t as [h bs]. simpl. now rewrite Nat.eqb_refl. Qed.

Section Transparent2.
  Variables (doc : tag) (o : option nat).
  Hypothesis Hwf : WF None o doc.
  Hypothesis Hnd : NoDup (uids_of doc).
  Variables (c : icfg) (i0 : idx).
  Let ix := reindex c doc i0.

  Lemma find_node x : In x (all_nodes doc) -> find (tuid x) doc = Some x.
  Proof. intros [<-|H]; [apply find_self | apply Sub_find; auto; now apply desc_Sub]. Qed.

  Theorem transparent_class sub sc s : scope doc sub = Some sc -> ix_class c = true -> class_names s <> [] ->
    indexed_query c ix doc sub true (QClass s) = plain_query doc sub (QClass s).
  Proof.
    intros Hs Hc Hne. cbn [indexed_query andb]. rewrite Hc.
    destruct (class_names s) as [|first more] eqn:En; [congruence|].
    unfold ix, reindex. rewrite (classmap_all c first Hc).
    change (mm_get first (classmap (reset_idx i0))) with (@nil nat). cbn [app].
    rewrite restrict_filter, !dedup_filter, <- restrict_filter.
    rewrite dedup_fold, (dedup_repeats _ (all_nodes doc) []) by (cbn [app]; rewrite uids_all_nodes; exact Hnd). cbn [app].
    rewrite filter_map_comm, filter_andb.
    rewrite (filter_ext_in _ (has_all_classes (first :: more))).
    2:{ intros x Hx. unfold has_classes_now. rewrite (find_node x Hx), count_smem. reflexivity. }
    rewrite (restrict_scope doc o Hwf Hnd sub sc _ Hs). symmetry.
    apply (plain_list doc sub sc (QClass s)); auto. simpl. now rewrite En.
  Qed.

  Theorem transparent_attr sub sc a v m0 : scope doc sub = Some sc -> od_get a (others i0) = Some m0 ->
    indexed_query c ix doc sub true (QAttr a v) = plain_query doc sub (QAttr a v).
  Proof.
    intros Hs H0. cbn [indexed_query]. unfold ix, reindex.
    destruct (others_all c a v (all_nodes doc) (reset_idx i0) [] (od_get_reset a i0 m0 H0)) as (m & Hm & Hg).
    rewrite Hm, Hg. change (mm_get v []) with (@nil nat). cbn [app].
    rewrite (indexed_list doc o Hwf Hnd sub sc _ Hs). symmetry. apply (plain_list doc sub sc (QAttr a v)); simpl; auto.
  Qed.

  (* single-result search: the id index keeps one element per id; ids are unique in the document *)
  Lemma plain_one sub sc x : scope doc sub = Some sc ->
    plain_query doc sub (QId x) = IOne (option_map tuid (hd_error (filter (fun t => pyv_eq_str (attr_of t "id") x) sc))).
  Proof.
    intros Hs. destruct sub as [r|]; simpl in Hs |- *.
    - destruct (find r doc) as [e|] eqn:Er; simpl in Hs; [|discriminate]. inversion Hs; subst. simpl. now rewrite first_below_spec.
    - inversion Hs; subst. unfold doc_query. simpl. destruct (String.eqb (name (hd_ doc)) invisible_root_tag); simpl.
      + unfold first_from_root. simpl. now rewrite first_below_spec.
      + now rewrite first_from_root_spec.
  Qed.
  Theorem transparent_id sub sc x : scope doc sub = Some sc -> ix_id c = true -> x <> "" ->
    length (filter (fun t => pyv_eq_str (attr_of t "id") x) (all_nodes doc)) <= 1 ->
    indexed_query c ix doc sub true (QId x) = plain_query doc sub (QId x).
  Proof.
    intros Hs Hc Hx Hu. cbn [indexed_query andb]. rewrite Hc. rewrite (plain_one sub sc x Hs).
    unfold ix, reindex. rewrite (idmap_all c x Hc Hx). change (od_get x (idmap (reset_idx i0))) with (@None nat).
    set (f := fun t => pyv_eq_str (attr_of t "id") x) in *.
    assert (Hincl : forall y, In y (filter f sc) -> In y (filter f (all_nodes doc))).
    { intros y Hy. apply filter_In in Hy as [Hy Hf]. apply filter_In. split; auto. eapply scope_incl; eauto. }
    pose proof (restrict_scope doc o Hwf Hnd sub sc f Hs) as Hr.
    destruct (filter f (all_nodes doc)) as [|t [|t2 l]] eqn:E; [| |simpl in Hu; lia].
    - simpl. destruct (filter f sc) as [|y l]; auto. destruct (Hincl y); now left.
    - simpl in Hr |- *. rewrite Hr. destruct (filter f sc) as [|y l]; auto. simpl.
      destruct (Hincl y) as [<-|[]]; [now left | reflexivity].
  Qed.

  (* several values: the same set of elements, each once (the order of a multi-valued search is not part of the claim) *)
  Theorem transparent_attrvalues sub sc a vs m0 : scope doc sub = Some sc -> od_get a (others i0) = Some m0 ->
    exists l1 l2, indexed_query c ix doc sub true (QAttrValues a vs) = IList l1 /\ plain_query doc sub (QAttrValues a vs) = IList l2
                  /\ NoDup l1 /\ NoDup l2 /\ forall u, In u l1 <-> In u l2.
  Proof.
    intros Hs H0. cbn [indexed_query]. unfold ix, reindex.
    set (fv := fun t => match attr_of t a with PStr x => smem x vs | _ => false end).
    assert (Hp : plain_query doc sub (QAttrValues a vs) = IList (map tuid (filter fv sc))) by (apply plain_list; simpl; auto).
    assert (Hget : exists m, od_get a (others (index_all c (all_nodes doc) (reset_idx i0))) = Some m
                     /\ forall v, mm_get v m = map tuid (filter (fun t => pyv_eq_str (attr_of t a) v) (all_nodes doc))).
    { destruct (others_all c a "" (all_nodes doc) (reset_idx i0) [] (od_get_reset a i0 m0 H0)) as (m & Hm & _).
      exists m. split; auto. intros v.
      destruct (others_all c a v (all_nodes doc) (reset_idx i0) [] (od_get_reset a i0 m0 H0)) as (m' & Hm' & Hg).
      rewrite Hm in Hm'. inversion Hm'; subst. exact Hg. }
    destruct Hget as (m & Hm & Hg). rewrite Hm.
    eexists _, _. split; [reflexivity|]. split; [exact Hp|]. split; [|split].
    - rewrite restrict_filter. apply NoDup_filter. apply dedup_is_NoDup.
    - apply filter_NoDup_map. eapply scope_NoDup; eauto.
    - intros u. rewrite <- (restrict_scope doc o Hwf Hnd sub sc fv Hs). rewrite !restrict_filter, !filter_In, dedup_In.
      apply and_iff_compat_r. rewrite in_flat_map, in_map_iff. split.
      + intros (v & Hv & Hu). rewrite Hg in Hu. apply in_map_iff in Hu as (t & <- & Ht). apply filter_In in Ht as [Ht Hf].
        exists t. split; auto. apply filter_In. split; auto. unfold fv. destruct (attr_of t a) as [|y| |]; try discriminate.
        simpl in Hf. apply String.eqb_eq in Hf. subst. now apply smem_In.
      + intros (t & <- & Ht). apply filter_In in Ht as [Ht Hf]. unfold fv in Hf. destruct (attr_of t a) as [|y| |] eqn:Ea; try discriminate.
        apply smem_In in Hf. exists y. split; auto. rewrite Hg. apply in_map. apply filter_In. split; auto.
        rewrite Ea. simpl. apply String.eqb_refl.
  Qed.

  (* with useIndex=False, or when the index in question is off, the code runs the unindexed search itself *)
  Theorem no_index_is_plain i sub q :
    (match q with QTagName _ | QName _ | QClass _ | QAttr _ _ | QAttrValues _ _ | QId _ => True | _ => False end) ->
    indexed_query c i doc sub false q = plain_query doc sub q.
  Proof. destruct q; simpl; tauto. Qed.
End Transparent2.

(* reindex does not depend on what the maps held before: stale entries never survive *)
Theorem reindex_forgets c doc i i' : map fst (others i) = map fst (others i') -> reindex c doc i = reindex c doc i'.
Proof.
  intros H. unfold reindex. f_equal. unfold reset_idx. f_equal.
  revert H. generalize (others i) (others i'). induction l as [|[k v] l IH]; intros [|[k' v'] l']; simpl; try discriminate; auto.
  intros H. inversion H; subst. f_equal. now apply IH.
Qed.

(* ---------- 5. the hypotheses hold in every reachable state: edits keep the document well-formed with unique uids ---------- *)
From Coq Require Import Permutation.
Lemma on_attrs_WF g p o t : WF p o t -> WF p o (on_attrs g t).
Proof. destruct t as [h bs]. intros H. inversion H; subst. constructor; auto. Qed.
Lemma keeps_on_attrs g : keeps_uid (on_attrs g).
Proof. intros [h bs]. reflexivity. Qed.
Lemma uids_on_attrs g t : uids_of (on_attrs g t) = uids_of t.
Proof. destruct t as [h bs]. reflexivity. Qed.
Lemma update_at_same_uids u f : (forall x, uids_of (f x) = uids_of x) -> forall t, uids_of (update_at u f t) = uids_of t.
Proof.
  intros Hf. induction t as [h bs IH] using tag_ind'. simpl. destruct (Nat.eqb (uid h) u); [apply Hf|].
  rewrite !uids_unfold. f_equal. induction bs as [|[s|c] bs IHb]; simpl in *; auto.
  inversion IH as [|? ? Hc IH']; subst. now rewrite Hc, (IHb IH').
Qed.
Lemma find_child_exists t bs : In t (tags_of bs) -> exists ct, find_child (tuid t) bs = Some ct.
Proof.
  induction bs as [|[s|y] bs IH]; simpl; [tauto|auto|]. intros [->|H].
  - rewrite Nat.eqb_refl. eauto.
  - destruct (Nat.eqb (tuid y) (tuid t)); eauto.
Qed.
Lemma list_max_ge l x : In x l -> x <= list_max l.
Proof. induction l as [|a l IH]; simpl; [tauto|]. intros [->|H]; [lia|]. specialize (IH H). lia. Qed.

Theorem apply_edit_inv doc o e : WF None o doc -> NoDup (uids_of doc) ->
  WF None o (apply_edit doc e) /\ NoDup (uids_of (apply_edit doc e)).
Proof.
  intros Hwf Hnd.
  assert (Attr : forall r g, let d := match nth_uid doc r with Some u => update_at u (on_attrs g) doc | None => doc end in
                             WF None o d /\ NoDup (uids_of d)).
  { intros r g. simpl. destruct (nth_uid doc r) as [u|]; auto. split.
    - apply update_at_WF; auto. apply keeps_on_attrs. intros; now apply on_attrs_WF.
    - rewrite update_at_same_uids; auto. apply uids_on_attrs. }
  destruct e as [r n v|r n|r cn|r cn|r v|r n a|r]; try apply Attr.
  - (* appendChild of a new element *)
    simpl. unfold nth_uid. destruct (nth_error (all_nodes doc) r) as [t|] eqn:Et; simpl; auto.
    apply nth_error_In in Et. pose proof (find_node doc Hnd t Et) as Hf.
    set (new := new_tag (fresh_uid doc) n (fst (intake a st0)) false None None).
    split.
    + apply update_at_WF; auto. apply keeps_appendChild. intros p o' x Hx. eapply appendChild_here_WF; eauto. apply new_leaf_WF.
    + pose proof (update_at_rel (Radd (uids_of new)) (Radd_ctx (uids_of new)) (appendChild_here new) (tuid t) doc t Hnd Hf
                                (appendChild_here_uids new t)) as G.
      unfold Radd in G. eapply Permutation_NoDup; [symmetry; exact G|].
      change (uids_of new) with [fresh_uid doc].
      apply (Permutation_NoDup (Permutation_cons_append (uids_of doc) (fresh_uid doc))). constructor; auto. intro Hi. rewrite <- uids_all_nodes in Hi. apply list_max_ge in Hi. unfold fresh_uid in Hi. lia.
  - (* remove() *)
    simpl. destruct (nth_error (all_nodes doc) r) as [t|] eqn:Et; auto. destruct (parent (hd_ t)) as [p|] eqn:Ep; auto.
    apply nth_error_In in Et. assert (Hs : Sub t doc) by (destruct Et as [<-|Et]; [constructor | now apply desc_Sub]).
    destruct (Sub_parent _ _ Hs _ _ Hwf) as [->|(y & Hy & Hty & Hp)].
    { inversion Hwf; subst. simpl in Ep. congruence. }
    rewrite Ep in Hp. inversion Hp; subst p. split.
    + apply update_at_WF; auto. apply keeps_removeChild. intros; now apply removeChild_here_WF.
    + destruct (find_child_exists t (bs_ y) Hty) as (ct & Hc).
      pose proof (update_at_rel (Rsub (uids_of ct)) (Rsub_ctx (uids_of ct)) (removeChild_here (tuid t)) (tuid y) doc y Hnd
                                (Sub_find _ _ Hy Hnd) (removeChild_here_uids (tuid t) y ct Hc)) as G.
      unfold Rsub in G. eapply NoDup_app_l. eapply Permutation_NoDup; [symmetry; exact G | exact Hnd].
Qed.
Theorem history_inv edits : forall doc o, WF None o doc -> NoDup (uids_of doc) ->
  WF None o (fold_left apply_edit edits doc) /\ NoDup (uids_of (fold_left apply_edit edits doc)).
Proof.
  induction edits as [|e edits IH]; intros doc o Hwf Hnd; simpl; auto.
  destruct (apply_edit_inv doc o e Hwf Hnd) as [H1 H2]. now apply IH.
Qed.
