(* Correspondence driver for the parser family (C02, C03, C13, C01, C20): documents given as recorded token streams. *)
From AHP Require Export Model.Base Model.Str Model.Attr Model.Dom Model.Serial Model.Parser.

Definition opt2s (o : option nat) : string := match o with Some n => nat_to_string n | None => "-" end.
Definition show_pyv (v : pyv) : string :=
  match v with PNone => "N" | PTrue => "T" | PFalse => "F" | PStr x => "S" +++ hex x end.
Definition show_attrs (a : Attr.st) : string :=
  sjoin ";" (map (fun kv => hex (fst kv) +++ "=" +++ show_pyv (snd kv)) (items (sync a))).
(* (uid,name,sc,parent,owner,[children],{text},@attrs@,blocks) *)
Fixpoint snap (t : tag) : string :=
  match t with Tag h bs =>
    "(" +++ nat_to_string (uid h) +++ "," +++ name h +++ "," +++ (if sc h then "1" else "0") +++ "," +++ opt2s (parent h)
    +++ "," +++ opt2s (owner h) +++ ",[" +++ sjoin "." (map nat_to_string (children h)) +++ "],{" +++ hex (text h) +++ "},@"
    +++ show_attrs (attrs h) +++ "@,"
    +++ concat_s (map (fun b => match b with BText s => "T{" +++ hex s +++ "}" | BTag c => snap c end) bs) +++ ")"
  end.

Definition show_exc (e : pexc) : string :=
  match e with
  | XMultipleRoot => "exc:MultipleRoot" | XInvalidClose => "exc:InvalidClose" | XMissedClose => "exc:MissedClose"
  | XInvalidAttrName => "exc:InvalidAttrName" | XAttributeError => "exc:AttributeError"
  end.

Definition show_doc (s : pstate) : string :=
  let r := tree_of s in
  "D" +++ (match pdoctype s with Some d => "S" +++ hex d | None => "N" end)
  +++ "|" +++ (match r with Some t => snap t | None => "-" end)
  +++ "|R" +++ show_nats (map tuid (root_nodes r))
  +++ "|H" +++ (match get_html r (pdoctype s) with Some h => hex h | None => "-" end).

Definition ostr_eqb (a b : option string) : bool :=
  match a, b with Some x, Some y => String.eqb x y | None, None => true | _, _ => false end.
Fixpoint attrs_eqb (a b : list (string * option string)) : bool :=
  match a, b with
  | [], [] => true
  | (n, v) :: a', (m, w) :: b' => String.eqb n m && ostr_eqb v w && attrs_eqb a' b'
  | _, _ => false
  end.
Definition token_eqb (a b : token) : bool :=
  match a, b with
  | TStart n x s, TStart m y t => String.eqb n m && attrs_eqb x y && Bool.eqb s t
  | TEnd n, TEnd m | TData n, TData m | TEntity n, TEntity m | TChar n, TChar m | TComment n, TComment m
  | TDecl n, TDecl m | TUnknownDecl n, TUnknownDecl m | TPi n, TPi m => String.eqb n m
  | _, _ => false
  end.
Fixpoint tokens_eqb (a b : list token) : bool :=
  match a, b with [], [] => true | x :: a', y :: b' => token_eqb x y && tokens_eqb a' b' | _, _ => false end.

Fixpoint is_prefix (a b : list token) : bool :=
  match a, b with [] , _ => true | x :: a', y :: b' => token_eqb x y && is_prefix a' b' | _, _ => false end.
Definition is_wrapper_start (t : token) : bool := token_eqb t (TStart Gen.Tables.invisible_root_tag [] false).
(* the recorded first pass stops at the token that raised: the second stream must be the wrap of a token list that
   extends the first one *)
Definition strip_wrapper_end (r : list token) : list token :=
  match rev r with TEnd n :: r' => if String.eqb n Gen.Tables.invisible_root_tag then rev r' else r | _ => r end.
Definition unwrap (ts2 : list token) : option (list token) :=
  match ts2 with
  | TDecl d :: w :: r => if is_wrapper_start w then Some (TDecl d :: strip_wrapper_end r) else None
  | TData ws :: TDecl d :: w :: r => if is_wrapper_start w then Some (TData ws :: TDecl d :: strip_wrapper_end r) else None
  | w :: r => if is_wrapper_start w then Some (strip_wrapper_end r) else None
  | [] => None
  end.
(* a pass that raises stops the recording, so both streams may be truncated: the second must be a prefix of the wrap
   of some body, and that body and the first stream must agree as far as both go *)
Definition wrap_ok (ts1 ts2 : list token) : bool :=
  match unwrap ts2 with
  | Some body => is_prefix ts2 (wrap body) && (is_prefix ts1 body || is_prefix body ts1)
  | None => false
  end.

(* one parseStr: first-pass tokens, second-pass tokens as recorded (if the library made a second pass).
   The model must agree on whether a second pass happens and, when asked (check_wrap), that the recorded second
   stream is its own wrap of the first. *)
Definition parse_one (cls : pclass) (check_wrap : bool) (d : list token * option (list token)) : string :=
  let '(ts1, ots2) := d in
  let second := needs_second_pass cls ts1 in
  match ots2, second with
  | None, true => "model-expects-second-pass"
  | Some _, false => "model-expects-no-second-pass"
  | None, false => match feed cls ts1 [] with POk s => show_doc s | PRaise e => show_exc e end
  | Some ts2, true =>
      (if check_wrap then (if wrap_ok ts1 ts2 then "" else "WRAP-DIFFERS|") else "")
      +++ match feed cls ts1 ts2 with POk s => show_doc s | PRaise e => show_exc e end
  end.

(* case: parser class, check the wrap?, the documents parsed one after the other on the same parser object *)
Definition run_parse (c : pclass * bool * list (list token * option (list token))) : string :=
  let '(cls, cw, docs) := c in sjoin (String (ascii_of_nat 31) "") (map (parse_one cls cw) docs).
