"""C12 - formatter layout guarantees: indentation, minification, slim tags, stability."""
import json
import re
from html.parser import HTMLParser

from harness import core
from harness.core import cs, clist
from harness.props import parse_common as pc
from harness.props import c02, c11
from harness.props import fmt_common as fc

VOID = {'meta', 'link', 'input', 'img', 'hr', 'br'}


class Scan(HTMLParser):
    """independent pass over the output: positions of the tags and depth recomputed from the tags themselves"""

    def __init__(self, text):
        HTMLParser.__init__(self)
        self.convert_charrefs = False
        self.lines = text.split('\n')
        self.stack = []
        self.events = []     # (kind, name, line, col, depth, inside_pre, raw)
        self.feed(text)

    def _pre(self):
        return any(n in ('pre', 'code') for n in self.stack)

    def handle_starttag(self, tag, attrs):
        line, col = self.getpos()
        self.events.append(('start', tag, line, col, len(self.stack), self._pre(), self.get_starttag_text()))
        if tag not in VOID:
            self.stack.append(tag)

    def handle_startendtag(self, tag, attrs):
        line, col = self.getpos()
        self.events.append(('start', tag, line, col, len(self.stack), self._pre(), self.get_starttag_text()))

    def handle_endtag(self, tag):
        line, col = self.getpos()
        if tag in self.stack:
            while self.stack[-1] != tag:
                self.stack.pop()
            self.stack.pop()
            self.events.append(('end', tag, line, col, len(self.stack), self._pre(), None))


def check_indentation(out, indent):
    sc = Scan(out)
    for kind, name, line, col, depth, inpre, raw in sc.events:
        if inpre:
            continue
        if kind == 'end' and name in ('pre', 'code'):
            continue
        prefix = sc.lines[line - 1][:col]
        if prefix != indent * depth:
            return '%s tag <%s%s> at line %d is preceded on its line by %r, expected %r (depth %d)' % (
                kind, '/' if kind == 'end' else '', name, line, prefix, indent * depth, depth)
        if line == 1 and not (kind == 'start' and depth == 0 and col == 0):
            return '%s tag <%s> is not at the beginning of its own line' % (kind, name)
    return None


def text_runs(e, inside=False):
    from AdvancedHTMLParser.Tags import AdvancedTag
    runs, cur = [], ''
    skip = inside or e.tagName in ('pre', 'code', 'script', 'style')
    for b in e.blocks:
        if isinstance(b, AdvancedTag):
            if cur:
                runs.append((cur, skip))
            cur = ''
            runs += text_runs(b, inside or e.tagName in ('pre', 'code'))
        else:
            cur += b
    if cur:
        runs.append((cur, skip))
    return runs


def slim_of(normal, slimsc):
    """the normal output with the space before '>' (and, with slimSelfClosing, before '/>') of every start tag removed"""
    class S(HTMLParser):
        def __init__(self):
            HTMLParser.__init__(self)
            self.convert_charrefs = False
            self.spans = []

        def handle_starttag(self, tag, attrs):
            self.spans.append((self.getpos(), self.get_starttag_text()))

        def handle_startendtag(self, tag, attrs):
            self.spans.append((self.getpos(), self.get_starttag_text()))
    s = S()
    s.feed(normal)
    lines = normal.split('\n')
    starts = [0]
    for ln in lines:
        starts.append(starts[-1] + len(ln) + 1)
    out, pos = [], 0
    for (line, col), raw in s.spans:
        i = starts[line - 1] + col
        out.append(normal[pos:i])
        if raw.endswith(' />'):
            raw = raw[:-3] + '/>' if slimsc else raw
        elif raw.endswith(' >'):
            raw = raw[:-2] + '>'
        out.append(raw)
        pos = i + len(s.spans and normal[i:i + len(raw) + 3] and (raw if False else normal[i:].split('>', 1)[0] + '>') or '')
    return None


class C12(core.Check):
    ID = 'C12'
    RUN_MODULE = 'Corr.Run_Fmt'
    RUN_FN = 'run_fmt'
    CASE_TYPE = fc.CASE_TYPE
    SHARD = 100
    RULE = ('the documents and configurations of C11; on each: an independent tokenizer pass over the pretty output recomputes depth from the tags and '
            'checks that every start tag outside pre/code (and the end tag of every such element but pre/code) begins its own line indented by '
            'depth x indent; mini output is re-minified (fixed point) and scanned for line breaks at text-run boundaries and tabs outside '
            'pre/code/script/style; slim output is compared with the normal output; pretty output is re-formatted three times (pass 3 = pass 2). '
            'The model is fed the recorded handler calls and must reproduce every output string. non-trivial = >= 2 elements')
    TRUSTED = ['stdlib html.parser tokenizer (in the loop; also used by the independent position scan of the oracle)']
    ASSUMPTIONS = ['documents are in C01\'s domain']
    PARTIAL = ['stability from the second pass on and the mini fixed point are checked on every generated document (several passes through the real '
               'formatter, each pass also replayed on the model), not proved for all documents']

    def generate(self):
        rng = self.rng
        cases = []
        n = 110 if self.tier == 'quick' else 2500
        for _ in range(n):
            toks = fc.gen_doc(rng, deep=self.tier == 'thorough')
            doctype = rng.choice([None, None, '<!DOCTYPE html>\n'])
            for cfg in rng.sample(fc.CONFIGS, 3 if self.tier == 'quick' else 5):
                cases.append(dict(toks=toks, doctype=doctype, cfg=cfg, passes=3 if cfg['kind'] in ('pretty', 'slim') else 2))
        self.stats.update(documents=n, configurations=len(fc.CONFIGS))
        return cases

    def _run(self, case):
        html = c02.render(case['toks'], case.get('doctype'))
        res = []
        cur = html
        for _ in range(case.get('passes', 1)):
            r = fc.format_recorded(case['cfg'], cur)
            res.append(r)
            if not isinstance(r[3], str):
                break
            cur = r[3]
        return res

    def run_impl(self, case):
        res = self._run(case)
        self._last = (id(case), res)
        if not all(pc.names_ascii(f, s) for o, f, s, out in res):
            return None
        return '\x1f'.join(('O' + core.hx(out)) if (o == 'ok' and isinstance(out, str)) else (o if o != 'ok' else 'none') for o, f, s, out in res)

    def coq_case(self, case):
        res = self._last[1] if getattr(self, '_last', (None,))[0] == id(case) else self._run(case)
        return '(%s, %s)' % (fc.coq_cfg(case['cfg']), clist(pc.coq_doc(f, s) for o, f, s, out in res))

    def oracle(self, case):
        html = c02.render(case['toks'], case.get('doctype'))
        cfg = case['cfg']
        kind = cfg['kind']
        try:
            out = fc.run_format(cfg, html)
        except Exception as e:
            return 'formatter %s raised %s on %r' % (cfg, type(e).__name__, html)
        if not isinstance(out, str):
            return None
        indent = cfg.get('indent', '  ')
        if isinstance(indent, int):
            indent = ' ' * indent
        if kind in ('pretty', 'slim'):
            bad = check_indentation(out, indent)
            if bad:
                return 'pretty output of %r (indent %r): %s; output %r' % (html, indent, bad, out)
            o2 = fc.run_format(cfg, out)
            o3 = fc.run_format(cfg, o2) if isinstance(o2, str) else None
            if isinstance(o2, str) and o3 != o2:
                return 're-formatting already formatted output still changes it on the third pass: %r -> %r (input %r)' % (o2, o3, html)
        if kind in ('mini', 'slimmini'):
            o2 = fc.run_format(cfg, out)
            if o2 != out:
                return 'mini output is not a fixed point: %r -> %r (input %r)' % (out, o2, html)
            # the line break after a doctype belongs to the doctype line, not to a text run
            body = re.sub(r'^<![^>]*>\n', '', out)
            p = c11.parse(body)
            if p.getRoot() is not None:
                for run, skip in text_runs(p.getRoot()):
                    if skip:
                        continue
                    # comments are kept verbatim (C11) and are not text: look at the text around them
                    run = re.sub(r'<!--.*?-->', '', run, flags=re.S)
                    if run and (run[0] in '\r\n' or run[-1] in '\r\n' or '\t' in run):
                        return 'mini output of %r has a text run %r with a line break at its edge or a tab' % (html, run)
            sc = Scan(out)
            for k, name, line, col, depth, inpre, raw in sc.events:
                if inpre or k != 'start':
                    continue
        if kind in ('slim', 'slimmini'):
            ncfg = dict(cfg, kind='pretty' if kind == 'slim' else 'mini')
            ncfg.pop('slimsc', None)
            normal = fc.run_format(ncfg, html)
            if isinstance(normal, str):
                exp = self._unspace(normal, bool(cfg.get('slimsc')))
                if exp != out:
                    return 'slim output %r differs from the normal output with the spaces removed %r (input %r)' % (out, exp, html)
        return None

    @staticmethod
    def _unspace(normal, slimsc):
        class S(HTMLParser):
            def __init__(self):
                HTMLParser.__init__(self)
                self.convert_charrefs = False
                self.spans = []

            def handle_starttag(self, tag, attrs):
                self.spans.append((self.getpos(), self.get_starttag_text()))

            def handle_startendtag(self, tag, attrs):
                self.spans.append((self.getpos(), self.get_starttag_text()))
        s = S()
        s.feed(normal)
        lines = normal.split('\n')
        starts = [0]
        for ln in lines:
            starts.append(starts[-1] + len(ln) + 1)
        out, pos = [], 0
        for (line, col), raw in s.spans:
            i = starts[line - 1] + col
            out.append(normal[pos:i])
            new = raw
            if raw.endswith(' />'):
                if slimsc:
                    new = raw[:-3] + '/>'
            elif raw.endswith(' >'):
                new = raw[:-2] + '>'
            out.append(new)
            pos = i + len(raw)
        out.append(normal[pos:])
        return ''.join(out)

    def shrink_candidates(self, case):
        toks = case['toks']
        for i in range(len(toks) - 1, -1, -1):
            nt = toks[:i] + toks[i + 1:]
            if not nt or any(a[0] == 'T' and b[0] == 'T' for a, b in zip(nt, nt[1:])):
                continue
            yield dict(case, toks=nt)
        for i, t in enumerate(toks):
            if t[0] == 'S' and t[2]:
                yield dict(case, toks=toks[:i] + [[t[0], t[1], [], t[3]]] + toks[i + 1:])
        if case.get('doctype'):
            yield dict(case, doctype=None)

    def nontrivial_key(self, case, snap):
        return json.dumps(case, sort_keys=True) if sum(1 for t in case['toks'] if t[0] == 'S') >= 2 else None

    def finding_key(self, case, what):
        if what.startswith('re-formatting already formatted') and re.search(r'</(script|style)>', what):
            return 'pretty-unstable-script-style'
        return re.sub(r"'.*$|\".*$|:.*$", '', what)[:50]


CHECK = C12
