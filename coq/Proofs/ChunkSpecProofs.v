(* ChunkSpecProofs.v - when is a text run "complete" (reproduced in full by the tokenizer's chunking)?  chunk_text and find_comment_end
   are first re-read through boolean tests instead of character patterns (chunk2, fce2: equal functions, proved by exhausting the
   patterns), then chunk2 is shown to lose nothing of a run that does not end in a bare "&" and in which every "<!--" is followed
   by a "-->". *)
From Coq Require Import Lia.
From AHP Require Import Model.Base Model.Str Model.Attr Model.Dom Model.Serial Model.Parser Model.RoundTrip Gen.Tables
     Proofs.StrProofs Proofs.CodecProofs Proofs.DomProofs Proofs.ChunkedProofs.

(* a reading of chunk_text / find_comment_end by boolean tests instead of character patterns *)
Definition strip3 (a b c : ascii) (s : string) : option string :=
  match s with
  | String x (String y (String z r)) => if Ascii.eqb x a && Ascii.eqb y b && Ascii.eqb z c then Some r else None
  | _ => None
  end.
Fixpoint fce2 (s acc : string) : option (string * string) :=
  match strip3 "-" "-" ">" s with
  | Some r => Some (srev acc, r)
  | None => match s with String c r => fce2 r (String c acc) | "" => None end
  end.
Lemma fce2_eq : forall s acc, find_comment_end s acc = fce2 s acc.
Proof.
  induction s as [|c r IH]; intros acc; [reflexivity|].
  cbn [find_comment_end fce2]. unfold strip3.
  repeat match goal with
  | |- ?x = ?x => reflexivity
  | |- find_comment_end _ _ = fce2 _ _ => apply IH
  | |- context [match ?x with _ => _ end] => is_var x; destruct x
  end; cbn; try reflexivity; try apply IH.
Qed.

Definition flushd (data : string) : list token := if String.eqb data "" then [] else [TData (srev data)].
Definition charref_split (r : string) : string * string :=
  match r with
  | String x r' => if Ascii.eqb (lower_c x) "x" then let '(d, rest) := take_while is_hex_digit r' in (String x d, rest)
                   else take_while is_digit r
  | EmptyString => ("", "")
  end.
Definition semi (s : string) : option string := match s with String c r => if Ascii.eqb c ";" then Some r else None | "" => None end.

Fixpoint chunk2 (fuel : nat) (s : string) (data : string) : list token :=
  match fuel with
  | 0 => flushd data
  | S k =>
    match s with
    | EmptyString => flushd data
    | String c r =>
      if Ascii.eqb c "<" then
        match strip3 "!" "-" "-" r with
        | Some r0 => match find_comment_end r0 "" with
                     | Some (body, rest) => flushd data ++ TComment body :: chunk2 k rest ""
                     | None => flushd data
                     end
        | None => flushd data ++ TData "<" :: chunk2 k r ""
        end
      else if Ascii.eqb c "&" then
        match r with
        | EmptyString => flushd data
        | String c1 r1 =>
          if Ascii.eqb c1 "#" then
            let '(digits, rest) := charref_split r1 in
            match semi rest with
            | Some rest' => if nonempty digits && negb (String.eqb (lower digits) "x")
                            then flushd data ++ TChar digits :: chunk2 k rest' ""
                            else flushd data ++ TData "&#" :: chunk2 k r1 ""
            | None => flushd data ++ TData "&#" :: chunk2 k r1 ""
            end
          else if is_name_start c1 then
            let '(nm, rest) := take_while is_name_char r in
            match semi rest with
            | Some rest' => flushd data ++ TEntity nm :: chunk2 k rest' ""
            | None => flushd data ++ TData "&" :: chunk2 k r ""
            end
          else flushd data ++ TData "&" :: chunk2 k r ""
        end
      else chunk2 k r (String c data)
    end
  end.

Section PatternsExhausted.
Local Arguments take_while : simpl never.
Local Arguments find_comment_end : simpl never.
Lemma chunk2_eq : forall fuel s data, chunk_text fuel s data = chunk2 fuel s data.
Proof.
  induction fuel as [|k IH]; intros s data; [reflexivity|].
  cbn [chunk_text chunk2]. unfold strip3, semi, charref_split, flushd.
  repeat (match goal with
  | |- ?x = ?x => reflexivity
  | |- context [chunk_text k ?a ?b] => rewrite (IH a b)
  | |- context [match ?x with _ => _ end] => is_var x; destruct x
  | |- context [take_while ?f ?x] => destruct (take_while f x) as [? ?]
  | |- context [find_comment_end ?a ?b] => destruct (find_comment_end a b) as [[? ?]|]
  | |- context [if ?b then _ else _] => destruct b eqn:?
  end; cbn [Ascii.eqb Bool.eqb andb]).
Qed.

End PatternsExhausted.

Lemma slen_app a b : String.length (a +++ b) = String.length a + String.length b.
Proof. induction a; simpl; auto. Qed.
Lemma take_while_spec f : forall s a b, take_while f s = (a, b) -> s = a +++ b.
Proof.
  induction s as [|c r IH]; intros a b H; cbn [take_while] in H.
  - inversion H. reflexivity.
  - destruct (f c).
    + destruct (take_while f r) as [a' b'] eqn:E. inversion H; subst. simpl. f_equal. now apply IH.
    + inversion H. reflexivity.
Qed.
Lemma strip3_spec a b c s r : strip3 a b c s = Some r -> s = String a (String b (String c r)).
Proof.
  unfold strip3. destruct s as [|x [|y [|z t]]]; try discriminate.
  destruct (Ascii.eqb_spec x a), (Ascii.eqb_spec y b), (Ascii.eqb_spec z c); simpl; try discriminate. intros H. inversion H. now subst.
Qed.
Lemma strip3_refl a b c r : strip3 a b c (String a (String b (String c r))) = Some r.
Proof. unfold strip3. now rewrite !Ascii.eqb_refl. Qed.
Lemma fce2_unfold s acc : fce2 s acc = match strip3 "-" "-" ">" s with
  | Some r => Some (srev acc, r) | None => match s with String c r => fce2 r (String c acc) | "" => None end end.
Proof. destruct s; reflexivity. Qed.
Lemma fce2_spec : forall s acc body rest, fce2 s acc = Some (body, rest) -> srev acc +++ s = body +++ "-->" +++ rest.
Proof.
  induction s as [|c r IH]; intros acc body rest H; rewrite fce2_unfold in H.
  - simpl in H. discriminate.
  - destruct (strip3 "-" "-" ">" (String c r)) as [r0|] eqn:E.
    + apply strip3_spec in E. inversion H; subst. rewrite E. reflexivity.
    + apply IH in H. rewrite srev_cons, append_assoc in H. exact H.
Qed.
Lemma fce2_none : forall s acc, fce2 s acc = None -> forall c d, s <> c +++ "-->" +++ d.
Proof.
  induction s as [|x r IH]; intros acc H c d Hs; rewrite fce2_unfold in H.
  - destruct c; discriminate.
  - destruct (strip3 "-" "-" ">" (String x r)) as [r0|] eqn:E; [discriminate|].
    destruct c as [|y c'].
    + simpl in Hs. rewrite Hs in E. rewrite strip3_refl in E. discriminate.
    + simpl in Hs. inversion Hs; subst. exact (IH _ H c' d eq_refl).
Qed.

Definition ends_amp (s : string) : bool := match srev s with String c _ => Ascii.eqb c "&" | "" => false end.
Definition closed_comments (s : string) : Prop := forall a b, s = a +++ "<!--" +++ b -> exists c d, b = c +++ "-->" +++ d.
Lemma closed_suffix p r : closed_comments (p +++ r) -> closed_comments r.
Proof. intros H a b E. apply (H (p +++ a) b). rewrite E, append_assoc. reflexivity. Qed.
Lemma ends_amp_suffix p r : ends_amp (p +++ r) = false -> ends_amp r = false.
Proof.
  unfold ends_amp. rewrite srev_app. destruct (srev r) eqn:E; [reflexivity|]. simpl. auto.
Qed.

Lemma texts_cons t l : texts (t :: l) = tok_text t +++ texts l.
Proof. reflexivity. Qed.
Lemma texts_flushd data : texts (flushd data) = srev data.
Proof.
  unfold flushd. destruct (String.eqb data "") eqn:E.
  - apply String.eqb_eq in E. now subst.
  - unfold texts. simpl. now rewrite append_nil_r.
Qed.
Lemma semi_spec s r : semi s = Some r -> s = String ";" r.
Proof. destruct s as [|c t]; simpl; [discriminate|]. destruct (Ascii.eqb_spec c ";"); [|discriminate]. intros H. inversion H. now subst. Qed.
Lemma charref_split_spec r d rest : charref_split r = (d, rest) -> r = d +++ rest.
Proof.
  unfold charref_split. destruct r as [|x r']; [intros H; inversion H; reflexivity|].
  destruct (Ascii.eqb (lower_c x) "x").
  - destruct (take_while is_hex_digit r') as [a b] eqn:E. intros H. inversion H; subst. simpl. f_equal. now apply take_while_spec in E.
  - apply take_while_spec.
Qed.

Theorem chunk2_texts : forall fuel s data, String.length s <= fuel -> ends_amp s = false -> closed_comments s ->
  texts (chunk2 fuel s data) = srev data +++ s.
Proof.
  induction fuel as [|k IH]; intros s data Hl Ha Hc.
  - destruct s; simpl in Hl; [|lia]. cbn [chunk2]. now rewrite texts_flushd, append_nil_r.
  - destruct s as [|c r]; [cbn [chunk2]; now rewrite texts_flushd, append_nil_r|].
    simpl in Hl. cbn [chunk2].
    (* the continuation on a suffix *)
    assert (K : forall p rest d0, String c r = p +++ rest -> String.length p >= 1 -> texts (chunk2 k rest d0) = srev d0 +++ rest).
    { intros p rest d0 E Hp. apply IH.
      - apply (f_equal String.length) in E. rewrite slen_app in E. simpl in E. lia.
      - apply (ends_amp_suffix p). now rewrite <- E.
      - apply (closed_suffix p). now rewrite <- E. }
    destruct (Ascii.eqb_spec c "<") as [->|Hlt].
    + destruct (strip3 "!" "-" "-" r) as [r0|] eqn:E3.
      * apply strip3_spec in E3. subst r. rewrite fce2_eq. destruct (fce2 r0 "") as [[body rest]|] eqn:Ef.
        -- apply fce2_spec in Ef. simpl in Ef. subst r0.
           rewrite texts_app, texts_flushd, texts_cons. cbn [tok_text]. unfold comment_text.
           rewrite (K ("<!--" +++ body +++ "-->") rest ""); [| simpl; now rewrite !append_assoc | simpl; lia].
           simpl. now rewrite !append_assoc.
        -- exfalso. destruct (Hc "" r0 eq_refl) as (c0 & d0 & E). exact (fce2_none _ _ Ef c0 d0 E).
      * rewrite texts_app, texts_flushd, texts_cons. cbn [tok_text]. rewrite (K "<" r ""); [|reflexivity|simpl; lia]. reflexivity.
    + destruct (Ascii.eqb_spec c "&") as [->|Hamp].
      * destruct r as [|c1 r1].
        -- exfalso. vm_compute in Ha. discriminate.
        -- destruct (Ascii.eqb_spec c1 "#") as [->|Hh].
           ++ destruct (charref_split r1) as [digits rest] eqn:Ec. apply charref_split_spec in Ec.
              assert (D : texts (flushd data ++ TData "&#" :: chunk2 k r1 "") = srev data +++ String "&" (String "#" r1)).
              { rewrite texts_app, texts_flushd, texts_cons. cbn [tok_text]. rewrite (K "&#" r1 ""); [|reflexivity|simpl; lia]. reflexivity. }
              destruct (semi rest) as [rest'|] eqn:Es; [|exact D].
              apply semi_spec in Es. subst rest. destruct (nonempty digits && negb (String.eqb (lower digits) "x")); [|exact D].
              rewrite texts_app, texts_flushd, texts_cons. cbn [tok_text].
              rewrite (K ("&#" +++ digits +++ ";") rest' ""); [| rewrite Ec; simpl; now rewrite !append_assoc | simpl; lia].
              rewrite Ec. simpl. now rewrite !append_assoc.
           ++ assert (D : texts (flushd data ++ TData "&" :: chunk2 k (String c1 r1) "") = srev data +++ String "&" (String c1 r1)).
              { rewrite texts_app, texts_flushd, texts_cons. cbn [tok_text]. rewrite (K "&" (String c1 r1) ""); [|reflexivity|simpl; lia]. reflexivity. }
              destruct (is_name_start c1); [|exact D].
              destruct (take_while is_name_char (String c1 r1)) as [nm rest] eqn:Et. apply take_while_spec in Et.
              destruct (semi rest) as [rest'|] eqn:Es; [|exact D].
              apply semi_spec in Es. subst rest.
              rewrite texts_app, texts_flushd, texts_cons. cbn [tok_text].
              rewrite (K ("&" +++ nm +++ ";") rest' ""); [| rewrite Et; simpl; now rewrite !append_assoc | simpl; lia].
              rewrite Et. simpl. now rewrite !append_assoc.
      * rewrite (K (String c "") r (String c data)); [|reflexivity|simpl; lia]. rewrite srev_cons, append_assoc. reflexivity.
Qed.

(* the syntactic sufficient condition for completeness *)
Theorem closed_runs_complete p : ends_amp p = false -> closed_comments p -> complete p.
Proof.
  intros Ha Hc. unfold complete, flush. rewrite chunk2_eq, (chunk2_texts _ p "" (le_n _) Ha Hc). reflexivity.
Qed.
(* a run without any comment opener *)
Definition no_opener (s : string) : Prop := forall a b, s <> a +++ "<!--" +++ b.
Corollary no_opener_complete p : ends_amp p = false -> no_opener p -> complete p.
Proof. intros Ha Hn. apply closed_runs_complete; auto. intros a b E. destruct (Hn a b E). Qed.
