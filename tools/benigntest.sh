#!/bin/bash
# usage: tools/benigntest.sh <dir>... : apply each behaviour-preserving rewrite (patch.diff) to /repo, run the checks whose models read the
# touched files (ALL=1: every check), undo.  One line per rewrite: <dir> QUIET | ALARM <first VIOLATION lines>.  Evidence files are kept as they were.
cd /verif
mkdir -p /tmp/benign_ev
for d0 in "$@"; do d=$(realpath "$d0")
  if ! git -C /repo apply --check "$d/patch.diff" 2>/dev/null; then echo "$d patch-does-not-apply"; continue; fi
  files=$(git -C /repo apply --numstat "$d/patch.diff" | awk '{print $3}')
  ids=""
  for f in $files; do case "$f" in
    *constants.py) ids="$ids C19 C08 C02 C12";;
    *utils.py) ids="$ids C01 C02 C03 C09 C20";;
    *Parser.py) ids="$ids C01 C02 C03 C06 C07 C13 C16 C20";;
    *Tags.py) ids="$ids C01 C04 C05 C06 C08 C11 C13 C16 C17 C18 C19";;
    *SpecialAttributes.py) ids="$ids C01 C08 C09 C10 C17";;
    *conversions.py) ids="$ids C19";;
    *Validator.py) ids="$ids C13";;
    *Formatter.py) ids="$ids C03 C11 C12";;
    *xpath/*) ids="$ids C14 C15";;
    *) ids="$ids C01 C02 C03 C04 C05 C06 C07 C08 C09 C10 C11 C12 C13 C14 C15 C16 C17 C18 C19 C20";;
  esac; done
  [ -n "$ALL" ] && ids="C01 C02 C03 C04 C05 C06 C07 C08 C09 C10 C11 C12 C13 C14 C15 C16 C17 C18 C19 C20"
  ids=$(echo $ids | tr ' ' '\n' | sort -u | tr '\n' ' ')
  cp -f /verif/evidence/*.json /tmp/benign_ev/
  git -C /repo apply "$d/patch.diff"
  alarms=""
  for id in $ids; do
    out=$(AHP_SKIP_COQCHK=1 timeout 1500 ./vcheck $id --tier ${TIER:-quick} 2>&1 | grep -E "^VIOLATION" | head -2 | tr '\n' ' ')
    [ -n "$out" ] && alarms="$alarms $out"
  done
  git -C /repo checkout -- .
  cp -f /tmp/benign_ev/*.json /verif/evidence/
  if [ -n "$alarms" ]; then echo "$(basename $d) [$ids] ALARM $alarms"; else echo "$(basename $d) [$ids] QUIET"; rm -f /verif/replays/*.json 2>/dev/null; fi
done
