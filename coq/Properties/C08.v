(* C08 — all views of an element's attributes agree after any sequence of attribute edits.
   The mapping of the plain names (everything but class/style, which C09/C10 own) is [plain s]: the raw dict
   restricted to those names, an ordered map.  Statements only; proofs in Proofs/AttrProofs.v. *)
From AHP Require Import Model.Base Model.Str Model.Attr Proofs.StrProofs Proofs.AttrProofs Corr.Run_Attr.

(* writes refine the ordered map: update in place or append; delete; class/style writes leave it alone *)
Theorem C08_setitem : forall k0 v s, plainp (lower k0) = true -> is_binary_string (lower k0) = false ->
  setitem k0 v s = (with_dict (od_set (lower k0) (to_aval v) (dict s)) s, ROk)
  /\ plain (fst (setitem k0 v s)) = od_set (lower k0) (to_aval v) (plain s).
Proof. exact setitem_plain. Qed.
Theorem C08_setitem_special : forall k0 v s, plainp (lower k0) = false -> plain (fst (setitem k0 v s)) = plain s.
Proof. exact setitem_special_plain. Qed.
Theorem C08_delitem : forall k0 s, plainp (lower k0) = true -> plain (delitem k0 s) = od_del (lower k0) (plain s).
Proof. exact delitem_plain. Qed.
Theorem C08_delitem_special : forall k0 s, plainp (lower k0) = false -> plain (delitem k0 s) = plain s.
Proof. exact delitem_special_plain. Qed.
Theorem C08_removeAttribute : forall n s, plainp (lower n) = true -> plain (removeAttribute n s) = od_del (lower n) (plain s).
Proof. exact removeAttribute_plain. Qed.
(* an invalid name is rejected with KeyError and changes nothing; a valid one goes to the store *)
Theorem C08_invalid_atomic : forall n v s, valid_attr_name n = false -> setAttribute n v s = (s, RExc EKeyError).
Proof. exact setAttribute_invalid. Qed.
Theorem C08_valid : forall n v s, valid_attr_name n = true -> setAttribute n v s = setitem n v s.
Proof. exact setAttribute_valid. Qed.
(* names are matched case-insensitively and stored lower-case *)
Theorem C08_case_set : forall k v s, setitem (lower k) v s = setitem k v s.
Proof. exact setitem_case. Qed.
Theorem C08_case_del : forall k s, delitem (lower k) s = delitem k s.
Proof. exact delitem_case. Qed.
Theorem C08_case_has : forall n s, hasAttribute (lower n) s = hasAttribute n s.
Proof. exact hasAttribute_case. Qed.
Theorem C08_case_get : forall n s, getAttribute (lower n) s = getAttribute n s.
Proof. exact getAttribute_case. Qed.
(* the views decode the one mapping *)
Theorem C08_view_getAttribute : forall n s, plainp (lower n) = true -> is_binary (lower n) = false -> is_binary_string (lower n) = false ->
  snd (getAttribute n s) = match od_get (lower n) (plain s) with Some v => raw_value (sync s) v | None => PNone end
  /\ fst (getAttribute n s) = sync s.
Proof. exact getAttribute_plain. Qed.
Theorem C08_view_getAttribute_boolean : forall n s, plainp (lower n) = true -> is_binary (lower n) = true -> is_binary_string (lower n) = false ->
  getAttribute n s = (s, match od_get (lower n) (plain s) with
                         | Some v => if truthy (raw_value s v) then raw_value s v else PTrue
                         | None => PFalse end).
Proof. exact getAttribute_binary. Qed.
Theorem C08_view_hasAttribute : forall n s, plainp (lower n) = true -> hasAttribute n s = od_has (lower n) (plain s).
Proof. exact hasAttribute_plain. Qed.
Theorem C08_view_items : forall s,
  kfilter plainp (items (sync s)) = map (fun kv => (fst kv, raw_value (sync s) (snd kv))) (plain s).
Proof. exact items_plain. Qed.
(* reads that synchronise class/style never touch the mapping *)
Theorem C08_sync_transparent : forall s, plain (sync s) = plain s.
Proof. exact plain_sync. Qed.
(* on every reachable state (any seed, any history over the whole operation alphabet) the raw dict has no duplicate key *)
Theorem C08_reachable : forall o attrs ops s r, seed o attrs = (s, r) ->
  Reach_inv (fold_left (fun s op => fst (step s op)) ops s).
Proof. exact reachable_inv. Qed.

Example C08_ex : let s := fst (setitem "ID" (Some "x") (fst (setitem "checked" None st0))) in
  plain s = [("checked", ANone); ("id", AStr "x")] /\ start_attrs (sync s) = "checked id=""x""" /\ plainp (lower "ID") = true.
Proof. vm_compute. auto. Qed.
