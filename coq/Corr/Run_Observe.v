(* Correspondence driver for C16: a parsed document and the observers run on it, each given by what it made synchronise. *)
From AHP Require Export Model.Base Model.Str Model.Attr Model.Dom Model.Serial Model.Parser Model.Search Model.Index Model.Observe Corr.Run_Parse.

Definition ocase := (pclass * (list token * option (list token)) * list obs)%type.
Definition show_raw (d : tag) : string := sjoin ";" (map (sjoin ",") (raw_keys d)).
Definition show_ident (i : nat * string * option nat * option nat * list nat * string) : string :=
  let '(u, n, p, o, ch, tx) := i in nat_to_string u +++ ":" +++ n +++ ":" +++ opt2s p +++ ":" +++ sjoin "." (map nat_to_string ch).
Fixpoint run_obs (s : ostate) (os : list obs) : list string :=
  match os with
  | [] => []
  | o :: r => let s' := ostep s o in
              (show_raw (odoc s') +++ (if ohas_reset s' then "+" else "-")) :: run_obs s' r
  end.
Definition run_observe (c : ocase) : string :=
  let '(cls, d, os) := c in
  match feed cls (fst d) (match snd d with Some x => x | None => [] end) with
  | POk s => match tree_of s with
             | Some root =>
                 let s0 := {| odoc := root; odoctype := pdoctype s; ohas_reset := true; oix := None |} in
                 let s1 := fold_left ostep os s0 in
                 sjoin "|" (show_raw root :: run_obs s0 os) +++ "|H"
                 +++ (match get_html (Some (odoc s1)) (odoctype s1) with Some h => hex h | None => "-" end)
                 +++ "|I" +++ sjoin ";" (map show_ident (map ident (all_nodes (odoc s1))))
             | None => "no-root"
             end
  | PRaise e => show_exc e
  end.
