SOURCE_COMMITS = []
_WIP = 'model/proof/correspondence for this property not built yet in this development (work in progress; not a limit of the technique)'
NOT_APPLICABLE = {('C%02d' % i): _WIP for i in range(1, 21)}
CHECKS = {
 'C18': dict(
   text='Theorems (Coq, closed under the global context) over all operand lists and all collections satisfying the ordered-set invariant: '
        'constructor, +, +=, -, -= keep the invariant, never raise, and produce exactly first-occurrence union / exact removal; getAllNodes, '
        'getAllNodeUids, contains(Uid) agree with the pre-order of the trees below the members; ==/!=/hash by (class, uid). The model is the '
        'hand transcription of TagCollection in Model/Collection.v, tied to /repo on every run by executing thousands of operation histories '
        'on the real TagCollection and on the model inside coqc (vm_compute) and comparing full snapshots after every operation.',
   note='Trusted: Coq kernel + vm_compute; the harness (generator, adapter, printers); uuid4 freshness; CPython list/set semantics as transcribed. '
        'The model covers Tags.py TagCollection.__init__/__add__/__iadd__/__sub__/__isub__/_hasTag/append/remove/getAllNodes/getAllNodeUids/contains/containsUid, '
        'AdvancedTag.getAllChildNodes/getAllNodes/getAllNodeUids/containsUid/__eq__/__ne__/__hash__, uniqueTags.'),
 'C15': dict(
   text='Theorems (Coq) for every event history, every admissible pair of bounds 0 <= CLEAR < MAX and every parser/evaluator that are functions: '
        'each result equals a cache-less evaluation of the same text on the same tree (history independence, incl. hits, misses, evictions, '
        're-entries, texts that do not compile or fail at run time), the cache invariant (no duplicate keys, table and recency list agree, '
        'size <= MAX, lock free) holds after every event, and any interleaving of threads at the granularity of lock-protected sections keeps '
        'both. The shipped bounds are regenerated from xpath/_cache.py on every run and the side condition is re-proved. Tie: the real global '
        'cache is driven through the same histories (exhaustive small family at 3/1, long random at the shipped bounds) and compared with the '
        'model after every event; real threads (switch interval 1e-6) are compared with sequential results.',
   note='Thread half is partial: atomicity of lock-protected sections under CPython/GIL, liveness under the real scheduler are observed, not proved. '
        'Trusted: SHA-1 collision freeness; compile/evaluate touch no other shared state (section variables); the translator for the two constants.'),
}
