(* Correspondence driver for C19: one (element name, property) cell in one attribute state. *)
From AHP Require Export Model.Base Model.Str Model.PropRules Model.Attr Model.Props Corr.Run_Attr.

Inductive cstate := CAbsent | CHtml (text : option string) | CDot (text : option string) | CDotBool (b : bool).

Definition show_pval (v : pval) : string :=
  match v with
  | VNone => "N" | VStr s => "S" +++ hex s | VInt z => "I" +++ Z_to_string z | VBool true => "T" | VBool false => "F"
  | VTokens l => "L" +++ sjoin "," (map hex l) | VNoForm => "N" | VForm => "E" | VRaiseIndexSize => "exc:IndexSizeError"
  end.

(* case: element name, property, state *)
Definition run_C19 (c : string * string * cstate) : string :=
  let '(tag, prop, st) := c in
  let html_name := lower (renamed prop) in
  let '(s, r) :=
    match st with
    | CAbsent => (st0, ROk)
    | CHtml t => intake [(html_name, t)] st0
    | CDot t => prop_set tag prop t None st0
    | CDotBool b => prop_set tag prop None (Some b) st0
    end in
  show_res r +++ "|" +++ show_pval (prop_get tag prop s false)
  +++ "|" +++ show_pyv (snd (getAttribute html_name s)) +++ "|" +++ hex (start_attrs (sync s)).
