(* C15 — XPath results do not depend on evaluation history, caching or threads.
   Statements only; proofs in Proofs/XPathCacheProofs.v.  [compile] (the text parser) and [evalf] (the evaluator,
   C14) are universally quantified: the theorems hold for every parser and every evaluator that are functions. *)
From AHP Require Import Model.Base Model.XPathCache Proofs.XPathCacheProofs Gen.Tables.

(* the shipped bounds, as the source says now, satisfy the side condition of the invariant *)
Theorem C15_shipped_bounds : (0 <= clear_at_once < max_cached)%Z.
Proof. unfold clear_at_once, max_cached. lia. Qed.

(* XPathExpression(text) yields the compiled form of that very text (or fails exactly when the parser fails),
   whatever the cache holds, and leaves the cache within its invariant *)
Theorem C15_construct : forall (val : Type) (compile : nat -> option val) MAX CLEAR c k,
  (0 <= CLEAR < MAX)%Z -> Good val compile MAX c ->
  exists c', construct val compile MAX CLEAR c k = Done c' (compile k) /\ Good val compile MAX c'.
Proof. exact construct_spec. Qed.

(* every result in every history is the result of a cache-less evaluation of the same text on the same tree;
   after every event the cache is duplicate free, table and recency list hold the same keys, its size is within
   MAX and the lock is free *)
Theorem C15_history_independent : forall (val res : Type) compile evalf parse_error MAX CLEAR es,
  (0 <= CLEAR < MAX)%Z ->
  map fst (fst (run val res compile evalf parse_error MAX CLEAR state0 es)) = spec_run val res compile evalf parse_error [] es
  /\ Forall (fun rc => Inv val MAX (snd rc)) (fst (run val res compile evalf parse_error MAX CLEAR state0 es)).
Proof. exact history_independent. Qed.

(* the same at the shipped bounds, with the side condition discharged from the generated constants *)
Theorem C15_history_independent_shipped : forall (val res : Type) compile evalf parse_error es,
  map fst (fst (run val res compile evalf parse_error max_cached clear_at_once state0 es)) = spec_run val res compile evalf parse_error [] es
  /\ Forall (fun rc => Inv val max_cached (snd rc)) (fst (run val res compile evalf parse_error max_cached clear_at_once state0 es)).
Proof. intros. apply history_independent. exact C15_shipped_bounds. Qed.

(* any interleaving of any number of threads, at the granularity of the lock-protected sections: the cache stays
   good and every thread stays on its own sequential, cache-less results *)
Theorem C15_schedules : forall (val res : Type) compile evalf parse_error MAX CLEAR sched,
  (0 <= CLEAR < MAX)%Z -> forall c ths progs,
  Good val compile MAX c -> Forall2 (ThreadOK val res compile evalf parse_error) progs ths ->
  Good val compile MAX (fst (sched_run val res compile evalf parse_error MAX CLEAR c ths sched))
  /\ Forall2 (ThreadOK val res compile evalf parse_error) progs (snd (sched_run val res compile evalf parse_error MAX CLEAR c ths sched)).
Proof. exact sched_ok. Qed.
Theorem C15_thread_start : forall (val res : Type) compile evalf parse_error es,
  ThreadOK val res compile evalf parse_error es (thread0 es).
Proof. exact thread0_ok. Qed.
Theorem C15_thread_done : forall (val res : Type) compile evalf parse_error es0 th,
  ThreadOK val res compile evalf parse_error es0 th -> todo th = [] -> tpc th = PIdle ->
  out th = spec_run val res compile evalf parse_error [] es0.
Proof. exact thread_done. Qed.

(* lock-protected sections never block when the lock is free and always release it *)
Theorem C15_get_releases : forall (val : Type) MAX c k, Inv val MAX c ->
  exists c' r, get c k = Done c' r /\ Inv val MAX c' /\ tbl c' = tbl c /\ r = lookup val k (tbl c).
Proof. exact inv_get. Qed.
Theorem C15_set_releases : forall (val : Type) MAX CLEAR c k v, (0 <= CLEAR < MAX)%Z -> Inv val MAX c ->
  exists c', set MAX CLEAR c k v = Done c' tt /\ Inv val MAX c'.
Proof. exact inv_set. Qed.

(* non-vacuity: the shipped bounds evict down to 7 after the 11th distinct text; CLEAR = MAX would break the bound *)
Example C15_ex_evict :
  recent (ch (snd (run nat nat (fun k => Some k) (fun v t => v + t) (fun _ => 0) 10 3 state0 (map (fun k => ENew 0 k) (seq 0 11))))) = [4;5;6;7;8;9;10].
Proof. reflexivity. Qed.
Example C15_ex_broken_bounds :
  let c := ch (snd (run nat nat (fun k => Some k) (fun v t => v + t) (fun _ => 0) 3 3 state0 (map (fun k => ENew 0 k) (seq 0 4)))) in
  (length (recent c), length (tbl c)) = (4, 0).
Proof. reflexivity. Qed.
