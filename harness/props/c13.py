"""C13 - the validating parser raises exactly on nesting/attribute errors, else builds the same tree."""
import itertools
import json
import re

from harness import core
from harness.props import parse_common as pc
from harness.props import c02

EXC = {'InvalidClose': 'InvalidCloseException', 'MissedClose': 'MissedCloseException', 'InvalidAttrName': 'InvalidAttributeNameException'}


def classify(gtoks):
    """independent stack model -> 'well' | 'unclosed' | ('err', kind)"""
    stack = []
    for t in gtoks:
        if t[0] == 'S':
            for n, v, q in t[2]:
                if not c02.valid_name(n.lower()):
                    return ('err', 'InvalidAttrName')
            name = t[1].lower()
            if not (t[3] or name in c02.VOID):
                stack.append(name)
        elif t[0] == 'E':
            name = t[1].lower()
            if name not in stack:
                return ('err', 'InvalidClose')
            if stack[-1] != name:
                return ('err', 'MissedClose')
            stack.pop()
    return 'unclosed' if stack else 'well'


class C13(core.Check):
    ID = 'C13'
    RUN_MODULE = 'Corr.Run_Parse'
    RUN_FN = 'run_parse'
    CASE_TYPE = pc.CASE_TYPE
    SHARD = 200
    RULE = ('the token sequences of C02 (all sequences <=3 (quick) / <=5 (thorough) over the 10-token alphabet, random sequences to length 40 over the '
            'rich alphabet incl. invalid attribute names) classified by an independent stack walk into: strictly well formed, first error = stray '
            'close, first error = skipped close, first error = bad attribute name, only defect = elements left open (either outcome accepted); plus '
            'the serialisation of library-built trees. The model is fed the recorded handler calls of the validating parser. '
            'non-trivial = the sequence has at least one start and one end tag')
    TRUSTED = ['stdlib html.parser tokenizer (in the loop through recorded handler calls)']
    ASSUMPTIONS = ['lexically well-formed markup without the reserved placeholder name']
    PARTIAL = ['the equivalence between the independent classification and the exception raised is established by the correspondence + oracle on every '
               'generated sequence; the theorems state the per-token exception rules and that acceptance implies the plain parser\'s tree']

    def generate(self):
        g = c02.C02(self.tier, self.seed)
        g.rng = self.rng
        base = [c for c in g.generate() if not c.get('entry') and len(c['docs']) == 1]
        cases = []
        hist = {}
        for c in base:
            d = c['docs'][0]
            cl = classify(d['toks'])
            k = cl if isinstance(cl, str) else cl[1]
            hist[k] = hist.get(k, 0) + 1
            cases.append(dict(cls='validating', docs=[d], klass=k))
        # balanced classes: well-nested sequences, then one perturbation
        from harness.props import dom_common as dc
        nbal = 300 if self.tier == 'quick' else 4000
        for _ in range(nbal):
            toks = [[t[0], t[1], [], t[2]] if t[0] == 'S' else (['T', t[1]] if t[0] == 'D' else list(t)) for t in dc.gen_tokens(self.rng, maxn=8)]
            r = self.rng.random()
            ends = [i for i, t in enumerate(toks) if t[0] == 'E']
            starts = [i for i, t in enumerate(toks) if t[0] == 'S']
            if r < 0.3 and ends:
                del toks[self.rng.choice(ends)]                      # a missing close: unclosed or skipped close
            elif r < 0.45 and len(ends) >= 2:
                i, j = sorted(self.rng.sample(ends, 2))
                toks[i], toks[j] = toks[j], toks[i]                  # crossed closes
            elif r < 0.55:
                toks.insert(self.rng.randrange(len(toks) + 1), ['E', self.rng.choice(['div', 'p', 'zz'])])
            elif r < 0.65 and starts:
                toks[self.rng.choice(starts)][2] = [[self.rng.choice(['1x', 'a.b', 'ok', 'x$']), 'v', '"']]
            if any(a[0] == 'T' and b[0] == 'T' for a, b in zip(toks, toks[1:])):
                continue
            cl = classify(toks)
            k = cl if isinstance(cl, str) else cl[1]
            hist[k] = hist.get(k, 0) + 1
            cases.append(dict(cls='validating', docs=[dict(toks=toks, doctype=None)], klass=k))
        # library output validates
        nser = 60 if self.tier == 'quick' else 800
        for _ in range(nser):
            toks = g._rich_tokens(self.rng, self.rng.randint(1, 25))
            cases.append(dict(cls='validating', docs=[dict(toks=toks, doctype=None)], klass='serialised', reserialise=True))
        self.stats.update(class_histogram=hist, serialised_trees=nser)
        return cases

    def _html(self, case):
        d = case['docs'][0]
        html = c02.render(d['toks'], d.get('doctype'))
        if case.get('reserialise'):
            import AdvancedHTMLParser as A
            p = A.AdvancedHTMLParser()
            p.parseStr(html)
            html = p.getHTML() if p.getRoot() is not None else ''
        return html

    def _run(self, case):
        p = pc.rec_class('validating')()
        outcome, first, second = pc.parse_recorded(p, self._html(case))
        snap = pc.doc_snapshot(p) if outcome == 'ok' else None
        return [(outcome, first, second, snap)]

    def run_impl(self, case):
        res = self._run(case)
        self._last = (id(case), res)
        if not all(pc.names_ascii(f, s) for o, f, s, snap in res):
            return None
        return '\x1f'.join(snap if outcome == 'ok' else outcome.replace('|extra-reset', '') for outcome, f, s, snap in res)

    def coq_case(self, case):
        res = self._last[1] if getattr(self, '_last', (None,))[0] == id(case) else self._run(case)
        return '(PValidating, false, %s)' % core.clist(pc.coq_doc(f, s) for o, f, s, snap in res)

    def oracle(self, case):
        import AdvancedHTMLParser as A
        from AdvancedHTMLParser.Validator import ValidatingAdvancedHTMLParser
        html = self._html(case)
        v = ValidatingAdvancedHTMLParser()
        try:
            v.parseStr(html)
            got = None
        except Exception as e:
            got = type(e).__name__
        k = case['klass']
        if k == 'serialised':
            if got is not None:
                return 'the serialisation %r of a library-built tree does not validate: %s' % (html, got)
            return None
        if k in EXC:
            if got != EXC[k]:
                return '%r: first error is %s but the validating parser %s' % (html, k, 'raised ' + got if got else 'accepted it')
            return None
        if k == 'well' and got is not None:
            return '%r is well formed but the validating parser raised %s' % (html, got)
        if got is not None:
            if got not in EXC.values():
                return '%r: validating parser raised %s' % (html, got)
            return None
        p = A.AdvancedHTMLParser()
        p.parseStr(html)
        if pc.doc_snapshot(v) != pc.doc_snapshot(p):
            return '%r: accepted, but the tree differs from AdvancedHTMLParser\'s' % html
        return None

    def shrink_candidates(self, case):
        d = case['docs'][0]
        toks = d['toks']
        for i in range(len(toks) - 1, -1, -1):
            nt = toks[:i] + toks[i + 1:]
            if any(a[0] == 'T' and b[0] == 'T' for a, b in zip(nt, nt[1:])):
                continue
            cl = classify(nt)
            k = cl if isinstance(cl, str) else cl[1]
            yield dict(case, docs=[dict(d, toks=nt)], klass=case['klass'] if case.get('reserialise') else k)

    def nontrivial_key(self, case, snap):
        toks = case['docs'][0]['toks']
        if any(t[0] == 'S' for t in toks) and any(t[0] == 'E' for t in toks):
            return json.dumps(case, sort_keys=True)
        return None

    def finding_key(self, case, what):
        return re.sub(r"'[^']*'|\"[^\"]*\"", '', what)[:60]


CHECK = C13
