(* Proofs about Model/Dom.v: the structural invariant of C04 is preserved by every public mutator. *)
From AHP Require Import Model.Base Model.Str Model.Attr Model.Dom.

(* the invariant list of C04 for one element, given its expected parent and owner *)
Inductive WF : option nat -> option nat -> tag -> Prop :=
| WF_intro p o h bs :
    parent h = p -> owner h = o ->
    children h = map tuid (tags_of bs) ->
    text h = concat_s (texts_of bs) ->
    (sc h = true -> children h = [] /\ text h = "") ->
    Forall (WF (Some (uid h)) o) (tags_of bs) ->
    WF p o (Tag h bs).

Section TagInd.
  Variable P : tag -> Prop.
  Hypothesis H : forall h bs, Forall P (tags_of bs) -> P (Tag h bs).
  Fixpoint tag_ind' (t : tag) : P t :=
    match t with
    | Tag h bs => H h bs
        ((fix go (l : list (block tag)) : Forall P (tags_of l) :=
            match l with
            | [] => Forall_nil _
            | BText s :: r => go r
            | BTag c :: r => Forall_cons c (tag_ind' c) (go r)
            end) bs)
    end.
End TagInd.

Lemma texts_of_bmap (g : tag -> tag) bs : texts_of (map (bmap g) bs) = texts_of bs.
Proof. induction bs as [|[s|c] bs IH]; simpl; auto. now rewrite IH. Qed.
Lemma tags_of_bmap (g : tag -> tag) bs : tags_of (map (bmap g) bs) = map g (tags_of bs).
Proof. induction bs as [|[s|c] bs IH]; simpl; auto. now rewrite IH. Qed.
Lemma tags_of_app {T} (a b : list (block T)) : tags_of (a ++ b) = tags_of a ++ tags_of b.
Proof. induction a as [|[s|t] a IH]; simpl; auto. now rewrite IH. Qed.
Lemma texts_of_app {T} (a b : list (block T)) : texts_of (a ++ b) = texts_of a ++ texts_of b.
Proof. induction a as [|[s|t] a IH]; simpl; auto. now rewrite IH. Qed.
Lemma append_assoc (a b c : string) : (a +++ b) +++ c = a +++ (b +++ c).
Proof. induction a; simpl; auto. now rewrite IHa. Qed.
Lemma append_nil_r (a : string) : a +++ "" = a.
Proof. induction a; simpl; auto. now rewrite IHa. Qed.
Lemma concat_s_app a b : concat_s (a ++ b) = concat_s a +++ concat_s b.
Proof. induction a as [|x a IH]; simpl; auto. now rewrite IH, append_assoc. Qed.

Definition keeps_uid (f : tag -> tag) := forall t, tuid (f t) = tuid t.
Lemma update_at_uid u f : keeps_uid f -> keeps_uid (update_at u f).
Proof. intros Hf [h bs]. unfold tuid. simpl. destruct (Nat.eqb (uid h) u); [apply Hf|reflexivity]. Qed.

Theorem update_at_WF u f :
  keeps_uid f -> (forall p o t, WF p o t -> WF p o (f t)) ->
  forall t p o, WF p o t -> WF p o (update_at u f t).
Proof.
  intros Hu Hf. induction t as [h bs IH] using tag_ind'. intros p o Hwf.
  simpl. destruct (Nat.eqb (uid h) u) eqn:E; [now apply Hf|].
  inversion Hwf as [p' o' h' bs' Hp Ho Hc Ht Hs Hall]; subst.
  constructor; auto.
  - rewrite tags_of_bmap, map_map, Hc. apply map_ext. intro c. symmetry. now apply update_at_uid.
  - now rewrite texts_of_bmap.
  - rewrite tags_of_bmap, Forall_map. rewrite Forall_forall in *. intros c Hin.
    apply (IH _ Hin). apply (Hall _ Hin).
Qed.

Lemma set_owner_rec_uid o t : tuid (set_owner_rec o t) = tuid t.
Proof. destruct t; reflexivity. Qed.
Lemma set_owner_rec_WF o' : forall t p o, WF p o t -> WF p o' (set_owner_rec o' t).
Proof.
  induction t as [h bs IH] using tag_ind'. intros p o Hwf.
  inversion Hwf as [p' o0 h' bs' Hp Ho Hc Ht Hs Hall]; subst. simpl.
  constructor; simpl; auto.
  - rewrite tags_of_bmap, map_map, Hc. apply map_ext. intros c. now rewrite set_owner_rec_uid.
  - now rewrite texts_of_bmap.
  - rewrite tags_of_bmap, Forall_map. rewrite Forall_forall in *. intros c Hin. apply (IH c Hin _ _ (Hall c Hin)).
Qed.
Lemma reparent_WF p o' c pc oc : WF pc oc c -> WF p o' (reparent p o' c).
Proof.
  intros Hwf. unfold reparent. apply set_owner_rec_WF with (o := oc).
  destruct c as [hc bc]. inversion Hwf as [p' o0 h' bs' Hp Ho Hc Ht Hs Hall]; subst.
  constructor; simpl; auto.
Qed.
Lemma reparent_uid p o c : tuid (reparent p o c) = tuid c.
Proof. unfold reparent. rewrite set_owner_rec_uid. destruct c; reflexivity. Qed.

(* ---------------- local steps ---------------- *)
Lemma appendText_here_WF s : forall p o t, WF p o t -> WF p o (appendText_here s t).
Proof.
  intros p o [h bs] Hwf. inversion Hwf as [p' o0 h' bs' Hp Ho Hch Ht Hs Hall]; subst. simpl.
  constructor; simpl; auto.
  - rewrite tags_of_app. simpl. now rewrite app_nil_r.
  - rewrite texts_of_app, concat_s_app. simpl. now rewrite Ht, append_nil_r.
  - discriminate.
  - rewrite tags_of_app. simpl. now rewrite app_nil_r.
Qed.
Lemma appendChild_here_WF c pc oc : WF pc oc c -> forall p o t, WF p o t -> WF p o (appendChild_here c t).
Proof.
  intros Hc p o [h bs] Hwf. inversion Hwf as [p' o0 h' bs' Hp Ho Hch Ht Hs Hall]; subst. simpl.
  constructor; simpl; auto.
  - rewrite tags_of_app, map_app, Hch. simpl. now rewrite reparent_uid.
  - rewrite texts_of_app. simpl. now rewrite app_nil_r.
  - discriminate.
  - rewrite tags_of_app. apply Forall_app. split; auto. simpl. constructor; auto.
    eapply reparent_WF; eauto.
Qed.

Lemma tags_of_insert_tag bi (x : tag) bs : tags_of (insert_at bi (BTag x) bs) = insert_at (count_tags bi bs) x (tags_of bs).
Proof.
  revert bs. induction bi as [|k IH]; intros bs; simpl; [destruct bs; reflexivity|].
  destruct bs as [|[s|c] bs]; simpl; auto. now rewrite IH.
Qed.
Lemma texts_of_insert_tag bi (x : tag) bs : texts_of (insert_at bi (BTag x) bs) = texts_of bs.
Proof.
  revert bs. induction bi as [|k IH]; intros bs; simpl; [destruct bs; reflexivity|].
  destruct bs as [|[s|c] bs]; simpl; auto. now rewrite IH.
Qed.
Lemma tags_of_insert_text bi s (bs : list (block tag)) : tags_of (insert_at bi (BText s) bs) = tags_of bs.
Proof.
  revert bs. induction bi as [|k IH]; intros bs; simpl; [destruct bs; reflexivity|].
  destruct bs as [|[s'|c] bs]; simpl; auto. now rewrite IH.
Qed.
Lemma map_insert_at {A B} (g : A -> B) i x l : map g (insert_at i x l) = insert_at i (g x) (map g l).
Proof. revert l. induction i as [|k IH]; intros l; simpl; [destruct l; reflexivity|]. destruct l; simpl; auto. now rewrite IH. Qed.
Lemma Forall_insert_at {A} (P : A -> Prop) i x l : P x -> Forall P l -> Forall P (insert_at i x l).
Proof. revert l. induction i as [|k IH]; intros l Hx Hl; simpl; [destruct l; constructor; auto|].
  destruct l; [constructor; auto|]. inversion Hl; subst. constructor; auto. Qed.

Lemma insertTag_here_WF bi c pc oc : WF pc oc c -> forall p o t, WF p o t -> WF p o (insertTag_here bi c t).
Proof.
  intros Hc p o [h bs] Hwf. inversion Hwf as [p' o0 h' bs' Hp Ho Hch Ht Hs Hall]; subst. simpl.
  constructor; simpl; auto.
  - rewrite tags_of_insert_tag, map_insert_at, Hch, reparent_uid. reflexivity.
  - now rewrite texts_of_insert_tag.
  - discriminate.
  - rewrite tags_of_insert_tag. apply Forall_insert_at; auto. eapply reparent_WF; eauto.
Qed.
Lemma insertText_here_WF bi s : forall p o t, WF p o t -> WF p o (insertText_here bi s t).
Proof.
  intros p o [h bs] Hwf. inversion Hwf as [p' o0 h' bs' Hp Ho Hch Ht Hs Hall]; subst. simpl.
  constructor; simpl; auto.
  - now rewrite tags_of_insert_text.
  - discriminate.
  - now rewrite tags_of_insert_text.
Qed.

Lemma tags_of_remove_uid c bs : map tuid (tags_of (remove_uid_block c bs)) = remove_nat c (map tuid (tags_of bs)).
Proof.
  induction bs as [|[s|x] bs IH]; simpl; auto.
  destruct (Nat.eqb (tuid x) c); simpl; auto. now rewrite IH.
Qed.
Lemma texts_of_remove_uid c (bs : list (block tag)) : texts_of (remove_uid_block c bs) = texts_of bs.
Proof.
  induction bs as [|[s|x] bs IH]; simpl; auto; [now rewrite IH|].
  destruct (Nat.eqb (tuid x) c); simpl; auto.
Qed.
Lemma tags_of_remove_incl c bs x : In x (tags_of (remove_uid_block c bs)) -> In x (tags_of bs).
Proof.
  induction bs as [|[s|y] bs IH]; simpl; auto.
  destruct (Nat.eqb (tuid y) c); simpl; intuition.
Qed.
Lemma removeChild_here_WF c : forall p o t, WF p o t -> WF p o (removeChild_here c t).
Proof.
  intros p o [h bs] Hwf. inversion Hwf as [p' o0 h' bs' Hp Ho Hch Ht Hs Hall]; subst. simpl.
  constructor; simpl; auto.
  - now rewrite tags_of_remove_uid, Hch.
  - now rewrite texts_of_remove_uid.
  - intros E. destruct (Hs E) as [H1 H2]. rewrite H1. auto.
  - rewrite Forall_forall in *. intros x Hx. apply Hall. eapply tags_of_remove_incl; eauto.
Qed.

Lemma append_eq_nil a b : a +++ b = "" -> a = "" /\ b = "".
Proof. destruct a; simpl; [auto|discriminate]. Qed.
Lemma prefix_nil s : prefix_b s "" = true -> s = "".
Proof. destruct s; simpl; [auto|discriminate]. Qed.
Lemma containsb_nil s : containsb s "" = true -> s = "".
Proof. simpl. rewrite orb_false_r. apply prefix_nil. Qed.

Lemma removeText_blocks_tags s bs : tags_of (fst (removeText_blocks s bs)) = tags_of bs.
Proof.
  induction bs as [|[b|x] bs IH]; simpl; auto.
  - destruct (containsb s b); simpl; auto. destruct (removeText_blocks s bs); simpl in *; auto.
  - destruct (removeText_blocks s bs); simpl in *. now rewrite IH.
Qed.
Lemma removeText_blocks_empty s bs : concat_s (texts_of bs) = "" -> concat_s (texts_of (fst (removeText_blocks s bs))) = "".
Proof.
  induction bs as [|[b|x] bs IH]; simpl; auto.
  - intros H. apply append_eq_nil in H as [-> H2]. destruct (containsb s "") eqn:E.
    + apply containsb_nil in E. subst. simpl. exact H2.
    + specialize (IH H2). destruct (removeText_blocks s bs); simpl in *. exact IH.
  - intros H. specialize (IH H). destruct (removeText_blocks s bs); simpl in *. exact IH.
Qed.
Lemma replace_all_nil s : replace_all s "" = "".
Proof. unfold replace_all. destruct (String.eqb s ""); reflexivity. Qed.
Lemma removeTextAll_blocks_tags s bs : tags_of (fst (removeTextAll_blocks s bs)) = tags_of bs.
Proof.
  induction bs as [|[b|x] bs IH]; simpl; auto.
  - destruct (removeTextAll_blocks s bs); simpl in *. destruct (containsb s b); simpl; auto.
  - destruct (removeTextAll_blocks s bs); simpl in *. now rewrite IH.
Qed.
Lemma removeTextAll_blocks_empty s bs : concat_s (texts_of bs) = "" -> concat_s (texts_of (fst (removeTextAll_blocks s bs))) = "".
Proof.
  induction bs as [|[b|x] bs IH]; simpl; auto.
  - intros H. apply append_eq_nil in H as [-> H2]. specialize (IH H2). destruct (removeTextAll_blocks s bs); simpl in *.
    destruct (prefix_b s "" || false); simpl; rewrite ?replace_all_nil; exact IH.
  - intros H. specialize (IH H). destruct (removeTextAll_blocks s bs); simpl in *. exact IH.
Qed.
(* replacing the block list by one with the same element entries and recomputing the text *)
Lemma set_blocks_text_WF bs' : forall p o h bs, WF p o (Tag h bs) -> tags_of bs' = tags_of bs ->
  (concat_s (texts_of bs) = "" -> concat_s (texts_of bs') = "") -> WF p o (set_blocks_text bs' (Tag h bs)).
Proof.
  intros p o h bs Hwf Ht He. inversion Hwf as [p' o0 h' bs0 Hp Ho Hch Htx Hs Hall]; subst. simpl.
  constructor; simpl; auto.
  - now rewrite Ht.
  - intros E. destruct (Hs E) as [H1 H2]. split; auto. apply He. now rewrite <- Htx.
  - now rewrite Ht.
Qed.

(* ---------------- worlds ---------------- *)
(* the document root (first slot) is parentless with one owner throughout; every detached root is parentless and
   owned by no document throughout *)
Definition WFw (w : world) : Prop :=
  match w with
  | [] => True
  | r :: d => WF None (owner (hd_ r)) r /\ Forall (WF None None) d
  end.

Lemma update_at_owner u f t : (forall x, owner (hd_ (f x)) = owner (hd_ x)) -> owner (hd_ (update_at u f t)) = owner (hd_ t).
Proof. intros Hf. destruct t as [h bs]. simpl. destruct (Nat.eqb (uid h) u); [apply Hf|reflexivity]. Qed.

Lemma wupdate_WFw u f w : keeps_uid f -> (forall x, owner (hd_ (f x)) = owner (hd_ x)) ->
  (forall p o t, WF p o t -> WF p o (f t)) -> WFw w -> WFw (wupdate u f w).
Proof.
  intros Hu Ho Hf. destruct w as [|r d]; simpl; auto. intros [Hr Hd]. split.
  - rewrite update_at_owner by exact Ho. now apply update_at_WF.
  - unfold wupdate. rewrite Forall_map. eapply Forall_impl; [|exact Hd]. intros a Ha. now apply update_at_WF.
Qed.

Lemma take_root_spec u d x d' : take_root u d = Some (x, d') -> forall P : tag -> Prop, Forall P d -> P x /\ Forall P d'.
Proof.
  revert x d'. induction d as [|t r IH]; simpl; intros x d' H P HF; [discriminate|].
  inversion HF as [|? ? Ht Hr]; subst. destruct (Nat.eqb (tuid t) u).
  - inversion H; subst. auto.
  - destruct (take_root u r) as [[y r']|] eqn:E; [|discriminate]. inversion H; subst.
    destruct (IH _ _ eq_refl P Hr) as [H1 H2]. auto.
Qed.
Lemma take_detached_WFw u w x w' : take_detached u w = Some (x, w') -> WFw w -> WF None None x /\ WFw w'.
Proof.
  destruct w as [|r d]; simpl; [discriminate|]. destruct (take_root u d) as [[y d']|] eqn:E; [|discriminate].
  intros H [Hr Hd]. inversion H; subst. destruct (take_root_spec _ _ _ _ E _ Hd) as [H1 H2]. simpl. auto.
Qed.
Lemma WFw_snoc w x : w <> [] -> WFw w -> WF None None x -> WFw (w ++ [x]).
Proof. destruct w as [|r d]; [congruence|]. simpl. intros _ [Hr Hd] Hx. split; auto. apply Forall_app. auto. Qed.

Lemma find_go_spec u l : forall x,
  (fix go (l : list (block tag)) := match l with
     | [] => None | BTag c :: r => match find u c with Some x => Some x | None => go r end | _ :: r => go r end) l = Some x ->
  exists c, In c (tags_of l) /\ find u c = Some x.
Proof.
  induction l as [|[s|c] l IH]; intros x H; [discriminate|auto|].
  simpl. destruct (find u c) eqn:E.
  - inversion H; subst. exists c. split; [now left|exact E].
  - destruct (IH x H) as (c' & H1 & H2). exists c'. split; [now right|exact H2].
Qed.
Lemma find_WF u : forall t p o, WF p o t -> forall x, find u t = Some x -> exists p' o', WF p' o' x.
Proof.
  induction t as [h bs IH] using tag_ind'. intros p o Hwf x. simpl.
  destruct (Nat.eqb (uid h) u); [intros H; inversion H; subst; eauto|].
  intros H. apply find_go_spec in H as (c & Hin & Hf).
  inversion Hwf as [p' o0 h' bs' Hp Ho Hch Ht Hs Hall]; subst.
  rewrite Forall_forall in IH, Hall. eapply IH; eauto.
Qed.
Lemma wfind_WF u w x : WFw w -> wfind u w = Some x -> exists p o, WF p o x.
Proof.
  destruct w as [|r d]; simpl; [discriminate|]. intros [Hr Hd].
  destruct (find u r) eqn:E.
  - intros H. inversion H; subst. eapply find_WF; eauto.
  - clear E Hr. induction d as [|t d IH]; simpl; [discriminate|]. inversion Hd; subst.
    destruct (find u t) eqn:E; [intros H; inversion H; subst; eapply find_WF; eauto | auto].
Qed.
Lemma find_child_In c bs x : find_child c bs = Some x -> In x (tags_of bs).
Proof.
  induction bs as [|[s|y] bs IH]; simpl; [discriminate|auto|].
  destruct (Nat.eqb (tuid y) c); [intros H; inversion H; auto | auto].
Qed.

Lemma wupdate_nonnil u f w : w <> [] -> wupdate u f w <> [].
Proof. destruct w; simpl; congruence. Qed.

(* ---------------- every public mutator keeps the world well formed ---------------- *)
Lemma keeps_appendText s : keeps_uid (appendText_here s). Proof. intros [h bs]; reflexivity. Qed.
Lemma keeps_appendChild c : keeps_uid (appendChild_here c). Proof. intros [h bs]; reflexivity. Qed.
Lemma keeps_insertTag bi c : keeps_uid (insertTag_here bi c). Proof. intros [h bs]; reflexivity. Qed.
Lemma keeps_insertText bi s : keeps_uid (insertText_here bi s). Proof. intros [h bs]; reflexivity. Qed.
Lemma keeps_removeChild c : keeps_uid (removeChild_here c). Proof. intros [h bs]; reflexivity. Qed.
Lemma keeps_set_blocks bs' : keeps_uid (set_blocks_text bs'). Proof. intros [h bs]; reflexivity. Qed.

Theorem appendText_WFw w t s : WFw w -> WFw (fst (appendText w t s)).
Proof. intros H. simpl. apply wupdate_WFw; auto using keeps_appendText, appendText_here_WF. intros [h bs]; reflexivity. Qed.
Theorem appendChild_WFw w t c : WFw w -> WFw (fst (appendChild w t c)).
Proof.
  intros H. unfold appendChild. destruct (take_detached c w) as [[ct w']|] eqn:E; simpl; auto.
  destruct (take_detached_WFw _ _ _ _ E H) as [Hc Hw].
  apply wupdate_WFw; auto using keeps_appendChild. { intros [h bs]; reflexivity. }
  intros p o x Hx. eapply appendChild_here_WF; eauto.
Qed.
Theorem appendBlock_WFw w t b : WFw w -> WFw (fst (appendBlock w t b)).
Proof. destruct b; simpl; [apply appendText_WFw | apply appendChild_WFw]. Qed.
Theorem appendBlocks_WFw t bs : forall w, WFw w -> WFw (fst (appendBlocks w t bs)).
Proof.
  induction bs as [|b bs IH]; intros w H; simpl; auto.
  pose proof (appendBlock_WFw w t b H) as H1. destruct (appendBlock w t b) as [w' r]. simpl in H1. destruct r; simpl; auto.
Qed.
Theorem insert_rel_WFw after w t child ref : WFw w -> WFw (fst (insert_rel after w t child ref)).
Proof.
  intros H. unfold insert_rel. destruct ref as [r|]; [|now apply appendBlock_WFw].
  destruct (wfind t w) as [[h bs]|]; simpl; auto. destruct (index_of r bs) as [bi0|]; simpl; auto.
  destruct child as [s|c].
  - simpl. apply wupdate_WFw; auto using keeps_insertText, insertText_here_WF. intros [h' bs']; reflexivity.
  - destruct (take_detached c w) as [[ct w']|] eqn:E; simpl; auto.
    destruct (take_detached_WFw _ _ _ _ E H) as [Hc Hw].
    apply wupdate_WFw; auto using keeps_insertTag. { intros [h' bs']; reflexivity. }
    intros p o x Hx. eapply insertTag_here_WF; eauto.
Qed.
Theorem removeChild_WFw w t c : WFw w -> WFw (fst (removeChild w t c)).
Proof.
  intros H. unfold removeChild. destruct (wfind t w) as [[h bs]|] eqn:E; simpl; auto.
  destruct (existsb (Nat.eqb c) (children h)); simpl; auto.
  destruct (find_child c bs) as [ct|] eqn:Ec; simpl; auto.
  destruct (wfind_WF _ _ _ H E) as (p & o & Hwf).
  inversion Hwf as [p' o0 h' bs' Hp Ho Hch Ht Hs Hall]; subst.
  apply find_child_In in Ec. rewrite Forall_forall in Hall. specialize (Hall _ Ec).
  apply WFw_snoc.
  - apply wupdate_nonnil. destruct w; [discriminate|congruence].
  - apply wupdate_WFw; auto using keeps_removeChild, removeChild_here_WF. intros [h' bs']; reflexivity.
  - eapply reparent_WF; eauto.
Qed.
Theorem removeChildren_WFw t cs : forall w acc, WFw w -> WFw (fst (removeChildren w t cs acc)).
Proof.
  induction cs as [|c cs IH]; intros w acc H; simpl; auto.
  pose proof (removeChild_WFw w t c H) as H1. destruct (removeChild w t c) as [w' r]. simpl in H1. destruct r; simpl; auto.
Qed.
Theorem remove_WFw w c : WFw w -> WFw (fst (remove_ w c)).
Proof.
  intros H. unfold remove_. destruct (wfind c w) as [[hc bc]|]; simpl; auto.
  destruct (parent hc) as [p|]; simpl; auto.
  pose proof (removeChild_WFw w p c H) as H1. destruct (removeChild w p c) as [w' r]. exact H1.
Qed.
Lemma removeText_here_WF s : forall p o t, WF p o t -> WF p o (removeText_here s t).
Proof.
  intros p o [h bs] H. unfold removeText_here. cbn [bs_]. apply (set_blocks_text_WF _ p o h bs H).
  - apply removeText_blocks_tags. - apply removeText_blocks_empty.
Qed.
Lemma removeTextAll_here_WF s : forall p o t, WF p o t -> WF p o (removeTextAll_here s t).
Proof.
  intros p o [h bs] H. unfold removeTextAll_here. cbn [bs_]. apply (set_blocks_text_WF _ p o h bs H).
  - apply removeTextAll_blocks_tags. - apply removeTextAll_blocks_empty.
Qed.
Lemma keeps_removeText s : keeps_uid (removeText_here s). Proof. intros [h bs]; reflexivity. Qed.
Lemma keeps_removeTextAll s : keeps_uid (removeTextAll_here s). Proof. intros [h bs]; reflexivity. Qed.
Theorem removeText_WFw w t s : WFw w -> WFw (fst (removeText w t s)).
Proof.
  intros H. unfold removeText. destruct (wfind t w) as [[h bs]|]; simpl; auto.
  apply wupdate_WFw; auto using keeps_removeText, removeText_here_WF. intros [h' bs']; reflexivity.
Qed.
Theorem removeTextAll_WFw w t s : WFw w -> WFw (fst (removeTextAll w t s)).
Proof.
  intros H. unfold removeTextAll. destruct (wfind t w) as [[h bs]|]; simpl; auto.
  apply wupdate_WFw; auto using keeps_removeTextAll, removeTextAll_here_WF. intros [h' bs']; reflexivity.
Qed.
Theorem removeBlock_WFw w t b : WFw w -> WFw (fst (removeBlock w t b)).
Proof. destruct b; simpl; [apply removeText_WFw | apply removeChild_WFw]. Qed.
Theorem removeBlocks_WFw t bs : forall w acc, WFw w -> WFw (fst (removeBlocks w t bs acc)).
Proof.
  induction bs as [|b bs IH]; intros w acc H; simpl; auto.
  pose proof (removeBlock_WFw w t b H) as H1. destruct (removeBlock w t b) as [w' r]. simpl in H1. destruct r; simpl; auto.
Qed.

(* C04: one step of any public mutator, from any well-formed world *)
Theorem step_WFw w o : WFw w -> WFw (fst (step w o)).
Proof.
  intros H. destruct o; cbn [step].
  - now apply appendChild_WFw.
  - exact H.
  - now apply appendText_WFw.
  - now apply appendBlock_WFw.
  - now apply appendBlocks_WFw.
  - now apply insert_rel_WFw.
  - now apply insert_rel_WFw.
  - now apply removeChild_WFw.
  - now apply removeChildren_WFw.
  - now apply removeBlock_WFw.
  - now apply removeBlocks_WFw.
  - now apply removeText_WFw.
  - now apply removeTextAll_WFw.
  - now apply remove_WFw.
Qed.
(* ... and therefore every reachable state of every history *)
Theorem history_WFw ops : forall w, WFw w -> WFw (fold_left (fun w o => fst (step w o)) ops w).
Proof. induction ops as [|o ops IH]; intros w H; simpl; auto. apply IH. now apply step_WFw. Qed.

(* ---------------- the boolean checker is sound ---------------- *)
Lemma opt_nat_eqb_eq a b : opt_nat_eqb a b = true -> a = b.
Proof. destruct a, b; simpl; try discriminate; auto. intros H. apply Nat.eqb_eq in H. now subst. Qed.
Lemma list_nat_eqb_eq a : forall b, list_nat_eqb a b = true -> a = b.
Proof. induction a as [|x a IH]; destruct b as [|y b]; simpl; try discriminate; auto.
  intros H. apply andb_true_iff in H as [H1 H2]. apply Nat.eqb_eq in H1. subst. f_equal. auto. Qed.
Theorem wfb_sound : forall t p o, wfb p o t = true -> WF p o t.
Proof.
  induction t as [h bs IH] using tag_ind'. intros p o H. simpl in H.
  repeat (apply andb_true_iff in H as [H ?]).
  apply opt_nat_eqb_eq in H. apply opt_nat_eqb_eq in H4. apply list_nat_eqb_eq in H3. apply String.eqb_eq in H2.
  constructor; auto.
  - intros E. rewrite E in H1. simpl in H1. apply andb_true_iff in H1 as [H5 H6]. apply String.eqb_eq in H6.
    destruct (children h); [auto|discriminate].
  - clear - IH H0. induction bs as [|[s|c] bs IHb]; simpl in *; auto.
    apply andb_true_iff in H0 as [H1 H2]. inversion IH; subst. constructor; auto.
Qed.
Theorem wfwb_sound w : wfwb w = true -> WFw w.
Proof.
  destruct w as [|r d]; simpl; auto. intros H. apply andb_true_iff in H as [H1 H2]. split; [now apply wfb_sound|].
  apply Forall_forall. intros x Hx. rewrite forallb_forall in H2. apply wfb_sound. auto.
Qed.
Lemma nodup_natb_sound l : nodup_natb l = true -> NoDup l.
Proof.
  induction l as [|x l IH]; simpl; [constructor|]. intros H. apply andb_true_iff in H as [H1 H2]. constructor; auto.
  intro Hi. apply negb_true_iff in H1. assert (existsb (Nat.eqb x) l = true); [|congruence].
  apply existsb_exists. exists x. split; auto. apply Nat.eqb_refl.
Qed.

(* ---------------- uid bookkeeping: no element is created, lost or duplicated ---------------- *)
From Coq Require Import Permutation.

Definition buids (b : block tag) : list nat := match b with BTag c => uids_of c | BText _ => [] end.
Lemma uids_unfold h bs : uids_of (Tag h bs) = uid h :: flat_map buids bs.
Proof. reflexivity. Qed.

Lemma update_at_absent u f : forall t, ~ In u (uids_of t) -> update_at u f t = t.
Proof.
  induction t as [h bs IH] using tag_ind'. intros Hn. rewrite uids_unfold in Hn. simpl in *.
  destruct (Nat.eqb (uid h) u) eqn:E. { apply Nat.eqb_eq in E. tauto. }
  f_equal. assert (Hn' : ~ In u (flat_map buids bs)) by tauto.
  clear Hn. induction bs as [|[s|c] bs IHb]; simpl in *; auto.
  - f_equal. apply IHb; auto.
  - inversion IH; subst. rewrite in_app_iff in Hn'. f_equal; [f_equal; apply H1; tauto | apply IHb; auto; tauto].
Qed.
Lemma map_update_absent u f (bs : list (block tag)) : ~ In u (flat_map buids bs) -> map (bmap (update_at u f)) bs = bs.
Proof.
  induction bs as [|[s|y] bs IHb]; simpl; intros Hn; auto.
  - f_equal. auto.
  - rewrite in_app_iff in Hn. f_equal; [f_equal; apply update_at_absent; tauto | apply IHb; tauto].
Qed.
Lemma NoDup_app_l {A} (a b : list A) : NoDup (a ++ b) -> NoDup a.
Proof. induction a as [|x a IH]; simpl; intros H; [constructor|]. inversion H; subst. constructor; auto. intro Hi. apply H2, in_or_app; auto. Qed.
Lemma NoDup_app_r {A} (a b : list A) : NoDup (a ++ b) -> NoDup b.
Proof. induction a as [|x a IH]; simpl; intros H; auto. inversion H; auto. Qed.
Lemma NoDup_app_disj {A} (a b : list A) x : NoDup (a ++ b) -> In x a -> ~ In x b.
Proof.
  induction a as [|y a IH]; simpl; intros H Hi Hb; [tauto|]. inversion H as [|? ? Hny Hnd]; subst.
  destruct Hi as [->|Hi].
  - apply Hny. apply in_or_app. right. exact Hb.
  - exact (IH Hnd Hi Hb).
Qed.
Lemma find_some_in u : forall t x, find u t = Some x -> In u (uids_of t) /\ tuid x = u.
Proof.
  induction t as [h bs IH] using tag_ind'. intros x. rewrite uids_unfold. simpl.
  destruct (Nat.eqb (uid h) u) eqn:E.
  - intros H. inversion H; subst. apply Nat.eqb_eq in E. split; [now left | exact E].
  - intros H. apply find_go_spec in H as (c & Hin & Hf). rewrite Forall_forall in IH.
    destruct (IH c Hin x Hf) as [H1 H2]. split; auto. right.
    clear - Hin H1. induction bs as [|[s|y] bs IHb]; simpl in *; [tauto|auto|].
    apply in_or_app. destruct Hin as [->|Hin]; auto.
Qed.

(* a relation between uid lists that survives being put into a context lifts from the updated element to the tree *)
Section UpdateRel.
  Variable R : list nat -> list nat -> Prop.
  Hypothesis Rctx : forall l1 l2 a b, R a b -> R (l1 ++ a ++ l2) (l1 ++ b ++ l2).
  Variable f : tag -> tag.
  Variable u : nat.
  Lemma update_at_rel : forall t x, NoDup (uids_of t) -> find u t = Some x ->
    R (uids_of (f x)) (uids_of x) -> R (uids_of (update_at u f t)) (uids_of t).
  Proof.
    induction t as [h bs IH] using tag_ind'. intros x Hnd Hf HR. simpl in Hf |- *.
    destruct (Nat.eqb (uid h) u) eqn:E. { inversion Hf; subst. exact HR. }
    apply find_go_spec in Hf as (c & Hin & Hfc).
    rewrite !uids_unfold. rewrite uids_unfold in Hnd. inversion Hnd as [|? ? Hnh Hnd']; subst. clear Hnd Hnh.
    assert (G : R (flat_map buids (map (bmap (update_at u f)) bs)) (flat_map buids bs)).
    { clear E. induction bs as [|[s|y] bs IHb]; simpl in *; [tauto|auto|].
      inversion IH as [|? ? Hy IH']; subst.
      assert (Hndy := NoDup_app_l _ _ Hnd'). assert (Hndr := NoDup_app_r _ _ Hnd').
      destruct Hin as [->|Hin].
      - destruct (find_some_in u c x Hfc) as [Hu _].
        rewrite (map_update_absent u f bs) by (eapply NoDup_app_disj; eauto).
        specialize (Hy x Hndy Hfc HR).
        pose proof (Rctx [] (flat_map buids bs) _ _ Hy) as G. simpl in G. exact G.
      - assert (Hu : In u (flat_map buids bs)).
        { destruct (find_some_in u c x Hfc) as [Hu _]. clear - Hin Hu. induction bs as [|[s|z] bs IHb]; simpl in *; [tauto|auto|].
          apply in_or_app. destruct Hin as [->|Hin]; auto. }
        assert (Hyu : update_at u f y = y).
        { apply update_at_absent. intro Hc. eapply NoDup_app_disj; eauto. }
        rewrite Hyu. specialize (IHb IH' Hin Hndr).
        pose proof (Rctx (uids_of y) [] _ _ IHb) as G. rewrite !app_nil_r in G. exact G. }
    pose proof (Rctx [uid h] [] _ _ G) as G'. simpl in G'. rewrite !app_nil_r in G'. exact G'.
  Qed.
End UpdateRel.

Lemma uids_set_owner_rec o t : uids_of (set_owner_rec o t) = uids_of t.
Proof.
  induction t as [h bs IH] using tag_ind'. simpl. f_equal.
  induction bs as [|b bs IHb]; [reflexivity|].
  destruct b as [s|c]; simpl in *.
  + apply IHb. exact IH.
  + inversion IH as [|? ? Hc IH']; subst. rewrite Hc. f_equal. apply IHb. exact IH'.
Qed.
Lemma uids_reparent p o c : uids_of (reparent p o c) = uids_of c.
Proof. unfold reparent. rewrite uids_set_owner_rec. destruct c; reflexivity. Qed.

Definition Radd (extra : list nat) (a b : list nat) : Prop := Permutation a (b ++ extra).
Lemma Radd_ctx extra l1 l2 a b : Radd extra a b -> Radd extra (l1 ++ a ++ l2) (l1 ++ b ++ l2).
Proof.
  unfold Radd. intros H. rewrite <- !app_assoc. apply Permutation_app_head.
  rewrite H. rewrite <- !app_assoc. apply Permutation_app_head. apply Permutation_app_comm.
Qed.
Definition Rsub (extra : list nat) (a b : list nat) : Prop := Permutation (a ++ extra) b.
Lemma Rsub_ctx extra l1 l2 a b : Rsub extra a b -> Rsub extra (l1 ++ a ++ l2) (l1 ++ b ++ l2).
Proof.
  unfold Rsub. intros H. rewrite <- !app_assoc. apply Permutation_app_head.
  rewrite <- H. rewrite <- !app_assoc. apply Permutation_app_head. apply Permutation_app_comm.
Qed.

Lemma flat_insert_at bi (x : block tag) bs : Permutation (flat_map buids (insert_at bi x bs)) (flat_map buids bs ++ buids x).
Proof.
  revert bs. induction bi as [|k IH]; intros bs; simpl.
  - destruct bs; simpl; [now rewrite app_nil_r | apply Permutation_app_comm].
  - destruct bs as [|b bs]; simpl; [now rewrite app_nil_r|]. rewrite IH. now rewrite app_assoc.
Qed.
Lemma appendChild_here_uids c x : Radd (uids_of c) (uids_of (appendChild_here c x)) (uids_of x).
Proof. destruct x as [h bs]. unfold Radd. simpl. apply perm_skip. rewrite flat_map_app. simpl. now rewrite app_nil_r, uids_reparent. Qed.
Lemma insertTag_here_uids bi c x : Radd (uids_of c) (uids_of (insertTag_here bi c x)) (uids_of x).
Proof. destruct x as [h bs]. unfold Radd. simpl. apply perm_skip. rewrite flat_insert_at. simpl. now rewrite uids_reparent. Qed.
Lemma removeChild_here_uids c x ct : find_child c (bs_ x) = Some ct -> Rsub (uids_of ct) (uids_of (removeChild_here c x)) (uids_of x).
Proof.
  destruct x as [h bs]. unfold Rsub. simpl. intros H. apply perm_skip.
  induction bs as [|[s|y] bs IH]; simpl in *; [discriminate|auto|].
  destruct (Nat.eqb (tuid y) c).
  - inversion H; subst. apply Permutation_app_comm.
  - simpl. rewrite <- app_assoc. apply Permutation_app_head. auto.
Qed.

(* ---- the same at world level ---- *)
Lemma wfind_some_in u w x : wfind u w = Some x -> In u (world_uids w).
Proof.
  unfold world_uids. induction w as [|t w IH]; simpl; [discriminate|]. destruct (find u t) eqn:E.
  - intros _. apply in_or_app. left. eapply find_some_in; eauto.
  - intros H. apply in_or_app. right. auto.
Qed.
Section WUpdateRel.
  Variable R : list nat -> list nat -> Prop.
  Hypothesis Rctx : forall l1 l2 a b, R a b -> R (l1 ++ a ++ l2) (l1 ++ b ++ l2).
  Variable f : tag -> tag.
  Variable u : nat.
  Lemma wupdate_rel : forall w x, NoDup (world_uids w) -> wfind u w = Some x ->
    R (uids_of (f x)) (uids_of x) -> R (world_uids (wupdate u f w)) (world_uids w).
  Proof.
    unfold world_uids, wupdate. induction w as [|t w IH]; simpl; intros x Hnd Hf HR; [discriminate|].
    assert (Hndt := NoDup_app_l _ _ Hnd). assert (Hndw := NoDup_app_r _ _ Hnd).
    destruct (find u t) eqn:E.
    - inversion Hf; subst. destruct (find_some_in u t x E) as [Hu _].
      assert (Hw : map (update_at u f) w = w).
      { assert (Hn : ~ In u (flat_map uids_of w)) by (eapply NoDup_app_disj; eauto).
        clear - Hn. induction w as [|a w IHw]; simpl in *; auto. rewrite in_app_iff in Hn.
        f_equal; [apply update_at_absent; tauto | apply IHw; tauto]. }
      rewrite Hw. pose proof (update_at_rel R Rctx f u t x Hndt E HR) as G.
      pose proof (Rctx [] (flat_map uids_of w) _ _ G) as G'. exact G'.
    - assert (Ht : update_at u f t = t).
      { apply update_at_absent. intro Hc. pose proof (wfind_some_in u w x Hf) as Hu. eapply NoDup_app_disj; eauto. }
      rewrite Ht. specialize (IH x Hndw Hf HR).
      pose proof (Rctx (uids_of t) [] _ _ IH) as G. rewrite !app_nil_r in G. exact G.
  Qed.
End WUpdateRel.

Lemma take_root_perm u d x d' : take_root u d = Some (x, d') -> Permutation (world_uids d) (uids_of x ++ world_uids d').
Proof.
  unfold world_uids. revert x d'. induction d as [|t r IH]; simpl; intros x d' H; [discriminate|].
  destruct (Nat.eqb (tuid t) u).
  - inversion H; subst. reflexivity.
  - destruct (take_root u r) as [[y r']|] eqn:E; [|discriminate]. inversion H; subst. simpl.
    rewrite (IH _ _ eq_refl). rewrite !app_assoc. apply Permutation_app_tail. apply Permutation_app_comm.
Qed.
Lemma take_detached_perm u w x w' : take_detached u w = Some (x, w') -> Permutation (world_uids w) (uids_of x ++ world_uids w').
Proof.
  destruct w as [|r d]; simpl; [discriminate|]. destruct (take_root u d) as [[y d']|] eqn:E; [|discriminate].
  intros H. inversion H; subst. unfold world_uids in *. simpl. rewrite (take_root_perm _ _ _ _ E).
  rewrite !app_assoc. apply Permutation_app_tail. apply Permutation_app_comm.
Qed.

(* appendChild / insert of a tag / removeChild move elements without creating, losing or duplicating any.
   Precondition of the property: the child is a detached root and the target lies outside it. *)
Theorem appendChild_uids w t c ct w' x : NoDup (world_uids w) -> take_detached c w = Some (ct, w') -> wfind t w' = Some x ->
  Permutation (world_uids (fst (appendChild w t c))) (world_uids w).
Proof.
  intros Hnd Ht Hf. unfold appendChild. rewrite Ht. simpl.
  pose proof (take_detached_perm _ _ _ _ Ht) as Hp.
  assert (Hnd' : NoDup (world_uids w')).
  { eapply NoDup_app_r. eapply Permutation_NoDup; [exact Hp | exact Hnd]. }
  pose proof (wupdate_rel (Radd (uids_of ct)) (Radd_ctx (uids_of ct)) (appendChild_here ct) t w' x Hnd' Hf (appendChild_here_uids ct x)) as G.
  unfold Radd in G. rewrite G, Hp. apply Permutation_app_comm.
Qed.
Theorem insertTag_uids after w t c r h bs bi0 ct w' x : NoDup (world_uids w) ->
  wfind t w = Some (Tag h bs) -> index_of r bs = Some bi0 -> take_detached c w = Some (ct, w') -> wfind t w' = Some x ->
  Permutation (world_uids (fst (insert_rel after w t (KTag c) (Some r)))) (world_uids w).
Proof.
  intros Hnd Hw Hi Ht Hf. unfold insert_rel. rewrite Hw, Hi, Ht. simpl.
  pose proof (take_detached_perm _ _ _ _ Ht) as Hp.
  assert (Hnd' : NoDup (world_uids w')).
  { eapply NoDup_app_r. eapply Permutation_NoDup; [exact Hp | exact Hnd]. }
  set (bi := if after then S bi0 else bi0).
  pose proof (wupdate_rel (Radd (uids_of ct)) (Radd_ctx (uids_of ct)) (insertTag_here bi ct) t w' x Hnd' Hf (insertTag_here_uids bi ct x)) as G.
  unfold Radd in G. rewrite G, Hp. apply Permutation_app_comm.
Qed.
Theorem removeChild_uids w t c : NoDup (world_uids w) -> Permutation (world_uids (fst (removeChild w t c))) (world_uids w).
Proof.
  intros Hnd. unfold removeChild. destruct (wfind t w) as [[h bs]|] eqn:E; simpl; auto.
  destruct (existsb (Nat.eqb c) (children h)); simpl; auto.
  destruct (find_child c bs) as [ct|] eqn:Ec; simpl; auto.
  pose proof (wupdate_rel (Rsub (uids_of ct)) (Rsub_ctx (uids_of ct)) (removeChild_here c) t w (Tag h bs) Hnd E
               (removeChild_here_uids c (Tag h bs) ct Ec)) as G.
  unfold Rsub in G. unfold world_uids in *. rewrite flat_map_app. simpl. rewrite app_nil_r, uids_reparent. exact G.
Qed.

(* ---------------- the seeds: parser-built and freshly created trees are well formed ---------------- *)
Fixpoint StackWF (own : option nat) (l : list frame) : Prop :=
  match l with [] => True | f :: r => WF (top_uid r) own (Tag (fh f) (fbs f)) /\ StackWF own r end.
Definition PstWF (own : option nat) (s : pst) : Prop :=
  StackWF own (stk s) /\ match proot s with Some t => WF None own t | None => True end.

Lemma push_block_WF own b f r :
  WF (top_uid r) own (Tag (fh f) (fbs f)) ->
  (match b with BTag c => WF (Some (uid (fh f))) own c | BText _ => True end) ->
  match push_block b (f :: r) with f' :: r' => WF (top_uid r') own (Tag (fh f') (fbs f')) /\ r' = r /\ uid (fh f') = uid (fh f) | [] => False end.
Proof.
  intros Hwf Hb. simpl. split; [|split; [reflexivity | destruct b; reflexivity]].
  inversion Hwf as [p' o0 h' bs' Hp Ho Hch Ht Hs Hall]; subst. destruct b as [s|c]; simpl.
  - constructor; simpl; auto.
    + rewrite tags_of_app. simpl. now rewrite app_nil_r.
    + rewrite texts_of_app, concat_s_app. simpl. now rewrite Ht, append_nil_r.
    + discriminate.
    + rewrite tags_of_app. simpl. now rewrite app_nil_r.
  - constructor; simpl; auto.
    + rewrite tags_of_app, map_app, Hch. reflexivity.
    + rewrite texts_of_app. simpl. now rewrite app_nil_r.
    + discriminate.
    + rewrite tags_of_app. apply Forall_app. split; auto. simpl. constructor; auto.
Qed.
Lemma top_uid_push b l : l <> [] -> top_uid (push_block b l) = top_uid l.
Proof. destruct l as [|f r]; [congruence|]. intros _. destruct b; reflexivity. Qed.

Lemma close_top_WF own s : PstWF own s -> PstWF own (close_top s).
Proof.
  intros [Hs Hr]. unfold close_top. destruct (stk s) as [|f [|g r]] eqn:E; [split; [rewrite E|]; auto| |].
  - simpl in *. split; simpl; auto. tauto.
  - destruct Hs as (Hf & Hg & Hrest). simpl in Hf.
    pose proof (push_block_WF own (BTag (Tag (fh f) (fbs f))) g r Hg Hf) as H.
    unfold PstWF. cbn [stk proot]. destruct (push_block (BTag (Tag (fh f) (fbs f))) (g :: r)) as [|f' r'] eqn:Ep; [tauto|].
    destruct H as (H1 & -> & _). split; [split; auto | exact Hr].
Qed.
Lemma close_until_WF own n fuel : forall s, PstWF own s -> PstWF own (close_until fuel n s).
Proof.
  induction fuel as [|k IH]; intros s H; simpl; auto.
  destruct (stk s) as [|f r]; auto. destruct (String.eqb (name (fh f)) n); [now apply close_top_WF | apply IH; now apply close_top_WF].
Qed.
Lemma close_all_WF own fuel : forall s, PstWF own s -> PstWF own (close_all fuel s).
Proof.
  induction fuel as [|k IH]; intros s H; simpl; auto.
  destruct (stk s) as [|f r]; auto. apply IH. now apply close_top_WF.
Qed.
Lemma new_leaf_WF u n a leaf p o : WF p o (Tag (mk_hdr u n a leaf p o) [BText ""]).
Proof. constructor; simpl; auto. Qed.

Lemma dstep_WF own s t : PstWF own s -> PstWF own (dstep own s t).
Proof.
  intros H. destruct t as [n selfc|n|d]; simpl.
  - destruct (stk s) as [|f r] eqn:E.
    + destruct (proot s) eqn:Er; [exact H|]. destruct H as [Hs Hr].
      destruct (selfc || is_void n); unfold PstWF; cbn [stk proot]; simpl.
      * split; auto. apply new_leaf_WF.
      * split; auto. split; auto. apply new_leaf_WF.
    + destruct H as [Hs Hr]. rewrite E in Hs. destruct Hs as [Hf Hrest].
      destruct (selfc || is_void n); unfold PstWF; cbn [stk proot].
      * pose proof (push_block_WF own (BTag (Tag (mk_hdr (nxt s) n st0 true (Some (uid (fh f))) own) [BText ""])) f r Hf
                      (new_leaf_WF _ _ _ _ _ _)) as Hp.
        destruct (push_block _ (f :: r)) as [|f' r'] eqn:Ep; [tauto|]. destruct Hp as (H1 & -> & _). split; [split; auto | exact Hr].
      * split; [|exact Hr]. simpl. split; [apply new_leaf_WF | split; auto].
  - destruct (has_name n (stk s)); [now apply close_until_WF | exact H].
  - destruct (stk s) as [|f r] eqn:E; [exact H|]. destruct H as [Hs Hr]. rewrite E in Hs. destruct Hs as [Hf Hrest].
    unfold PstWF. cbn [stk proot].
    pose proof (push_block_WF own (BText d) f r Hf I) as Hp.
    destruct (push_block (BText d) (f :: r)) as [|f' r'] eqn:Ep; [tauto|]. destruct Hp as (H1 & -> & _). split; [split; auto | exact Hr].
Qed.

Theorem dbuild_WF own ts : match fst (dbuild own ts) with Some t => WF None own t | None => True end.
Proof.
  unfold dbuild.
  assert (H : PstWF own (fold_left (dstep own) ts {| stk := []; proot := None; nxt := 0 |})).
  { assert (H0 : PstWF own {| stk := []; proot := None; nxt := 0 |}) by (split; simpl; auto).
    revert H0. generalize {| stk := []; proot := None; nxt := 0 |}. induction ts as [|t ts IH]; intros s H0; simpl; auto.
    apply IH. now apply dstep_WF. }
  set (s := fold_left (dstep own) ts _) in *.
  pose proof (close_all_WF own (length (stk s)) s H) as [_ Hr]. simpl. exact Hr.
Qed.

Lemma spares_WF spares : forall n acc, Forall (WF None None) acc ->
  Forall (WF None None) (snd (fold_left (fun acc ns => (S (fst acc), snd acc ++ [new_tag (fst acc) (fst ns) st0 (snd ns || is_void (fst ns)) None None]))
                                        spares (n, acc))).
Proof.
  induction spares as [|[nm scf] sp IH]; intros n acc H; simpl; auto.
  apply IH. apply Forall_app. split; auto. constructor; auto. apply new_leaf_WF.
Qed.
(* C04 seed: every world the generator starts from (parser-built or API-built document + fresh spare elements) *)
Theorem mk_world_WFw po ts spares : WFw (mk_world po ts spares).
Proof.
  unfold mk_world. pose proof (dbuild_WF (if po then Some 0 else None) ts) as Hr.
  destruct (dbuild (if po then Some 0 else None) ts) as [r n]. simpl in Hr.
  pose proof (spares_WF spares n [] (Forall_nil _)) as Hs.
  destruct r as [t|]; simpl.
  - split; auto. inversion Hr; subst. simpl. rewrite H0. exact Hr.
  - destruct (snd (fold_left _ spares (n, []))) as [|x d] eqn:E; simpl; auto.
    inversion Hs; subst. split; auto. inversion H1; subst. simpl. rewrite H0. exact H1.
Qed.
