(* Proofs about Model/Attr.v and the operation alphabet of Corr/Run_Attr.v (C08, C09, C10). *)
From AHP Require Import Model.Base Model.Str Model.Attr Gen.Tables Proofs.StrProofs Corr.Run_Attr.

(* ------------------------------------------------------------------------------------------------ *)
(* C08: the mapping of plain names                                                                   *)
Definition is_special (k : string) : bool := String.eqb k "class" || String.eqb k "style".
Definition plainp (k : string) : bool := negb (is_special k).
Definition plain (s : st) : list (string * aval) := kfilter plainp (dict s).

Lemma plain_with_classes c s : plain (with_classes c s) = plain s. Proof. reflexivity. Qed.
Lemma plain_with_sty y s : plain (with_sty y s) = plain s. Proof. reflexivity. Qed.

Lemma plain_ensure_style s : plain (ensure_style s) = plain s.
Proof. unfold ensure_style, plain. destruct (sty s); simpl; [apply kfilter_od_del_out | apply kfilter_od_set_out]; reflexivity. Qed.
Lemma plain_assign_style v s : plain (assign_style v s) = plain s.
Proof. unfold assign_style. now rewrite !plain_ensure_style. Qed.
Theorem plain_sync s : plain (sync s) = plain s.
Proof.
  unfold sync, plain. destruct (classes s); simpl; destruct (sty s); simpl;
  repeat (rewrite ?kfilter_od_del_out, ?kfilter_od_set_out by reflexivity); reflexivity.
Qed.
Lemma plain_set_className v s : plain (set_className v s) = plain s. Proof. reflexivity. Qed.

Definition to_aval (v : option string) : aval := match v with Some x => AStr x | None => ANone end.

(* attributes[k] = v on a plain name updates the mapping in place / appends; on class or style leaves it alone *)
Theorem setitem_plain k0 v s : plainp (lower k0) = true -> is_binary_string (lower k0) = false ->
  setitem k0 v s = (with_dict (od_set (lower k0) (to_aval v) (dict s)) s, ROk)
  /\ plain (fst (setitem k0 v s)) = od_set (lower k0) (to_aval v) (plain s).
Proof.
  intros Hp Hb. unfold setitem. unfold plainp, is_special in Hp. apply negb_true_iff, orb_false_iff in Hp as [H1 H2].
  rewrite H2, H1, Hb. split; [reflexivity|]. simpl. unfold plain. simpl. apply kfilter_od_set_in.
  unfold plainp, is_special. now rewrite H1, H2.
Qed.
Theorem setitem_special_plain k0 v s : plainp (lower k0) = false -> plain (fst (setitem k0 v s)) = plain s.
Proof.
  intros Hp. unfold setitem. unfold plainp, is_special in Hp. apply negb_false_iff, orb_true_iff in Hp.
  destruct (String.eqb (lower k0) "style") eqn:E2.
  - set (x := match v with Some x => x | None => "" end). cbn [fst]. unfold plain. cbn [dict with_dict].
    rewrite kfilter_od_set_out by reflexivity.
    fold (plain (assign_style (as_str (sty (ensure_style (with_sty (styleToDict x) s)))) (ensure_style (with_sty (styleToDict x) s)))).
    now rewrite plain_assign_style, plain_ensure_style.
  - destruct Hp as [Hp|Hp]; [|discriminate]. rewrite Hp. reflexivity.
Qed.
Theorem delitem_plain k0 s : plainp (lower k0) = true -> plain (delitem k0 s) = od_del (lower k0) (plain s).
Proof.
  intros Hp. unfold delitem. pose proof Hp as Hp'. unfold plainp, is_special in Hp. apply negb_true_iff, orb_false_iff in Hp as [H1 H2].
  rewrite H2, H1. unfold plain. simpl. now apply kfilter_od_del_in.
Qed.
Theorem delitem_special_plain k0 s : plainp (lower k0) = false -> plain (delitem k0 s) = plain s.
Proof.
  intros Hp. unfold delitem. unfold plainp, is_special in Hp. apply negb_false_iff, orb_true_iff in Hp.
  destruct (String.eqb (lower k0) "style") eqn:E2; [apply plain_assign_style|].
  destruct Hp as [Hp|Hp]; [|discriminate]. rewrite Hp. reflexivity.
Qed.

(* setAttribute = validity check on the name as given, then the store; an invalid name changes nothing *)
Theorem setAttribute_invalid n v s : valid_attr_name n = false -> setAttribute n v s = (s, RExc EKeyError).
Proof. intros H. unfold setAttribute. now rewrite H. Qed.
Theorem setAttribute_valid n v s : valid_attr_name n = true -> setAttribute n v s = setitem n v s.
Proof. intros H. unfold setAttribute. now rewrite H. Qed.
Theorem removeAttribute_plain n s : plainp (lower n) = true -> plain (removeAttribute n s) = od_del (lower n) (plain s).
Proof. intros H. unfold removeAttribute. rewrite <- (lower_idem n) in H. rewrite delitem_plain by exact H. now rewrite lower_idem. Qed.

(* names are matched case-insensitively *)
Theorem setitem_case k v s : setitem (lower k) v s = setitem k v s.
Proof. unfold setitem. now rewrite lower_idem. Qed.
Theorem delitem_case k s : delitem (lower k) s = delitem k s.
Proof. unfold delitem. now rewrite lower_idem. Qed.
Theorem hasAttribute_case n s : hasAttribute (lower n) s = hasAttribute n s.
Proof. unfold hasAttribute, contains. now rewrite !lower_idem. Qed.
Theorem getAttribute_case n s : getAttribute (lower n) s = getAttribute n s.
Proof. unfold getAttribute. now rewrite lower_idem. Qed.

(* views of a plain, non-boolean name *)
Definition show_aval (s : st) := raw_value s.
Theorem getAttribute_plain n s : plainp (lower n) = true -> is_binary (lower n) = false -> is_binary_string (lower n) = false ->
  snd (getAttribute n s) = match od_get (lower n) (plain s) with Some v => raw_value (sync s) v | None => PNone end
  /\ fst (getAttribute n s) = sync s.
Proof.
  intros Hp Hb Hbs. unfold getAttribute. rewrite Hb. pose proof Hp as Hp'. unfold plainp, is_special in Hp.
  apply negb_true_iff, orb_false_iff in Hp as [H1 H2]. rewrite H1, H2. simpl. split; [|reflexivity].
  rewrite <- (plain_sync s). unfold plain. rewrite od_get_kfilter by exact Hp'.
  unfold od_has, getitem. rewrite lower_idem, H2, H1, Hbs. destruct (od_get (lower n) (dict (sync s))); reflexivity.
Qed.
Theorem hasAttribute_plain n s : plainp (lower n) = true -> hasAttribute n s = od_has (lower n) (plain s).
Proof.
  intros Hp. unfold hasAttribute, contains. rewrite !lower_idem. pose proof Hp as Hp'. unfold plainp, is_special in Hp.
  apply negb_true_iff, orb_false_iff in Hp as [H1 H2]. rewrite H1. unfold od_has, plain. now rewrite od_get_kfilter.
Qed.
(* boolean names: True/value when present, False when absent *)
Theorem getAttribute_binary n s : plainp (lower n) = true -> is_binary (lower n) = true -> is_binary_string (lower n) = false ->
  getAttribute n s = (s, match od_get (lower n) (plain s) with
                         | Some v => if truthy (raw_value s v) then raw_value s v else PTrue
                         | None => PFalse end).
Proof.
  intros Hp Hb Hbs. unfold getAttribute. rewrite Hb. f_equal. pose proof Hp as Hp'. unfold plainp, is_special in Hp.
  apply negb_true_iff, orb_false_iff in Hp as [H1 H2]. unfold contains, getitem, plain. rewrite !lower_idem, H1, H2, Hbs.
  rewrite od_get_kfilter by exact Hp'. unfold od_has. destruct (od_get (lower n) (dict s)); reflexivity.
Qed.
(* the ordered views list the plain names in the order of the mapping *)
Theorem items_plain s : kfilter plainp (items (sync s)) = map (fun kv => (fst kv, raw_value (sync s) (snd kv))) (plain s).
Proof.
  rewrite <- (plain_sync s). unfold items, plain, kfilter. induction (dict (sync s)) as [|[k v] d IH]; simpl; auto.
  destruct (plainp k); simpl; now rewrite IH.
Qed.

(* key hygiene of the raw dict: no duplicate keys, ever *)
Definition KeysOK (s : st) : Prop := NoDup (keys (dict s)).
Lemma keysok_ensure s : KeysOK s -> KeysOK (ensure_style s).
Proof. unfold KeysOK, ensure_style. destruct (sty s); simpl; [apply keys_od_del_NoDup | apply keys_od_set_NoDup]. Qed.
Lemma keysok_sync s : KeysOK s -> KeysOK (sync s).
Proof. unfold KeysOK, sync. intros H. destruct (classes s); simpl; destruct (sty s); simpl;
  repeat first [apply keys_od_del_NoDup | apply keys_od_set_NoDup]; exact H. Qed.
Lemma keysok_assign v s : KeysOK s -> KeysOK (assign_style v s).
Proof. intros H. unfold assign_style. apply keysok_ensure, keysok_ensure. exact H. Qed.
Lemma keysok_setitem k v s : KeysOK s -> KeysOK (fst (setitem k v s)).
Proof.
  intros H. unfold setitem. destruct (String.eqb (lower k) "style").
  - cbn [fst]. unfold KeysOK. cbn [dict with_dict]. apply keys_od_set_NoDup. apply keysok_assign, keysok_ensure. exact H.
  - destruct (String.eqb (lower k) "class"); simpl; auto. destruct (is_binary_string (lower k)); simpl;
    unfold KeysOK; simpl; now apply keys_od_set_NoDup.
Qed.
Lemma keysok_delitem k s : KeysOK s -> KeysOK (delitem k s).
Proof.
  intros H. unfold delitem. destruct (String.eqb (lower k) "style"); [now apply keysok_assign|].
  destruct (String.eqb (lower k) "class"); simpl; auto. unfold KeysOK. simpl. now apply keys_od_del_NoDup.
Qed.

(* ------------------------------------------------------------------------------------------------ *)
(* C09: the class list                                                                               *)
Definition spec_add1 (w : string) (l : list string) : list string := if smem w l then l else l ++ [w].

Theorem addClass_single fuel w l : stripWordsOnly w = w -> w <> "" -> has_char " " w = false ->
  addClass_f fuel w l = spec_add1 w l.
Proof.
  intros Hs Hn Hc. destruct fuel; simpl; rewrite Hs, Hc; (destruct (String.eqb w "") eqn:E; [apply String.eqb_eq in E; congruence|]); reflexivity.
Qed.
Theorem removeClass_single fuel w l : stripWordsOnly w = w -> w <> "" -> has_char " " w = false ->
  removeClass_f fuel w l = sremove_first w l.
Proof.
  intros Hs Hn Hc. destruct fuel; simpl; rewrite Hs, Hc; (destruct (String.eqb w "") eqn:E; [apply String.eqb_eq in E; congruence|]); reflexivity.
Qed.
(* addClass of a present name and removeClass of an absent name are no-ops *)
Theorem addClass_present fuel w l : stripWordsOnly w = w -> w <> "" -> has_char " " w = false -> smem w l = true -> addClass_f fuel w l = l.
Proof. intros. rewrite addClass_single by auto. unfold spec_add1. now rewrite H2. Qed.
Theorem removeClass_absent fuel w l : stripWordsOnly w = w -> w <> "" -> has_char " " w = false -> smem w l = false -> removeClass_f fuel w l = l.
Proof. intros. rewrite removeClass_single by auto. now apply sremove_first_absent. Qed.

(* whatever the operand and the fuel: the old list is kept as a prefix, nothing is duplicated, no empty name enters *)
Definition GoodList (l : list string) : Prop := Forall (fun x => x <> "") l.
Theorem addClass_general fuel : forall v l, exists t,
  addClass_f fuel v l = l ++ t /\ (NoDup l -> NoDup (l ++ t)) /\ (GoodList l -> GoodList (l ++ t)).
Proof.
  induction fuel as [|n IH]; intros v l; simpl.
  - destruct (String.eqb (stripWordsOnly v) "") eqn:E; [exists []; rewrite app_nil_r; auto|].
    destruct (has_char " " (stripWordsOnly v)); [exists []; rewrite app_nil_r; auto|].
    destruct (smem (stripWordsOnly v) l) eqn:M; [exists []; rewrite app_nil_r; auto|].
    exists [stripWordsOnly v]. split; auto. split.
    + intros Hd. apply smem_nIn in M. clear - Hd M. induction l as [|a l IHl]; simpl in *; [constructor; [simpl; tauto|constructor]|].
      inversion Hd; subst. constructor; [|apply IHl; tauto]. intro Hi. apply in_app_or in Hi as [Hi|[<-|[]]]; tauto.
    + intros Hg. apply Forall_app. split; auto. constructor; auto. intro H0. rewrite H0 in E. discriminate.
  - destruct (String.eqb (stripWordsOnly v) "") eqn:E; [exists []; rewrite app_nil_r; auto|].
    destruct (has_char " " (stripWordsOnly v)).
    + generalize (split " " (stripWordsOnly v)). intros ws. revert l. induction ws as [|w ws IHw]; intros l; simpl.
      * exists []. rewrite app_nil_r. auto.
      * destruct (IH w l) as (t1 & E1 & D1 & G1). rewrite E1. destruct (IHw (l ++ t1)) as (t2 & E2 & D2 & G2).
        exists (t1 ++ t2). rewrite E2, <- app_assoc. split; auto. rewrite app_assoc. split; auto.
    + destruct (smem (stripWordsOnly v) l) eqn:M; [exists []; rewrite app_nil_r; auto|].
      exists [stripWordsOnly v]. split; auto. split.
      * intros Hd. apply smem_nIn in M. clear - Hd M. induction l as [|a l IHl]; simpl in *; [constructor; [simpl; tauto|constructor]|].
        inversion Hd; subst. constructor; [|apply IHl; tauto]. intro Hi. apply in_app_or in Hi as [Hi|[<-|[]]]; tauto.
      * intros Hg. apply Forall_app. split; auto. constructor; auto. intro H0. rewrite H0 in E. discriminate.
Qed.
Theorem removeClass_general fuel : forall v l,
  (forall x, In x (removeClass_f fuel v l) -> In x l) /\ (NoDup l -> NoDup (removeClass_f fuel v l)).
Proof.
  induction fuel as [|n IH]; intros v l; simpl.
  - destruct (String.eqb (stripWordsOnly v) ""); [auto|]. destruct (has_char " " (stripWordsOnly v)); [auto|].
    split; [intros x; apply sremove_first_incl | apply sremove_first_NoDup].
  - destruct (String.eqb (stripWordsOnly v) ""); [auto|]. destruct (has_char " " (stripWordsOnly v)).
    + generalize (split " " (stripWordsOnly v)). intros ws. revert l. induction ws as [|w ws IHw]; intros l; simpl; [auto|].
      destruct (IH w l) as [I1 D1]. destruct (IHw (removeClass_f n w l)) as [I2 D2]. split; auto.
    + split; [intros x; apply sremove_first_incl | apply sremove_first_NoDup].
Qed.

Lemma words_good v : GoodList (words v).
Proof. unfold GoodList, words. apply Forall_forall. intros x Hx. apply filter_In in Hx as [_ Hx].
  unfold nonempty in Hx. apply negb_true_iff, String.eqb_neq in Hx. exact Hx. Qed.

(* presence of the class key after synchronisation <-> the class list is non-empty; same for style *)
Theorem sync_class_presence s : KeysOK s -> (od_has "class" (dict (sync s)) = true <-> classes s <> []).
Proof.
  intros Hk. unfold sync. destruct (classes s) as [|c cs] eqn:Ec; simpl.
  - split; [|tauto]. intros H. exfalso. destruct (sty s); simpl in H.
    + unfold od_has in H. rewrite od_get_del_other in H by reflexivity. rewrite od_get_del_same in H by exact Hk. discriminate.
    + unfold od_has in H. rewrite od_get_set_other in H by reflexivity. rewrite od_get_del_same in H by exact Hk. discriminate.
  - split; [discriminate|]. intros _. destruct (sty s); simpl; unfold od_has.
    + rewrite od_get_del_other by reflexivity. now rewrite od_get_set_same.
    + rewrite od_get_set_other by reflexivity. now rewrite od_get_set_same.
Qed.
Theorem sync_style_presence s : KeysOK s -> (od_has "style" (dict (sync s)) = true <-> sty s <> []).
Proof.
  intros Hk. unfold sync. destruct (sty s) as [|y ys] eqn:Ey; simpl.
  - split; [|tauto]. intros H. exfalso. unfold od_has in H. destruct (classes s); simpl in H; rewrite Ey in H; simpl in H.
    + rewrite od_get_del_same in H; [discriminate|]. now apply keys_od_del_NoDup.
    + rewrite od_get_del_same in H; [discriminate|]. now apply keys_od_set_NoDup.
  - split; [discriminate|]. intros _. unfold od_has. destruct (classes s); simpl; rewrite Ey; simpl; now rewrite od_get_set_same.
Qed.
Theorem hasAttribute_class s : hasAttribute "class" s = match classes s with [] => false | _ => true end.
Proof. reflexivity. Qed.
(* the synchronised class entry renders the class list *)
Theorem sync_class_value s : KeysOK s -> forall v, od_get "class" (dict (sync s)) = Some v -> raw_value (sync s) v = PStr (join " " (classes s)).
Proof.
  intros Hk v. unfold sync. destruct (classes s) as [|c cs] eqn:Ec; simpl.
  - destruct (sty s) eqn:Ey; simpl; intros H.
    + rewrite od_get_del_other in H by reflexivity. rewrite od_get_del_same in H by exact Hk. discriminate.
    + rewrite od_get_set_other in H by reflexivity. rewrite od_get_del_same in H by exact Hk. discriminate.
  - destruct (sty s) eqn:Ey; simpl; intros H.
    + rewrite od_get_del_other in H by reflexivity. rewrite od_get_set_same in H. inversion H; subst. unfold raw_value, className. simpl. now rewrite Ec.
    + rewrite od_get_set_other in H by reflexivity. rewrite od_get_set_same in H. inversion H; subst. unfold raw_value, className. simpl. now rewrite Ec.
Qed.

(* ------------------------------------------------------------------------------------------------ *)
(* C10: the style mapping                                                                            *)
Lemma sty_ensure s : sty (ensure_style s) = sty s.
Proof. unfold ensure_style. destruct (sty s) eqn:E; simpl; exact E. Qed.
Theorem style_dot_spec n v s : sty (style_dot n v s) = style_put (camel2dash n) v (sty s).
Proof. unfold style_dot. now rewrite sty_ensure. Qed.
Theorem style_setProperty_spec n v s :
  sty (style_setProperty n v s) = style_put n (match v with Some x => x | None => "" end) (sty s).
Proof. reflexivity. Qed.
Theorem assign_style_spec v s : sty (assign_style v s) = styleToDict v.
Proof. unfold assign_style. now rewrite !sty_ensure. Qed.
Theorem copy_style_spec src s : sty (copy_style src s) = styleToDict (as_str (styleToDict src)).
Proof. unfold copy_style. apply assign_style_spec. Qed.
Theorem setitem_style_spec v s : sty (fst (setitem "style" (Some v) s)) = styleToDict (as_str (styleToDict v)).
Proof.
  assert (E : setitem "style" (Some v) s =
     (let s1 := ensure_style (with_sty (styleToDict v) s) in let s2 := assign_style (as_str (sty s1)) s1 in
      (with_dict (od_set "style" AStyleSlot (dict s2)) s2, ROk))) by reflexivity.
  rewrite E. cbn [fst sty with_dict]. rewrite assign_style_spec, sty_ensure. reflexivity.
Qed.
Theorem delitem_style_spec s : sty (delitem "style" s) = [].
Proof. assert (E : delitem "style" s = assign_style "" s) by reflexivity. rewrite E, assign_style_spec. reflexivity. Qed.

(* a name without capitals is its own dash form; camelCase and dash names address the same property *)
Lemma camel2dash_nocaps n : forallb (fun c => negb (is_upper c)) (chars n) = true -> camel2dash n = n.
Proof. induction n as [|c n IH]; simpl; auto. intros H. apply andb_true_iff in H as [H1 H2].
  apply negb_true_iff in H1. rewrite H1. f_equal. auto. Qed.
Lemma camel2dash_nodash_nocaps n : has_char "-" (camel2dash n) = false -> forallb (fun c => negb (is_upper c)) (chars n) = true.
Proof. induction n as [|c n IH]; simpl; auto. destruct (is_upper c) eqn:E; simpl.
  - discriminate.
  - intros H. unfold has_char in H. simpl in H. apply orb_false_iff in H as [_ H]. now apply IH. Qed.
Theorem style_get_spec n d : style_get n d = match od_get (camel2dash n) d with Some v => v | None => "" end.
Proof. unfold style_get. destruct (has_char "-" (camel2dash n)) eqn:E; auto.
  now rewrite (camel2dash_nocaps n (camel2dash_nodash_nocaps n E)). Qed.
Theorem style_write_read n v s : v <> "" -> style_get n (sty (style_dot n v s)) = v.
Proof. intros Hv. rewrite style_get_spec, style_dot_spec. unfold style_put.
  destruct (String.eqb v "") eqn:E; [apply String.eqb_eq in E; congruence|]. now rewrite od_get_set_same. Qed.

(* style equality ignores property order *)
Theorem style_eqb_spec a b : NoDup (keys a) -> NoDup (keys b) ->
  (style_eqb a b = true <-> forall n, od_get n a = od_get n b).
Proof.
  intros Ha Hb. unfold style_eqb. rewrite !andb_true_iff, !forallb_forall. split.
  - intros [[H1 H2] H3] n. destruct (od_get n a) as [v|] eqn:Ea.
    + assert (Hin : In (n, v) a).
      { clear - Ea. induction a as [|[k x] a IH]; simpl in *; [discriminate|]. destruct (String.eqb n k) eqn:E;
        [apply String.eqb_eq in E; inversion Ea; subst; auto | auto]. }
      specialize (H3 _ Hin). simpl in H3. destruct (od_get n b); [apply String.eqb_eq in H3; congruence | discriminate].
    + destruct (od_get n b) as [v|] eqn:Eb; auto. exfalso.
      assert (Hin : In (n, v) b).
      { clear - Eb. induction b as [|[k x] b IH]; simpl in *; [discriminate|]. destruct (String.eqb n k) eqn:E;
        [apply String.eqb_eq in E; inversion Eb; subst; auto | auto]. }
      specialize (H2 _ Hin). simpl in H2. unfold od_has in H2. rewrite Ea in H2. discriminate.
  - intros H. assert (G : forall (x y : sdict), NoDup (keys x) -> forall nv, In nv x -> od_get (fst nv) x = Some (snd nv)).
    { clear. intros x y Hd. induction x as [|[k v] x IH]; simpl; intros nv Hi; [tauto|]. inversion Hd; subst.
      destruct Hi as [<-|Hi]; simpl; [now rewrite String.eqb_refl|].
      destruct (String.eqb (fst nv) k) eqn:E; [|auto]. apply String.eqb_eq in E. exfalso. apply H1. rewrite <- E. now apply in_map. }
    split; [split|]; intros nv Hi.
    + unfold od_has. rewrite <- H, (G a b Ha nv Hi). reflexivity.
    + unfold od_has. rewrite H, (G b a Hb nv Hi). reflexivity.
    + rewrite <- H, (G a b Ha nv Hi). apply String.eqb_refl.
Qed.

(* ------------------------------------------------------------------------------------------------ *)
(* every reachable state (all operations of the alphabet, any history)                               *)
Definition Reach_inv (s : st) : Prop := KeysOK s /\ GoodList (classes s).

Lemma good_removeClass fuel v l : GoodList l -> GoodList (removeClass_f fuel v l).
Proof. intros H. apply Forall_forall. intros x Hx. apply (proj1 (removeClass_general fuel v l)) in Hx.
  unfold GoodList in H. rewrite Forall_forall in H. auto. Qed.
Lemma good_addClass fuel v l : GoodList l -> GoodList (addClass_f fuel v l).
Proof. intros H. destruct (addClass_general fuel v l) as (t & E & _ & G). rewrite E. auto. Qed.

Lemma classes_assign v s : classes (assign_style v s) = classes s.
Proof. unfold assign_style, ensure_style. simpl.
  repeat match goal with |- context [match ?x with [] => _ | _ => _ end] => destruct x; simpl end; reflexivity. Qed.
Lemma inv_setitem k v s : Reach_inv s -> Reach_inv (fst (setitem k v s)).
Proof.
  intros [H1 H2]. split; [now apply keysok_setitem|]. unfold setitem.
  destruct (String.eqb (lower k) "style").
  - cbn [fst classes with_dict]. rewrite classes_assign. unfold ensure_style. cbn [sty with_sty classes].
    destruct (styleToDict _); exact H2.
  - destruct (String.eqb (lower k) "class"); simpl; [apply words_good|]. destruct (is_binary_string (lower k)); simpl; exact H2.
Qed.
Lemma inv_delitem k s : Reach_inv s -> Reach_inv (delitem k s).
Proof.
  intros [H1 H2]. split; [now apply keysok_delitem|]. unfold delitem.
  destruct (String.eqb (lower k) "style"); [now rewrite classes_assign|].
  destruct (String.eqb (lower k) "class"); simpl; [apply words_good | exact H2].
Qed.
Lemma inv_setAttribute n v s : Reach_inv s -> Reach_inv (fst (setAttribute n v s)).
Proof. intros H. unfold setAttribute. destruct (valid_attr_name n); [now apply inv_setitem | exact H]. Qed.
Lemma inv_sync s : Reach_inv s -> Reach_inv (sync s).
Proof. intros [H1 H2]. split; [now apply keysok_sync|]. unfold sync. destruct (classes s) eqn:E; simpl; destruct (sty s); simpl; rewrite ?E; auto. Qed.
Lemma inv_ensure s : Reach_inv s -> Reach_inv (ensure_style s).
Proof. intros [H1 H2]. split; [now apply keysok_ensure|]. unfold ensure_style. destruct (sty s); exact H2. Qed.
Lemma inv_assign v s : Reach_inv s -> Reach_inv (assign_style v s).
Proof. intros [H1 H2]. split; [now apply keysok_assign | now rewrite classes_assign]. Qed.

Lemma inv_dot tag name v ib s : Reach_inv s -> Reach_inv (fst (dot_assign tag name v ib s)).
Proof.
  intros H. unfold dot_assign.
  destruct (String.eqb name "className"). { cbn [fst]. split; [exact (proj1 H) | apply words_good]. }
  destruct (linked tag name).
  - destruct (smem name special_validation_names). { exact H. }
    destruct (is_binary_string (renamed name)). { now apply inv_setAttribute. }
    destruct (is_binary (renamed name)).
    + destruct (match ib with Some b => b | None => match v with Some x => nonempty x | None => false end end).
      { now apply inv_setAttribute. } cbn [fst]. unfold removeAttribute. now apply inv_delitem.
    + now apply inv_setAttribute.
  - destruct (String.eqb name "style"); [|exact H]. destruct v; [|exact H]. cbn [fst]. now apply inv_assign.
Qed.

Theorem step_inv s o : Reach_inv s -> Reach_inv (fst (step s o)).
Proof.
  intros H. destruct o; cbn [step fst].
  - now apply inv_setAttribute.
  - revert s H. induction l as [|[n v] l IH]; intros s H; cbn [setAttributes fst]; auto.
    pose proof (inv_setAttribute n v s H) as H'. destruct (setAttribute n v s) as [s' r]. cbn [fst] in H'. destruct r; cbn [fst]; auto.
  - unfold removeAttribute. now apply inv_delitem.
  - now apply inv_setitem.
  - now apply inv_delitem.
  - now apply inv_dot.
  - now apply inv_dot.
  - split; [exact (proj1 H) | apply words_good].
  - split; [exact (proj1 H) | exact (good_addClass 2 v (classes s) (proj2 H))].
  - unfold removeClass. cbn [fst]. split; [exact (proj1 H) | exact (good_removeClass 2 v (classes s) (proj2 H))].
  - unfold style_dot. apply inv_ensure. exact H.
  - exact H.
  - unfold style_dot. apply inv_ensure. exact H.
  - revert s H. induction l as [|[n v] l IH]; intros s H; cbn [fold_left]; auto. apply IH. unfold style_dot. apply inv_ensure. exact H.
  - now apply inv_assign.
  - unfold copy_style. now apply inv_assign.
  - now apply inv_sync.
  - exact H.
  - unfold getAttribute. destruct (is_binary (lower n)); cbn [fst]; auto.
    destruct (String.eqb (lower n) "class"); cbn [fst]; auto. destruct (String.eqb (lower n) "style"); cbn [fst]; auto. now apply inv_sync.
Qed.

Lemma inv_st0 : Reach_inv st0. Proof. split; constructor. Qed.
Lemma inv_intake attrs : forall s, Reach_inv s -> Reach_inv (fst (intake attrs s)).
Proof.
  unfold intake. assert (G : forall attrs acc, Reach_inv (fst acc) ->
    Reach_inv (fst (fold_left (fun acc kv => match acc with
       | (s, ROk) => let k := lower (fst kv) in if valid_attr_name k then setitem k (snd kv) s else (s, ROk)
       | e => e end) attrs acc))).
  { clear. induction attrs as [|kv attrs IH]; intros acc H; simpl; auto. apply IH.
    destruct acc as [s r]. destruct r; simpl in *; auto. destruct (valid_attr_name (lower (fst kv))); simpl; auto. now apply inv_setitem. }
  intros s H. apply G. exact H.
Qed.
Theorem reachable_inv o attrs ops : forall s r, seed o attrs = (s, r) -> Reach_inv (fold_left (fun s op => fst (step s op)) ops s).
Proof.
  intros s r Hs. assert (H : Reach_inv s).
  { unfold seed in Hs. pose proof (inv_intake attrs st0 inv_st0) as H0. destruct (intake attrs st0) as [s0 r0]. simpl in H0.
    destruct r0; try (inversion Hs; subst; exact H0).
    destruct o; try (inversion Hs; subst; exact H0);
      (unfold clone_attrs in Hs; pose proof (inv_intake (attr_list s0) st0 inv_st0) as H1; rewrite Hs in H1; exact H1). }
  clear Hs. revert s H. induction ops as [|op ops IH]; intros s H; simpl; auto. apply IH. now apply step_inv.
Qed.
