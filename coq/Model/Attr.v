(* Attr.v — the attribute store of an element: SpecialAttributes.py SpecialAttributesDict + StyleAttribute +
   DOMTokenList, and the accessors of Tags.py (constructor intake, __setattr__ dispatch, className/classList,
   addClass/removeClass/hasClass, getAttribute/setAttribute(s)/hasAttribute/removeAttribute, getStyle/setStyle(s),
   getStartTag's attribute part, getAttributesList, cloneNode's attribute copy).
   Raw dict + authoritative class list + style dict, with the lazy synchronisation (_handleClassAttr) explicit.
   The dot-access dispatch tables come from Gen/Tables.v (regenerated from constants.py on every run). *)
From AHP Require Import Model.Base Model.Str Gen.Tables.

Definition sdict := list (string * string).

(* raw values of the dict; the raw values under "class"/"style" are never observed, only key presence and position *)
Inductive aval := ANone | AStr (s : string) | AStyleSlot | AClassSlot.
Record st := { dict : list (string * aval); classes : list string; sty : sdict }.
Definition st0 : st := {| dict := []; classes := []; sty := [] |}.
Definition with_dict d s := {| dict := d; classes := classes s; sty := sty s |}.
Definition with_classes c s := {| dict := dict s; classes := c; sty := sty s |}.
Definition with_sty y s := {| dict := dict s; classes := classes s; sty := y |}.

Inductive exc := EKeyError | EAttributeError | EUnsupported | EIndexSize.
Inductive res := ROk | ROkVal (v : option string) | RExc (e : exc).

(* ---------- style ---------- *)
(* StyleAttribute.styleToDict *)
Definition styleToDict (s : string) : sdict :=
  fold_left (fun d item => match find_c ":" item "" with
                           | Some (n, v) => od_set (lower (strip n)) (strip v) d
                           | None => d end) (split ";" (strip s)) [].
(* StyleAttribute._asStr *)
Definition as_str (d : sdict) : string := join "; " (map (fun nv => fst nv +++ ": " +++ snd nv) d).
(* StyleAttribute.camelCaseToDashName *)
Fixpoint camel2dash (s : string) : string :=
  match s with
  | String c r => if is_upper c then String "-" (String (lower_c c) (camel2dash r)) else String c (camel2dash r)
  | EmptyString => EmptyString
  end.
(* StyleAttribute.__getattribute__ for a property name *)
Definition style_get (name : string) (d : sdict) : string :=
  let dash := camel2dash name in
  let n := if has_char "-" dash then dash else name in
  match od_get n d with Some v => v | None => "" end.
Definition style_put (n v : string) (d : sdict) : sdict := if String.eqb v "" then od_del n d else od_set n v d.
(* StyleAttribute.__eq__ : same key set and same value for every key *)
Definition style_eqb (a b : sdict) : bool :=
  forallb (fun nv => od_has (fst nv) b) a && forallb (fun nv => od_has (fst nv) a) b
  && forallb (fun nv => match od_get (fst nv) b with Some v => String.eqb v (snd nv) | None => false end) a.

(* StyleAttribute._ensureHtmlAttribute *)
Definition ensure_style (s : st) : st :=
  match sty s with
  | [] => with_dict (od_del "style" (dict s)) s
  | _ => with_dict (od_set "style" AStyleSlot (dict s)) s
  end.

(* ---------- class ---------- *)
Definition className (s : st) : string := join " " (classes s).
Definition tostr (v : option string) : string := match v with Some x => x | None => "None" end.
(* Tag.__setattr__ className branch *)
Definition words (v : string) : list string := filter nonempty (split " " (stripWordsOnly v)).
Definition set_className (v : option string) (s : st) : st :=
  with_classes (words (match v with Some x => x | None => "" end)) s.

(* addClass / removeClass recurse on space separated input; a name returned by split(' ') holds no space, so
   two levels suffice: fuel 2, never exhausted (theorem addClass_fuel) *)
Fixpoint addClass_f (fuel : nat) (cn : string) (l : list string) : list string :=
  let cn := stripWordsOnly cn in
  if String.eqb cn "" then l else
  if has_char " " cn then
    match fuel with 0 => l | S n' => fold_left (fun acc one => addClass_f n' one acc) (split " " cn) l end
  else if smem cn l then l else l ++ [cn].
Fixpoint removeClass_f (fuel : nat) (cn : string) (l : list string) : list string :=
  let cn := stripWordsOnly cn in
  if String.eqb cn "" then l else
  if has_char " " cn then
    match fuel with 0 => l | S n' => fold_left (fun acc one => removeClass_f n' one acc) (split " " cn) l end
  else sremove_first cn l.
Definition addClass (cn : string) (s : st) : st := with_classes (addClass_f 2 cn (classes s)) s.
Definition removeClass (cn : string) (s : st) : st * res :=
  let c := stripWordsOnly cn in
  (with_classes (removeClass_f 2 cn (classes s)) s,
   if String.eqb c "" then ROkVal None else if has_char " " c then ROkVal None
   else if smem c (classes s) then ROkVal (Some c) else ROkVal None).
Definition hasClass (cn : string) (s : st) : bool := smem cn (classes s).

(* ---------- SpecialAttributesDict ---------- *)
(* _handleClassAttr *)
Definition sync (s : st) : st :=
  let s1 := match classes s with
            | [] => with_dict (od_del "class" (dict s)) s
            | _ => with_dict (od_set "class" AClassSlot (dict s)) s end in
  match sty s1 with
  | [] => with_dict (od_del "style" (dict s1)) s1
  | _ => with_dict (od_set "style" AStyleSlot (dict s1)) s1
  end.

(* tag.style = <string>   (Tag.__setattr__ style branch: new StyleAttribute(value, tag), old one detached) *)
Definition assign_style (v : string) (s : st) : st := ensure_style (ensure_style (with_sty (styleToDict v) s)).
(* tag.style = <another element's style object>: copied through its string form *)
Definition copy_style (src : string) (s : st) : st := assign_style (as_str (styleToDict src)) s.

Definition is_binary (n : string) : bool := smem n binary_attributes.
Definition is_binary_string (n : string) : bool := smem n binary_string_attributes.

(* conversions.convertToBooleanString on a str / None *)
Definition to_boolean_string (v : option string) : string :=
  match v with
  | None => "false"
  | Some x => let l := lower x in if String.eqb l "false" || String.eqb l "0" then "false" else "true"
  end.

(* __setitem__ *)
Definition setitem (k0 : string) (v : option string) (s : st) : st * res :=
  let k := lower k0 in
  if String.eqb k "style" then
    (* StyleAttribute(None) is the empty style *)
    let x := match v with Some x => x | None => "" end in
    (* tag.style = StyleAttribute(x, tag): __init__ (parse, ensure) then the Tag.__setattr__ copy through str *)
    let s1 := ensure_style (with_sty (styleToDict x) s) in
    let s2 := assign_style (as_str (sty s1)) s1 in
    (* ... and then dict.__setitem__(self, 'style', <raw value>) *)
    (with_dict (od_set "style" AStyleSlot (dict s2)) s2, ROk)
  else if String.eqb k "class" then (set_className v s, ROk)
  else if is_binary_string k then (with_dict (od_set k (AStr (to_boolean_string v)) (dict s)) s, ROk)
  else (with_dict (od_set k (match v with Some x => AStr x | None => ANone end) (dict s)) s, ROk).
(* __delitem__ *)
Definition delitem (k0 : string) (s : st) : st :=
  let k := lower k0 in
  if String.eqb k "style" then assign_style "" s
  else if String.eqb k "class" then set_className (Some "") s
  else with_dict (od_del k (dict s)) s.
(* __contains__ *)
Definition contains (k0 : string) (s : st) : bool :=
  let k := lower k0 in
  if String.eqb k "class" then match classes s with [] => false | _ => true end else od_has k (dict s).

(* values as Python objects, for printing *)
Inductive pyv := PNone | PStr (x : string) | PTrue | PFalse.
Definition raw_value (s : st) (v : aval) : pyv :=
  match v with ANone => PNone | AStr x => PStr x | AStyleSlot => PStr (as_str (sty s)) | AClassSlot => PStr (className s) end.
(* __getitem__ *)
Definition getitem (k0 : string) (s : st) : pyv :=
  let k := lower k0 in
  if String.eqb k "style" then PStr (as_str (sty s))
  else if String.eqb k "class" then PStr (className s)
  else if is_binary_string k then
    PStr (to_boolean_string (match od_get k (dict s) with Some (AStr x) => Some x | _ => None end))
  else match od_get k (dict s) with Some v => raw_value s v | None => PNone end.
Definition truthy (v : pyv) : bool :=
  match v with PNone => false | PFalse => false | PTrue => true | PStr x => nonempty x end.

(* getAttribute(name): returns the value and the state (reads through get()/keys() synchronise) *)
Definition getAttribute (n0 : string) (s : st) : st * pyv :=
  let n := lower n0 in
  if is_binary n then
    (s, if contains n s then (let v := getitem n s in if truthy v then v else PTrue) else PFalse)
  else if String.eqb n "class" then (s, PStr (className s))
  else if String.eqb n "style" then (s, PStr (as_str (sty s)))
  else let s' := sync s in (s', if od_has n (dict s') then getitem n s' else PNone).
Definition hasAttribute (n : string) (s : st) : bool := contains (lower n) s.

(* setAttribute / removeAttribute *)
Definition setAttribute (n : string) (v : option string) (s : st) : st * res :=
  if valid_attr_name n then setitem n v s else (s, RExc EKeyError).
Definition removeAttribute (n : string) (s : st) : st := delitem (lower n) s.
Fixpoint setAttributes (l : list (string * option string)) (s : st) : st * res :=
  match l with
  | [] => (s, ROk)
  | (n, v) :: r => match setAttribute n v s with
                   | (s', ROk) => setAttributes r s'
                   | (s', e) => (s', e)
                   end
  end.

(* constructor intake: lower-case, drop invalid names silently, route through __setitem__ *)
Definition intake (attrs : list (string * option string)) (s : st) : st * res :=
  fold_left (fun acc kv => match acc with
                           | (s, ROk) => let k := lower (fst kv) in
                                         if valid_attr_name k then setitem k (snd kv) s else (s, ROk)
                           | e => e end) attrs (s, ROk).

(* items() after synchronisation, with printable values *)
Definition items (s : st) : list (string * pyv) := map (fun kv => (fst kv, raw_value s (snd kv))) (dict s).
(* getAttributesList(): names and str(value) (None stays None) *)
Definition attr_list (s : st) : list (string * option string) :=
  map (fun kv => (fst kv, match raw_value s (snd kv) with PStr x => Some x | _ => None end)) (dict (sync s)).
(* cloneNode / copy / unpickle: a new element from the attribute list *)
Definition clone_attrs (s : st) : st * res := intake (attr_list s) st0.

(* attribute part of getStartTag (after items() synchronised) *)
Definition render_attr (s : st) (kv : string * aval) : string :=
  let n := fst kv in
  match raw_value s (snd kv) with
  | PStr x => if nonempty x || negb (is_binary n) then n +++ "=""" +++ escape_quotes x +++ """" else n
  | _ => n
  end.
Definition start_attrs (s : st) : string := join " " (map (render_attr s) (dict s)).

(* ---------- dot assignment (Tag.__setattr__) for an element named tag ---------- *)
Definition linked (tag name : string) : bool :=
  smem name attribute_links || match od_get tag tag_additional with Some l => smem name l | None => false end.
Definition renamed (name : string) : string := match od_get name change_name with Some n => n | None => name end.

Definition style_dot (name v : string) (s : st) : st := ensure_style (with_sty (style_put (camel2dash name) v (sty s)) s).
Definition style_setProperty (n : string) (v : option string) (s : st) : st :=
  with_sty (style_put n (match v with Some x => x | None => "" end) (sty s)) s.

Definition dot_assign (tag name : string) (v : option string) (isbool : option bool) (s : st) : st * res :=
  if String.eqb name "className" then (set_className v s, ROk)
  else if linked tag name then
    if smem name special_validation_names then (s, RExc EUnsupported)
    else
      let n := renamed name in
      if is_binary_string n then
        (* self.setAttribute(name, value): the store converts the value to "true" / "false" *)
        setAttribute n (match isbool with Some b => Some (if b then "true" else "false") | None => v end) s
      else if is_binary n then
        let truth := match isbool with Some b => b | None => match v with Some x => nonempty x | None => false end end in
        if truth then setAttribute n (Some "") s else (removeAttribute n s, ROk)
      else setAttribute n (Some (match isbool with Some true => "True" | Some false => "False" | None => tostr v end)) s
  else if String.eqb name "style" then
    match v with Some x => (assign_style x s, ROk) | None => (s, RExc EAttributeError) end
  else (s, RExc EUnsupported).
