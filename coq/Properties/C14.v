(* C14 — XPath evaluation selects exactly the elements the expression denotes.
   The model (Model/XPath.v) evaluates a path as the code does: every step maps each current element through its axis and name
   test and keeps first occurrences (TagCollection); every predicate is evaluated on its flat level - generators, function
   arguments and parenthesised groups first, then three left-to-right passes (operations, comparisons, boolean operators) - and
   keeps an element when the result is true or, for a number n, when the element is the n-th among its same-named siblings.
   The theorems are parametric in the number type and its operations (IEEE doubles in the implementation). *)
From AHP Require Import Model.Base Model.Str Model.Attr Model.Dom Model.Search Model.Index Model.Passes Model.XPath
     Proofs.PassesProofs Proofs.SearchProofs Proofs.DomProofs Proofs.IndexProofs Proofs.XPathProofs Proofs.XPathPathProofs.

(* the three-pass evaluation of any admissible flat layout of an expression tree gives the value of the tree *)
Theorem C14_passes_correct : forall (val op : Type) (rank : op -> nat) (app : op -> val -> val -> val), (forall o, rank o <= 2) ->
  forall e l, flay val op rank app e l -> Passes.passes val op rank app l = POk [V (PassesProofs.denote val op app e)].
Proof. exact passes_correct. Qed.
(* the evaluator of the code = the denotation, for every expression, element context and number implementation *)
Theorem C14_evaluator_correct : forall num nadd nsub nmul ndiv nmod neqb nltb nleb nzero of_nat of_digits fuel c e, depth e <= fuel ->
  XPath.eval num nadd nsub nmul ndiv nmod neqb nltb nleb nzero of_nat of_digits fuel c e
  = XPath.denote num nadd nsub nmul ndiv nmod neqb nltb nleb nzero of_nat of_digits c e.
Proof. exact eval_denote. Qed.
(* a predicate keeps exactly the elements on which its denotation is true / names their position; an element on which it is
   neither a boolean nor a number makes the evaluation fail *)
Theorem C14_predicate_filters : forall num nadd nsub nmul ndiv nmod neqb nltb nleb nzero of_nat of_digits doc p l l',
  filter_pred num nadd nsub nmul ndiv nmod neqb nltb nleb nzero of_nat of_digits doc p l = XOk l' ->
  l' = filter (kept num nadd nsub nmul ndiv nmod neqb nltb nleb nzero of_nat of_digits doc p) l
  /\ Forall (fun t => holds num nadd nsub nmul ndiv nmod neqb nltb nleb nzero of_nat of_digits doc p t <> KErr) l.
Proof. exact filter_pred_spec. Qed.
Theorem C14_predicate_errors : forall num nadd nsub nmul ndiv nmod neqb nltb nleb nzero of_nat of_digits doc p l,
  filter_pred num nadd nsub nmul ndiv nmod neqb nltb nleb nzero of_nat of_digits doc p l = XErr
  <-> Exists (fun t => holds num nadd nsub nmul ndiv nmod neqb nltb nleb nzero of_nat of_digits doc p t = KErr) l.
Proof. exact filter_pred_error. Qed.
(* steps keep first occurrences: every uid once, nothing invented, nothing lost *)
Theorem C14_first_occurrences : forall l, NoDup (map tuid (dedup_tags l)) /\ (forall x, In x (dedup_tags l) -> In x l)
  /\ (forall x, In x l -> present x (dedup_tags l) = true).
Proof. exact dedup_tags_spec. Qed.
(* comparison rules of the statement *)
Theorem C14_absent_attribute : forall num nadd nsub nmul ndiv nmod neqb nltb nleb nzero of_nat of_digits s,
  app num nadd nsub nmul ndiv nmod neqb nltb nleb nzero of_nat of_digits OEq (VNull num) (VStr num s) = VBool num false
  /\ app num nadd nsub nmul ndiv nmod neqb nltb nleb nzero of_nat of_digits ONe (VNull num) (VStr num s) = VBool num true
  /\ app num nadd nsub nmul ndiv nmod neqb nltb nleb nzero of_nat of_digits OEq (VStr num s) (VNull num) = VBool num false
  /\ app num nadd nsub nmul ndiv nmod neqb nltb nleb nzero of_nat of_digits ONe (VStr num s) (VNull num) = VBool num true.
Proof. exact absent_attribute. Qed.
Theorem C14_numeric_when_both_numeric : forall num nadd nsub nmul ndiv nmod neqb nltb nleb nzero of_nat of_digits a b x y,
  to_num num of_nat of_digits a = Some x -> to_num num of_nat of_digits b = Some y ->
  let ap := app num nadd nsub nmul ndiv nmod neqb nltb nleb nzero of_nat of_digits in
  ap OEq a b = VBool num (neqb x y) /\ ap ONe a b = VBool num (negb (neqb x y)) /\ ap OLt a b = VBool num (nltb x y)
  /\ ap OGt a b = VBool num (nltb y x) /\ ap OLe a b = VBool num (nleb x y) /\ ap OGe a b = VBool num (nleb y x).
Proof. exact numeric_when_both_numeric. Qed.

(* the upward axes in a well-formed document with unique uids (the C04 invariant): the parent axis yields the element the context
   element is a child of; the ancestor axis yields exactly the elements that have the context element among their descendants *)
Theorem C14_parent_axis : forall doc o, WF None o doc -> NoDup (uids_of doc) -> forall t p, Sub t doc -> parent_elem doc t = Some p ->
  Sub p doc /\ In t (kids p) /\ parent (hd_ t) = Some (tuid p).
Proof. exact parent_elem_spec. Qed.
Theorem C14_ancestor_axis : forall doc o, WF None o doc -> NoDup (uids_of doc) -> forall t r a, Sub t doc -> find r doc = Some a ->
  (In r (map tuid (ancestors doc (length (all_nodes doc)) t)) <-> In (tuid t) (map tuid (descendants a))).
Proof. exact ancestors_spec. Qed.

(* whole location paths.  Steps compose: a path is evaluated as its prefix followed by the rest on the prefix's result (only the
   very first step may select its context element itself) *)
Theorem C14_path_composes : forall num nadd nsub nmul ndiv nmod neqb nltb nleb nzero of_nat of_digits doc s1 s2 first cur, s1 <> [] ->
  run_steps num nadd nsub nmul ndiv nmod neqb nltb nleb nzero of_nat of_digits doc first (s1 ++ s2) cur
  = match run_steps num nadd nsub nmul ndiv nmod neqb nltb nleb nzero of_nat of_digits doc first s1 cur with
    | XOk l => run_steps num nadd nsub nmul ndiv nmod neqb nltb nleb nzero of_nat of_digits doc false s2 l
    | XErr => XErr
    end.
Proof. exact run_steps_app. Qed.
(* the result of a path holds every uid once, and each selected element is reached from one of the start elements through one
   axis image (the element itself, its descendants, its ancestors) per step: nothing outside the lines of the start set is invented *)
Theorem C14_path_sound : forall num nadd nsub nmul ndiv nmod neqb nltb nleb nzero of_nat of_digits doc sts roots l,
  run num nadd nsub nmul ndiv nmod neqb nltb nleb nzero of_nat of_digits doc sts roots = XOk l ->
  NoDup (map tuid l) /\ forall x, In x l -> exists t, In t roots /\ reach doc (length sts) t x.
Proof. exact run_sound. Qed.
(* ... and the result stays inside the document: started from elements of the document, a path selects elements of the document *)
Theorem C14_path_inside_document : forall num nadd nsub nmul ndiv nmod neqb nltb nleb nzero of_nat of_digits doc sts roots l,
  run num nadd nsub nmul ndiv nmod neqb nltb nleb nzero of_nat of_digits doc sts roots = XOk l ->
  Forall (fun t => Sub t doc) roots -> Forall (fun x => Sub x doc) l.
Proof. exact run_inside. Qed.
(* the path //name evaluated from an element is the tag-name search of C06 over that element and its descendants, in document
   order (uids unique, the C04 invariant) *)
Theorem C14_descendant_path_is_search : forall num nadd nsub nmul ndiv nmod neqb nltb nleb nzero of_nat of_digits doc nm root,
  NoDup (map tuid (root :: descendants root)) ->
  run num nadd nsub nmul ndiv nmod neqb nltb nleb nzero of_nat of_digits doc [(true, None, nm, [])] [root]
  = XOk (from_root_search (name_ok nm) root true).
Proof. exact descendant_path_is_from_root. Qed.
(* predicates only filter: a step's predicates never add an element and keep a duplicate-free collection duplicate-free *)
Theorem C14_predicates_only_filter : forall num nadd nsub nmul ndiv nmod neqb nltb nleb nzero of_nat of_digits doc ps l l',
  apply_preds num nadd nsub nmul ndiv nmod neqb nltb nleb nzero of_nat of_digits doc ps l = XOk l' ->
  (forall x, In x l' -> In x l) /\ (NoDup (map tuid l) -> NoDup (map tuid l')).
Proof. exact apply_preds_spec. Qed.

(* non-vacuity: a layout that needs all three passes, over nat as numbers *)
Example C14_ex : let ev := XPath.eval nat Nat.add Nat.sub Nat.mul Nat.div Nat.modulo Nat.eqb Nat.ltb Nat.leb (Nat.eqb 0) (fun n => n) (fun _ => None) in
  ev 3 {| c_attr := fun _ => None; c_text := ""; c_last := 3; c_pos := 2 |}
     (XBin OAnd (XBin OEq (XBin OAdd XPos (XNum 1)) XLast) (XBin OLt (XNum 1) (XBin OMul (XNum 2) (XNum 2)))) = VBool nat true.
Proof. vm_compute. reflexivity. Qed.

(* non-vacuity of the path theorems: //p/parent::div over a three-element document, nat as numbers *)
Example C14_ex_path :
  let doc := appendChild_here (appendChild_here (new_tag 2 "b" st0 false None None) (new_tag 1 "p" st0 false None None))
                              (new_tag 0 "div" st0 false None None) in
  let rn := run nat Nat.add Nat.sub Nat.mul Nat.div Nat.modulo Nat.eqb Nat.ltb Nat.leb (Nat.eqb 0) (fun n => n) (fun _ => None) doc in
  match rn [(true, None, "p", [XBin OEq XPos (XNum 1)]); (false, Some AParent, "div", [])] [doc] with
  | XOk l => map tuid l = [0]
  | XErr => False
  end.
Proof. vm_compute. reflexivity. Qed.
