(* Fragment.v — Parser.py createElement / createElementFromHTML / createElementsFromHTML / createBlocksFromHTML and
   Tags.py appendInnerHTML / appendBlocks, on top of Model/Parser.v and Model/Dom.v. *)
From AHP Require Import Model.Base Model.Str Model.Attr Model.Dom Model.Serial Model.Parser Gen.Tables.

(* createElement: AdvancedTag(tagName.lower()) *)
Definition createElement (u : nat) (n : string) : tag := let nm := lower n in new_tag u nm st0 (is_void nm) None None.

(* createElementFromHTML: the raw first pass only; MultipleRootNodeException is re-raised *)
Definition createElementFromHTML (ts1 : list token) : pres (option tag) :=
  match prun PPlain pinit ts1 with
  | POk s => POk (tree_of s)
  | PRaise e => PRaise e
  end.
(* createElementsFromHTML: parseStr, then the top-level elements *)
Definition createElementsFromHTML (ts1 ts2 : list token) : pres (list tag) :=
  match feed PPlain ts1 ts2 with
  | POk s => POk (root_nodes (tree_of s))
  | PRaise e => PRaise e
  end.
(* createBlocksFromHTML: the blocks of the invisible wrapper, or the single root element itself *)
Definition top_blocks (r : option tag) : list (block tag) :=
  match r with
  | None => []
  | Some t => if is_invisible t then bs_ t else [BTag t]
  end.
Definition createBlocksFromHTML (ts1 ts2 : list token) : pres (list (block tag)) :=
  match feed PPlain ts1 ts2 with
  | POk s => POk (top_blocks (tree_of s))
  | PRaise e => PRaise e
  end.

(* appendBlocks on one element: appendText / appendChild for each block in order *)
Definition appendBlocks_here (bs : list (block tag)) (t : tag) : tag :=
  fold_left (fun acc b => match b with BText s => appendText_here s acc | BTag c => appendChild_here c acc end) bs t.
(* appendInnerHTML(h) = appendBlocks(createBlocksFromHTML(h)) *)
Definition appendInnerHTML_here (ts1 ts2 : list token) (t : tag) : pres tag :=
  match createBlocksFromHTML ts1 ts2 with
  | POk bs => POk (appendBlocks_here bs t)
  | PRaise e => PRaise e
  end.

(* renumbering in document order (for printing): uid, parent and children lists follow the position in the tree *)
Fixpoint tsize (t : tag) : nat :=
  match t with Tag _ bs => S ((fix go (l : list (block tag)) : nat := match l with [] => 0 | BTag c :: r => tsize c + go r | _ :: r => go r end) bs) end.
Fixpoint renum (t : tag) (u : nat) (p : option nat) {struct t} : tag :=
  match t with
  | Tag h bs =>
      let kids := (fix go (l : list (block tag)) (nx : nat) : list nat :=
                     match l with [] => [] | BTag c :: r => nx :: go r (nx + tsize c) | _ :: r => go r nx end) bs (S u) in
      Tag {| uid := u; name := name h; attrs := attrs h; sc := sc h; text := text h; parent := p; owner := owner h;
             children := kids; indent := indent h |}
          ((fix go (l : list (block tag)) (nx : nat) : list (block tag) :=
              match l with
              | [] => []
              | BTag c :: r => BTag (renum c nx (Some u)) :: go r (nx + tsize c)
              | BText s :: r => BText s :: go r nx
              end) bs (S u))
  end.

(* the i-th element child along a path *)
Fixpoint at_path (path : list nat) (t : tag) : option tag :=
  match path with
  | [] => Some t
  | i :: r => match nth_error (tags_of (bs_ t)) i with Some c => at_path r c | None => None end
  end.
