"""C05 - each mutation has exactly its documented effect; failed calls change nothing."""
import json
import re

from harness import core
from harness.props import dom_common as dc


class Ref:
    """plain list-of-blocks reference element: no redundant field"""
    def __init__(self, uid, name, sc):
        self.uid, self.name, self.sc, self.blocks = uid, name, sc, ['']

    def kids(self):
        return [b for b in self.blocks if isinstance(b, Ref)]

    def outer(self):
        if self.sc:
            return '<%s />' % self.name
        return '<%s >%s</%s>' % (self.name, self.inner(), self.name)

    def inner(self):
        if self.sc:
            return ''
        return ''.join(b.outer() if isinstance(b, Ref) else b for b in self.blocks)

    def text_content(self):
        return ''.join(b.text_content() if isinstance(b, Ref) else b for b in self.blocks)

    def shape(self):
        return [self.uid, self.name, self.sc, [b.shape() if isinstance(b, Ref) else b for b in self.blocks]]


class RefWorld:
    def __init__(self, w):
        self.by_uid = {}
        self.parent = {}
        for r in w.roots():
            self._copy(w, r)

    def _copy(self, w, e):
        r = Ref(w.rk(e), e.tagName, e.isSelfClosing)
        r.blocks = []
        self.by_uid[r.uid] = r
        for b in e.blocks:
            if dc.is_tag(b):
                c = self._copy(w, b)
                self.parent[c.uid] = r
                r.blocks.append(c)
            else:
                r.blocks.append(b)
        return r

    def blk(self, b):
        if b is None:
            return None
        return b[1] if b[0] == 'T' else self.by_uid[b[1]]

    @staticmethod
    def index(blocks, x):
        for i, b in enumerate(blocks):
            if (isinstance(x, Ref) and b is x) or (isinstance(x, str) and isinstance(b, str) and b == x):
                return i
        return None

    def append(self, t, b):
        t.blocks.append(b)
        t.sc = False
        if isinstance(b, Ref):
            self.parent[b.uid] = t

    def remove_child(self, t, c):
        i = self.index(t.blocks, c)
        if i is None or not isinstance(c, Ref):
            return False
        del t.blocks[i]
        self.parent.pop(c.uid, None)
        return True

    def apply(self, op):
        """-> expected result string, or a set of acceptable result strings, or None when the return value is not specified"""
        k = op[0]
        t = self.by_uid[op[1]] if len(op) > 1 and isinstance(op[1], int) else None
        if k == 'appendChild':
            self.append(t, self.by_uid[op[2]])
            return 'ok'
        if k == 'appendChildNone':
            return 'exc:KeyError'
        if k == 'appendText':
            self.append(t, op[2])
            return 'ok'
        if k == 'appendBlock':
            self.append(t, self.blk(op[2]))
            return 'ok'
        if k == 'appendBlocks':
            for b in op[2]:
                self.append(t, self.blk(b))
            return 'ok'
        if k in ('insertBefore', 'insertAfter'):
            b, ref = self.blk(op[2]), self.blk(op[3])
            if ref is None:
                self.append(t, b)
                return 'ok'
            i = self.index(t.blocks, ref)
            if i is None:
                return 'exc:ValueError'
            t.blocks.insert(i if k == 'insertBefore' else i + 1, b)
            t.sc = False
            if isinstance(b, Ref):
                self.parent[b.uid] = t
            return 'ok'
        if k == 'removeChild':
            return 'ok' if self.remove_child(t, self.by_uid[op[2]]) else 'None'
        if k == 'removeChildren':
            return 'l:' + ','.join('ok' if self.remove_child(t, self.by_uid[c]) else 'None' for c in op[2])
        if k == 'removeText':
            return self.remove_text(t, op[2])
        if k == 'removeTextAll':
            out = []
            for i, b in enumerate(t.blocks):
                if isinstance(b, str) and op[2] in b:
                    out.append(core.hx(b))
                    t.blocks[i] = b.replace(op[2], '')
            return 'l:' + ','.join(out)
        if k == 'removeBlock':
            b = self.blk(op[2])
            if isinstance(b, Ref):
                return 'ok' if self.remove_child(t, b) else 'None'
            return self.remove_text(t, b)
        if k == 'removeBlocks':
            out = []
            for x in op[2]:
                b = self.blk(x)
                if isinstance(b, Ref):
                    out.append('ok' if self.remove_child(t, b) else 'None')
                else:
                    r = self.remove_text(t, b)
                    out.append(None if r is None else ('None' if r == 'None' else 's'))
            return ('l', out)
        if k == 'remove':
            p = self.parent.get(t.uid)
            if p is None:
                return 'False'
            self.remove_child(p, t)
            return 'True'
        raise AssertionError(op)

    def remove_text(self, t, s):
        """removes the first occurrence of s in the first text block containing it. The documentation of the return value is
        contradictory (docstring: the text after the remove; code and removeTextAll: the text before), so only None / not None is specified."""
        for i, b in enumerate(t.blocks):
            if isinstance(b, str) and s in b:
                t.blocks[i] = b.replace(s, '', 1)
                return None        # some string: unspecified which
        return 'None'


def impl_shape(w, e):
    return [w.rk(e), e.tagName, e.isSelfClosing, [impl_shape(w, b) if dc.is_tag(b) else b for b in e.blocks]]


class C05(core.Check):
    ID = 'C05'
    RUN_MODULE = 'Corr.Run_Dom'
    RUN_FN = 'run_dom'
    CASE_TYPE = dc.CASE_TYPE
    SHARD = 150
    RULE = ('the history space of C04 (random histories incl. failing calls, calls on self-closed, void and freshly parsed elements; all single '
            'calls of a small family), each history executed in lock-step on the library, on the Gallina world model and on a plain '
            'list-of-blocks reference document; after each call: return value / exception, outerHTML, innerHTML, textContent and the block '
            'structure of every element; failing calls must leave the whole world unchanged. non-trivial = a call changes the world')
    TRUSTED = ['uuid4 freshness; list.index/remove through AdvancedTag.__eq__; str.replace/in as transcribed (Model/Dom.v)']
    ASSUMPTIONS = ['precondition: an element passed to an append/insert call is currently detached',
                   'the return value of removeText is only specified as None / not None (its documentation contradicts itself)']
    PARTIAL = []

    def generate(self):
        from harness.props.c04 import C04
        g = C04(self.tier, self.seed)
        g.rng = self.rng
        cases = [c for c in g.generate() if not c.get('oracle_only')]
        self.stats.update(g.stats)
        return cases

    def run_impl(self, case):
        return dc.run_case(case)

    def coq_case(self, case):
        return dc.coq_case(case)

    def oracle(self, case):
        w = dc.World(case)
        ref = RefWorld(w)
        bad = self._compare(w, ref, 'initially')
        if bad:
            return bad
        for i, op in enumerate(case['ops']):
            before = w.snapshot()
            got = w.apply(op)
            exp = ref.apply(op)
            when = 'after call %d %s' % (i, op[0])
            if isinstance(exp, tuple):
                gl = got[2:].split(',') if got.startswith('l:') and got != 'l:' else []
                if not got.startswith('l:') or len(gl) != len(exp[1]):
                    return '%s: returned %s' % (when, got)
                for g, e in zip(gl, exp[1]):
                    if e is None:
                        if g == 'None':
                            return '%s: returned None for a text that was present' % when
                    elif e == 's':
                        pass
                    elif g != e:
                        return '%s: returned %s, documented %s' % (when, got, exp[1])
            elif exp is None:
                if got == 'None' or got.startswith('exc:'):
                    return '%s: returned %s although the text was present' % (when, got)
            elif got != exp:
                return '%s: returned %s, documented effect gives %s' % (when, got, exp)
            if got.startswith('exc:') or got in ('None', 'False'):
                if w.snapshot() != before:
                    return '%s: the call failed (%s) but changed the tree' % (when, got)
            bad = self._compare(w, ref, when)
            if bad:
                return bad
        return None

    def _compare(self, w, ref, when):
        roots = w.roots()
        if sorted(w.rk(r) for r in roots) != sorted(u for u, r in ref.by_uid.items() if u not in ref.parent):
            return '%s: set of tree roots differs from the reference' % when
        for r in roots:
            rr = ref.by_uid[w.rk(r)]
            if impl_shape(w, r) != rr.shape():
                return '%s: blocks of the tree rooted at %d differ from the reference document: %s vs %s' % (
                    when, w.rk(r), json.dumps(impl_shape(w, r)), json.dumps(rr.shape()))
            for e in w.preorder(r):
                re_ = ref.by_uid[w.rk(e)]
                st, en = e.getStartTag(), e.getEndTag()
                views = dict(outerHTML=e.outerHTML, innerHTML=e.innerHTML, textContent=e.textContent)
                if views['outerHTML'] != re_.outer():
                    return '%s: outerHTML of %d is %r, reference %r' % (when, w.rk(e), views['outerHTML'], re_.outer())
                if views['innerHTML'] != re_.inner():
                    return '%s: innerHTML of %d is %r, reference %r' % (when, w.rk(e), views['innerHTML'], re_.inner())
                if views['textContent'] != re_.text_content():
                    return '%s: textContent of %d is %r, reference %r' % (when, w.rk(e), views['textContent'], re_.text_content())
                if not isinstance(st, str) or views['outerHTML'] != st + views['innerHTML'] + en:
                    return '%s: outerHTML of %d is not start tag + innerHTML + end tag' % (when, w.rk(e))
                if not e.isSelfClosing and views['innerHTML'] != ''.join(b.outerHTML if dc.is_tag(b) else b for b in e.blocks):
                    return '%s: innerHTML of %d is not the concatenation of its blocks' % (when, w.rk(e))
                if not (str(e) == e.toHTML() == e.asHTML() == e.getHTML() == views['outerHTML']):
                    return '%s: str/toHTML/asHTML/getHTML of %d disagree' % (when, w.rk(e))
        return None

    def shrink_candidates(self, case):
        ops = case['ops']
        for i in range(len(ops) - 1, -1, -1):
            yield dict(case, ops=ops[:i] + ops[i + 1:])
        for toks in dc.SEED_TOKENS[:2]:
            if case['tokens'] != toks and len(json.dumps(toks)) < len(json.dumps(case['tokens'])):
                yield dict(case, tokens=toks)

    def nontrivial_key(self, case, snap):
        parts = snap.split('\x1f')
        worlds = set(p.split('#')[0] for p in parts)
        return json.dumps(case, sort_keys=True) if len(worlds) > 1 else None

    def finding_key(self, case, what):
        w = re.sub(r'^(initially|after call \d+ \w+): ', '', what)
        return re.sub(r'\d+', 'N', w)[:50]


CHECK = C05
