"""Shared driver for the DOM-world properties (C04, C05; reused by C16/C17/C20): mutation histories on trees.

Elements are addressed by uid rank (creation / discovery order): seed elements in document order, then the spare
detached elements.  `World` wraps the real objects; `snapshot` prints the public observables of every root.
"""
import json

from harness import core
from harness.core import cs, clist

NAMES = ['div', 'span', 'p', 'b', 'ul', 'li', 'a']
VOID = ['br', 'hr', 'img']
TEXTS = ['x', 'yy', 'zz', 'q', '']


def is_tag(b):
    from AdvancedHTMLParser.Tags import AdvancedTag
    return isinstance(b, AdvancedTag)


def render_tokens(toks):
    out = []
    for t in toks:
        if t[0] == 'S':
            out.append('<%s%s>' % (t[1], ' /' if t[2] else ''))
        elif t[0] == 'E':
            out.append('</%s>' % t[1])
        else:
            out.append(t[1])
    return ''.join(out)


def gen_tokens(rng, maxn=8, depth=3):
    """a well-nested single-root token list"""
    toks = []
    count = [0]

    def elem(d):
        count[0] += 1
        if rng.random() < 0.15:
            toks.append(['S', rng.choice(VOID), False])
            return
        n = rng.choice(NAMES)
        if rng.random() < 0.1:
            toks.append(['S', n, True])
            return
        toks.append(['S', n, False])
        for _ in range(rng.randint(0, 3)):
            if count[0] < maxn and d < depth and rng.random() < 0.55:
                elem(d + 1)
            elif rng.random() < 0.6:
                t = rng.choice(TEXTS[:4])
                if not (toks and toks[-1][0] == 'D'):
                    toks.append(['D', t])
        toks.append(['E', n])
    elem(0)
    return toks


class World:
    """the real objects of one case"""

    def __init__(self, case):
        import AdvancedHTMLParser as A
        from AdvancedHTMLParser.Tags import AdvancedTag
        self.A = A
        self.parser = None
        self.objs = []
        self.rank = {}
        toks = case['tokens']
        if case.get('owner', 'parser') == 'parser':
            p = A.AdvancedHTMLParser()
            p.parseStr(render_tokens(toks))
            self.parser = p
            self.root = p.getRoot()
        else:
            # the same tree built through the public DOM API, detached
            stack, root = [], None
            for t in toks:
                if t[0] == 'S':
                    e = AdvancedTag(t[1], None, bool(t[2]))
                    if stack:
                        stack[-1].appendChild(e)
                    elif root is None:
                        root = e
                    if not (t[2] or t[1] in VOID):
                        stack.append(e)
                    elif t[1] in VOID and not t[2]:
                        pass
                elif t[0] == 'E':
                    if stack and stack[-1].tagName == t[1]:
                        stack.pop()
                else:
                    if stack:
                        stack[-1].appendText(t[1])
            self.root = root
        for e in self.preorder(self.root):
            self._reg(e)
        self.detached = []
        for nm, scf in case['spares']:
            e = AdvancedTag(nm, None, bool(scf))
            self._reg(e)
            self.detached.append(e)

    def _reg(self, e):
        self.rank[id(e)] = len(self.objs)
        self.objs.append(e)

    def preorder(self, e):
        out = [e]
        for b in e.blocks:
            if is_tag(b):
                out += self.preorder(b)
        return out

    def roots(self):
        return [self.root] + sorted(self.detached, key=lambda e: self.rank[id(e)])

    def all_elements(self):
        out = []
        for r in self.roots():
            out += self.preorder(r)
        return out

    def el(self, i):
        return self.objs[i]

    def blk(self, b):
        if b is None:
            return None
        return b[1] if b[0] == 'T' else self.objs[b[1]]

    def register_new(self):
        """elements created by the library (appendInnerHTML) get the next ranks in document order"""
        for r in self.roots():
            for e in self.preorder(r):
                if id(e) not in self.rank:
                    self._reg(e)

    # ---- executing one operation; keeps the detached-roots bookkeeping
    def apply(self, op):
        k = op[0]
        t = self.objs[op[1]] if len(op) > 1 and isinstance(op[1], int) else None
        try:
            if k == 'appendChild':
                c = self.objs[op[2]]
                t.appendChild(c)
                self._attached(c)
                return 'ok'
            if k == 'appendChildNone':
                t.appendChild(None)
                return 'ok'
            if k == 'appendText':
                t.appendText(op[2])
                return 'ok'
            if k == 'appendBlock':
                b = self.blk(op[2])
                t.appendBlock(b)
                self._attached(b)
                return 'ok'
            if k == 'appendBlocks':
                bs = [self.blk(b) for b in op[2]]
                t.appendBlocks(bs)
                for b in bs:
                    self._attached(b)
                return 'ok'
            if k in ('insertBefore', 'insertAfter'):
                b, ref = self.blk(op[2]), self.blk(op[3])
                getattr(t, k)(b, ref)
                self._attached(b)
                return 'ok'
            if k == 'removeChild':
                c = self.objs[op[2]]
                r = t.removeChild(c)
                if r is not None:
                    self._detached(c)
                return 'ok' if r is not None else 'None'
            if k == 'removeChildren':
                res = []
                for ci in op[2]:
                    pass
                cs_ = [self.objs[ci] for ci in op[2]]
                rs = t.removeChildren(cs_)
                for c, r in zip(cs_, rs):
                    if r is not None:
                        self._detached(c)
                return 'l:' + ','.join('ok' if r is not None else 'None' for r in rs)
            if k == 'removeBlock':
                b = self.blk(op[2])
                r = t.removeBlock(b)
                if is_tag(b):
                    if r is not None:
                        self._detached(b)
                    return 'ok' if r is not None else 'None'
                return 'None' if r is None else 's:' + core.hx(r)
            if k == 'removeBlocks':
                bs = [self.blk(b) for b in op[2]]
                rs = t.removeBlocks(bs)
                out = []
                for b, r in zip(bs, rs):
                    if is_tag(b):
                        if r is not None:
                            self._detached(b)
                        out.append('ok' if r is not None else 'None')
                    else:
                        out.append('None' if r is None else 's' + core.hx(r))
                return 'l:' + ','.join(out)
            if k == 'removeText':
                r = t.removeText(op[2])
                return 'None' if r is None else 's:' + core.hx(r)
            if k == 'removeTextAll':
                r = t.removeTextAll(op[2])
                return 'l:' + ','.join(core.hx(x) for x in r)
            if k == 'remove':
                r = t.remove()
                if r:
                    self._detached(t)
                return 'True' if r else 'False'
            if k == 'appendInnerHTML':
                t.appendInnerHTML(op[2])
                self.register_new()
                return 'ok'
        except Exception as e:
            return 'exc:' + core.exc_name(e)
        raise AssertionError('unknown op %r' % (op,))

    def _attached(self, b):
        if is_tag(b):
            self.detached = [d for d in self.detached if d is not b]

    def _detached(self, c):
        if c is not self.root and all(d is not c for d in self.detached):
            self.detached.append(c)

    # ---- printing
    def rk(self, e):
        return self.rank.get(id(e), 999)

    def snap_tree(self, e, seen):
        if id(e) in seen:
            return '(SHARED %d)' % self.rk(e)
        seen.add(id(e))
        par = '-' if e.parentNode is None else str(self.rk(e.parentNode))
        if e.ownerDocument is None:
            own = '-'
        elif e.ownerDocument is self.parser:
            own = '0'
        else:
            own = '?'
        kids = '.'.join(str(self.rk(c)) for c in e.children)
        blocks = ''.join(('T{%s}' % core.hx(b)) if not is_tag(b) else self.snap_tree(b, seen) for b in e.blocks)
        return '(%d,%s,%s,%s,%s,[%s],{%s},%s)' % (self.rk(e), e.tagName, '1' if e.isSelfClosing else '0', par, own, kids,
                                                  core.hx(e.text), blocks)

    def snapshot(self):
        seen = set()
        return '|'.join(self.snap_tree(r, seen) for r in self.roots())


def run_case(case):
    w = World(case)
    out = [w.snapshot()]
    for op in case['ops']:
        r = w.apply(op)
        out.append(w.snapshot() + '#' + r)
    return '\x1f'.join(out)


# ------------------------------------------------------------------------------------------------ Coq side
def coq_blk(b):
    if b is None:
        return 'None'
    return '(KText %s)' % cs(b[1]) if b[0] == 'T' else '(KTag %d)' % b[1]


def coq_oblk(b):
    return 'None' if b is None else '(Some %s)' % coq_blk(b)


def coq_op(op):
    k = op[0]
    if k == 'appendChild':
        return 'OAppendChild %d %d' % (op[1], op[2])
    if k == 'appendChildNone':
        return 'OAppendChildNone %d' % op[1]
    if k == 'appendText':
        return 'OAppendText %d %s' % (op[1], cs(op[2]))
    if k == 'appendBlock':
        return 'OAppendBlock %d %s' % (op[1], coq_blk(op[2]))
    if k == 'appendBlocks':
        return 'OAppendBlocks %d %s' % (op[1], clist(coq_blk(b) for b in op[2]))
    if k == 'insertBefore':
        return 'OInsertBefore %d %s %s' % (op[1], coq_blk(op[2]), coq_oblk(op[3]))
    if k == 'insertAfter':
        return 'OInsertAfter %d %s %s' % (op[1], coq_blk(op[2]), coq_oblk(op[3]))
    if k == 'removeChild':
        return 'ORemoveChild %d %d' % (op[1], op[2])
    if k == 'removeChildren':
        return 'ORemoveChildren %d %s' % (op[1], clist(str(c) for c in op[2]))
    if k == 'removeBlock':
        return 'ORemoveBlock %d %s' % (op[1], coq_blk(op[2]))
    if k == 'removeBlocks':
        return 'ORemoveBlocks %d %s' % (op[1], clist(coq_blk(b) for b in op[2]))
    if k == 'removeText':
        return 'ORemoveText %d %s' % (op[1], cs(op[2]))
    if k == 'removeTextAll':
        return 'ORemoveTextAll %d %s' % (op[1], cs(op[2]))
    if k == 'remove':
        return 'ORemove %d' % op[1]
    raise AssertionError(op)


def coq_tokens(toks):
    out = []
    for t in toks:
        if t[0] == 'S':
            out.append('DStart %s %s' % (cs(t[1]), 'true' if t[2] else 'false'))
        elif t[0] == 'E':
            out.append('DEnd %s' % cs(t[1]))
        else:
            out.append('DData %s' % cs(t[1]))
    return clist(out)


def coq_case(case):
    return '(%s, %s, %s, %s)' % ('true' if case.get('owner', 'parser') == 'parser' else 'false', coq_tokens(case['tokens']),
                                 clist('(%s, %s)' % (cs(n), 'true' if s else 'false') for n, s in case['spares']),
                                 clist(coq_op(o) for o in case['ops']))


CASE_TYPE = '(bool * list dtoken * list (string * bool) * list op)'


# ------------------------------------------------------------------------------------------------ generation
def straddling(t):
    """needles that occur in the concatenated text of t but cross the boundary between two of its text blocks"""
    texts = [b for b in t.blocks if not is_tag(b) and b]
    out = []
    for i in range(len(texts) - 1):
        a, b = texts[i], texts[i + 1]
        for n in (a[-1:] + b[:1], a + b[:1], a[-1:] + b, a + b):
            if n and n not in out and not any(n in x for x in texts):
                out.append(n)
    return out


def gen_history(rng, case_base, nops, with_inner_html=False):
    """random history respecting the precondition: an element passed to append/insert is currently a detached root
    and does not contain the target.  Runs against the real library to know the evolving shape."""
    case = dict(case_base, ops=[])
    w = World(case)
    ops = []
    for _ in range(nops):
        els = w.all_elements()
        t = rng.choice(els)
        sub = set(id(x) for x in w.preorder(t))
        anc = set()
        a = t
        while a is not None:
            anc.add(id(a))
            a = a.parentNode
        free = [d for d in w.detached if id(d) not in anc and d is not t]
        ti = w.rk(t)

        def rblk(allow_tag=True):
            if allow_tag and free and rng.random() < 0.55:
                return ['E', w.rk(rng.choice(free))]
            return ['T', rng.choice(TEXTS)]

        def refblk():
            choices = [None, ['T', 'nope']]
            for b in t.blocks:
                choices.append(['E', w.rk(b)] if is_tag(b) else ['T', b])
            if free:
                choices.append(['E', w.rk(free[0])])       # a tag that is not a child
            return rng.choice(choices)
        k = rng.choice(['appendChild', 'appendText', 'appendBlock', 'appendBlocks', 'insertBefore', 'insertAfter', 'insertBefore',
                        'insertAfter', 'removeChild', 'removeChildren', 'removeBlock', 'removeBlocks', 'removeText', 'removeTextAll',
                        'remove', 'appendChildNone'] + (['appendInnerHTML'] if with_inner_html else []))
        if k == 'appendChild':
            if not free:
                continue
            op = [k, ti, w.rk(rng.choice(free))]
        elif k == 'appendChildNone':
            if rng.random() < 0.7:
                continue
            op = [k, ti]
        elif k == 'appendText':
            op = [k, ti, rng.choice(TEXTS)]
        elif k == 'appendBlock':
            op = [k, ti, rblk()]
        elif k == 'appendBlocks':
            bs, used = [], set()
            for _ in range(rng.randint(0, 3)):
                b = rblk()
                if b[0] == 'E':
                    if b[1] in used:
                        continue
                    used.add(b[1])
                bs.append(b)
            op = [k, ti, bs]
        elif k in ('insertBefore', 'insertAfter'):
            b = rblk()
            ref = refblk()
            if ref is not None and ref == b:
                continue
            op = [k, ti, b, ref]
        elif k == 'removeChild':
            cands = [w.rk(c) for c in t.children] + ([w.rk(free[0])] if free else []) + [w.rk(rng.choice(els))]
            op = [k, ti, rng.choice(cands)]
        elif k == 'removeChildren':
            cands = [w.rk(c) for c in t.children] + ([w.rk(free[0])] if free else [])
            op = [k, ti, [rng.choice(cands) for _ in range(rng.randint(0, 3))] if cands else []]
        elif k == 'removeBlock':
            b = rng.choice([['T', rng.choice(TEXTS)]] + [['E', w.rk(c)] for c in t.children] + ([['E', w.rk(free[0])]] if free else []))
            op = [k, ti, b]
        elif k == 'removeBlocks':
            pool = [['T', x] for x in TEXTS] + [['E', w.rk(c)] for c in t.children]
            op = [k, ti, [rng.choice(pool) for _ in range(rng.randint(0, 3))]]
        elif k in ('removeText', 'removeTextAll'):
            cands = TEXTS + ['y', 'xx']
            strad = straddling(t)
            op = [k, ti, rng.choice(strad) if strad and rng.random() < 0.4 else rng.choice(cands)]
        elif k == 'remove':
            op = [k, ti]
        elif k == 'appendInnerHTML':
            op = [k, ti, rng.choice(['<b>q</b>', 'x<i>yy</i>zz', '<p>x</p><p>yy</p>', 'text only', ' <span>x</span> '])]
        ops.append(op)
        w.apply(op)
    case['ops'] = ops
    return case


SEED_TOKENS = [
    [['S', 'div', False], ['S', 'a', False], ['D', 'x'], ['E', 'a'], ['D', 'yy'], ['S', 'b', True], ['E', 'div']],
    [['S', 'p', False], ['D', 'x'], ['E', 'p']],
    [['S', 'ul', False], ['S', 'li', False], ['D', 'x'], ['E', 'li'], ['S', 'li', False], ['D', 'yy'], ['S', 'br', False], ['E', 'li'], ['E', 'ul']],
    [['S', 'div', False]],
    [['S', 'div', False], ['S', 'span', False], ['E', 'span'], ['E', 'div']],
    [['S', 'div', False], ['D', 'xx'], ['S', 'span', False], ['D', 'x'], ['E', 'span'], ['D', 'x'], ['E', 'div']],
]
SPARES = [['s1', False], ['s2', False], ['s3', True]]
