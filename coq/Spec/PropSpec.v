(* PropSpec.v — the documented rules for the typed DOM properties, written independently of constants.py from the
   README, the docstrings of conversions.py and the comments of the constants table (C19).  The theorems of
   Properties/C19.v compare the tables generated from the source with these. *)
From AHP Require Import Model.Base Model.PropRules.

Definition doc_rules : list (string * rule) := [
  (* tabIndex: -1 when unset, the integer otherwise (0 when not a number) *)
  ("tabIndex", RIntOrMinus1 "tabindex");
  (* span / colSpan: minimum 1, clamped at 1000, invalid -> 1 *)
  ("span", RIntCapped "span" (KInt 1) (Some 1%Z) (Some 1000%Z) (KInt 1) (KStr ""));
  ("colSpan", RIntCapped "colspan" (KInt 1) (Some 1%Z) (Some 1000%Z) (KInt 1) (KStr ""));
  (* rowSpan: 0 .. 65534, invalid -> 0 *)
  ("rowSpan", RIntCapped "rowspan" (KInt 1) (Some 0%Z) (Some 65534%Z) (KInt 0) (KStr ""));
  (* hspace / vspace: non-negative integer, else 0 *)
  ("hspace", RPosInt "hspace" (KInt 0) (KInt 0));
  ("vspace", RPosInt "vspace" (KInt 0) (KInt 0));
  ("maxLength", RMaxLength);
  (* size: on input a non-negative integer defaulting to 20; elsewhere the text *)
  ("size", RByTag "input" (RPosInt "size" (KInt 20) (KInt 20)) (RAttr "size" (KStr "")));
  (* crossOrigin: use-credentials / anonymous; anything else -> anonymous; unset -> null *)
  ("crossOrigin", REnum "crossorigin" KNone ["use-credentials"; "anonymous"] (KStr "anonymous") KNone);
  (* autocomplete: on/off; form defaults to on (also when empty or invalid), input to "" *)
  ("autocomplete", RByTag "form" (REnum "autocomplete" (KStr "on") ["on"; "off"] (KStr "on") KEmptyIsInvalid)
                                 (REnum "autocomplete" (KStr "") ["on"; "off"] (KStr "") (KStr "")));
  (* method: get/post, default and invalid -> get *)
  ("method", REnum "method" (KStr "get") ["get"; "post"] (KStr "get") (KStr ""));
  ("form", RParentForm);
  (* cols / rows: on textarea >= 1 defaulting to 20 / 2; on frameset the text *)
  ("cols", RByTag "textarea" (RIntRange "cols" (KInt 20) (Some 1%Z) None (KInt 20) (KStr "")) (RAttr "cols" (KStr "")));
  ("rows", RByTag "textarea" (RIntRange "rows" (KInt 2) (Some 1%Z) None (KInt 2) (KStr "")) (RAttr "rows" (KStr "")));
  ("sandbox", RTokenList "sandbox");
  (* track.kind: default subtitles, invalid (and empty) -> metadata *)
  ("kind", REnum "kind" (KStr "subtitles") ["captions"; "chapters"; "descriptions"; "metadata"; "subtitles"] (KStr "metadata") KEmptyIsInvalid)
].

(* the boolean HTML attributes (present / absent) *)
Definition doc_boolean : list string :=
  ["async"; "autofocus"; "autoplay"; "checked"; "compact"; "controls"; "declare"; "default"; "defer"; "disabled"; "formnovalidate";
   "hidden"; "loop"; "multiple"; "muted"; "noresize"; "novalidate"; "nowrap"; "readonly"; "required"; "reversed"; "selected"].
(* boolean through a true/false string *)
Definition doc_boolean_string : list string := ["spellcheck"].
(* properties whose HTML attribute is not simply the lower-cased property name *)
Definition doc_special_names : list (string * string) :=
  [("acceptCharset", "accept-charset"); ("className", "class"); ("encoding", "enctype"); ("httpEquiv", "http-equiv")].
