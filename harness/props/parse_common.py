"""Shared driver for the parser family (C02, C03, C13, C01, C20, C11, C12): recording subclasses that log every
handle_* call the stdlib tokenizer makes (DESIGN 3.3-1), token (de)serialisation, document snapshots."""
import json

from harness import core
from harness.core import cs, clist, copt

_classes = {}


def rec_class(kind):
    """kind: plain | indexed | validating -> recording subclass (harness side only; nothing in /repo changes)"""
    if kind in _classes:
        return _classes[kind]
    import AdvancedHTMLParser as A
    from AdvancedHTMLParser.Validator import ValidatingAdvancedHTMLParser
    base = {'plain': A.AdvancedHTMLParser, 'indexed': A.IndexedAdvancedHTMLParser, 'validating': ValidatingAdvancedHTMLParser}[kind]

    class Rec(base):
        def _reset(self):
            self.__dict__.setdefault('_log', []).append([])
            return base._reset(self)

        def _l(self, t):
            log = self.__dict__.setdefault('_log', [])
            if not log:
                log.append([])
            log[-1].append(t)

        def handle_starttag(self, tagName, attributeList, isSelfClosing=False):
            self._l(['S', tagName, [[k, v] for k, v in attributeList], bool(isSelfClosing)])
            return base.handle_starttag(self, tagName, attributeList, isSelfClosing)

        def handle_startendtag(self, tagName, attributeList):
            # the library overrides it to call handle_starttag(.., True); the log entry is made there
            return base.handle_startendtag(self, tagName, attributeList)

        def handle_endtag(self, tagName):
            self._l(['E', tagName])
            return base.handle_endtag(self, tagName)

        def handle_data(self, data):
            self._l(['D', data])
            return base.handle_data(self, data)

        def handle_entityref(self, name):
            self._l(['R', name])
            return base.handle_entityref(self, name)

        def handle_charref(self, name):
            self._l(['C', name])
            return base.handle_charref(self, name)

        def handle_comment(self, data):
            self._l(['M', data])
            return base.handle_comment(self, data)

        def handle_decl(self, decl):
            self._l(['L', decl])
            return base.handle_decl(self, decl)

        def unknown_decl(self, data):
            self._l(['U', data])
            return base.unknown_decl(self, data)

        def handle_pi(self, data):
            self._l(['P', data])
            return base.handle_pi(self, data)
    Rec.__name__ = 'Rec_' + kind
    _classes[kind] = Rec
    return Rec


def parse_recorded(parser, html):
    """parser.parseStr(html) -> (outcome, pass1 tokens, pass2 tokens or None)"""
    parser.__dict__['_log'] = []
    try:
        parser.parseStr(html)
        outcome = 'ok'
    except Exception as e:
        outcome = 'exc:' + core.exc_name(e)
    segs = [s for s in parser.__dict__.get('_log', [])]
    # segment 0 is opened by parseStr's reset(); a further reset() opens the second pass
    segs = segs if segs else [[]]
    first = segs[0] if len(segs) >= 1 else []
    second = segs[1] if len(segs) >= 2 else None
    if len(segs) > 2:
        outcome += '|extra-reset'
    return outcome, first, second


def preorder(e):
    from AdvancedHTMLParser.Tags import AdvancedTag
    out = [e]
    for b in e.blocks:
        if isinstance(b, AdvancedTag):
            out += preorder(b)
    return out


def pv(v):
    if v is None:
        return 'N'
    if v is True:
        return 'T'
    if v is False:
        return 'F'
    return 'S' + core.hx(str(v))


def snap_tree(e, rank, parser, seen):
    from AdvancedHTMLParser.Tags import AdvancedTag
    if id(e) in seen:
        return '(SHARED)'
    seen.add(id(e))
    par = '-' if e.parentNode is None else str(rank.get(id(e.parentNode), 999))
    own = '-' if e.ownerDocument is None else ('0' if e.ownerDocument is parser else '?')
    kids = '.'.join(str(rank.get(id(c), 999)) for c in e.children)
    attrs = ';'.join('%s=%s' % (core.hx(k), pv(v)) for k, v in e.attributes.items())
    blocks = ''.join(('T{%s}' % core.hx(b)) if not isinstance(b, AdvancedTag) else snap_tree(b, rank, parser, seen) for b in e.blocks)
    return '(%d,%s,%s,%s,%s,[%s],{%s},@%s@,%s)' % (rank[id(e)], e.tagName, '1' if e.isSelfClosing else '0', par, own, kids,
                                                    core.hx(e.text), attrs, blocks)


def doc_snapshot(parser):
    root = parser.getRoot()
    rank = {}
    if root is not None:
        for i, e in enumerate(preorder(root)):
            rank[id(e)] = i
    d = parser.doctype
    s = 'D' + ('N' if d is None else 'S' + core.hx(d))
    s += '|' + (snap_tree(root, rank, parser, set()) if root is not None else '-')
    s += '|R[%s]' % ','.join(str(rank.get(id(e), 999)) for e in parser.getRootNodes())
    try:
        h = parser.getHTML()
        s += '|H' + (core.hx(h) if isinstance(h, str) else '!' + type(h).__name__)
    except ValueError:
        s += '|H-'
    return s


def coq_token(t):
    k = t[0]
    if k == 'S':
        return 'TStart %s %s %s' % (cs(t[1]), clist('(%s, %s)' % (cs(n), copt(v)) for n, v in t[2]), 'true' if t[3] else 'false')
    name = {'E': 'TEnd', 'D': 'TData', 'R': 'TEntity', 'C': 'TChar', 'M': 'TComment', 'L': 'TDecl', 'U': 'TUnknownDecl', 'P': 'TPi'}[k]
    return '%s %s' % (name, cs(t[1]))


def coq_tokens(ts):
    return clist(coq_token(t) for t in ts)


def coq_doc(first, second):
    return '(%s, %s)' % (coq_tokens(first), 'None' if second is None else '(Some %s)' % coq_tokens(second))


PCLASS = {'plain': 'PPlain', 'indexed': 'PIndexed', 'validating': 'PValidating'}
CASE_TYPE = '(pclass * bool * list (list token * option (list token)))'

# Unicode whitespace that Python's str.strip() removes but the ASCII model does not: kept out of every generator
NON_ASCII_WS = '\x85\xa0                　'


def names_ascii(*streams):
    """tag and attribute names must be ASCII for the model (str.lower/isalpha/isalnum are transcribed for ASCII only)"""
    for ts in streams:
        for t in ts or []:
            if t[0] in ('S', 'E'):
                if not t[1].isascii():
                    return False
                if t[0] == 'S' and any(not k.isascii() for k, v in t[2]):
                    return False
    return True
