(* C12 — formatter layout guarantees. *)
From AHP Require Import Model.Base Model.Str Model.Attr Model.Dom Model.Serial Model.Parser Model.Formatter Gen.Tables
     Proofs.DomProofs Proofs.ParserProofs Proofs.FormatterProofs Proofs.FormatterIdemProofs.

(* the indent level and the preformatted depth are, at every point of every run, the number of open non-wrapper elements and
   the number of open pre / code elements (implicit closes and the invisible wrapper included) *)
Theorem C12_counters_step : forall c s t s', fok s t = true -> FInv s -> fstep c s t = POk s' -> FInv s'.
Proof. exact fstep_FInv. Qed.
Theorem C12_counters_run : forall c ts, forallb tok_ok ts = true -> forall s s', FInv s -> frun c s ts = POk s' -> FInv s'.
Proof. exact frun_FInv. Qed.
Theorem C12_counters_wrapped : forall c body s', forallb tok_ok body = true ->
  frun c finit (TStart reserved [] false :: body ++ [TEnd reserved]) = POk s' -> FInv s'.
Proof. exact frun_wrapped_FInv. Qed.
(* indentation law at creation: outside pre / code an element's start (and end) tag is preceded by a line break and
   indent x depth, depth = number of open non-wrapper ancestors; inside pre / code by nothing *)
Theorem C12_indent_law : forall c s n a selfc s', FInv s -> fhandle_start c s n a selfc = POk s' ->
  forall f r, selfc || is_void (lower n) = false -> pstk (fps s') = f :: r ->
  indent (fh f) = if count is_pre_frame (pstk (fps s)) =? 0 then get_indent c (count not_wrapper (pstk (fps s))) else "".
Proof. exact indent_at_creation. Qed.
(* mini output carries no indentation *)
Theorem C12_mini_no_indent : forall c level, cmini c = true -> get_indent c level = "".
Proof. exact mini_no_indent. Qed.
(* slim output: same tree, and each start tag differs from the normal one only by the space before ">" (before "/>" with slimSelfClosing) *)
Theorem C12_slim_same_tree : forall c ts s, frun c s ts = frun (normal_of c) s ts.
Proof. exact slim_same_tree. Qed.
Theorem C12_slim_start_tag : forall c h, cslim c = true ->
  exists body, start_tag h = body +++ (if sc h then " />" else " >") /\
               fstart_tag c h = body +++ (if sc h then (if cslimsc c then "/>" else " />") else ">").
Proof. exact slim_start_tag. Qed.
Theorem C12_normal_is_plain_serialisation : forall c, cslim c = false -> forall t, fouter c t = outer_html t.
Proof. exact fouter_normal. Qed.

(* the rewriting a formatter applies to a text run outside pre / code (tabs to spaces, edge line breaks dropped, edge white space
   collapsed to one space) is idempotent for every text: a text run of formatter output is left as it is by the next pass, which
   is the text half of "mini output is a fixed point" (the other half, no indentation, is C12_mini_no_indent) *)
Theorem C12_text_rewriting_idempotent : forall d, fmt_data (fmt_data d) = fmt_data d.
Proof. exact fmt_data_idempotent. Qed.
Theorem C12_text_rewriting_canonical : forall d, Canon (fmt_data d).
Proof. exact fmt_canon. Qed.
Example C12_text_rewriting_nontrivial :
  let tab := String (ascii_of_nat 9) "" in let nl := String (ascii_of_nat 10) "" in
  fmt_data (nl +++ tab +++ "  a b" +++ tab +++ " " +++ nl) = " a b " /\ fmt_data " a b " = " a b ".
Proof. vm_compute. split; reflexivity. Qed.

(* the known finding, exhibited on the faithful model: every pretty pass adds a line to <style> content *)
Example C12_stable_refuted :
  let c := {| cindent := "  "; cmini := false; cslim := false; cslimsc := false |} in
  let nl := String (ascii_of_nat 10) "" in
  match ffeed c [TStart "style" [] false; TData nl; TEnd "style"] [], ffeed c [TStart "style" [] false; TData (nl +++ nl); TEnd "style"] [] with
  | POk s1, POk s2 => fget_html c s1 = Some (nl +++ "<style >" +++ nl +++ nl +++ "</style>")
                      /\ fget_html c s2 = Some (nl +++ "<style >" +++ nl +++ nl +++ nl +++ "</style>")
  | _, _ => False end.
Proof. vm_compute. split; reflexivity. Qed.
