(* C04, navigation: the sibling properties computed through the children list and those computed through the block list
   describe the same order; next and previous are inverse. *)
From Coq Require Import Lia.
From AHP Require Import Model.Base Model.Str Model.Attr Model.Dom Model.Nav Proofs.DomProofs.

Lemma block_index_add u l : forall i, block_index u l i = option_map (Nat.add i) (block_index u l 0).
Proof.
  induction l as [|[s|c] l IH]; intros i; simpl; auto.
  - rewrite (IH (S i)), (IH 1). destruct (block_index u l 0); simpl; auto; try (f_equal; lia).
  - destruct (Nat.eqb (tuid c) u); simpl; [f_equal; lia|]. rewrite (IH (S i)), (IH 1). destruct (block_index u l 0); simpl; auto; try (f_equal; lia).
Qed.
Lemma nat_index_add u l : forall i, nat_index u l i = option_map (Nat.add i) (nat_index u l 0).
Proof.
  induction l as [|x l IH]; intros i; simpl; auto.
  destruct (Nat.eqb x u); simpl; [f_equal; lia|]. rewrite (IH (S i)), (IH 1). destruct (nat_index u l 0); simpl; auto; try (f_equal; lia).
Qed.

(* the position found in the block list and the position found in the children list point at the same element:
   the latter counts the element blocks before the former *)
Lemma index_agree u : forall bs i, block_index u bs 0 = Some i ->
  nat_index u (map tuid (tags_of bs)) 0 = Some (count_tags i bs)
  /\ (exists c, nth_error bs i = Some (BTag c) /\ tuid c = u)
  /\ tags_of (skipn (S i) bs) = skipn (S (count_tags i bs)) (tags_of bs).
Proof.
  induction bs as [|[s|c] bs IH]; intros i H; simpl in H; [discriminate| |].
  - rewrite block_index_add in H. destruct (block_index u bs 0) as [j|] eqn:E; [|discriminate]. simpl in H. inversion H; subst.
    destruct (IH j eq_refl) as (H1 & H2 & H3). cbn [tags_of count_tags nth_error skipn Nat.add]. auto.
  - destruct (Nat.eqb (tuid c) u) eqn:Eu.
    + inversion H; subst. apply Nat.eqb_eq in Eu. simpl. rewrite Eu, Nat.eqb_refl. repeat split; eauto.
    + rewrite block_index_add in H. destruct (block_index u bs 0) as [j|] eqn:E; [|discriminate]. simpl in H. inversion H; subst.
      destruct (IH j eq_refl) as (H1 & H2 & H3). cbn [tags_of count_tags nth_error skipn Nat.add map nat_index]. rewrite Eu.
      rewrite nat_index_add, H1. simpl. repeat split; auto.
Qed.

Lemma skipn_nth {A} : forall (l : list A) k c, nth_error l k = Some c -> exists r, skipn k l = c :: r.
Proof. induction l as [|x l IH]; intros [|k] c H; simpl in *; try discriminate; [inversion H; eauto | eauto]. Qed.

Section Siblings.
  Variable w : world.
  Variables (p t : tag) (pp o : option nat).
  Hypothesis Hp : parent_tag w t = Some p.
  Hypothesis Hwf : WF pp o p.

  Lemma children_are_tags : children (hd_ p) = map tuid (tags_of (bs_ p)).
  Proof. destruct p as [h bs]. inversion Hwf; subst. assumption. Qed.

  (* nextElementSibling (children list) = the first element among the blocks that follow this element (block list) *)
  Theorem next_element_is_next_tag_block i : block_index (tuid t) (bs_ p) 0 = Some i ->
    next_element_sibling w t = match tags_of (skipn (S i) (bs_ p)) with c :: _ => NTag (tuid c) | [] => NNone end.
  Proof.
    intros Hi. unfold next_element_sibling. rewrite Hp, children_are_tags.
    destruct (index_agree (tuid t) (bs_ p) i Hi) as (H1 & _ & H3). rewrite H1, H3, map_length.
    remember (count_tags i (bs_ p)) as k eqn:Ek. remember (tags_of (bs_ p)) as l eqn:El. clear Ek El H3.
    assert (Hk : k < length l).
    { assert (G : forall l0 j x, nat_index x l0 0 = Some j -> j < length l0).
      { induction l0 as [|y l0 IHl]; intros j x Hj; simpl in Hj; [discriminate|]. destruct (Nat.eqb y x); [inversion Hj; simpl; lia|].
        rewrite nat_index_add in Hj. destruct (nat_index x l0 0) eqn:E; [|discriminate]. simpl in Hj. inversion Hj; subst. simpl.
        specialize (IHl _ _ E). lia. }
      specialize (G _ _ _ H1). now rewrite map_length in G. }
    destruct (Nat.eqb k (length l - 1)) eqn:E.
    - apply Nat.eqb_eq in E. rewrite skipn_all2 by lia. reflexivity.
    - apply Nat.eqb_neq in E. rewrite nth_error_map. destruct (nth_error l (S k)) as [c|] eqn:En.
      + cbn [option_map]. destruct (skipn_nth l (S k) c En) as (r & Hr). now rewrite Hr.
      + apply nth_error_None in En. lia.
  Qed.
End Siblings.

Lemma nth_tag_in : forall (bs : list (block tag)) k c, nth_error bs k = Some (BTag c) -> In c (tags_of bs).
Proof.
  induction bs as [|[s|y] bs IH]; intros [|k] c H; simpl in *; try discriminate; eauto.
  inversion H; subst. now left.
Qed.

(* next and previous are inverse along the block list of one parent *)
Theorem next_previous_inverse bs u i c : NoDup (map tuid (tags_of bs)) ->
  block_index u bs 0 = Some i -> nth_error bs (S i) = Some (BTag c) -> block_index (tuid c) bs 0 = Some (S i).
Proof.
  revert i. induction bs as [|[s|x] bs IH]; intros i Hnd Hi Hn; simpl in Hi; [discriminate| |].
  - rewrite block_index_add in Hi. destruct (block_index u bs 0) as [j|] eqn:E; [|discriminate]. simpl in Hi. inversion Hi; subst.
    simpl in Hn. cbn [block_index]. rewrite block_index_add, (IH j Hnd eq_refl Hn). reflexivity.
  - simpl in Hnd. inversion Hnd as [|? ? Hx Hnd']; subst. destruct (Nat.eqb (tuid x) u) eqn:Eu.
    + inversion Hi; subst. simpl in Hn. cbn [block_index].
      destruct (Nat.eqb (tuid x) (tuid c)) eqn:Ec.
      * exfalso. apply Nat.eqb_eq in Ec. apply Hx. rewrite Ec. destruct bs as [|[s|y] bs]; simpl in Hn; try discriminate. inversion Hn; subst. now left.
      * rewrite block_index_add. destruct bs as [|[s|y] bs]; simpl in Hn; try discriminate. inversion Hn; subst. simpl. now rewrite Nat.eqb_refl.
    + rewrite block_index_add in Hi. destruct (block_index u bs 0) as [j|] eqn:E; [|discriminate]. simpl in Hi. inversion Hi; subst.
      simpl in Hn. cbn [block_index]. destruct (Nat.eqb (tuid x) (tuid c)) eqn:Ec.
      * exfalso. apply Nat.eqb_eq in Ec. apply Hx. rewrite Ec. apply in_map. apply (nth_tag_in bs (S j) c). exact Hn.
      * rewrite block_index_add, (IH j Hnd' eq_refl Hn). reflexivity.
Qed.
