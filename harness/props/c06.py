"""C06 - every search returns exactly the matching elements of its scope, once, in order."""
import json
import re

from harness import core
from harness.core import cs, clist, copt
from harness.props import parse_common as pc
from harness.props import c02

NAMES = ['div', 'span', 'p']
IDS = ['a', 'b', 'c', 'd', 'e', 'f', 'g', 'h', 'i', 'j', 'k', 'l', 'm', 'n', 'o', 'q']
CLASSES = ['x', 'y', 'xy', 'w']        # 'xy' holds two other names as substrings: a token test is not a substring test
NAMEVALS = ['n1', 'n2']
DATAVALS = ['1', '2', 'Abc', 'abcd']
TEXTS = ['hello', 'Hello world', 'x', '']


def gen_doc(rng, nmax, multi=False):
    """c02-format generator tokens for a document with heavy reuse of few names/classes/values; ids unique"""
    ids = list(IDS)
    rng.shuffle(ids)
    count = [0]

    def elem(depth):
        count[0] += 1
        attrs = []
        if ids and rng.random() < 0.4:
            attrs.append(['id', ids.pop(), '"'])
        if rng.random() < 0.5:
            k = rng.randint(1, 3)
            attrs.append(['class', ' '.join(rng.sample(CLASSES, k)), '"'])
        if rng.random() < 0.35:
            attrs.append(['name', rng.choice(NAMEVALS), '"'])
        if rng.random() < 0.4:
            attrs.append(['data-x', rng.choice(DATAVALS), '"'])
        name = rng.choice(NAMES)
        if depth > 0 and rng.random() < 0.12:
            return [['S', name, attrs, True]]            # written <name ... />: an element that closes itself
        toks = [['S', name, attrs, False]]
        if rng.random() < 0.6:
            t = rng.choice(TEXTS)
            if t:
                toks.append(['T', t])
        nkids = rng.choice([0, 0, 1, 2, 3]) if depth < 4 else 0
        for _ in range(nkids):
            if count[0] >= nmax:
                break
            toks += elem(depth + 1)
            if rng.random() < 0.3:
                toks.append(['T', rng.choice(['x', 'tail'])])
        toks.append(['E', name])
        return toks
    toks = elem(0)
    if multi:
        toks += elem(0)
    clean = []
    for tk in toks:
        if tk[0] == 'T' and clean and clean[-1][0] == 'T':
            clean[-1] = ['T', clean[-1][1] + tk[1]]
        else:
            clean.append(tk)
    return clean


PREDS = [['hasattr', 'data-x'], ['hasattr', 'id'], ['tag', 'span'], ['tag', 'div'], ['textcontains', 'x'], ['textcontains', 'hello'],
         ['not', ['hasattr', 'class']], ['and', ['tag', 'p'], ['hasattr', 'name']]]


def pred_fn(p):
    k = p[0]
    if k == 'hasattr':
        return lambda e: e.hasAttribute(p[1])
    if k == 'tag':
        return lambda e: e.tagName == p[1]
    if k == 'textcontains':
        return lambda e: p[1] in e.text
    if k == 'not':
        f = pred_fn(p[1])
        return lambda e: not f(e)
    if k == 'and':
        f, g = pred_fn(p[1]), pred_fn(p[2])
        return lambda e: f(e) and g(e)
    raise AssertionError(p)


def coq_pred(p):
    k = p[0]
    if k == 'hasattr':
        return '(PHasAttr %s)' % cs(p[1])
    if k == 'tag':
        return '(PTag %s)' % cs(p[1])
    if k == 'textcontains':
        return '(PTextContains %s)' % cs(p[1])
    if k == 'not':
        return '(PNot %s)' % coq_pred(p[1])
    return '(PAnd %s %s)' % (coq_pred(p[1]), coq_pred(p[2]))


def gen_query(rng):
    r = rng.random()
    if r < 0.1:
        return ['tagname', rng.choice(NAMES + ['h1'])]
    if r < 0.18:
        return ['name', rng.choice(NAMEVALS + ['zz'])]
    if r < 0.34:
        k = rng.randint(1, 4)
        names = [rng.choice(CLASSES + ['none']) for _ in range(k)]
        sep = rng.choice([' ', ' ', '  '])
        s = sep.join(names)
        if rng.random() < 0.2:
            s = ' ' + s + ' '
        return ['class', s]
    if r < 0.44:
        return ['attr', rng.choice(['data-x', 'name', 'id']), rng.choice(DATAVALS + NAMEVALS + ['a', 'zz'])]
    if r < 0.54:
        return ['attrvalues', rng.choice(['data-x', 'name']), [rng.choice(DATAVALS + NAMEVALS + ['zz']) for _ in range(rng.randint(0, 3))]]
    if r < 0.62:
        return ['id', rng.choice(IDS[:8] + ['zz'])]
    if r < 0.72:
        return ['custom', rng.choice(PREDS)]
    if r < 0.78:
        return ['first', rng.choice(PREDS)]
    if r < 0.9:
        kw = []
        for _ in range(rng.randint(1, 2)):
            key = rng.choice(['tagname', 'text', 'data-x', 'name', 'id', 'class'])
            suffix = rng.choice(['', '', '__contains', '__icontains']) if key != 'tagname' else ''
            if rng.random() < 0.3:
                val = [rng.choice(DATAVALS + NAMES + TEXTS[:3] + ['x', 'n1']) for _ in range(rng.randint(1, 3))]
            else:
                val = rng.choice(DATAVALS + NAMES + TEXTS[:3] + ['x', 'n1', 'ABC'])
            if not any(k == key + suffix for k, v in kw):
                kw.append([key + suffix, val])
        return ['find', kw]
    kw = []
    for _ in range(rng.randint(1, 2)):
        key = rng.choice(['tagname', 'text', 'data-x', 'name', 'id'])
        op = rng.choice(['', '__eq', '__ne', '__contains', '__icontains', '__in'])
        if op == '__in':
            val = [rng.choice(DATAVALS + NAMES + ['n1']) for _ in range(rng.randint(0, 3))]
        else:
            val = rng.choice(DATAVALS + NAMES + TEXTS[:3] + ['n1', 'ABC'])
        if not any(k == key + op for k, v in kw):
            kw.append([key + op, val])
    return [rng.choice(['filter', 'filterOr', 'filterAll', 'filterAllOr']), kw]


class C06(core.Check):
    ID = 'C06'
    RUN_MODULE = 'Corr.Run_Search'
    RUN_FN = 'run_search'
    CASE_TYPE = 'scase'
    SHARD = 100
    RULE = ('random documents (up to 25 elements quick / 80 thorough) with heavy reuse of 3 names, 4 classes, few attribute values and unique ids; '
            'queries over the document vocabulary plus absent values: tag name, name, 1-4 class names with irregular spacing, attribute/value, value sets '
            'of size 0-3, id, predicates from a small family (realised identically in Python and Gallina), find keyword combinations (tagname/text keys, '
            '__contains/__icontains, list values), filter/filterOr/filterAll/filterAllOr keyword combinations; each on the three kinds of receiver '
            '(document, element, TagCollection with nested/overlapping members). Results are compared as uid-rank lists with the model and with a '
            'brute-force filter over an independently computed pre-order traversal. non-trivial = the result is non-empty')
    TRUSTED = ['QueryableList filterAnd/filterOr for the operators eq, ne, contains, icontains, in (external library; hand model)',
               'stdlib html.parser tokenizer (documents enter the model as recorded handler calls)']
    ASSUMPTIONS = ['ids are unique for getElementById; searched values are non-empty strings']
    PARTIAL = ['the QueryableList bridge is an external component: tied by correspondence and oracle, not proved']

    def generate(self):
        rng = self.rng
        cases = []
        ndocs = 160 if self.tier == 'quick' else 2500
        nq = 0
        for _ in range(ndocs):
            toks = gen_doc(rng, 25 if self.tier == 'quick' else 80, multi=rng.random() < 0.15)
            queries = []
            for _ in range(14):
                q = gen_query(rng)
                recv = rng.choice(['doc', 'doc', 'elem', 'coll'])
                queries.append(dict(q=q, recv=recv, sel=[rng.random() for _ in range(4)]))
            # single-result forms from the root element and from random elements, every predicate: the first match in document order
            # can lie deeper than a later matching sibling
            for pr in rng.sample(PREDS, 3):
                queries.append(dict(q=['first', pr], recv='elem', sel=[0.0, 0.0, 0.0, 0.0]))
            for pr in rng.sample(PREDS, 2):
                queries.append(dict(q=['first', pr], recv=rng.choice(['elem', 'doc']), sel=[rng.random() for _ in range(4)]))
            # list-valued contains / icontains criteria whose first alternative matches nothing
            for key, vals in rng.sample([['data-x__contains', ['zzz', 'b']], ['data-x__icontains', ['zzz', 'ABC', '2']], ['name__contains', ['zz', 'n']],
                                         ['name__icontains', ['zz', 'N1']], ['class__contains', ['q', 'x', 'y']], ['id__contains', ['zz', 'a', 'e']],
                                         ['text__contains', ['zz', 'ello']]], 3):
                queries.append(dict(q=['find', [[key, vals]]], recv='doc', sel=[0.0, 0.0, 0.0, 0.0]))
            for key, val in rng.sample([['data-x__icontains', 'abc'], ['data-x__icontains', 'ABC'], ['data-x__icontains', 'bC'], ['name__icontains', 'N1'],
                                        ['name__icontains', 'n'], ['text__icontains', 'HELLO'], ['text__icontains', 'world'], ['data-x__contains', 'A'],
                                        ['data-x__contains', 'bc'], ['class__icontains', 'X']], 3):
                queries.append(dict(q=['find', [[key, val]]], recv='doc', sel=[0.0, 0.0, 0.0, 0.0]))
            nq += len(queries)
            cases.append(dict(toks=toks, queries=queries))
        # directed: an earlier sibling holds a match below it, a later sibling matches itself
        for deep, shallow in ((['S', 'span', [['data-x', '1', '"']], False], ['S', 'span', [['data-x', '2', '"']], False]),
                              (['S', 'div', [['id', 'a', '"']], False], ['S', 'p', [['id', 'b', '"']], False])):
            toks = [['S', 'div', [], False], ['S', 'ul', [], False], ['S', 'li', [], False], deep, ['E', deep[1]], ['E', 'li'], ['E', 'ul'],
                    shallow, ['E', shallow[1]], ['E', 'div']]
            queries = [dict(q=['first', pr], recv=rv, sel=[0.0, 0.0, 0.0, 0.0]) for pr in PREDS for rv in ('elem', 'doc')]
            queries += [dict(q=['custom', pr], recv='elem', sel=[0.0, 0.0, 0.0, 0.0]) for pr in PREDS[:4]]
            nq += len(queries)
            cases.append(dict(toks=toks, queries=queries))
        self.stats.update(documents=ndocs, queries=nq)
        return cases

    # ------------------------------------------------------------------ running queries
    @staticmethod
    def _receiver(p, els, qd):
        from AdvancedHTMLParser.Tags import TagCollection
        recv = qd['recv']
        if recv == 'doc':
            return 'doc', p, None
        if recv == 'elem':
            i = int(qd['sel'][0] * len(els)) % len(els)
            return 'elem', els[i], [i]
        k = 1 + int(qd['sel'][0] * 3)
        idx = []
        for j in range(k):
            i = int(qd['sel'][j + 1] * len(els)) % len(els)
            if i not in idx:
                idx.append(i)
        return 'coll', TagCollection([els[i] for i in idx]), idx

    @staticmethod
    def _call(kind, obj, q):
        k = q[0]
        if k == 'tagname':
            if kind == 'elem':
                return 'unsupported'
            return obj.getElementsByTagName(q[1])
        if k == 'name':
            return obj.getElementsByName(q[1])
        if k == 'class':
            return obj.getElementsByClassName(q[1])
        if k == 'attr':
            return obj.getElementsByAttr(q[1], q[2])
        if k == 'attrvalues':
            return obj.getElementsWithAttrValues(q[1], set(q[2]))
        if k == 'id':
            return obj.getElementById(q[1])
        if k == 'custom':
            return obj.getElementsCustomFilter(pred_fn(q[1]))
        if k == 'first':
            if kind == 'coll':
                return 'unsupported'
            return obj.getFirstElementCustomFilter(pred_fn(q[1]))
        if k == 'find':
            if kind != 'doc':
                return 'unsupported'
            return obj.find(**{a: b for a, b in q[1]})
        if k in ('filter', 'filterOr', 'filterAll', 'filterAllOr'):
            if k.startswith('filterAll') and kind != 'coll':
                return 'unsupported'
            return getattr(obj, k)(**{a: b for a, b in q[1]})
        raise AssertionError(q)

    def _exec(self, case):
        p = pc.rec_class('plain')()
        html = c02.render(case['toks'], None)
        o, f, s = pc.parse_recorded(p, html)
        root = p.getRoot()
        els = pc.preorder(root)
        rank = {id(e): i for i, e in enumerate(els)}
        results = []
        for qd in case['queries']:
            kind, obj, idx = self._receiver(p, els, qd)
            try:
                r = self._call(kind, obj, qd['q'])
            except Exception as e:
                r = 'exc:' + core.exc_name(e)
            results.append((kind, idx, r))
        return (o, f, s), els, rank, results, p

    def run_impl(self, case):
        rec, els, rank, results, p = self._exec(case)
        self._last = (id(case), rec)
        if not pc.names_ascii(rec[1], rec[2]):
            return None
        out = []
        for kind, idx, r in results:
            out.append(self._show(r, rank))
        return '\x1f'.join(out)

    @staticmethod
    def _show(r, rank):
        from AdvancedHTMLParser.Tags import AdvancedTag
        if isinstance(r, str):
            return r
        if r is None:
            return 'None'
        if isinstance(r, AdvancedTag):
            return 'E%d' % rank.get(id(r), 999)
        return '[%s]' % ','.join(str(rank.get(id(e), 999)) for e in r)

    def coq_case(self, case):
        rec = self._last[1] if getattr(self, '_last', (None,))[0] == id(case) else self._exec(case)[0]
        p = pc.rec_class('plain')()
        html = c02.render(case['toks'], None)
        pc.parse_recorded(p, html)
        els = pc.preorder(p.getRoot())
        qs = []
        for qd in case['queries']:
            kind, obj, idx = self._receiver(p, els, qd)
            recv = 'RDoc' if kind == 'doc' else ('(RElem %d)' % idx[0] if kind == 'elem' else '(RColl %s)' % clist(map(str, idx)))
            qs.append('(%s, %s)' % (recv, self._coq_query(qd['q'])))
        return '(%s, %s)' % (pc.coq_doc(rec[1], rec[2]), clist(qs))

    @staticmethod
    def _coq_query(q):
        k = q[0]
        if k == 'tagname':
            return '(QTagName %s)' % cs(q[1])
        if k == 'name':
            return '(QName %s)' % cs(q[1])
        if k == 'class':
            return '(QClass %s)' % cs(q[1])
        if k == 'attr':
            return '(QAttr %s %s)' % (cs(q[1]), cs(q[2]))
        if k == 'attrvalues':
            return '(QAttrValues %s %s)' % (cs(q[1]), clist(cs(v) for v in q[2]))
        if k == 'id':
            return '(QId %s)' % cs(q[1])
        if k == 'custom':
            return '(QCustom %s)' % coq_pred(q[1])
        if k == 'first':
            return '(QFirst %s)' % coq_pred(q[1])

        def kwv(v):
            return '(KList %s)' % clist(cs(x) for x in v) if isinstance(v, list) else '(KOne %s)' % cs(v)
        kws = clist('(%s, %s)' % (cs(a), kwv(b)) for a, b in q[1])
        if k == 'find':
            return '(QFind %s)' % kws
        return '(QFilter %s %s %s)' % ('true' if k in ('filterAll', 'filterAllOr') else 'false', 'true' if k.endswith('Or') else 'false', kws)

    # ------------------------------------------------------------------ oracle: brute force over the pre-order
    def oracle(self, case):
        rec, els, rank, results, p = self._exec(case)
        root = p.getRoot()
        if root is None:
            return None
        multi = root.tagName == 'xxxblank'
        doc_elems = [e for e in els if not (multi and e is root)]
        for qd, (kind, idx, r) in zip(case['queries'], results):
            q = qd['q']
            if r == 'unsupported':
                continue
            sat = self._sat(q)
            if sat is None:
                continue
            if kind == 'doc':
                scope = doc_elems
            elif kind == 'elem':
                e = els[idx[0]]
                scope = pc.preorder(e)[1:] if not q[0].startswith('filter') else pc.preorder(e)
                if multi and e is root:
                    continue
            else:
                members = [els[i] for i in idx]
                if q[0] in ('filter', 'filterOr'):
                    scope = list(members)
                else:
                    scope, seen = [], set()
                    for m in members:
                        for x in pc.preorder(m):
                            if id(x) not in seen:
                                seen.add(id(x))
                                scope.append(x)
                if multi and any(m is root for m in members):
                    continue
            if isinstance(r, str) and r.startswith('exc:'):
                return '%s on %s raised %s' % (json.dumps(q), kind, r)
            exp = [rank[id(e)] for e in scope if sat(e)]
            if q[0] in ('id', 'first'):
                got = None if r is None else rank.get(id(r), 999)
                want = exp[0] if exp else None
                if got != want:
                    return '%s on %s %s returned %s, the first match in document order is %s' % (json.dumps(q), kind, idx, got, want)
            else:
                got = [rank.get(id(e), 999) for e in r]
                if got != exp:
                    return '%s on %s %s returned %s, brute force over the scope gives %s' % (json.dumps(q), kind, idx, got, exp)
        # the same searches asked of the document with root=<element>: an indexed parser answers as the plain parser does (the scope
        # of root= is the plain parser's; C06's own scopes are checked above)
        import AdvancedHTMLParser as A
        html = c02.render(case['toks'], None)
        answers = []
        for pcls in (A.AdvancedHTMLParser, A.IndexedAdvancedHTMLParser):
            pr = pcls()
            pr.parseStr(html)
            if pr.getRoot() is None:
                return None
            pels = pc.preorder(pr.getRoot())
            prank = {id(e): i for i, e in enumerate(pels)}
            row = []
            for qd in case['queries']:
                q = qd['q']
                if qd['recv'] != 'elem' or q[0] not in ('tagname', 'name', 'class', 'attr', 'attrvalues', 'id') or self._sat(q) is None:
                    continue
                e = pels[int(qd['sel'][0] * len(pels)) % len(pels)]
                try:
                    if q[0] == 'tagname':
                        r = pr.getElementsByTagName(q[1], root=e)
                    elif q[0] == 'name':
                        r = pr.getElementsByName(q[1], root=e)
                    elif q[0] == 'class':
                        r = pr.getElementsByClassName(q[1], root=e)
                    elif q[0] == 'attr':
                        r = pr.getElementsByAttr(q[1], q[2], root=e)
                    elif q[0] == 'attrvalues':
                        r = pr.getElementsWithAttrValues(q[1], set(q[2]), root=e)
                    else:
                        r = pr.getElementById(q[1], root=e)
                except Exception as ex:
                    return '%s with root=<%s> on %s raised %s' % (json.dumps(q), e.tagName, pcls.__name__, type(ex).__name__)
                got = (None if r is None else prank.get(id(r), 999)) if q[0] == 'id' else [prank.get(id(x), 999) for x in r]
                row.append((json.dumps(q), prank[id(e)], got))
            answers.append(row)
        for x, y in zip(answers[0], answers[1]):
            if x != y:
                return '%s with root=element #%d: the plain parser returns %s, the indexed parser %s' % (x[0], x[1], x[2], y[2])
        return None

    @staticmethod
    def _sat(q):
        k = q[0]
        if k == 'tagname':
            return lambda e: e.tagName == q[1].lower()
        if k == 'name':
            return lambda e: e.getAttribute('name') == q[1]
        if k == 'class':
            names = [x for x in q[1].split(' ') if x]
            if not names:
                return None
            return lambda e: all(n in e.classList for n in names)
        if k == 'attr':
            return lambda e: e.getAttribute(q[1]) == q[2]
        if k == 'attrvalues':
            return lambda e: e.getAttribute(q[1]) in set(q[2])
        if k == 'id':
            return lambda e: e.getAttribute('id') == q[1]
        if k in ('custom', 'first'):
            return pred_fn(q[1])

        def field(e, key):
            if key == 'tagname':
                return e.tagName
            if key == 'text':
                return e.text
            return e.getAttribute(key)
        if k == 'find':
            tests = []
            for key, val in q[1]:
                key = key.lower()
                ic = key.endswith('__icontains')
                co = key.endswith('__contains')
                base = re.sub('__i?contains$', '', key)
                if (ic or co) and base == 'tagname':
                    return None
                vals = val if isinstance(val, list) else [val]

                def t(e, base=base, vals=vals, ic=ic, co=co):
                    v = field(e, base)
                    v = '' if v is None else str(v)
                    if ic:
                        return any(x.lower() in v.lower() for x in vals)
                    if co:
                        return any(x in v for x in vals)
                    return v in vals
                tests.append(t)
            return lambda e: all(t(e) for t in tests)
        # filter family
        tests = []
        for key, val in q[1]:
            m = re.match(r'^(.+)__(eq|ne|contains|icontains|in)$', key)
            base, op = (m.group(1), m.group(2)) if m else (key, 'eq')

            def t(e, base=base, op=op, val=val):
                v = field(e, base.lower())
                if op == 'eq':
                    return v == val
                if op == 'ne':
                    return v != val
                if op == 'contains':
                    return v is not None and val in v
                if op == 'icontains':
                    return v is not None and val.lower() in v.lower()
                return v in set(val)
            tests.append(t)
        if k.endswith('Or'):
            return lambda e: any(t(e) for t in tests)
        return lambda e: all(t(e) for t in tests)

    def shrink_candidates(self, case):
        qs = case['queries']
        if len(qs) > 1:
            for i in range(len(qs)):
                yield dict(case, queries=[qs[i]])

    def nontrivial_key(self, case, snap):
        return json.dumps(case, sort_keys=True) if re.search(r'\[\d|E\d', snap) else None

    def finding_key(self, case, what):
        m = re.match(r'^\["(\w+)"', what)
        kind = re.search(r' on (doc|elem|coll)', what)
        return '%s/%s/%s' % (m.group(1) if m else '?', kind.group(1) if kind else '?', 'raised' if 'raised' in what else 'result')


CHECK = C06
