(* C10 — the style attribute and the style object are one state seen three ways.
   The mapping is [sty s] (ordered property -> value); str(style) = as_str (sty s). *)
From AHP Require Import Model.Base Model.Str Model.Attr Proofs.StrProofs Proofs.AttrProofs Corr.Run_Attr.

(* all write paths refine one put / one parse *)
Theorem C10_style_dot : forall n v s, sty (style_dot n v s) = style_put (camel2dash n) v (sty s).
Proof. exact style_dot_spec. Qed.
Theorem C10_setProperty : forall n v s,
  sty (style_setProperty n v s) = style_put n (match v with Some x => x | None => "" end) (sty s).
Proof. exact style_setProperty_spec. Qed.
Theorem C10_assign : forall v s, sty (assign_style v s) = styleToDict v.
Proof. exact assign_style_spec. Qed.
Theorem C10_copy : forall src s, sty (copy_style src s) = styleToDict (as_str (styleToDict src)).
Proof. exact copy_style_spec. Qed.
Theorem C10_setitem : forall v s, sty (fst (setitem "style" (Some v) s)) = styleToDict (as_str (styleToDict v)).
Proof. exact setitem_style_spec. Qed.
Theorem C10_delitem : forall s, sty (delitem "style" s) = [].
Proof. exact delitem_style_spec. Qed.
(* camelCase and dash names address the same property; what was written is read back *)
Theorem C10_camel_dash : forall n d, style_get n d = match od_get (camel2dash n) d with Some v => v | None => "" end.
Proof. exact style_get_spec. Qed.
Theorem C10_dash_is_fixpoint : forall n, forallb (fun c => negb (is_upper c)) (chars n) = true -> camel2dash n = n.
Proof. exact camel2dash_nocaps. Qed.
Theorem C10_write_read : forall n v s, v <> "" -> style_get n (sty (style_dot n v s)) = v.
Proof. exact style_write_read. Qed.
(* the style key is present after synchronisation iff a property remains *)
Theorem C10_presence : forall s, KeysOK s -> (od_has "style" (dict (sync s)) = true <-> sty s <> []).
Proof. exact sync_style_presence. Qed.
(* style equality ignores property order *)
Theorem C10_eq_perm : forall a b, NoDup (keys a) -> NoDup (keys b) ->
  (style_eqb a b = true <-> forall n, od_get n a = od_get n b).
Proof. exact style_eqb_spec. Qed.
Theorem C10_reachable : forall o attrs ops s r, seed o attrs = (s, r) ->
  Reach_inv (fold_left (fun s op => fst (step s op)) ops s).
Proof. exact reachable_inv. Qed.

Example C10_ex : let s := style_dot "paddingTop" "5px" (assign_style "Color: RED; a:b;a:c" st0) in
  sty s = [("color", "RED"); ("a", "c"); ("padding-top", "5px")]
  /\ start_attrs (sync s) = "style=""color: RED; a: c; padding-top: 5px"""
  /\ styleToDict (as_str (sty s)) = sty s.
Proof. vm_compute. auto. Qed.
