(* Observe.v — what the observing operations of the library write (C16) and what the copying operations build (C17).
   The only store an observer writes is the attribute mapping of the elements it reads: SpecialAttributesDict._handleClassAttr
   (SpecialAttributes.py 155-177) runs inside items / keys / __iter__ / __repr__ / get and puts or removes the "class" and
   "style" entries (Attr.sync).  Parser.__getstate__ (Parser.py 84-95) works on a copy of the instance dict, so the "reset" hook
   of the live parser stays.  Everything else an observer does is a pure function of the document in this model. *)
From AHP Require Import Model.Base Model.Str Model.Attr Model.Dom Model.Serial Model.Search Model.Index Gen.Tables.

Record ostate := { odoc : tag; odoctype : option string; ohas_reset : bool; oix : option (icfg * idx) }.

(* one observer, by what it does to the internal state *)
Inductive obs :=
| OSync (ranks : list nat)      (* reads the attribute mappings of these elements (document-order ranks) *)
| OPickleParser                 (* pickle.dumps(parser), or of an element owned by it *)
| OCopy (rank : nat).           (* cloneNode / copy / deepcopy / pickle round trip of one element: a new object, nothing written *)

Definition sync_elem : tag -> tag := on_attrs sync.
Definition sync_rank (d : tag) (r : nat) : tag := match nth_uid d r with Some u => update_at u sync_elem d | None => d end.
(* Parser.__getstate__: state = self.__dict__.copy(); state.pop('reset') — the pickled state, and the parser after it *)
Definition parser_getstate (s : ostate) : ostate * ostate :=
  ({| odoc := odoc s; odoctype := odoctype s; ohas_reset := false; oix := oix s |}, s).
Definition ostep (s : ostate) (o : obs) : ostate :=
  match o with
  | OSync ranks => {| odoc := fold_left sync_rank ranks (odoc s); odoctype := odoctype s; ohas_reset := ohas_reset s; oix := oix s |}
  | OPickleParser => snd (parser_getstate s)
  | OCopy _ => s
  end.

(* the snapshot of C16: serialisation; uid, name, parent, owner, children list and text of every element; the index *)
Definition ident (t : tag) : nat * string * option nat * option nat * list nat * string :=
  (tuid t, name (hd_ t), parent (hd_ t), owner (hd_ t), children (hd_ t), text (hd_ t)).
Definition snapshot (s : ostate) :=
  (get_html (Some (odoc s)) (odoctype s), map ident (all_nodes (odoc s)), oix s, ohas_reset s).

(* the raw key order of the attribute mappings (internal; what the correspondence compares step by step) *)
Definition raw_keys (d : tag) : list (list string) := map (fun t => map fst (dict (attrs (hd_ t)))) (all_nodes d).

(* ---- copies (C17) ---- *)
(* cloneNode / __copy__ / __deepcopy__: AdvancedTag(tagName, getAttributesList(), isSelfClosing): childless, new uid *)
Definition clone_node (new_uid : nat) (t : tag) : tag :=
  new_tag new_uid (name (hd_ t)) (fst (clone_attrs (attrs (hd_ t)))) (sc (hd_ t)) None None.
(* AdvancedTag.__getstate__ / __setstate__ (Tags.py 401-446): tagName, getAttributesList(), isSelfClosing, uid, ownerDocument, blocks;
   the children come back through their own state; parent links are rebuilt from the block list *)
Fixpoint unpickle (p : option nat) (t : tag) {struct t} : tag :=
  match t with
  | Tag h bs =>
      Tag {| uid := uid h; name := name h; attrs := fst (clone_attrs (attrs h)); sc := sc h; text := concat_s (texts_of bs);
             parent := p; owner := owner h; children := map tuid (tags_of bs); indent := "" |}
          (map (bmap (unpickle (Some (uid h)))) bs)
  end.
