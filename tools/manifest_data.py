SOURCE_COMMITS = []
_WIP = 'model/proof/correspondence for this property not built yet in this development (work in progress; not a limit of the technique)'
NOT_APPLICABLE = {('C%02d' % i): _WIP for i in range(1, 21)}
CHECKS = {
 'C18': dict(
   text='Theorems (Coq, closed under the global context) over all operand lists and all collections satisfying the ordered-set invariant: '
        'constructor, +, +=, -, -= keep the invariant, never raise, and produce exactly first-occurrence union / exact removal; getAllNodes, '
        'getAllNodeUids, contains(Uid) agree with the pre-order of the trees below the members; ==/!=/hash by (class, uid). The model is the '
        'hand transcription of TagCollection in Model/Collection.v, tied to /repo on every run by executing thousands of operation histories '
        'on the real TagCollection and on the model inside coqc (vm_compute) and comparing full snapshots after every operation.',
   note='Trusted: Coq kernel + vm_compute; the harness (generator, adapter, printers); uuid4 freshness; CPython list/set semantics as transcribed. '
        'The model covers Tags.py TagCollection.__init__/__add__/__iadd__/__sub__/__isub__/_hasTag/append/remove/getAllNodes/getAllNodeUids/contains/containsUid, '
        'AdvancedTag.getAllChildNodes/getAllNodes/getAllNodeUids/containsUid/__eq__/__ne__/__hash__, uniqueTags.'),
 'C15': dict(
   text='Theorems (Coq) for every event history, every admissible pair of bounds 0 <= CLEAR < MAX and every parser/evaluator that are functions: '
        'each result equals a cache-less evaluation of the same text on the same tree (history independence, incl. hits, misses, evictions, '
        're-entries, texts that do not compile or fail at run time), the cache invariant (no duplicate keys, table and recency list agree, '
        'size <= MAX, lock free) holds after every event, and any interleaving of threads at the granularity of lock-protected sections keeps '
        'both. The shipped bounds are regenerated from xpath/_cache.py on every run and the side condition is re-proved. Tie: the real global '
        'cache is driven through the same histories (exhaustive small family at 3/1, long random at the shipped bounds) and compared with the '
        'model after every event; real threads (switch interval 1e-6) are compared with sequential results.',
   note='Thread half is partial: atomicity of lock-protected sections under CPython/GIL, liveness under the real scheduler are observed, not proved. '
        'Trusted: SHA-1 collision freeness; compile/evaluate touch no other shared state (section variables); the translator for the two constants.'),
 'C08': dict(
   text='Theorems (Coq) for all stores and all names/values: every write path (attributes[k]=v, setAttribute, removeAttribute, del) refines an ordered map of the plain names '
        '(update in place / append / delete), class/style writes and synchronising reads leave it untouched, invalid names are rejected atomically with KeyError, names are '
        'case-insensitive, getAttribute (plain and boolean rule), hasAttribute and items() decode that one map in its order; on every reachable state of every history over the '
        'whole operation alphabet the raw dict has no duplicate key. Tie: thousands of histories (exhaustive short, random to 25 ops, 4 element origins) run on the real element and on '
        'the model in coqc, all views compared after every operation incl. read-order effects of lazy synchronisation.',
   note='Trusted: Coq kernel + vm_compute; harness; translator for the dispatch tables (Gen/Tables.v regenerated from constants.py each run); CPython dict order and ASCII str methods as transcribed in Model/Str.v; html.parser/pickle/copy for the views compared by the oracle only. Model: SpecialAttributesDict, StyleAttribute, DOMTokenList and the Tags.py accessors (Model/Attr.v).' + ' Partial: AttributeNodeMap, getAttributesDict, clone/copy/repr/pickle and re-parse views are compared by the Python oracle on every history, not modelled.'),
 'C09': dict(
   text='Theorems (Coq): addClass/removeClass on a single name are append-unless-present / remove-first; for any operand and fuel the old list stays a prefix, addClass adds no duplicate '
        'and no empty name, removeClass only removes; className= yields non-empty names; class key present after synchronisation iff the list is non-empty and then carries the joined list; '
        'invariant on every reachable state of every history. Tie: exhaustive length<=2(3) histories over the property\'s operand set + random to 30 on direct/parsed/cloned/unpickled elements, '
        'all views after every operation.',
   note='Trusted: Coq kernel + vm_compute; harness; translator for the dispatch tables (Gen/Tables.v regenerated from constants.py each run); CPython dict order and ASCII str methods as transcribed in Model/Str.v; html.parser/pickle/copy for the views compared by the oracle only. Model: SpecialAttributesDict, StyleAttribute, DOMTokenList and the Tags.py accessors (Model/Attr.v).' + ' Partial: the multi-name equation addClass("a b") = addClass b . addClass a is covered by the general prefix/no-dup theorem and the correspondence, not as an equation.'),
 'C10': dict(
   text='Theorems (Coq): all seven write paths refine one put / one parse on the ordered style map; camelCase and dash names address the same property; written values read back; '
        'style key present after synchronisation iff a property remains; style equality is lookup-equality (order ignored); reachable-state invariant. Tie: exhaustive/sampled/random write '
        'histories over 6 properties x 6 values x 7 whole-style strings on 4 element origins, all views after every write.',
   note='Trusted: Coq kernel + vm_compute; harness; translator for the dispatch tables (Gen/Tables.v regenerated from constants.py each run); CPython dict order and ASCII str methods as transcribed in Model/Str.v; html.parser/pickle/copy for the views compared by the oracle only. Model: SpecialAttributesDict, StyleAttribute, DOMTokenList and the Tags.py accessors (Model/Attr.v).' + ' Partial: styleToDict(as_str d) = d is checked on every reached state by oracle and in one Example, not proved for all d; non-aliasing is by construction in the model and checked by the oracle.'),
 'C04': dict(
   text='Theorems (Coq, closed): the invariant list of the property (children = element entries of blocks in order, parent/owner links, text = concatenation of text blocks, '
        'self-closing only when empty, one owner throughout a document and none throughout a detached tree) is preserved by every public mutator from every well-formed world, '
        'hence on every reachable state of every history; every parser-built / API-built seed and fresh element satisfies it; appendChild/insert/removeChild permute the multiset of uids '
        '(nothing created, lost, duplicated). Tie: random and single-call histories run on the real objects and on the model in coqc, the complete world compared after every call; the '
        'invariant list and all navigation properties are also evaluated directly on the real objects after every call.',
   note='Trusted: Coq kernel + vm_compute; harness; uuid4 freshness; list.index/remove through AdvancedTag.__eq__ and str.replace/in as transcribed in Model/Dom.v. Model: Tags.py mutators 456-835 (after the fix commits) on a world of trees with all redundant fields kept.' + ' Partial: navigation accessors and appendInnerHTML are checked on the implementation by the oracle only.'),
 'C05': dict(
   text='Theorems (Coq, closed): every mutator refines the plain list-of-blocks reference document (Spec/RefDoc.v): forgetting the redundant fields of the new world gives the reference\'s new '
        'state and the return values agree (removeChild/removeBlock under the C04 invariant); calls that fail (bad reference block, non-child, appendChild(None)) return the world unchanged. '
        'Tie: the C04 history space executed in lock-step on library, model and an independent Python reference document (return values, outerHTML, innerHTML, textContent, block structure).',
   note='Trusted: Coq kernel + vm_compute; harness; uuid4 freshness; list.index/remove through AdvancedTag.__eq__ and str.replace/in as transcribed in Model/Dom.v. Model: Tags.py mutators 456-835 (after the fix commits) on a world of trees with all redundant fields kept.' + ' Partial: remove() is tied through removeChild (its use of the parentNode link is covered by C04 + correspondence); serialisation views are checked by the oracle, their model arrives with C01.'),
 'C02': dict(
   text='Theorems (Coq, closed) over all token streams and parser states: end-tag rules (ignored when not open / closes the innermost / closes the nearest with everything inside), void and self-closed elements never stay open, '
        'attribute intake never fails, no handler raises inside an open element, the wrapped second pass is total, and the tree of every accepted feed satisfies the C04 invariant owned by the parser. '
        'Tie: exhaustive short and random long token sequences rendered to HTML, histories of several parses on plain/indexed/validating parsers: the model is fed the handler calls the real tokenizer made and must reproduce '
        'the full tree with attributes, doctype, getRootNodes, getHTML and the second-pass wrapping; an independent Python stack interpreter checks the property text directly, incl. the five entry points.',
   note="Trusted: Coq kernel + vm_compute; harness incl. the token-recording subclasses; the stdlib html.parser tokenizer is in the loop (its recorded handler calls are the model\\'s input) but not verified; utils.addStartTag/DOCTYPE_MATCH are modelled at token level (Parser.wrap) and compared with the recorded second-pass stream; stripIEConditionals is not modelled. Model: Parser.py handlers/feed/_reset, Validator.py, attribute intake (Model/Parser.v, Model/Attr.v), getHTML (Model/Serial.v)." + ' Partial: the refinement to a plain rose-tree stack specification is represented by the per-token theorems and the independent Python interpreter (oracle), not by a single simulation theorem; entry points are oracle-only.'),
 'C03': dict(
   text='Theorems (Coq, closed) over the full token alphabet: the plain/indexed handler logic raises nothing but the MultipleRootNodeException that feed catches, the wrapped second pass never raises, element creation is total for any attribute list, '
        'hence feed returns normally for every input stream; serialisation is defined whenever a root exists. Tie + observation: hostile strings (0-200 chars) through every parser class/index configuration, recorded handler calls replayed on the model; '
        'the oracle observes no exception, no debugger call, time bound, str results of getHTML/getFormattedHTML/getMiniHTML/outerHTML, reuse of the object, and the four formatters.',
   note="Trusted: Coq kernel + vm_compute; harness incl. the token-recording subclasses; the stdlib html.parser tokenizer is in the loop (its recorded handler calls are the model\\'s input) but not verified; utils.addStartTag/DOCTYPE_MATCH are modelled at token level (Parser.wrap) and compared with the recorded second-pass stream; stripIEConditionals is not modelled. Model: Parser.py handlers/feed/_reset, Validator.py, attribute intake (Model/Parser.v, Model/Attr.v), getHTML (Model/Serial.v)." + ' Partial by nature: wall-clock time, debugger prompts and exceptions inside code the model abstracts are observed, not proved. One known finding is listed (formatter has nothing to format when the serialisation holds no complete token).'),
 'C13': dict(
   text='Theorems (Coq, closed): the validating handlers raise InvalidAttributeName / InvalidClose / MissedClose exactly under the stated stack conditions at the offending token, pop exactly the innermost element otherwise, and whenever they accept '
        'a token, a stream or a whole feed (multi-root retry included) the plain parser reaches the identical state, so the tree is the same and satisfies the C04 invariant. Tie: the C02 sequences + balanced perturbation classes classified by an independent '
        'stack walk (histogram in the evidence), validating parser outcome compared with model and classification; serialisations of library-built trees must validate.',
   note="Trusted: Coq kernel + vm_compute; harness incl. the token-recording subclasses; the stdlib html.parser tokenizer is in the loop (its recorded handler calls are the model\\'s input) but not verified; utils.addStartTag/DOCTYPE_MATCH are modelled at token level (Parser.wrap) and compared with the recorded second-pass stream; stripIEConditionals is not modelled. Model: Parser.py handlers/feed/_reset, Validator.py, attribute intake (Model/Parser.v, Model/Attr.v), getHTML (Model/Serial.v)."),
 'C01': dict(
   text='Theorems (Coq, closed): for every tree, outerHTML is exactly the rendering of the tree\'s token list; for every tree in the domain the parser, fed the tree\'s own handler calls, appends exactly the rebuilt tree as one child and '
        'restores the stack (segment lemma), and a fresh parser ends with it as its closed root; rebuilt trees satisfy the C04 invariant; serialisation is defined whenever a root exists. Tie: random and bounded-family trees built through '
        'the DOM API or by a previous parse: the model reproduces the first serialisation from the tree, the re-parsed tree from the recorded handler calls, the second serialisation, and the kernel compares the recorded calls with the model\'s chunking '
        'of its own token list; the oracle checks tree equality, string fixed point and str-ness on the real objects.',
   note="Trusted: Coq kernel + vm_compute; harness incl. the token-recording subclasses; the stdlib html.parser tokenizer is in the loop (recorded handler calls) and enters the round trip as the lexer contract 'handler calls on render l = chunk l', which is instance-checked on every case (LEX-OK flag computed in the kernel) but not proved about a Gallina lexer (Stage A of DESIGN 3.3); html.unescape is outside the domain." + ' Partial: equality of the rebuilt tree with the original up to renumbering is definitional for names/nesting/text (function rebuild) but the attribute store round trip (re-intake of the rendered attributes) is tied by correspondence, not proved.'),
 'C20': dict(
   text='Theorems (Coq, closed): createElementsFromHTML / createBlocksFromHTML return the top-level elements / blocks of one and the same parse (element list = element part of the block list, outermost elements included); createElementFromHTML returns '
        'the root exactly when the first pass accepts and re-raises MultipleRootNodeException otherwise; appendInnerHTML appends the blocks one by one: innerHTML = previous blocks ++ the nodes\' HTML, every new element gets the target as parent and the '
        'target\'s document as owner, the C04 invariant is kept; createElement is detached, lower-cased, empty. Tie: fragments of six shapes on five kinds of targets in four ownership settings, all five APIs compared with the model (fed the temporary parser\'s handler calls).',
   note="Trusted: Coq kernel + vm_compute; harness incl. the token-recording subclasses; the stdlib html.parser tokenizer is in the loop (recorded handler calls) and enters the round trip as the lexer contract 'handler calls on render l = chunk l', which is instance-checked on every case (LEX-OK flag computed in the kernel) but not proved about a Gallina lexer (Stage A of DESIGN 3.3); html.unescape is outside the domain."),
}
