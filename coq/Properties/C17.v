(* C17 — pickled and cloned documents are faithful, independent copies.  Values of the model are immutable, so a copy can
   never share state with its original; what the theorems state is fidelity: same uids element for element, structural
   invariants (parent links naming elements of the copy), names, self-closing flags, text, and serialisation. *)
From AHP Require Import Model.Base Model.Str Model.Attr Model.Dom Model.Serial Model.Search Model.Index Model.Observe
     Proofs.AttrProofs Proofs.DomProofs Proofs.IndexProofs Proofs.ObserveProofs Proofs.CodecProofs Proofs.CloneProofs Proofs.IndexedParserProofs Proofs.FixPointProofs.
From AHP Require Import Model.Parser.

Theorem C17_uids : forall t p, uids_of (unpickle p t) = uids_of t.
Proof. exact unpickle_uids. Qed.
Theorem C17_links_in_the_copy : forall t p o, WF p o t -> forall p', WF p' o (unpickle p' t).
Proof. exact unpickle_WF. Qed.
Theorem C17_names_flags_text : forall t p,
  map (fun x => (tuid x, name (hd_ x), sc (hd_ x))) (all_nodes (unpickle p t)) = map (fun x => (tuid x, name (hd_ x), sc (hd_ x))) (all_nodes t)
  /\ text_content (unpickle p t) = text_content t.
Proof. exact unpickle_shape. Qed.
(* identical serialisation, given that the attribute list reproduces each mapping *)
Theorem C17_serialisation : forall t p, Forall (fun x => AttrFaithful (attrs (hd_ x)) /\ indent (hd_ x) = "") (all_nodes t) ->
  outer_html (unpickle p t) = outer_html t.
Proof. exact unpickle_html. Qed.
(* ... which holds for every mapping the constructor builds (parsing, AdvancedTag(name, attrList)): plain, boolean, value-less,
   class and style attributes, duplicates and mixed case included, provided no style declaration has an empty name or value *)
Theorem C17_constructed_attribute_fidelity : forall l, attrs_ok l -> AttrFaithful (fst (intake l st0)).
Proof. exact constructor_faithful. Qed.
(* the invariant behind it, kept by every attribute write of that kind *)
Theorem C17_built_faithful : forall s, Built s -> AttrFaithful s.
Proof. exact Built_faithful. Qed.
Theorem C17_plain_attribute_fidelity : forall s, PlainStore s -> fst (clone_attrs s) = s.
Proof. exact PlainStore_clone. Qed.
(* hence: every parsed document whose style declarations are non-degenerate comes back from pickle with the identical serialisation *)
Theorem C17_parsed_documents : forall cls ts1 ts2 s root p, Forall tok_attrs_ok ts1 -> Forall tok_attrs_ok ts2 ->
  feed cls ts1 ts2 = POk s -> tree_of s = Some root -> outer_html (unpickle p root) = outer_html root.
Proof. exact parsed_unpickle_html. Qed.
Theorem C17_clone : forall u t, bs_ (clone_node u t) = [BText ""] /\ tuid (clone_node u t) = u /\ name (hd_ (clone_node u t)) = name (hd_ t)
  /\ sc (hd_ (clone_node u t)) = sc (hd_ t) /\ parent (hd_ (clone_node u t)) = None /\ owner (hd_ (clone_node u t)) = None
  /\ attrs (hd_ (clone_node u t)) = fst (clone_attrs (attrs (hd_ t))).
Proof. exact clone_node_spec. Qed.

Example C17_ex_plain : PlainStore (fst (intake [("id", Some "a"); ("data-x", None); ("title", Some "t")] st0)).
Proof.
  vm_compute. repeat split; try reflexivity.
  - repeat constructor; simpl; intuition discriminate.
  - repeat (constructor; [unfold plain_entry; simpl; repeat split; try reflexivity; ((left; reflexivity) || (right; eexists; reflexivity))|]). constructor.
Qed.
Example C17_ex_attrs_ok : attrs_ok [("ID", Some "a"); ("class", Some " x  y "); ("style", Some "Color : red; padding-top:5px"); ("hidden", None); ("class", Some "z")].
Proof. repeat constructor; simpl; try discriminate; intros _; vm_compute; repeat constructor; discriminate. Qed.
Example C17_ex_faithful : AttrFaithful (fst (intake [("id", Some "a"); ("class", Some "x y"); ("style", Some "color: red"); ("hidden", None)] st0)).
Proof. vm_compute. reflexivity. Qed.
