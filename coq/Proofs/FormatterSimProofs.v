(* C11: the formatter builds the parser's tree up to white space.  Simulation between the parser model and the formatter model on
   the same handler calls: same elements, nesting, attributes, self-closing flags; text equal once white space is erased; both
   fail together. *)
From Coq Require Import Lia.
From AHP Require Import Model.Base Model.Str Model.Attr Model.Dom Model.Serial Model.Parser Model.Formatter Gen.Tables
     Proofs.StrProofs Proofs.DomProofs Proofs.CodecProofs Proofs.ParserProofs.

Fixpoint erase_ws (s : string) : string :=
  match s with String c r => if is_ws c then erase_ws r else String c (erase_ws r) | EmptyString => EmptyString end.
Lemma erase_app a b : erase_ws (a +++ b) = erase_ws a +++ erase_ws b.
Proof. induction a as [|c a IH]; simpl; auto. destruct (is_ws c); simpl; now rewrite IH. Qed.
Lemma erase_srev s : erase_ws (srev s) = srev (erase_ws s).
Proof.
  induction s as [|c s IH]; auto. rewrite srev_cons, erase_app, IH. simpl. destruct (is_ws c); simpl.
  - now rewrite app_nil_s.
  - now rewrite srev_cons.
Qed.
Lemma erase_lstrip_by f s : (forall c, f c = true -> is_ws c = true) -> erase_ws (lstrip_by f s) = erase_ws s.
Proof. intros Hf. induction s as [|c s IH]; simpl; auto. destruct (f c) eqn:E; simpl; auto. now rewrite (Hf c E). Qed.
Lemma erase_rstrip_by f s : (forall c, f c = true -> is_ws c = true) -> erase_ws (rstrip_by f s) = erase_ws s.
Proof. intros Hf. unfold rstrip_by. rewrite erase_srev, erase_lstrip_by, erase_srev, srev_invol; auto. Qed.
Lemma erase_strip_by f s : (forall c, f c = true -> is_ws c = true) -> erase_ws (strip_by f s) = erase_ws s.
Proof. intros Hf. unfold strip_by. now rewrite erase_rstrip_by, erase_lstrip_by. Qed.
Lemma erase_tab2sp s : erase_ws (tab2sp s) = erase_ws s.
Proof.
  induction s as [|c s IH]; simpl; auto. destruct (Ascii.eqb c (ascii_of_nat 9)) eqn:E.
  - apply Ascii.eqb_eq in E. subst c. simpl. exact IH.
  - destruct (is_ws c); simpl; now rewrite IH.
Qed.
Lemma crlf_ws c : is_crlf c = true -> is_ws c = true.
Proof. unfold is_crlf. intros H. apply orb_true_iff in H as [H|H]; apply Ascii.eqb_eq in H; subst; reflexivity. Qed.
(* outside pre / code / script / style the formatter changes white space only *)
Theorem fmt_data_erase d : erase_ws (fmt_data d) = erase_ws d.
Proof.
  unfold fmt_data. set (d1 := strip_by is_crlf (tab2sp d)).
  assert (H1 : erase_ws d1 = erase_ws d) by (unfold d1; rewrite erase_strip_by; [apply erase_tab2sp | apply crlf_ws]).
  set (d2 := if starts_sp d1 then " " +++ lstrip d1 else d1).
  assert (H2 : erase_ws d2 = erase_ws d).
  { unfold d2. destruct (starts_sp d1); auto. rewrite erase_app. simpl. unfold lstrip. rewrite erase_lstrip_by; auto. }
  destruct (ends_sp d2); auto. rewrite erase_app. simpl. rewrite app_nil_s. unfold rstrip. rewrite erase_rstrip_by; auto.
Qed.
(* text consisting of more than white space is never dropped *)
Corollary fmt_data_keeps d : fmt_data d = "" -> erase_ws d = "".
Proof. intros H. rewrite <- fmt_data_erase, H. reflexivity. Qed.


(* ---- the relation: same elements, nesting and attributes; text equal once white space is removed ---- *)
Definition hrel (h h' : hdr) : Prop :=
  uid h = uid h' /\ name h = name h' /\ attrs h = attrs h' /\ sc h = sc h' /\ parent h = parent h' /\ children h = children h'
  /\ erase_ws (text h) = erase_ws (text h').
Fixpoint trel (t t' : tag) {struct t} : Prop :=
  match t, t' with
  | Tag h bs, Tag h' bs' =>
      hrel h h' /\
      (fix go (l l' : list (block tag)) : Prop :=
         match l, l' with
         | [], [] => True
         | BText s :: r, BText s' :: r' => erase_ws s = erase_ws s' /\ go r r'
         | BTag c :: r, BTag c' :: r' => trel c c' /\ go r r'
         | _, _ => False
         end) bs bs'
  end.
Definition brel (b b' : block tag) : Prop :=
  match b, b' with BText s, BText s' => erase_ws s = erase_ws s' | BTag c, BTag c' => trel c c' | _, _ => False end.
Lemma trel_unfold h bs h' bs' : trel (Tag h bs) (Tag h' bs') <-> hrel h h' /\ Forall2 brel bs bs'.
Proof.
  simpl. split; intros [H1 H2]; split; auto.
  - revert bs' H2. induction bs as [|[s|c] bs IH]; intros [|[s'|c'] bs'] H; try tauto; try constructor; simpl in *; try tauto; apply IH; tauto.
  - induction H2 as [|b b' l l' Hb Hl IH]; auto. destruct b, b'; simpl in Hb; try tauto; split; auto.
Qed.
Definition frel (f f' : frame) : Prop := hrel (fh f) (fh f') /\ Forall2 brel (fbs f) (fbs f').
Definition orel (o o' : option tag) : Prop := match o, o' with Some t, Some t' => trel t t' | None, None => True | _, _ => False end.
Definition srel (p p' : pstate) : Prop :=
  Forall2 frel (pstk p) (pstk p') /\ orel (pdone p) (pdone p') /\ has_root p = has_root p' /\ pdoctype p = pdoctype p' /\ pnext p = pnext p'.

Lemma hrel_refl h : hrel h h. Proof. repeat split. Qed.
Lemma srel_init : srel pinit pinit. Proof. repeat split; simpl; auto. Qed.

From AHP Require Import Model.RoundTrip Proofs.RoundTripProofs.

Lemma erase_text_app a b a' b' : erase_ws a = erase_ws a' -> erase_ws b = erase_ws b' -> erase_ws (a +++ b) = erase_ws (a' +++ b').
Proof. intros H1 H2. now rewrite !erase_app, H1, H2. Qed.
Lemma trel_uid t t' : trel t t' -> tuid t = tuid t'.
Proof. destruct t, t'. intros H. apply trel_unfold in H as [(Hu & _) _]. exact Hu. Qed.
Lemma push_rel b b' l l' : Forall2 frel l l' -> brel b b' -> Forall2 frel (push_block b l) (push_block b' l').
Proof.
  intros Hl Hb. destruct Hl as [|f f' r r' [Hh Hbs] Hr]; [constructor|]. unfold push_block. constructor; auto.
  destruct Hh as (Hu & Hn & Ha & Hs & Hp & Hc & Ht).
  destruct b as [s|c], b' as [s'|c']; simpl in Hb; try tauto; split; cbn [fh fbs].
  - unfold hrel, set_h. cbn [uid name attrs sc parent children text]. repeat split; auto; try (now apply erase_text_app).
  - apply Forall2_app; auto.
  - unfold hrel, set_h. cbn [uid name attrs sc parent children text]. repeat split; auto; try (now rewrite Hc, (trel_uid c c' Hb)).
  - apply Forall2_app; auto.
Qed.
Lemma frel_names l l' : Forall2 frel l l' -> forall n, has_name n l = has_name n l'.
Proof. induction 1 as [|f f' r r' [(_ & Hn & _) _] Hr IH]; intros n; simpl; auto. now rewrite Hn, IH. Qed.
Lemma frel_top_uid l l' : Forall2 frel l l' -> top_uid l = top_uid l'.
Proof. destruct 1 as [|f f' r r' [(Hu & _) _] _]; simpl; auto; try (now rewrite Hu). Qed.
Lemma pop_rel p p' : srel p p' -> srel (pop_frame p) (pop_frame p').
Proof.
  intros (Hk & Hd & Hr & Hdt & Hn). unfold pop_frame.
  destruct (pstk p) as [|f [|g r]] eqn:E; destruct (pstk p') as [|f' [|g' r']] eqn:E'; inversion Hk as [|? ? ? ? Hf Hrr]; subst;
    try (inversion Hrr; fail).
  - unfold srel. rewrite E, E'. auto.
  - unfold srel. cbn [pstk pdone has_root pdoctype pnext]. split; [constructor|]. split; [|auto]. apply trel_unfold. exact Hf.
  - unfold with_stk, srel. cbn [pstk pdone has_root pdoctype pnext]. split; [|auto].
    apply push_rel; [exact Hrr|]. simpl. apply trel_unfold. exact Hf.
Qed.

Lemma Forall2_len {A B} (R : A -> B -> Prop) l l' : Forall2 R l l' -> length l = length l'.
Proof. induction 1; simpl; auto. Qed.
Lemma pop_until_rel n : forall k p p', srel p p' -> srel (pop_until k n p) (pop_until k n p').
Proof.
  induction k as [|k IH]; intros p p' H; simpl; auto. pose proof H as (Hk & _).
  destruct (pstk p) as [|f r] eqn:E; destruct (pstk p') as [|f' r'] eqn:E'; inversion Hk as [|? ? ? ? [(_ & Hn & _) _] _]; subst; auto.
  rewrite Hn. destruct (String.eqb (name (fh f')) n); [now apply pop_rel | apply IH; now apply pop_rel].
Qed.
(* the formatter's own parser state evolves by the parser's pop loop *)
Lemma fpop_until_fps n : forall k s, fps (fpop_until k n s) = pop_until k n (fps s).
Proof.
  induction k as [|k IH]; intros s; simpl; auto. destruct (pstk (fps s)) as [|f r]; auto.
  destruct (String.eqb (name (fh f)) n); auto. now rewrite IH.
Qed.
Lemma top_append_rel x x' p p' : erase_ws x = erase_ws x' -> srel p p' -> srel (top_append_text x p) (top_append_text x' p').
Proof.
  intros Hx (Hk & Hd & Hr & Hdt & Hn). unfold top_append_text, with_stk, srel. cbn [pstk pdone has_root pdoctype pnext]. split; auto.
  apply push_rel; auto.
Qed.

(* one handler call: the parser and the formatter fail together or stay related *)
Definition step_sim (r1 : pres pstate) (r2 : pres fstate) : Prop :=
  match r1, r2 with POk p', POk s' => srel p' (fps s') | PRaise e, PRaise e' => e = e' | _, _ => False end.
Lemma in_root_text_sim x p s : srel p (fps s) -> step_sim (in_root_text p x) (fin_root_text s x).
Proof.
  intros H. pose proof H as (Hk & _). unfold in_root_text, fin_root_text.
  destruct (pstk p) eqn:E; destruct (pstk (fps s)) eqn:E'; inversion Hk; subst; simpl; auto.
  apply top_append_rel; auto.
Qed.
Lemma fstep_sim c p s t : srel p (fps s) -> step_sim (pstep PPlain p t) (fstep c s t).
Proof.
  intros H. pose proof H as (Hk & Hd & Hr & Hdt & Hn).
  destruct t as [n a selfc|n|d|e|ch|cm|d|d|pi]; cbn [pstep fstep].
  - (* start tag *)
    unfold handle_start, fhandle_start. rewrite make_tag_eq. cbn zeta.
    set (nm := lower n). set (leaf := selfc || is_void nm).
    rewrite <- Hr, <- Hn, <- (frel_top_uid _ _ Hk).
    set (hp := mk_hdr (pnext p) nm (fst (intake a st0)) leaf (top_uid (pstk p)) the_doc).
    set (h0 := mk_hdr (pnext p) nm (fst (intake a st0)) leaf (top_uid (pstk p)) None).
    set (hf := if finpre s =? 0 then set_indent h0 (get_indent c (flevel s)) else h0).
    assert (Hh : hrel hp hf) by (unfold hf; destruct (finpre s =? 0); repeat split).
    assert (Ht : trel (Tag hp [BText ""]) (Tag hf [BText ""])) by (apply trel_unfold; split; auto; repeat constructor).
    destruct (has_root p) eqn:Ehr; cbn [negb].
    + destruct (pstk p) as [|f r] eqn:E; destruct (pstk (fps s)) as [|f' r'] eqn:E'; inversion Hk; subst; [reflexivity|].
      destruct leaf; simpl; unfold srel; cbn [pstk pdone has_root pdoctype pnext fps]; (split; [|auto]).
      * exact (push_rel (BTag (Tag hp [BText ""])) (BTag (Tag hf [BText ""])) (f :: r) (f' :: r') Hk Ht).
      * constructor; [split; [exact Hh | repeat constructor] | exact Hk].
    + destruct leaf; simpl; unfold srel; cbn [pstk pdone has_root pdoctype pnext fps].
      * split; [constructor|]. split; [exact Ht | auto].
      * split; [constructor; [split; [exact Hh | repeat constructor] | constructor] |]. simpl. auto.
  - (* end tag *)
    simpl. unfold handle_end_plain, fhandle_end. rewrite (frel_names _ _ Hk n).
    destruct (has_name n (pstk (fps s))); [|exact H]. rewrite fpop_until_fps.
    assert (El : length (pstk p) = length (pstk (fps s))) by (eapply Forall2_len; eauto). rewrite El. now apply pop_until_rel.
  - (* data *)
    destruct (String.eqb d ""); [exact H|].
    destruct (pstk p) as [|f r] eqn:E; destruct (pstk (fps s)) as [|f' r'] eqn:E'; inversion Hk as [|? ? ? ? [(_ & Hnm & _) _] _]; subst.
    + destruct (String.eqb (strip d) ""); simpl; auto.
    + simpl. unfold with_ps. cbn [fps]. rewrite <- E, <- E' in Hk.
      apply top_append_rel; [|exact H].
      destruct ((finpre s =? 0) && negb (is_preserve (name (fh f')))); [symmetry; apply fmt_data_erase | reflexivity].
  - now apply in_root_text_sim.
  - now apply in_root_text_sim.
  - now apply in_root_text_sim.
  - simpl. unfold srel. cbn [pstk pdone has_root pdoctype pnext fps]. auto.
  - simpl. rewrite <- Hdt. destruct (pdoctype p) as [x|]; [destruct (nonempty x)|]; simpl; unfold srel; cbn [pstk pdone has_root pdoctype pnext fps]; auto.
  - exact H.
Qed.

Lemma frun_sim c : forall ts p s, srel p (fps s) -> step_sim (prun PPlain p ts) (frun c s ts).
Proof.
  induction ts as [|t ts IH]; intros p s H; simpl; auto. pose proof (fstep_sim c p s t H) as Hs. unfold step_sim in Hs.
  destruct (pstep PPlain p t) as [p1|e]; destruct (fstep c s t) as [s1|e']; try tauto. now apply IH.
Qed.
Lemma plug_all_rel : forall k p p', srel p p' -> srel (plug_all k p) (plug_all k p').
Proof.
  induction k as [|k IH]; intros p p' H; simpl; auto. pose proof H as (Hk & _).
  destruct (pstk p) eqn:E; destruct (pstk p') eqn:E'; inversion Hk; subst; auto. apply IH. now apply pop_rel.
Qed.
(* the formatter builds, from the same handler calls, the tree the parser builds - same elements, nesting, attributes,
   self-closing flags - with text that differs in white space only; and it fails exactly when the parser fails *)
Theorem formatter_tree c ts1 ts2 :
  match feed PPlain ts1 ts2, ffeed c ts1 ts2 with
  | POk p, POk s => orel (tree_of p) (tree_of (fps s))
  | PRaise e, PRaise e' => e = e'
  | _, _ => False
  end.
Proof.
  unfold feed, ffeed. pose proof (frun_sim c ts1 pinit finit srel_init) as H1. unfold step_sim in H1.
  assert (T : forall p s, srel p (fps s) -> orel (tree_of p) (tree_of (fps s))).
  { intros p s H. unfold tree_of. pose proof H as (Hk & _). rewrite (Forall2_len _ _ _ Hk).
    apply (plug_all_rel (length (pstk (fps s))) p (fps s)) in H. destruct H as (_ & Hd & _). exact Hd. }
  destruct (prun PPlain pinit ts1) as [p1|e]; destruct (frun c finit ts1) as [s1|e']; try tauto.
  - now apply T.
  - subst e'. destruct e; auto.
    pose proof (frun_sim c ts2 pinit finit srel_init) as H2. unfold step_sim in H2.
    destruct (prun PPlain pinit ts2) as [p2|e2]; destruct (frun c finit ts2) as [s2|e2']; try tauto. now apply T.
Qed.
