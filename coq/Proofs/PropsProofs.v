(* Proofs about Model/Props.v (C19). *)
From AHP Require Import Model.Base Model.Str Model.PropRules Model.Attr Model.Props Gen.Tables Spec.PropSpec Proofs.StrProofs.

Lemma of_const_no_raise k : of_const k <> VRaiseIndexSize.
Proof. destruct k; discriminate. Qed.
Lemma empty_or_invalid_no_raise inv e : empty_or_invalid inv e <> VRaiseIndexSize.
Proof. unfold empty_or_invalid, handle_invalid. destruct e; apply of_const_no_raise || discriminate. Qed.

(* reading a special property never raises, whatever text the attribute holds *)
Theorem interp_total : forall fuel r tag s b, interp fuel r tag s b <> VRaiseIndexSize.
Proof.
  induction fuel as [|k IH]; intros r tag s b; destruct r; simpl;
    repeat match goal with
           | |- context [if ?c then _ else _] => destruct c
           | |- context [match ?x with _ => _ end] => destruct x
           end; try discriminate; try apply of_const_no_raise; try apply empty_or_invalid_no_raise; auto.
Qed.
Theorem prop_get_total tag prop s b : prop_get tag prop s b <> VRaiseIndexSize.
Proof.
  unfold prop_get. destruct (linked tag prop); [|discriminate].
  destruct (od_get prop special_rules); [apply interp_total|].
  repeat match goal with
         | |- context [if ?c then _ else _] => destruct c
         | |- context [match ?x with _ => _ end] => destruct x
         end; discriminate.
Qed.

(* clamped integers stay within their bounds *)
Lemma cap_in_range lo hi z l h : lo = Some l -> hi = Some h -> (l <= h)%Z -> (l <= cap lo hi z <= h)%Z.
Proof.
  intros -> -> Hlh. unfold cap. destruct (z <? l)%Z eqn:E1.
  - apply Z.ltb_lt in E1. destruct (h <? l)%Z eqn:E2; [apply Z.ltb_lt in E2; lia | lia].
  - apply Z.ltb_ge in E1. destruct (h <? z)%Z eqn:E2; [apply Z.ltb_lt in E2; lia | apply Z.ltb_ge in E2; lia].
Qed.
Theorem capped_rule_range fuel attr d l h inv empty tag s b : (l <= h)%Z ->
  let v := interp fuel (RIntCapped attr d (Some l) (Some h) inv empty) tag s b in
  (exists z, v = VInt z /\ (l <= z <= h)%Z) \/ v = of_const inv \/ v = empty_or_invalid inv empty.
Proof.
  intros Hlh. destruct fuel; simpl; destruct (arg_is_empty _); auto;
    (destruct (arg_int _) as [[z|]|]; [left; eexists; split; [reflexivity | now apply cap_in_range with (lo := Some l) (hi := Some h)] | auto | auto]).
Qed.
Theorem range_rule_range fuel attr d lo hi inv empty tag s b :
  let v := interp fuel (RIntRange attr d lo hi inv empty) tag s b in
  (exists z, v = VInt z /\ in_range lo hi z = true) \/ v = of_const inv \/ v = empty_or_invalid inv empty.
Proof.
  destruct fuel; simpl; destruct (arg_is_empty _); auto;
    (destruct (arg_int _) as [[z|]|]; auto; destruct (in_range lo hi z) eqn:E; [left; eauto | auto]).
Qed.
Theorem posint_rule_range fuel attr d inv tag s b :
  let v := interp fuel (RPosInt attr d inv) tag s b in (exists z, v = VInt z /\ (0 <= z)%Z) \/ v = of_const inv.
Proof.
  destruct fuel; simpl; (destruct (arg_int _) as [[z|]|]; auto; destruct (z <? 0)%Z eqn:E; [auto | left; exists z; split; auto; apply Z.ltb_ge in E; lia]).
Qed.
Theorem enum_rule_range fuel attr d values inv empty tag s b :
  let v := interp fuel (REnum attr d values inv empty) tag s b in
  (exists x, v = VStr x /\ In x values) \/ v = of_const inv \/ v = empty_or_invalid inv empty.
Proof.
  destruct fuel; simpl; (destruct (arg_str _) as [x|]; auto; destruct (String.eqb (lower x) ""); auto;
    destruct (smem (lower x) values) eqn:E; [left; exists (lower x); split; auto; now apply smem_In | auto]).
Qed.
Theorem tabindex_rule fuel attr tag s b : exists z, interp fuel (RIntOrMinus1 attr) tag s b = VInt z.
Proof. destruct fuel; simpl; (destruct (arg_is_empty _); [eauto|]; destruct (arg_int _) as [[z|]|]; eauto). Qed.

(* boolean properties: True exactly when the attribute is present *)
Theorem boolean_prop tag prop s b : linked tag prop = true -> od_get prop special_rules = None ->
  is_binary_string (renamed prop) = false -> is_binary (renamed prop) = true ->
  prop_get tag prop s b = VBool (match snd (getAttribute (renamed prop) s) with PFalse => false | _ => true end).
Proof. intros H1 H2 H3 H4. unfold prop_get. now rewrite H1, H2, H3, H4. Qed.
