(* C13 — the validating parser raises exactly on nesting / attribute errors, else builds the same tree. *)
From AHP Require Import Model.Base Model.Str Model.Attr Model.Dom Model.Serial Model.Parser Gen.Tables Proofs.DomProofs Proofs.ParserProofs Proofs.ValidatorProofs.

(* the three documented exceptions, at the token that causes them *)
Theorem C13_invalid_attribute_name : forall s n a selfc, forallb (fun kv => valid_attr_name (fst kv)) a = false ->
  pstep PValidating s (TStart n a selfc) = PRaise XInvalidAttrName.
Proof. exact validating_invalid_attr. Qed.
Theorem C13_invalid_close : forall s n, has_name n (pstk s) = false -> pstep PValidating s (TEnd n) = PRaise XInvalidClose.
Proof. exact validating_invalid_close. Qed.
Theorem C13_missed_close : forall s n f r, pstk s = f :: r -> has_name n (pstk s) = true -> name (fh f) <> n ->
  pstep PValidating s (TEnd n) = PRaise XMissedClose.
Proof. exact validating_missed_close. Qed.
Theorem C13_proper_close : forall s n f r, pstk s = f :: r -> name (fh f) = n -> pstep PValidating s (TEnd n) = POk (pop_frame s).
Proof. exact validating_proper_close. Qed.
(* whenever it accepts a token / a token list / a whole feed (retry included), the plain parser reaches the same state *)
Theorem C13_step_same : forall s t s', pstep PValidating s t = POk s' -> pstep PPlain s t = POk s'.
Proof. exact validating_step_same. Qed.
Theorem C13_run_same : forall ts s s', prun PValidating s ts = POk s' -> prun PPlain s ts = POk s'.
Proof. exact validating_run_same. Qed.
Theorem C13_accepts_same_tree : forall ts1 ts2 s, feed PValidating ts1 ts2 = POk s -> feed PPlain ts1 ts2 = POk s.
Proof. exact validating_accepts_same. Qed.
(* and that tree satisfies the structural invariant *)
Theorem C13_tree_WF : forall ts1 ts2 s, feed PValidating ts1 ts2 = POk s ->
  match tree_of s with Some t => WF None the_doc t | None => True end.
Proof. exact (feed_tree_WF PValidating). Qed.

Example C13_ex :
  feed PValidating [TStart "a" [] false; TStart "b" [] false; TEnd "a"] [] = PRaise XMissedClose
  /\ feed PValidating [TStart "a" [] false; TEnd "b"] [] = PRaise XInvalidClose
  /\ feed PValidating [TStart "a" [("1x", None)] false] [] = PRaise XInvalidAttrName
  /\ (exists s, feed PValidating [TStart "a" [] false; TStart "br" [] false; TEnd "a"] [] = POk s).
Proof. vm_compute. repeat split; eauto. Qed.

(* exactness: the validating parser is the plain parser plus a pure classifier verr on (state, token); a run raises a validation
   error exactly when some token is classified in the state reached without an earlier error, and raises that token's error *)
Theorem C13_step_classified : forall s t, pstep PValidating s t = match verr s t with Some e => PRaise e | None => pstep PPlain s t end.
Proof. exact validating_step_classified. Qed.
Theorem C13_run_classified : forall ts s, prun PValidating s ts = vrun s ts.
Proof. exact validating_run_classified. Qed.
Theorem C13_raises_exactly : forall ts s e, e <> XMultipleRoot ->
  (prun PValidating s ts = PRaise e <-> exists pre t post s', ts = pre ++ t :: post /\ vrun s pre = POk s' /\ verr s' t = Some e).
Proof. exact validating_raises_iff. Qed.

