#!/bin/bash
# usage: tools/seedtest.sh <seeded-dir>... : apply each seeded change to /repo, confirm its demo, run the property's quick check, undo.
# prints one line per change:  <dir> demo_patched=<rc> demo_clean=<rc> check=<CAUGHT|MISSED> (<first VIOLATION line>)
V=${VERIF_DIR:-/verif}; R=${AHP_REPO:-/repo}      # a lane may run on its own copy of /verif and its own worktree of /repo
cd $V
for d0 in "$@"; do d=$(realpath "$d0")
  id=$(python3 -c "import json,sys; print(json.load(open('$d/meta.json'))['property'])")
  if ! git -C $R apply --check "$d/patch.diff" 2>/dev/null; then echo "$d patch-does-not-apply"; continue; fi
  git -C $R apply "$d/patch.diff"
  cp -f $V/evidence/$id.json $V/build/seedtest_evidence_$id.json 2>/dev/null   # the evidence of a run on a changed tree is not kept
  PYTHONPATH=$R timeout 300 /venv/bin/python "$d/demo.py" < /dev/null > $V/build/seed_demo.out 2>&1; rc1=$?
  out=$(AHP_SKIP_COQCHK=1 timeout 1500 ./vcheck $id --tier ${TIER:-quick} 2>&1 | grep -E "^(VIOLATION|OK|KNOWN)" | head -3 | tr '\n' ' ')
  git -C $R checkout -- .
  [ -f $V/build/seedtest_evidence_$id.json ] && mv -f $V/build/seedtest_evidence_$id.json $V/evidence/$id.json
  PYTHONPATH=$R timeout 300 /venv/bin/python "$d/demo.py" < /dev/null > /dev/null 2>&1; rc0=$?
  if echo "$out" | grep -q VIOLATION; then res=CAUGHT; else res=MISSED; fi
  kinds=$(python3 - "$id" "$V" <<'PY'
import glob, json, sys
ks = []
for f in sorted(glob.glob('%s/replays/%%s-*.json' % sys.argv[2] % sys.argv[1])):
    try:
        ks.append(json.load(open(f)).get('kind', '?'))
    except Exception:
        ks.append('?')
print(','.join(sorted(set(ks))))
PY
)
  echo "$d demo_patched=$rc1 demo_clean=$rc0 check=$res caught_by=[$kinds]" | sed "s|$V/||"
  rm -f $V/replays/$id-*.json
done
