(* Correspondence driver for the DOM world (C04, C05). *)
From AHP Require Export Model.Base Model.Str Model.Attr Model.Dom Model.Search Model.Index Model.Nav.

Definition opt2s (o : option nat) : string := match o with Some n => nat_to_string n | None => "-" end.
Fixpoint snap (t : tag) : string :=
  match t with Tag h bs =>
    "(" +++ nat_to_string (uid h) +++ "," +++ name h +++ "," +++ (if sc h then "1" else "0") +++ "," +++ opt2s (parent h)
    +++ "," +++ opt2s (owner h) +++ ",[" +++ sjoin "." (map nat_to_string (children h)) +++ "],{" +++ hex (text h) +++ "},"
    +++ concat_s (map (fun b => match b with BText s => "T{" +++ hex s +++ "}" | BTag c => snap c end) bs) +++ ")"
  end.
Fixpoint insert_sorted_t (t : tag) (l : list tag) : list tag :=
  match l with [] => [t] | x :: r => if tuid t <=? tuid x then t :: l else x :: insert_sorted_t t r end.
Definition wsnap (w : world) : string :=
  match w with
  | [] => ""
  | r :: d => sjoin "|" (snap r :: map snap (fold_right insert_sorted_t [] d))
  end.
Definition show_ret (r : ret) : string :=
  match r with
  | ROk => "ok" | RNone => "None" | RStr s => "s:" +++ hex s | RList l => "l:" +++ sjoin "," l
  | RTrue => "True" | RFalse => "False" | RValueError => "exc:ValueError" | RKeyError => "exc:KeyError" | ROutOfDomain => "OOD"
  end.

Fixpoint run_ops (w : world) (ops : list op) : list string :=
  match ops with
  | [] => []
  | o :: r => let '(w', x) := step w o in (wsnap w' +++ "#" +++ show_ret x) :: run_ops w' r
  end.

(* case: parser-owned?, seed tokens, spare elements (name, self-closing), operations *)
Definition run_dom (c : bool * list dtoken * list (string * bool) * list op) : string :=
  let '(po, ts, spares, ops) := c in
  let w := mk_world po ts spares in
  sjoin (String (ascii_of_nat 31) "") (wsnap w :: run_ops w ops).

(* C04 also dumps the navigation properties of every element of the final world (document order, detached trees by uid) *)
Definition show_nres (r : nres) : string :=
  match r with NNone => "-" | NText s => "T" +++ hex s | NTag u => "E" +++ nat_to_string u | NExc => "!" end.
Definition nav_of (w : world) (t : tag) : string :=
  sjoin "," [nat_to_string (tuid t); show_nres (first_child t); show_nres (last_child t); show_nres (first_element_child t);
             show_nres (last_element_child t); show_nres (next_sibling w t); show_nres (previous_sibling w t);
             show_nres (next_element_sibling w t); show_nres (previous_element_sibling w t);
             match peers w t with None => "-" | Some l => show_nats l end; nat_to_string (child_element_count t)].
Definition world_elements (w : world) : list tag :=
  match w with [] => [] | r :: d => flat_map all_nodes (r :: fold_right insert_sorted_t [] d) end.
Definition run_dom_nav (c : bool * list dtoken * list (string * bool) * list op) : string :=
  let '(po, ts, spares, ops) := c in
  let w := mk_world po ts spares in
  let wf := fold_left (fun w o => fst (step w o)) ops w in
  run_dom c +++ String (ascii_of_nat 30) "" +++ sjoin ";" (map (nav_of wf) (world_elements wf)).
