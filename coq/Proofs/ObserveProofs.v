(* C16: observers leave the snapshot of a document unchanged.  C17 (clone / unpickle) proofs follow in the second half. *)
From AHP Require Import Model.Base Model.Str Model.Attr Model.Dom Model.Serial Model.Search Model.Index Model.Observe Gen.Tables
     Proofs.StrProofs Proofs.AttrProofs Proofs.DomProofs Proofs.SearchProofs Proofs.IndexProofs.

(* ---------- 1. the lazy class/style synchronisation is idempotent ---------- *)
Lemma od_del_absent {V} k (d : list (string * V)) : ~ In k (keys d) -> od_del k d = d.
Proof.
  induction d as [|[k' v] d IH]; simpl; auto. intros H. destruct (String.eqb k k') eqn:E.
  - apply String.eqb_eq in E. subst. tauto.
  - f_equal. apply IH. tauto.
Qed.
Lemma od_del_removes {V} k (d : list (string * V)) : NoDup (keys d) -> ~ In k (keys (od_del k d)).
Proof.
  induction d as [|[k' v] d IH]; simpl; auto. intros H. inversion H; subst. destruct (String.eqb k k') eqn:E.
  - apply String.eqb_eq in E. now subst.
  - simpl. intros [Hi|Hi]; [apply String.eqb_neq in E; congruence | now apply IH].
Qed.
Lemma od_set_twice {V} k (v : V) d : od_set k v (od_set k v d) = od_set k v d.
Proof. induction d as [|[k' v'] d IH]; simpl; [now rewrite String.eqb_refl|]. destruct (String.eqb k k') eqn:E; simpl; [now rewrite String.eqb_refl | now rewrite E, IH]. Qed.
Lemma keys_od_set_other {V} k k' (v : V) d : k <> k' -> (In k' (keys (od_set k v d)) <-> In k' (keys d)).
Proof. intros Hne. rewrite keys_od_set_In. split; [intros [->|H]; [congruence|auto] | auto]. Qed.
Lemma keys_od_del_other {V} k k' (d : list (string * V)) : k <> k' -> (In k' (keys (od_del k d)) <-> In k' (keys d)).
Proof.
  intros Hne. induction d as [|[k0 v] d IH]; simpl; [tauto|]. destruct (String.eqb k k0) eqn:E; simpl.
  - apply String.eqb_eq in E. subst. split; auto. intros [H|H]; [congruence|auto].
  - rewrite IH. tauto.
Qed.
(* the class step and the style step, separately *)
Definition class_step (s : st) : st :=
  match classes s with [] => with_dict (od_del "class" (dict s)) s | _ => with_dict (od_set "class" AClassSlot (dict s)) s end.
Definition style_step (s : st) : st :=
  match sty s with [] => with_dict (od_del "style" (dict s)) s | _ => with_dict (od_set "style" AStyleSlot (dict s)) s end.
Lemma sync_steps s : sync s = style_step (class_step s).
Proof. unfold sync, style_step, class_step. destruct (classes s); reflexivity. Qed.
Lemma od_set_del_swap {V} k k' (v : V) d : k <> k' -> od_del k' (od_set k v d) = od_set k v (od_del k' d).
Proof.
  intros Hne. induction d as [|[k0 v0] d IH]; simpl.
  - destruct (String.eqb k' k) eqn:E; [apply String.eqb_eq in E; congruence | reflexivity].
  - destruct (String.eqb k k0) eqn:E1; simpl.
    + apply String.eqb_eq in E1. subst k0. destruct (String.eqb k' k) eqn:E2; [apply String.eqb_eq in E2; congruence|].
      simpl. now rewrite String.eqb_refl.
    + destruct (String.eqb k' k0) eqn:E2; simpl; [reflexivity|]. now rewrite E1, IH.
Qed.
Lemma od_set_same {V} k (v : V) d : od_get k d = Some v -> od_set k v d = d.
Proof.
  induction d as [|[k' v'] d IH]; simpl; [discriminate|]. destruct (String.eqb k k') eqn:E.
  - intros H. inversion H. apply String.eqb_eq in E. now subst.
  - intros H. f_equal. now apply IH.
Qed.

Theorem sync_idempotent s : KeysOK s -> sync (sync s) = sync s.
Proof.
  intros Hk. unfold KeysOK in Hk. rewrite !sync_steps.
  (* the class step of an already synchronised store changes nothing, then the style step changes nothing *)
  assert (C : forall t, NoDup (keys (dict t)) -> class_step (style_step (class_step t)) = style_step (class_step t)).
  { intros [d c y] Ht. unfold class_step, style_step, with_dict. simpl in *.
    destruct c as [|c0 c]; destruct y as [|y0 y]; simpl; f_equal.
    - rewrite od_del_absent; auto. rewrite keys_od_del_other by discriminate. now apply od_del_removes.
    - rewrite od_del_absent; auto. rewrite keys_od_set_other by discriminate. now apply od_del_removes.
    - apply od_set_same. rewrite od_get_del_other by reflexivity. apply od_get_set_same.
    - apply od_set_same. rewrite od_get_set_other by reflexivity. apply od_get_set_same. }
  assert (S2 : forall t, NoDup (keys (dict t)) -> style_step (style_step t) = style_step t).
  { intros [d c y] Ht. unfold style_step, with_dict. simpl in *. destruct y as [|y0 y]; simpl; f_equal.
    - rewrite od_del_absent; auto. now apply od_del_removes.
    - apply od_set_twice. }
  rewrite (C s Hk). apply S2.
  unfold class_step. destruct (classes s); simpl; [now apply keys_od_del_NoDup | now apply keys_od_set_NoDup].
Qed.

(* ---------- 2. synchronising the attribute mapping of elements changes nothing that can be observed ---------- *)
Definition GoodAttrs (t : tag) : Prop := Forall (fun x => KeysOK (attrs (hd_ x))) (all_nodes t).

Lemma sync_elem_bs x : bs_ (sync_elem x) = bs_ x.
Proof. destruct x; reflexivity. Qed.
Lemma sync_elem_shell x : KeysOK (attrs (hd_ x)) ->
  start_tag (hd_ (sync_elem x)) = start_tag (hd_ x) /\ end_tag (hd_ (sync_elem x)) = end_tag (hd_ x) /\ sc (hd_ (sync_elem x)) = sc (hd_ x).
Proof. destruct x as [h bs]. intros Hk. simpl in Hk. unfold start_tag, end_tag. simpl. now rewrite (sync_idempotent _ Hk). Qed.
Lemma sync_elem_ident x : ident (sync_elem x) = ident x.
Proof. destruct x; reflexivity. Qed.

Lemma in_kid_all c h bs x : In c (tags_of bs) -> In x (all_nodes c) -> In x (all_nodes (Tag h bs)).
Proof. intros Hc Hx. rewrite all_nodes_unfold. right. apply in_flat_map. eauto. Qed.

Lemma outer_update u f : (forall x, bs_ (f x) = bs_ x) -> forall t,
  (forall x, In x (all_nodes t) -> start_tag (hd_ (f x)) = start_tag (hd_ x) /\ end_tag (hd_ (f x)) = end_tag (hd_ x) /\ sc (hd_ (f x)) = sc (hd_ x)) ->
  outer_html (update_at u f t) = outer_html t.
Proof.
  intros Hbs. induction t as [h bs IH] using tag_ind'. intros Hall. simpl update_at. destruct (Nat.eqb (uid h) u).
  - destruct (Hall (Tag h bs)) as (H1 & H2 & H3); [now left|]. specialize (Hbs (Tag h bs)).
    destruct (f (Tag h bs)) as [h' bs']. simpl in *. subst bs'. now rewrite H1, H2, H3.
  - simpl. f_equal. f_equal. destruct (sc h); auto.
    assert (Hk : forall c, In c (tags_of bs) -> outer_html (update_at u f c) = outer_html c).
    { intros c Hc. rewrite Forall_forall in IH. apply IH; auto. intros x Hx. apply Hall. eapply in_kid_all; eauto. }
    clear IH Hall. induction bs as [|[s|c] bs IHb]; simpl in *; auto.
    + f_equal. apply IHb. exact Hk.
    + rewrite (Hk c) by now left. f_equal. apply IHb. intros c' Hc'. apply Hk. now right.
Qed.
Lemma inner_update u f : (forall x, bs_ (f x) = bs_ x) -> forall t,
  (forall x, In x (all_nodes t) -> start_tag (hd_ (f x)) = start_tag (hd_ x) /\ end_tag (hd_ (f x)) = end_tag (hd_ x) /\ sc (hd_ (f x)) = sc (hd_ x)) ->
  inner_html (update_at u f t) = inner_html t.
Proof.
  intros Hbs [h bs] Hall. simpl update_at. destruct (Nat.eqb (uid h) u).
  - destruct (Hall (Tag h bs)) as (H1 & H2 & H3); [now left|]. specialize (Hbs (Tag h bs)).
    destruct (f (Tag h bs)) as [h' bs']. simpl in *. subst bs'. now rewrite H3.
  - simpl. destruct (sc h); auto. f_equal. rewrite map_map. apply map_ext_in. intros [s|c] Hb; simpl; auto.
    apply outer_update; auto. intros x Hx. apply Hall. eapply in_kid_all; eauto.
    clear - Hb. induction bs as [|[s|y] bs IHb]; simpl in *; [tauto| |]; destruct Hb as [Hb|Hb]; try discriminate; auto.
    inversion Hb. now left.
Qed.

(* the list of elements keeps its shape; each element is related to its old self through its header *)
Lemma Forall2_refl {A} (R : A -> A -> Prop) l : (forall x, R x x) -> Forall2 R l l.
Proof. intros H. induction l; constructor; auto. Qed.
Lemma Forall2_flat_map {A B} (R : B -> B -> Prop) (g g' : A -> list B) l :
  (forall x, In x l -> Forall2 R (g' x) (g x)) -> Forall2 R (flat_map g' l) (flat_map g l).
Proof. induction l as [|a l IH]; simpl; intros H; [constructor|]. apply Forall2_app; [apply H; now left | apply IH; intros x Hx; apply H; now right]. Qed.
Lemma desc_of_bs x y : bs_ x = bs_ y -> descendants x = descendants y.
Proof. destruct x as [h bs], y as [h' bs']. simpl. intros ->. reflexivity. Qed.
Lemma all_nodes_update u f (Rh : hdr -> hdr -> Prop) : (forall h, Rh h h) -> (forall x, bs_ (f x) = bs_ x) -> forall t,
  (forall x, In x (all_nodes t) -> Rh (hd_ (f x)) (hd_ x)) ->
  Forall2 (fun x' x => Rh (hd_ x') (hd_ x)) (all_nodes (update_at u f t)) (all_nodes t).
Proof.
  intros Hrefl Hbs. induction t as [h bs IH] using tag_ind'. intros Hall. simpl update_at. destruct (Nat.eqb (uid h) u).
  - unfold all_nodes. rewrite (desc_of_bs _ _ (Hbs (Tag h bs))). constructor; [apply Hall; now left | apply Forall2_refl; auto].
  - rewrite !all_nodes_unfold. constructor; [apply Hrefl|]. rewrite tags_of_bmap, flat_map_concat_map, map_map, <- flat_map_concat_map.
    apply Forall2_flat_map. intros c Hc. rewrite Forall_forall in IH. apply IH; auto. intros x Hx. apply Hall. eapply in_kid_all; eauto.
Qed.

(* what the index functions and every attribute read see of an element is unchanged by sync *)
Lemma od_get_sync k s : plainp k = true -> od_get k (dict (sync s)) = od_get k (dict s).
Proof. intros Hp. rewrite <- (od_get_kfilter plainp k (dict (sync s)) Hp), <- (od_get_kfilter plainp k (dict s) Hp). fold (plain (sync s)) (plain s). now rewrite plain_sync. Qed.
Lemma classes_sync s : classes (sync s) = classes s.
Proof. destruct s as [d c y]. unfold sync. simpl. destruct c; simpl; destruct y; reflexivity. Qed.
Lemma sty_sync s : sty (sync s) = sty s.
Proof. destruct s as [d c y]. unfold sync. simpl. destruct c; simpl; destruct y; reflexivity. Qed.

Lemma binary_plain n : is_binary n = true -> plainp n = true.
Proof.
  intros H. unfold plainp, is_special. destruct (String.eqb n "class") eqn:E1; [apply String.eqb_eq in E1; subst; vm_compute in H; discriminate|].
  destruct (String.eqb n "style") eqn:E2; [apply String.eqb_eq in E2; subst; vm_compute in H; discriminate|]. reflexivity.
Qed.
Lemma raw_value_sync s v : raw_value (sync s) v = raw_value s v.
Proof. destruct v; simpl; auto; unfold className; now rewrite ?sty_sync, ?classes_sync. Qed.
Lemma getitem_sync k0 s : getitem k0 (sync s) = getitem k0 s.
Proof.
  unfold getitem. destruct (String.eqb (lower k0) "style") eqn:E1; [now rewrite sty_sync|].
  destruct (String.eqb (lower k0) "class") eqn:E2; [unfold className; now rewrite classes_sync|].
  assert (Hp : plainp (lower k0) = true) by (unfold plainp, is_special; now rewrite E1, E2).
  rewrite (od_get_sync _ s Hp). destruct (is_binary_string (lower k0)); auto.
  destruct (od_get (lower k0) (dict s)); auto. apply raw_value_sync.
Qed.
Lemma contains_sync k0 s : plainp (lower k0) = true -> contains k0 (sync s) = contains k0 s.
Proof.
  intros Hp. unfold contains. rewrite classes_sync. destruct (String.eqb (lower k0) "class"); auto.
  unfold od_has. now rewrite (od_get_sync _ s Hp).
Qed.
Theorem getAttribute_sync n s : KeysOK s -> snd (getAttribute n (sync s)) = snd (getAttribute n s).
Proof.
  intros Hk. unfold getAttribute. destruct (is_binary (lower n)) eqn:Eb; simpl.
  - rewrite contains_sync, getitem_sync; auto. rewrite lower_idem. now apply binary_plain.
  - destruct (String.eqb (lower n) "class"); simpl; [unfold className; now rewrite classes_sync|].
    destruct (String.eqb (lower n) "style"); simpl; [now rewrite sty_sync|].
    now rewrite (sync_idempotent s Hk).
Qed.
Lemma attr_of_sync t n : KeysOK (attrs (hd_ t)) -> attr_of (sync_elem t) n = attr_of t n.
Proof. destruct t as [h bs]. unfold attr_of. simpl. apply getAttribute_sync. Qed.
Lemma class_list_sync t : class_list (sync_elem t) = class_list t.
Proof. destruct t as [h bs]. unfold class_list. simpl. apply classes_sync. Qed.

(* header relation: everything a search, an index function or the identity snapshot reads *)
Definition SameView (h' h : hdr) : Prop :=
  uid h' = uid h /\ name h' = name h /\ parent h' = parent h /\ owner h' = owner h /\ children h' = children h /\ text h' = text h
  /\ classes (attrs h') = classes (attrs h)
  /\ (forall n, snd (getAttribute n (attrs h')) = snd (getAttribute n (attrs h))) /\ (KeysOK (attrs h) -> KeysOK (attrs h')).
Lemma SameView_refl h : SameView h h.
Proof. repeat split; auto. Qed.
Lemma SameView_sync x : KeysOK (attrs (hd_ x)) -> SameView (hd_ (sync_elem x)) (hd_ x).
Proof.
  destruct x as [h bs]. simpl. intros Hk. repeat split; simpl; auto; [apply classes_sync | intros n; now apply getAttribute_sync | intros _; now apply keysok_sync].
Qed.
Lemma index_tag_view c t' t i : SameView (hd_ t') (hd_ t) -> index_tag c t' i = index_tag c t i.
Proof.
  intros (Hu & Hn & _ & _ & _ & _ & Hc & Ha & _). unfold index_tag, attr_of, class_list, tuid. rewrite Hu, Hn, Hc, !Ha.
  f_equal. apply map_ext. intros kv. now rewrite Ha.
Qed.
Lemma index_all_view c els' els : Forall2 (fun x' x => SameView (hd_ x') (hd_ x)) els' els -> forall i, index_all c els' i = index_all c els i.
Proof. unfold index_all. induction 1 as [|x' x l' l Hx Hl IH]; intros i; simpl; auto. rewrite (index_tag_view c x' x i Hx). apply IH. Qed.
Lemma ident_view els' els : Forall2 (fun x' x => SameView (hd_ x') (hd_ x)) els' els -> map ident els' = map ident els.
Proof. induction 1 as [|x' x l' l (Hu & Hn & Hp & Ho & Hch & Htx & _) Hl IH]; simpl; auto. unfold ident at 1 3. unfold tuid. now rewrite Hu, Hn, Hp, Ho, Hch, Htx, IH. Qed.
Lemma good_view els' els : Forall2 (fun x' x => SameView (hd_ x') (hd_ x)) els' els ->
  Forall (fun x => KeysOK (attrs (hd_ x))) els -> Forall (fun x => KeysOK (attrs (hd_ x))) els'.
Proof. induction 1 as [|x' x l' l Hx Hl IH]; intros H; constructor; inversion H; subst; auto. destruct Hx as (_ & _ & _ & _ & _ & _ & _ & _ & Hk). auto. Qed.

(* ---------- 3. one observer, then any sequence ---------- *)
Section OneSync.
  Variable d : tag.
  Hypothesis Hg : GoodAttrs d.
  Variable r : nat.
  Lemma sync_rank_view : Forall2 (fun x' x => SameView (hd_ x') (hd_ x)) (all_nodes (sync_rank d r)) (all_nodes d).
  Proof.
    unfold sync_rank. destruct (nth_uid d r) as [u|]; [|apply Forall2_refl; intros; apply SameView_refl].
    apply all_nodes_update; [apply SameView_refl | apply sync_elem_bs |].
    intros x Hx. apply SameView_sync. unfold GoodAttrs in Hg. rewrite Forall_forall in Hg. auto.
  Qed.
  Lemma sync_rank_good : GoodAttrs (sync_rank d r).
  Proof. exact (good_view _ _ sync_rank_view Hg). Qed.
  Lemma sync_rank_outer : outer_html (sync_rank d r) = outer_html d /\ inner_html (sync_rank d r) = inner_html d
                          /\ is_invisible (sync_rank d r) = is_invisible d.
  Proof.
    unfold sync_rank. destruct (nth_uid d r) as [u|]; auto.
    assert (H : forall x, In x (all_nodes d) -> start_tag (hd_ (sync_elem x)) = start_tag (hd_ x) /\ end_tag (hd_ (sync_elem x)) = end_tag (hd_ x)
                                                /\ sc (hd_ (sync_elem x)) = sc (hd_ x)).
    { intros x Hx. apply sync_elem_shell. unfold GoodAttrs in Hg. rewrite Forall_forall in Hg. auto. }
    split; [apply outer_update; auto; apply sync_elem_bs|]. split; [apply inner_update; auto; apply sync_elem_bs|].
    unfold is_invisible. destruct d as [h bs]. simpl. destruct (Nat.eqb (uid h) u); reflexivity.
  Qed.
End OneSync.

Lemma sync_ranks_all ranks : forall d, GoodAttrs d ->
  GoodAttrs (fold_left sync_rank ranks d) /\ outer_html (fold_left sync_rank ranks d) = outer_html d
  /\ inner_html (fold_left sync_rank ranks d) = inner_html d /\ is_invisible (fold_left sync_rank ranks d) = is_invisible d
  /\ map ident (all_nodes (fold_left sync_rank ranks d)) = map ident (all_nodes d)
  /\ (forall c i, reindex c (fold_left sync_rank ranks d) i = reindex c d i).
Proof.
  induction ranks as [|r ranks IH]; intros d Hg; cbn [fold_left]; [repeat split; auto|].
  destruct (IH (sync_rank d r) (sync_rank_good d Hg r)) as (G & O & I & V & Id & Ix).
  destruct (sync_rank_outer d Hg r) as (O1 & I1 & V1).
  split; [exact G|]. split; [congruence|]. split; [congruence|]. split; [congruence|]. split.
  - rewrite Id. apply ident_view. now apply sync_rank_view.
  - intros c i. rewrite Ix. unfold reindex. apply index_all_view. now apply sync_rank_view.
Qed.

Theorem ostep_snapshot s o : GoodAttrs (odoc s) -> snapshot (ostep s o) = snapshot s /\ GoodAttrs (odoc (ostep s o)).
Proof.
  intros Hg. destruct o as [ranks| |r]; [|simpl; auto|simpl; auto].
  destruct (sync_ranks_all ranks (odoc s) Hg) as (G & O & I & V & Id & _). split; [|exact G].
  unfold snapshot, get_html, ostep. cbn [odoc odoctype oix ohas_reset]. now rewrite O, I, V, Id.
Qed.
Theorem observers_snapshot os : forall s, GoodAttrs (odoc s) -> snapshot (fold_left ostep os s) = snapshot s.
Proof.
  induction os as [|o os IH]; intros s Hg; simpl; auto. destruct (ostep_snapshot s o Hg) as [H1 H2]. rewrite IH; auto.
Qed.
(* rebuilding the index after the observers gives what rebuilding it before them gives: the index stays in step *)
Theorem observers_index os : forall s, GoodAttrs (odoc s) -> forall c i, reindex c (odoc (fold_left ostep os s)) i = reindex c (odoc s) i.
Proof.
  induction os as [|o os IH]; intros s Hg c i; simpl; auto. destruct (ostep_snapshot s o Hg) as [_ H2]. rewrite IH; auto.
  destruct o as [ranks| |r]; simpl; auto. now destruct (sync_ranks_all ranks (odoc s) Hg) as (_ & _ & _ & _ & _ & Ix).
Qed.
(* the parser can parse again: its reset hook is still there; the pickled state is the one without it *)
Theorem observers_keep_reset os : forall s, ohas_reset (fold_left ostep os s) = ohas_reset s.
Proof. induction os as [|o os IH]; intros s; simpl; auto. rewrite IH. destruct o; reflexivity. Qed.

(* ================================================================================================ *)
(* C17: unpickled and cloned elements                                                                *)

(* the copy has the uids of the original, element for element, in document order *)
Lemma unpickle_uid p t : tuid (unpickle p t) = tuid t.
Proof. destruct t; reflexivity. Qed.
Theorem unpickle_uids : forall t p, uids_of (unpickle p t) = uids_of t.
Proof.
  induction t as [h bs IH] using tag_ind'. intros p. simpl unpickle. rewrite !uids_unfold. simpl. f_equal.
  induction bs as [|[s|c] bs IHb]; simpl in *; auto. inversion IH as [|? ? Hc IH']; subst. now rewrite Hc, (IHb IH').
Qed.
(* the structural invariants hold in the copy, with parent links that name the copy's own elements (uids are those of the copy) *)
Theorem unpickle_WF : forall t p o, WF p o t -> forall p', WF p' o (unpickle p' t).
Proof.
  induction t as [h bs IH] using tag_ind'. intros p o Hwf p'. inversion Hwf as [? ? ? ? Hp Ho Hc Ht Hs Hall]; subst.
  simpl unpickle. constructor; simpl; auto.
  - rewrite tags_of_bmap, map_map. apply map_ext. intros c. now rewrite unpickle_uid.
  - now rewrite texts_of_bmap.
  - intros Hsc. destruct (Hs Hsc) as [H1 H2]. rewrite <- Hc, <- Ht. auto.
  - rewrite tags_of_bmap, Forall_map. rewrite Forall_forall in *. intros c Hc'. eapply IH; eauto.
Qed.
(* names, self-closing flags and text nodes come back unchanged *)
Theorem unpickle_shape : forall t p, map (fun x => (tuid x, name (hd_ x), sc (hd_ x))) (all_nodes (unpickle p t))
                                     = map (fun x => (tuid x, name (hd_ x), sc (hd_ x))) (all_nodes t)
                                     /\ text_content (unpickle p t) = text_content t.
Proof.
  induction t as [h bs IH] using tag_ind'. intros p. simpl unpickle. rewrite !all_nodes_unfold. split.
  - simpl. f_equal. rewrite tags_of_bmap, flat_map_concat_map, map_map, <- flat_map_concat_map, !flat_map_concat_map, !concat_map. f_equal.
    rewrite !map_map. rewrite Forall_forall in IH. apply map_ext_in. intros c Hc. apply (IH c Hc).
  - simpl. induction bs as [|[s|c] bs IHb]; simpl in *; auto; [f_equal; apply IHb; exact IH|].
    inversion IH as [|? ? Hc IH']; subst. destruct (Hc (Some (uid h))) as [_ Hc2]. rewrite Hc2. f_equal. now apply IHb.
Qed.
(* the serialisation is the original's wherever the attribute list reproduces the mapping (AttrFaithful) and no
   formatter indentation was stored on the original *)
Definition AttrFaithful (a : Attr.st) : Prop := start_attrs (sync (fst (clone_attrs a))) = start_attrs (sync a).
Lemma go_map (g : tag -> tag) bs : (forall c, In c (tags_of bs) -> outer_html (g c) = outer_html c) ->
  (fix go (l : list (block tag)) : string :=
     match l with [] => "" | BText s :: r => s +++ go r | BTag c :: r => outer_html c +++ go r end) (map (bmap g) bs)
  = (fix go (l : list (block tag)) : string :=
     match l with [] => "" | BText s :: r => s +++ go r | BTag c :: r => outer_html c +++ go r end) bs.
Proof.
  intros Hk. induction bs as [|[s|c] bs IHb]; simpl in *; auto; [f_equal; apply IHb; exact Hk|].
  rewrite (Hk c) by now left. f_equal. apply IHb. intros c' Hc'. apply Hk. now right.
Qed.
Theorem unpickle_html : forall t p, Forall (fun x => AttrFaithful (attrs (hd_ x)) /\ indent (hd_ x) = "") (all_nodes t) ->
  outer_html (unpickle p t) = outer_html t.
Proof.
  induction t as [h bs IH] using tag_ind'. intros p Hall. rewrite all_nodes_unfold in Hall. inversion Hall as [|? ? [Hf Hi] Hrest]; subst.
  simpl in Hf, Hi.
  assert (Hk : forall c, In c (tags_of bs) -> outer_html (unpickle (Some (uid h)) c) = outer_html c).
  { intros c Hc. rewrite Forall_forall in IH. apply IH; auto. rewrite Forall_forall in Hrest |- *. intros x Hx. apply Hrest. apply in_flat_map. eauto. }
  cbn [unpickle outer_html]. rewrite (go_map _ bs Hk). unfold start_tag, end_tag. cbn [indent name sc attrs]. unfold AttrFaithful in Hf. rewrite Hf, Hi. reflexivity.
Qed.
(* attribute fidelity, proved for mappings of plain names (no class, no style, no boolean-string conversion); the general case
   is evaluated on every element of every correspondence case (faithfulb) *)
Definition plain_entry (kv : string * aval) : Prop :=
  lower (fst kv) = fst kv /\ valid_attr_name (fst kv) = true /\ plainp (fst kv) = true /\ is_binary_string (fst kv) = false
  /\ (snd kv = ANone \/ exists x, snd kv = AStr x).
Definition PlainStore (s : Attr.st) : Prop := classes s = [] /\ sty s = [] /\ NoDup (keys (dict s)) /\ Forall plain_entry (dict s).
Lemma plain_not_special k : plainp k = true -> String.eqb k "class" = false /\ String.eqb k "style" = false.
Proof. unfold plainp, is_special. intros H. apply negb_true_iff, orb_false_iff in H. exact H. Qed.
Lemma PlainStore_sync s : PlainStore s -> sync s = s.
Proof.
  intros (Hc & Hy & Hn & Hall). destruct s as [d c y]. simpl in *. subst. unfold sync, with_dict. simpl. f_equal.
  assert (forall k, (k = "class" \/ k = "style") -> ~ In k (keys d)).
  { intros k Hk Hi. unfold keys in Hi. apply in_map_iff in Hi as ([k' v] & <- & Hin). rewrite Forall_forall in Hall.
    destruct (Hall _ Hin) as (_ & _ & Hp & _). apply plain_not_special in Hp as [H1 H2]. simpl in *.
    destruct Hk as [->| ->]; [rewrite String.eqb_refl in H1 | rewrite String.eqb_refl in H2]; discriminate. }
  rewrite !od_del_absent; auto. rewrite od_del_absent; auto.
Qed.
Theorem PlainStore_clone s : PlainStore s -> fst (clone_attrs s) = s.
Proof.
  intros Hp. pose proof (PlainStore_sync s Hp) as Hs. destruct Hp as (Hc & Hy & Hn & Hall).
  unfold clone_attrs, attr_list. rewrite Hs. destruct s as [d c y]. simpl in *. subst c y.
  assert (G : forall d2 d1, NoDup (keys d2) -> Forall plain_entry d2 -> (forall k, In k (keys d2) -> ~ In k (keys d1)) ->
              intake (map (fun kv => (fst kv, match raw_value {| dict := d; classes := []; sty := [] |} (snd kv) with PStr x => Some x | _ => None end)) d2)
                     {| dict := d1; classes := []; sty := [] |} = ({| dict := d1 ++ d2; classes := []; sty := [] |}, Attr.ROk)).
  { unfold intake. induction d2 as [|[k v] d2 IH]; intros d1 Hn2 Hall2 Hdis; simpl; [now rewrite app_nil_r|].
    inversion Hn2; subst. inversion Hall2 as [|? ? (Hl & Hv & Hpl & Hbs & Hval) Hall2']; subst. simpl in *.
    rewrite Hl, Hv. unfold setitem. rewrite Hl. destruct (plain_not_special k Hpl) as [E1 E2]. rewrite E2, E1, Hbs.
    assert (Ev : (match (match raw_value {| dict := d; classes := []; sty := [] |} v with PStr x => Some x | _ => None end) with Some x => AStr x | None => ANone end) = v).
    { destruct Hval as [->|(x & ->)]; reflexivity. }
    rewrite Ev. unfold with_dict. simpl.
    assert (Es : od_set k v d1 = d1 ++ [(k, v)]).
    { specialize (Hdis k (or_introl eq_refl)). clear - Hdis. induction d1 as [|[a b] d1 IHd]; simpl in *; auto.
      destruct (String.eqb k a) eqn:E; [apply String.eqb_eq in E; subst; tauto | f_equal; apply IHd; tauto]. }
    rewrite Es.
    change (fold_left _ _ ({| dict := d1 ++ [(k, v)]; classes := []; sty := [] |}, Attr.ROk)) with
      (fold_left (fun acc kv => match acc with (s, Attr.ROk) => let k := lower (fst kv) in if valid_attr_name k then setitem k (snd kv) s else (s, Attr.ROk) | e => e end)
         (map (fun kv => (fst kv, match raw_value {| dict := d; classes := []; sty := [] |} (snd kv) with PStr x => Some x | _ => None end)) d2)
         ({| dict := d1 ++ [(k, v)]; classes := []; sty := [] |}, Attr.ROk)).
    rewrite IH; auto.
    - now rewrite <- app_assoc.
    - intros x Hx Hi. unfold keys in Hi. rewrite map_app, in_app_iff in Hi. simpl in Hi.
      destruct Hi as [Hi|[<-|[]]]; [apply (Hdis x); auto | auto]. }
  change st0 with {| dict := []; classes := []; sty := [] |}. rewrite (G d [] Hn Hall); auto.
Qed.
Corollary PlainStore_faithful s : PlainStore s -> AttrFaithful s.
Proof. intros H. unfold AttrFaithful. now rewrite (PlainStore_clone s H). Qed.

(* cloneNode / copy / deepcopy: childless, new identity, same name and self-closing flag *)
Theorem clone_node_spec u t : bs_ (clone_node u t) = [BText ""] /\ tuid (clone_node u t) = u /\ name (hd_ (clone_node u t)) = name (hd_ t)
  /\ sc (hd_ (clone_node u t)) = sc (hd_ t) /\ parent (hd_ (clone_node u t)) = None /\ owner (hd_ (clone_node u t)) = None
  /\ attrs (hd_ (clone_node u t)) = fst (clone_attrs (attrs (hd_ t))).
Proof. destruct t as [h bs]. repeat split. Qed.
