(* RoundTrip.v — the token list of a tree, its rendering, and the tokenizer's chunking of text (C01, DESIGN 3.3-2).
   [toks_of] lists a tree as start tags / end tags / raw text pieces; [render] prints such a list; serialisation is the
   rendering of the token list (theorem render_factor).  [chunk] re-splits the text pieces the way the stdlib tokenizer
   does on the rendered string (data runs, &name; , &#n; , comments; raw-text elements are one data run): the lexer
   contract LexSpec says that the tokenizer applied to [render l] delivers [chunk l]. *)
From AHP Require Import Model.Base Model.Str Model.Attr Model.Dom Model.Serial Model.Parser Gen.Tables.

(* trees as the generator describes them, built through the public DOM API *)
Inductive stree := SNode (n : string) (a : list (string * option string)) (sc : bool) (bs : list sblock)
with sblock := SText (s : string) | SElem (t : stree).

(* AdvancedTag(name, attrs, sc); then appendText / appendChild for each block; uids in document order *)
Fixpoint build_api (t : stree) (u : nat) (p : option nat) {struct t} : tag * nat :=
  match t with
  | SNode n a sc0 bs =>
      let nm := lower n in
      let leaf := sc0 || is_void n in
      let st := fst (intake a st0) in
      let me := new_tag u nm st leaf p None in
      (fix go (l : list sblock) (acc : tag) (nx : nat) {struct l} : tag * nat :=
         match l with
         | [] => (acc, nx)
         | SText s :: r => go r (appendText_here s acc) nx
         | SElem c :: r => let '(ct, nx') := build_api c nx None in go r (appendChild_here ct acc) nx'
         end) bs me (S u)
  end.

(* ---- pre-tokens: what the serialiser prints ---- *)
Inductive ptok := PStart (h : hdr) | PEnd (h : hdr) | PText (s : string) | PRawText (s : string).

Definition is_raw (n : string) : bool := String.eqb n "script" || String.eqb n "style".
Fixpoint toks_of (t : tag) : list ptok :=
  match t with
  | Tag h bs =>
      if sc h then [PStart h]
      else PStart h ::
           (fix go (l : list (block tag)) : list ptok :=
              match l with
              | [] => []
              | BText s :: r => (if is_raw (name h) then PRawText s else PText s) :: go r
              | BTag c :: r => toks_of c ++ go r
              end) bs
           ++ [PEnd h]
  end.
Definition render_ptok (p : ptok) : string :=
  match p with PStart h => start_tag h | PEnd h => end_tag h | PText s => s | PRawText s => s end.
Definition render (l : list ptok) : string := concat_s (map render_ptok l).

(* ---- what the tokenizer delivers for those pieces ---- *)
(* attributes of a rendered start tag as the tokenizer reports them: bare name -> None, name="v" -> unescaped v *)
Definition lexed_attrs (a : Attr.st) : list (string * option string) :=
  let s := sync a in
  map (fun kv => (fst kv, match raw_value s (snd kv) with
                          | PStr x => if nonempty x || negb (is_binary (fst kv)) then Some x else None
                          | _ => None end)) (dict s).

Definition is_name_start (c : ascii) : bool := is_alpha c.
Definition is_name_char (c : ascii) : bool := is_alnum c.
Fixpoint take_while (f : ascii -> bool) (s : string) : string * string :=
  match s with
  | String c r => if f c then let '(a, b) := take_while f r in (String c a, b) else ("", s)
  | EmptyString => ("", "")
  end.
(* find "-->" : (comment body, rest after it) *)
Fixpoint find_comment_end (s acc : string) : option (string * string) :=
  match s with
  | String "-" (String "-" (String ">" r)) => Some (srev acc, r)
  | String c r => find_comment_end r (String c acc)
  | EmptyString => None
  end.
Definition is_hex_digit (c : ascii) : bool := is_digit c || (let n := code (lower_c c) in (97 <=? n) && (n <=? 102)).

(* one scanning step on text outside raw-text elements; fuel = length of the text *)
Fixpoint chunk_text (fuel : nat) (s : string) (data : string) : list token :=
  let flush := fun (d : string) => if String.eqb d "" then [] else [TData (srev d)] in
  match fuel with
  | 0 => flush data
  | S k =>
    match s with
    | EmptyString => flush data
    | String "<" (String "!" (String "-" (String "-" r))) =>
        match find_comment_end r "" with
        | Some (body, rest) => flush data ++ TComment body :: chunk_text k rest ""
        | None => flush data                                   (* unterminated: stays buffered (outside the domain) *)
        end
    | String "<" r => flush data ++ TData "<" :: chunk_text k r ""    (* a lone "<" is its own data chunk *)
    | String "&" (String "#" r) =>
        let '(digits, rest) :=
          match r with
          | String x r' => if Ascii.eqb (lower_c x) "x" then let '(d, rest) := take_while is_hex_digit r' in (String x d, rest)
                           else take_while is_digit r
          | EmptyString => ("", "")
          end in
        match rest with
        | String ";" rest' => if nonempty digits && negb (String.eqb (lower digits) "x")
                              then flush data ++ TChar digits :: chunk_text k rest' ""
                              else flush data ++ TData "&#" :: chunk_text k r ""
        | _ => flush data ++ TData "&#" :: chunk_text k r ""
        end
    | String "&" r =>
        match r with
        | String c _ =>
            if is_name_start c then
              let '(nm, rest) := take_while is_name_char r in
              match rest with
              | String ";" rest' => flush data ++ TEntity nm :: chunk_text k rest' ""
              | _ => flush data ++ TData "&" :: chunk_text k r ""
              end
            else flush data ++ TData "&" :: chunk_text k r ""
        | EmptyString => flush data
        end
    | String c r => chunk_text k r (String c data)
    end
  end.

(* merge adjacent text pieces, then chunk *)
Fixpoint chunk (l : list ptok) (pending : string) : list token :=
  let flush := fun (p : string) => chunk_text (String.length p) p "" in
  match l with
  | [] => flush pending
  | PText s :: r => chunk r (pending +++ s)
  | PRawText s :: r => flush pending ++ (if String.eqb s "" then [] else [TData s]) ++ chunk r ""
  | PStart h :: r => flush pending ++ TStart (name h) (lexed_attrs (attrs h)) (sc h) :: chunk r ""
  | PEnd h :: r => flush pending ++ TEnd (name h) :: chunk r ""
  end.

(* the token list of a whole document: doctype, then the root (the children of the invisible wrapper) *)
Definition doc_ptoks (r : tag) : list ptok :=
  if is_invisible r then
    (fix go (l : list (block tag)) : list ptok :=
       match l with [] => [] | BText s :: rest => PText s :: go rest | BTag c :: rest => toks_of c ++ go rest end) (bs_ r)
  else toks_of r.
